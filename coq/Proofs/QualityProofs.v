(* QualityProofs.v — expectQuality denotes the decimal literal it consumed, truncated to 15 fractional
   digits; hence a literal denoting a smaller number never gets a larger quality. *)
From V Require Import NegotiateSpec.
From Coq Require Import Lia.
Local Open Scope Z_scope.

Definition P10 (n : nat) : Z := 10 ^ Z.of_nat n.

Lemma P10_pos n : 0 < P10 n.
Proof. unfold P10. apply Z.pow_pos_nonneg; lia. Qed.

Lemma P10_S n : P10 (S n) = 10 * P10 n.
Proof. unfold P10. rewrite Nat2Z.inj_succ, Z.pow_succ_r by lia. reflexivity. Qed.

Lemma P10_add n m : P10 (n + m) = P10 n * P10 m.
Proof. unfold P10. rewrite Nat2Z.inj_add, Z.pow_add_r by lia. reflexivity. Qed.

Lemma P10_ge1 n : 1 <= P10 n.
Proof. pose proof (P10_pos n). lia. Qed.

Definition all_digits (ds : bytes) : Prop := Forall (fun b => is_digit b = true) ds.

Lemma digit_range b : is_digit b = true -> 0 <= Z.of_nat b - 48 <= 9.
Proof.
  unfold is_digit. intros H. apply andb_true_iff in H as [H1 H2].
  apply Nat.leb_le in H1, H2. lia.
Qed.

Lemma digits_of_all s : all_digits (digits_of s).
Proof.
  unfold digits_of, all_digits. apply Forall_forall. intros x Hx.
  pose proof (span_fst_all is_digit s) as H. rewrite forallb_forall in H. now apply H.
Qed.

(* dec_num is positional *)
Lemma dec_num_acc ds : forall acc, all_digits ds ->
  dec_num ds acc = acc * P10 (length ds) + dec_num ds 0 /\ 0 <= dec_num ds 0 < P10 (length ds).
Proof.
  induction ds as [|b r IH]; intros acc H; cbn [dec_num length].
  - unfold P10; simpl. lia.
  - inversion H as [|? ? Hb Hr]; subst. pose proof (digit_range b Hb) as Hd.
    destruct (IH (acc * 10 + Z.of_nat b - 48) Hr) as [E1 B1].
    destruct (IH (0 * 10 + Z.of_nat b - 48) Hr) as [E2 _].
    rewrite E1, E2, P10_S. pose proof (P10_pos (length r)). split; nia.
Qed.

Lemma dec_num_app a b acc : dec_num (a ++ b) acc = dec_num b (dec_num a acc).
Proof. revert acc; induction a as [|x a IH]; intros acc; simpl; [reflexivity | apply IH]. Qed.

Lemma all_digits_firstn k ds : all_digits ds -> all_digits (firstn k ds).
Proof.
  unfold all_digits. revert ds; induction k as [|k IH]; intros [|b r] H; simpl; try constructor.
  - inversion H; assumption.
  - inversion H; subst. now apply IH.
Qed.

Lemma all_digits_skipn k ds : all_digits ds -> all_digits (skipn k ds).
Proof.
  unfold all_digits. revert ds; induction k as [|k IH]; intros [|b r] H; simpl; try assumption.
  inversion H; subst. now apply IH.
Qed.

(* truncation to k digits is the floor of the full numerator *)
Lemma dec_num_trunc k ds : all_digits ds ->
  let T := dec_num (firstn k ds) 0 in
  let e := P10 (length ds - Nat.min k (length ds)) in
  T * e <= dec_num ds 0 < (T + 1) * e.
Proof.
  intros H T e.
  assert (E0 : dec_num ds 0 = dec_num (skipn k ds) T).
  { subst T. rewrite <- dec_num_app. now rewrite firstn_skipn. }
  destruct (dec_num_acc (skipn k ds) T (all_digits_skipn k ds H)) as [E B].
  rewrite E0, E. rewrite skipn_length in B |- *.
  assert (Hlen : (length ds - Nat.min k (length ds) = length ds - k)%nat) by lia.
  subst e. rewrite Hlen. lia.
Qed.

(* ---- the digit loop ---- *)
Lemma span_digit_cons b r : is_digit b = true ->
  span is_digit (b :: r) = (b :: fst (span is_digit r), snd (span is_digit r)).
Proof. intros H. simpl. rewrite H. now destruct (span is_digit r). Qed.

Lemma q_digits_char s : forall i n d,
  q_digits i n d s =
  (dec_num (firstn (15 - i) (digits_of s)) n,
   d * P10 (Nat.min (15 - i) (length (digits_of s))),
   snd (span is_digit s)).
Proof.
  unfold digits_of.
  induction s as [|b r IH]; intros i n d; cbn [q_digits].
  - simpl. rewrite firstn_nil. simpl. rewrite Nat.min_0_r. unfold P10; simpl. f_equal. f_equal. lia.
  - destruct (is_digit b) eqn:Eb.
    + rewrite span_digit_cons by assumption. cbn [fst snd length]. unfold max_quality_digits.
      destruct (i <? 15)%nat eqn:Ei.
      * apply Nat.ltb_lt in Ei. rewrite IH.
        replace (15 - i)%nat with (S (15 - S i)) by lia. cbn [firstn dec_num].
        rewrite <- Nat.succ_min_distr, P10_S. f_equal. f_equal. lia.
      * apply Nat.ltb_ge in Ei. rewrite IH.
        replace (15 - S i)%nat with 0%nat by lia. replace (15 - i)%nat with 0%nat by lia. reflexivity.
    + simpl. rewrite Eb. simpl. rewrite firstn_nil. cbn [dec_num]. rewrite Nat.min_0_r. unfold P10; simpl.
      f_equal. f_equal. lia.
Qed.

(* ---- what a literal denotes and what expectQuality computes, side by side ---- *)
Lemma literal_and_quality s n d : q_literal s = Some (n, d) ->
  exists (q : Z) (ds : bytes),
    all_digits ds /\ 0 <= q /\
    n = q * P10 (length ds) + dec_num ds 0 /\ d = P10 (length ds) /\
    fst (expect_quality s) = mkq q (dec_num (firstn 15 ds) 0) (P10 (Nat.min 15 (length ds))).
Proof.
  assert (Hfrac : forall q s', 0 <= q -> q_lit_frac q s' = Some (n, d) ->
    exists ds, all_digits ds /\ n = q * P10 (length ds) + dec_num ds 0 /\ d = P10 (length ds) /\
      fst (q_cont q s') = mkq q (dec_num (firstn 15 ds) 0) (P10 (Nat.min 15 (length ds)))).
  { intros q s' Hq H. unfold q_cont. unfold q_lit_frac in H.
    assert (Hnil : Some (q, 1) = Some (n, d) ->
      exists ds, all_digits ds /\ n = q * P10 (length ds) + dec_num ds 0 /\ d = P10 (length ds) /\
        mkq q 0 1 = mkq q (dec_num (firstn 15 ds) 0) (P10 (Nat.min 15 (length ds)))).
    { intros E. inversion E; subst. exists []. repeat split; try constructor; unfold P10; simpl; lia. }
    destruct s' as [|c s'']; [now apply Hnil|].
    destruct (Nat.eqb c 46); [|now apply Hnil].
    cbv zeta in H. inversion H; subst. exists (digits_of s''). split; [apply digits_of_all|].
    split; [reflexivity|]. split; [reflexivity|].
    rewrite (q_digits_char s'' 0 0 1). cbn [fst]. replace (15 - 0)%nat with 15%nat by lia. f_equal. lia. }
  unfold q_literal, expect_quality. destruct s as [|c r]; [discriminate|].
  destruct (Nat.eqb c 48).
  - intros H. destruct (Hfrac 0 r ltac:(lia) H) as (ds & A & B & C & D). exists 0, ds. repeat split; auto; lia.
  - destruct (Nat.eqb c 49).
    + intros H. destruct (Hfrac 1 r ltac:(lia) H) as (ds & A & B & C & D). exists 1, ds. repeat split; auto; lia.
    + destruct (Nat.eqb c 46); [|discriminate].
      intros H. destruct (Hfrac 0 (c :: r) ltac:(lia) H) as (ds & A & B & C & D). exists 0, ds. repeat split; auto; lia.
Qed.

(* ---- the arithmetic core ---- *)
Lemma trunc_mono_le X' ea X a Y' eb Y c :
  0 < ea -> 0 < a -> 0 < eb -> 1 <= c -> 0 <= X' -> 0 <= Y' ->
  X' * ea <= X -> Y < (Y' + 1) * eb ->
  X * (a * c * eb) <= Y * (a * ea) ->
  X' * (a * c) <= Y' * a.
Proof.
  intros Hea Ha Heb Hc HX' HY' H1 H2 H3.
  destruct (Z_le_gt_dec (X' * (a * c)) (Y' * a)) as [|Hgt]; [assumption|exfalso].
  assert (G1 : Y' + 1 <= X' * c) by nia.
  assert (G2 : Y < X' * c * eb) by nia.
  assert (G3 : Y * (a * ea) < X' * c * eb * (a * ea)) by (apply Z.mul_lt_mono_pos_r; nia).
  assert (G4 : X' * ea * (a * c * eb) <= X * (a * c * eb)) by (apply Z.mul_le_mono_nonneg_r; nia).
  nia.
Qed.

Lemma trunc_mono_gt X' ea X b Y c :
  0 < ea -> 0 < b -> 1 <= c -> 0 <= X' -> 0 <= Y ->
  X' * ea <= X ->
  X * b <= Y * (b * c * ea) ->
  X' * b <= Y * (b * c).
Proof.
  intros Hea Hb Hc HX' HY H1 H3.
  assert (G1 : X <= Y * c * ea) by nia.
  assert (G2 : X' * ea <= Y * c * ea) by lia.
  assert (G3 : X' <= Y * c) by nia.
  nia.
Qed.

(* a literal denoting a smaller (or equal) number never gets a larger quality *)
Theorem quality_monotone s1 s2 n1 d1 n2 d2 :
  q_literal s1 = Some (n1, d1) -> q_literal s2 = Some (n2, d2) ->
  n1 * d2 <= n2 * d1 ->
  q_lt (fst (expect_quality s2)) (fst (expect_quality s1)) = false.
Proof.
  intros L1 L2 Hle.
  destruct (literal_and_quality _ _ _ L1) as (q1 & ds1 & A1 & Q1 & N1 & D1 & E1).
  destruct (literal_and_quality _ _ _ L2) as (q2 & ds2 & A2 & Q2 & N2 & D2 & E2).
  rewrite E1, E2. unfold q_lt, q_num. cbn [q0 qn qd]. apply Z.ltb_ge.
  set (la := length ds1) in *. set (lb := length ds2) in *.
  set (ka := Nat.min 15 la). set (kb := Nat.min 15 lb).
  set (T1 := dec_num (firstn 15 ds1) 0). set (T2 := dec_num (firstn 15 ds2) 0).
  pose proof (dec_num_trunc 15 ds1 A1) as B1. pose proof (dec_num_trunc 15 ds2 A2) as B2.
  cbv zeta in B1, B2. fold la ka T1 in B1. fold lb kb T2 in B2.
  destruct (dec_num_acc (firstn 15 ds1) 0 (all_digits_firstn 15 ds1 A1)) as [_ [T1pos _]].
  destruct (dec_num_acc (firstn 15 ds2) 0 (all_digits_firstn 15 ds2 A2)) as [_ [T2pos _]].
  fold T1 in T1pos. fold T2 in T2pos.
  assert (Ha : P10 la = P10 ka * P10 (la - ka)) by (rewrite <- P10_add; f_equal; lia).
  assert (Hb : P10 lb = P10 kb * P10 (lb - kb)) by (rewrite <- P10_add; f_equal; lia).
  pose proof (P10_pos ka) as Pa. pose proof (P10_pos kb) as Pb.
  pose proof (P10_pos (la - ka)) as Pea. pose proof (P10_pos (lb - kb)) as Peb.
  set (a := P10 ka) in *. set (b := P10 kb) in *. set (ea := P10 (la - ka)) in *. set (eb := P10 (lb - kb)) in *.
  set (X' := q1 * a + T1). set (Y' := q2 * b + T2).
  assert (HX1 : X' * ea <= n1) by (subst X'; rewrite N1, Ha; nia).
  assert (HY2 : n2 < (Y' + 1) * eb) by (subst Y'; rewrite N2, Hb; nia).
  assert (HY1 : Y' * eb <= n2) by (subst Y'; rewrite N2, Hb; nia).
  rewrite D1, D2, Ha, Hb in Hle.
  assert (HX'pos : 0 <= X') by (subst X'; nia). assert (HY'pos : 0 <= Y') by (subst Y'; nia).
  (* goal: X' * b <= Y' * a *)
  change (q2 * b + T2) with Y'. change (q1 * a + T1) with X'.
  destruct (Nat.le_gt_cases ka kb) as [Hk | Hk].
  - (* b = a * c *)
    assert (Hc : b = a * P10 (kb - ka)) by (subst a b; rewrite <- P10_add; f_equal; lia).
    pose proof (P10_ge1 (kb - ka)) as Pc.
    cut (X' * (a * P10 (kb - ka)) <= Y' * a); [rewrite Hc; nia|].
    apply (trunc_mono_le X' ea n1 a Y' eb n2 (P10 (kb - ka))); try assumption; try lia.
    all: try (rewrite Hc in Hle; nia).
  - (* ka > kb: the second literal has fewer than 15 digits and is kept exactly *)
    assert (Hlb : (lb - kb = 0)%nat) by lia.
    assert (Heb1 : eb = 1) by (subst eb; rewrite Hlb; reflexivity).
    assert (HYeq : n2 = Y') by nia.
    assert (Hc : a = b * P10 (ka - kb)) by (subst a b; rewrite <- P10_add; f_equal; lia).
    pose proof (P10_ge1 (ka - kb)) as Pc.
    cut (X' * b <= Y' * (b * P10 (ka - kb))); [rewrite Hc; nia|].
    apply (trunc_mono_gt X' ea n1 b Y' (P10 (ka - kb))); try assumption; try lia.
    all: try (rewrite Heb1, Hc in Hle; rewrite <- HYeq; nia).
Qed.

(* and it never over-estimates: the computed quality is at most the literal's value and within 10^-15 of it *)
Theorem quality_truncates s n d : q_literal s = Some (n, d) ->
  let q := fst (expect_quality s) in
  0 < qd q /\ q_num q * d <= n * qd q /\ (n * qd q - q_num q * d) * P10 15 < d * qd q.
Proof.
  intros L.
  destruct (literal_and_quality _ _ _ L) as (q1 & ds & A & Q & N & D & E).
  cbv zeta. rewrite E. unfold q_num. cbn [q0 qn qd].
  set (la := length ds) in *. set (ka := Nat.min 15 la). set (T := dec_num (firstn 15 ds) 0).
  pose proof (dec_num_trunc 15 ds A) as B. cbv zeta in B. fold la ka T in B.
  assert (Ha : P10 la = P10 ka * P10 (la - ka)) by (rewrite <- P10_add; f_equal; lia).
  pose proof (P10_pos ka) as Pa. pose proof (P10_pos (la - ka)) as Pea.
  split; [assumption|]. rewrite N, D, Ha.
  set (a := P10 ka) in *. set (ea := P10 (la - ka)) in *. set (AA := dec_num ds 0) in *.
  assert (Hdiff : (q1 * (a * ea) + AA) * a - (q1 * a + T) * (a * ea) = a * (AA - T * ea)) by ring.
  split; [nia|]. rewrite Hdiff.
  destruct (Nat.le_gt_cases la 15) as [Hl | Hl].
  - assert (Hz : (la - ka = 0)%nat) by lia. assert (Hea : ea = 1) by (subst ea; rewrite Hz; reflexivity).
    pose proof (P10_pos 15). assert (AA - T * ea = 0) by lia. rewrite H0. nia.
  - assert (Hk : ka = 15%nat) by lia. assert (Hka : a = P10 15) by (subst a; now rewrite Hk).
    rewrite <- Hka. assert (0 <= AA - T * ea < ea) by lia. nia.
Qed.
