(* LifecycleProofs.v — lemmas about the protocol model of C12. *)
From V Require Import Lifecycle.

(* ====================== (i) drainingReadCloser ====================== *)

Definition uinv (u : under) : Prop := u_finished u = true -> u_segs u = [].
Definition dinv (d : drc) : Prop := uinv (d_u d) /\ (d_seen d = true -> u_finished (d_u d) = true).

Lemma uread_facts u size n r u' :
  uread u size = (n, r, u') ->
  u_closes u' = u_closes u /\ u_fin u' = u_fin u /\
  (uinv u -> uinv u') /\
  (r <> RNil -> u_finished u' = true) /\
  (n = 0 -> size <> 0 -> u_finished u' = true) /\
  (r = RNil -> size <> 0 -> seg_bytes (u_segs u') < seg_bytes (u_segs u)).
Proof.
  unfold uread, uinv. destruct u as [segs fin fini cl]; cbn [u_segs u_fin u_finished u_closes].
  destruct segs as [|s rest].
  - destruct fin; intros H; inversion H; subst; cbn; repeat split; auto; try congruence; try discriminate.
  - destruct size as [|k].
    + intros H; inversion H; subst; cbn. repeat split; auto; congruence.
    + destruct (k <? s) eqn:Ek.
      * intros H; inversion H; subst; cbn. apply Nat.ltb_lt in Ek.
        repeat split; auto; try congruence; try discriminate. intros _ _. lia.
      * destruct rest as [|s2 rest2]; [destruct fin|]; intros H; inversion H; subst; cbn;
          repeat split; auto; try congruence; try discriminate; intros; lia.
Qed.

Lemma d_read_inv d size n r d' : d_read d size = (n, r, d') -> dinv d -> dinv d' /\ u_closes (d_u d') = u_closes (d_u d).
Proof.
  unfold d_read. destruct (uread (d_u d) size) as [[n0 r0] u'] eqn:E. intros H; inversion H; subst; clear H.
  destruct (uread_facts _ _ _ _ _ E) as [Hc [_ [Hi [Hr [Hz _]]]]].
  intros [Hu Hs]. split; [|exact Hc]. split; cbn [d_u d_seen]; [now apply Hi|].
  intros Hseen. apply orb_true_iff in Hseen as [Hseen|Hseen].
  - (* seen before: the end was reported, so nothing is left and this Read reports it again *)
    specialize (Hs Hseen). specialize (Hu Hs).
    unfold uread in E. rewrite Hu in E. destruct (u_fin (d_u d)); inversion E; reflexivity.
  - unfold seen_after in Hseen. destruct r.
    + apply andb_true_iff in Hseen as [H1 H2]. apply Nat.eqb_eq in H1. apply negb_true_iff in H2.
      apply Nat.eqb_neq in H2. now apply Hz.
    + apply Hr. discriminate.
    + apply andb_true_iff in Hseen as [H1 H2]. apply Nat.eqb_eq in H1. apply negb_true_iff in H2.
      apply Nat.eqb_neq in H2. now apply Hz.
Qed.

Lemma d_reads_inv sizes : forall d, dinv d -> dinv (d_reads d sizes) /\ u_closes (d_u (d_reads d sizes)) = u_closes (d_u d).
Proof.
  induction sizes as [|k sizes IH]; intros d Hd; [split; [exact Hd | reflexivity]|].
  cbn [d_reads]. destruct (d_read d k) as [[n r] d'] eqn:E.
  destruct (d_read_inv _ _ _ _ _ E Hd) as [Hd' Hc]. destruct (IH d' Hd') as [H1 H2]. split; [exact H1 | congruence].
Qed.

(* io.Copy to io.Discard ends, at the end of the body, whatever the buffer size *)
Lemma drain_ends b : forall fuel u, seg_bytes (u_segs u) + 1 <= fuel ->
  exists u', drain fuel b u = Some u' /\ u_finished u' = true /\ u_closes u' = u_closes u.
Proof.
  induction fuel as [|f IH]; intros u Hf; [lia|].
  cbn [drain]. destruct (uread u (S b)) as [[n r] u'] eqn:E.
  destruct (uread_facts _ _ _ _ _ E) as [Hc [_ [_ [Hr [_ Hdec]]]]].
  destruct r.
  - assert (Hlt : seg_bytes (u_segs u') < seg_bytes (u_segs u)) by (apply Hdec; [reflexivity | discriminate]).
    destruct (IH u') as [u'' [H1 [H2 H3]]]; [lia|]. exists u''. repeat split; [exact H1 | exact H2 | congruence].
  - exists u'. repeat split; [apply Hr; discriminate | exact Hc].
  - exists u'. repeat split; [apply Hr; discriminate | exact Hc].
Qed.

(* any Reads, then Close: the underlying body is closed exactly once and its end has been reached *)
Lemma drain_close segs fin sizes b :
  exists d', d_close b (d_reads (d_init segs fin) sizes) = Some d' /\
             u_closes (d_u d') = 1 /\ u_finished (d_u d') = true.
Proof.
  assert (Hinit : dinv (d_init segs fin)) by (split; cbn; intros; discriminate).
  destruct (d_reads_inv sizes _ Hinit) as [[Hu Hs] Hc]. cbn in Hc.
  set (d := d_reads (d_init segs fin) sizes) in *.
  unfold d_close. destruct (d_seen d) eqn:Eseen.
  - eexists. split; [reflexivity|]. cbn. split; [now rewrite Hc | now apply Hs].
  - destruct (drain_ends b (drain_fuel (d_u d)) (d_u d)) as [u' [H1 [H2 H3]]]; [unfold drain_fuel; lia|].
    rewrite H1. eexists. split; [reflexivity|]. cbn. split; [now rewrite H3, Hc | exact H2].
Qed.

(* Close alone never reads when the end was already seen *)
Lemma close_after_end_reads_nothing b d : d_seen d = true -> d_close b d = Some (mkd (uclose (d_u d)) true).
Proof. intros H. unfold d_close. now rewrite H. Qed.

(* ---- bodies of any size: the machine in units ---- *)
Lemma scale_lt m k s : (k * S m + m <? scale_seg m s) = (k <? s).
Proof.
  unfold scale_seg. destruct (k <? s) eqn:E.
  - apply Nat.ltb_lt in E. apply Nat.ltb_lt.
    assert (H : S k * S m <= s * S m) by (apply Nat.mul_le_mono_r; lia). lia.
  - apply Nat.ltb_ge in E. apply Nat.ltb_ge.
    assert (H : s * S m <= k * S m) by (apply Nat.mul_le_mono_r; lia). lia.
Qed.

Lemma scale_rest m k s : k < s -> scale_seg m s - S (k * S m + m) = scale_seg m (s - S k).
Proof.
  intros E. unfold scale_seg.
  assert (H : (s - S k) * S m = s * S m - S k * S m) by apply Nat.mul_sub_distr_r.
  assert (H2 : S k * S m <= s * S m) by (apply Nat.mul_le_mono_r; lia). lia.
Qed.

Lemma scale_size m k : S k * S m = S (k * S m + m).
Proof. lia. Qed.

Lemma uread_scaled m u k :
  uread (scale_under m u) (k * S m) =
  let '(n, r, u') := uread u k in (n * S m, r, scale_under m u').
Proof.
  destruct u as [segs fin fini cl]. unfold scale_under; cbn [u_segs u_fin u_finished u_closes].
  destruct segs as [|s rest].
  - unfold uread; cbn [u_segs u_fin u_closes map]. destruct fin; reflexivity.
  - destruct k as [|k].
    + reflexivity.
    + rewrite scale_size. unfold uread; cbn [u_segs u_fin u_closes u_finished map].
      rewrite scale_lt. destruct (k <? s) eqn:E.
      * apply Nat.ltb_lt in E. cbn [map u_segs u_fin u_finished u_closes].
        f_equal; [f_equal; lia|]. f_equal. f_equal. now apply scale_rest.
      * assert (Hs : S (scale_seg m s) = S s * S m) by (unfold scale_seg; lia).
        destruct rest as [|s2 rest2]; [destruct fin|]; cbn [map u_segs u_fin u_finished u_closes]; rewrite Hs; reflexivity.
Qed.

Lemma d_read_scaled m d k :
  d_read (scale_drc m d) (k * S m) =
  let '(n, r, d') := d_read d k in (n * S m, r, scale_drc m d').
Proof.
  unfold d_read, scale_drc; cbn [d_u d_seen]. rewrite uread_scaled.
  destruct (uread (d_u d) k) as [[n r] u'].
  assert (Hs : seen_after (k * S m) (n * S m) r = seen_after k n r).
  { unfold seen_after. destruct r; try reflexivity.
    - destruct n, k; reflexivity.
    - destruct n, k; reflexivity. }
  rewrite Hs. reflexivity.
Qed.

Lemma seg_bytes_scaled m l : seg_bytes (map (scale_seg m) l) = seg_bytes l * S m.
Proof.
  induction l as [|s l IH]; [reflexivity|]. cbn [map seg_bytes]. rewrite IH. unfold scale_seg. lia.
Qed.

Lemma d_reads_scaled m sizes : forall d,
  d_reads (scale_drc m d) (map (fun k => k * S m) sizes) = scale_drc m (d_reads d sizes).
Proof.
  induction sizes as [|k sizes IH]; intros d; [reflexivity|].
  cbn [map d_reads]. rewrite d_read_scaled. destruct (d_read d k) as [[n r] d']. apply IH.
Qed.

(* the body counted in units is the same machine: Reads return S m times as much with the same error, and what is
   left is S m times what is left *)
Lemma drain_any_unit m d k :
  d_read (scale_drc m d) (k * S m) = (let '(n, r, d') := d_read d k in (n * S m, r, scale_drc m d')) /\
  seg_bytes (u_segs (d_u (scale_drc m d))) = seg_bytes (u_segs (d_u d)) * S m.
Proof. split; [apply d_read_scaled | apply seg_bytes_scaled]. Qed.

(* a drain that gives up after a bounded number of Reads leaves a long enough body undrained *)
Lemma capped_drain_refuted :
  exists cap b segs fin,
    let d' := d_close_capped cap b (d_init segs fin) in
    u_closes (d_u d') = 1 /\ u_finished (d_u d') = false /\ 0 < seg_bytes (u_segs (d_u d')).
Proof. exists 2, 0, [4], FEof. cbn. repeat split; lia. Qed.

(* ====================== (ii) one call ====================== *)

Lemma run_closed_done : forall ops sk df pe cl dl, w_done (run_writer false ops sk df pe cl dl) = true.
Proof.
  induction ops as [|op r IH]; intros sk df pe cl dl; [reflexivity|].
  cbn [run_writer]. destruct sk.
  - destruct op; apply IH.
  - destruct op as [h|ok h| |].
    + rewrite orb_true_r. destruct h; try apply IH; reflexivity.
    + destruct ok; [apply IH|]. destruct h; try apply IH; reflexivity.
    + apply IH.
    + apply IH.
Qed.

(* with the deferred function registered, the files are closed exactly when the goroutine returns *)
Lemma run_closes : forall ro ops sk pe cl dl,
  let st := run_writer ro ops sk true pe cl dl in
  w_defer st = true /\ w_file_closes st = (if w_done st then cl + 1 else cl).
Proof.
  induction ops as [|op r IH]; intros sk pe cl dl; [split; reflexivity|].
  cbn [run_writer]. destruct sk.
  - destruct op; apply IH.
  - destruct op as [h|ok h| |].
    + destruct (pe || negb ro).
      * destruct h; try apply IH; split; reflexivity.
      * split; reflexivity.
    + destruct ok; [apply IH|]. destruct h; try apply IH; split; reflexivity.
    + apply IH.
    + apply IH.
Qed.

Definition winv (st : wst) : Prop :=
  w_defer st = true /\ w_file_closes st = (if w_done st then 1 else 0).

Lemma resume_inv ro st : winv st -> winv (resume ro st).
Proof.
  intros [Hd Hc]. unfold resume. destruct (w_done st) eqn:E; [split; [exact Hd | now rewrite E]|].
  rewrite Hd. destruct (run_closes ro (w_ops st) false (w_pipe_err st) (w_file_closes st) (w_delivered st)) as [H1 H2].
  split; [exact H1|]. rewrite H2, Hc. destruct (w_done _); reflexivity.
Qed.

Lemma close_reader_done st : winv st ->
  winv (close_reader st) /\ w_done (close_reader st) = true /\ w_file_closes (close_reader st) = 1.
Proof.
  intros H. assert (Hi := resume_inv false st H). fold (close_reader st) in Hi.
  assert (Hdone : w_done (close_reader st) = true).
  { unfold close_reader, resume. destruct (w_done st) eqn:E; [exact E | apply run_closed_done]. }
  split; [exact Hi|]. split; [exact Hdone|]. destruct Hi as [_ Hc]. now rewrite Hdone in Hc.
Qed.

Lemma pull_inv st : winv st -> winv (snd (pull st)).
Proof.
  intros [Hd Hc]. unfold pull. destruct (w_done st) eqn:E; [split; cbn; [exact Hd | now rewrite E]|].
  destruct (w_ops st) as [|[h|ok h| |] r]; try (split; cbn; [exact Hd | now rewrite E]).
  cbn [snd]. rewrite Hd.
  destruct (run_closes true r false (w_pipe_err st) (w_file_closes st) (S (w_delivered st))) as [H1 H2].
  split; [exact H1|]. rewrite H2, Hc. destruct (w_done _); reflexivity.
Qed.

Lemma pull_all_inv fuel : forall st, winv st -> winv (snd (pull_all fuel st)).
Proof.
  induction fuel as [|f IH]; intros st H; [exact H|].
  cbn [pull_all]. destruct (pull st) as [r st'] eqn:E.
  assert (H' : winv st') by (change st' with (snd (r, st')); rewrite <- E; now apply pull_inv).
  destruct r; [now apply IH | exact H' | exact H'].
Qed.

Lemma pull_n_inv k : forall st, winv st -> winv (snd (pull_n k st)).
Proof.
  induction k as [|k IH]; intros st H; [exact H|].
  cbn [pull_n]. destruct (pull st) as [r st'] eqn:E.
  assert (H' : winv st') by (change st' with (snd (r, st')); rewrite <- E; now apply pull_inv).
  destruct r; [now apply IH | exact H' | exact H'].
Qed.

Lemma start_defer_inv ops : winv (start (ODefer :: ops)).
Proof.
  unfold start. cbn [run_writer].
  destruct (run_closes true ops false false 0 0) as [H1 H2].
  split; [exact H1|]. rewrite H2. destruct (w_done _); reflexivity.
Qed.

Lemma start_fixed_inv nvalues files : winv (start (compile all_fixed nvalues files)).
Proof. unfold compile. cbn [fx_defer_first all_fixed app]. apply start_defer_inv. Qed.

Lemma close_reader_idem st : winv st -> close_reader (close_reader st) = close_reader st.
Proof.
  intros H. destruct (close_reader_done _ H) as [_ [Hd _]].
  unfold close_reader at 1. unfold resume. now rewrite Hd.
Qed.

(* a reader that is handed the upload error finds the goroutine returned *)
Lemma pull_err_done st r st' : pull st = (r, st') -> r = PErr -> w_done st' = true.
Proof.
  unfold pull. destruct (w_done st) eqn:E.
  - intros H _. inversion H; subst. exact E.
  - destruct (w_ops st) as [|[h|ok h| |] ops]; intros H Hr; inversion H; subst; discriminate.
Qed.

Lemma pull_all_err_done fuel : forall st, fst (pull_all fuel st) = PErr -> w_done (snd (pull_all fuel st)) = true.
Proof.
  induction fuel as [|f IH]; intros st; [cbn; discriminate|].
  cbn [pull_all]. destruct (pull st) as [r st'] eqn:E. destruct r.
  - apply IH.
  - cbn. discriminate.
  - cbn. intros _. now apply (pull_err_done _ _ _ E).
Qed.

(* the state of a returned call that holds nothing of the upload: goroutine started and returned, the
   files closed exactly once by its deferred function, none by the builder *)
Definition good (c : cst) : Prop :=
  c_started c = true /\ winv (c_w c) /\ w_done (c_w c) = true /\ c_builder_closes c = 0.

Lemma good_upload c : good c -> upload_released c = true.
Proof.
  intros [Hs [[_ Hc] [Hd Hb]]]. unfold upload_released. rewrite Hs, Hd, Hb, Hc, Hd. reflexivity.
Qed.

Lemma good_closed w ro saw o cl r : winv w -> good (mkc true (close_reader w) ro 0 saw o cl r).
Proof.
  intros H. destruct (close_reader_done _ H) as [Hi [Hd _]]. unfold good. cbn. repeat split; try apply Hi; assumption.
Qed.

Lemma good_done w ro saw o cl r : winv w -> w_done w = true -> good (mkc true w ro 0 saw o cl r).
Proof. intros H Hd. unfold good. cbn. repeat split; try apply H; assumption. Qed.

Lemma fail_late_good w ro saw :
  winv w -> (ro = false -> w_done w = true) -> good (fail_late all_fixed true w ro saw).
Proof.
  intros H Hro. unfold fail_late. cbn [fx_close_on_late_error all_fixed]. destruct ro.
  - now apply good_closed.
  - apply good_done; auto.
Qed.

Lemma read_to_end_inv w : winv w -> winv (snd (read_to_end w)).
Proof. intros H. unfold read_to_end. now apply pull_all_inv. Qed.

Lemma transport_reads_inv reads w : winv w -> winv (snd (transport_reads reads w)).
Proof.
  intros H. unfold transport_reads. destruct reads; [now apply pull_n_inv | now apply read_to_end_inv].
Qed.

Lemma submit_good fx sc w ro :
  winv w -> (ro = false -> w_done w = true) -> good (submit fx sc w ro).
Proof.
  intros H Hro. unfold submit. cbv zeta. destruct (sc_debug sc && ro) eqn:Edump.
  - (* the request is dumped: its body is read to the end *)
    destruct (read_to_end w) as [r0 wd] eqn:E.
    assert (Hd : winv wd) by (change wd with (snd (r0, wd)); rewrite <- E; now apply read_to_end_inv).
    assert (Hdone : r0 = PErr -> w_done wd = true).
    { intros Hr. change wd with (snd (r0, wd)). rewrite <- E. unfold read_to_end. apply pull_all_err_done.
      fold (read_to_end w). rewrite E. exact Hr. }
    rewrite orb_true_r.
    destruct r0.
    + destruct (sc_transport sc); unfold respond; now apply good_closed.
    + destruct (sc_transport sc); unfold respond; now apply good_closed.
    + apply good_done; [exact Hd | now apply Hdone].
  - rewrite orb_false_r. destruct ro; cbn [negb].
    + destruct (sc_transport sc) as [k|reads r].
      * destruct (pull_n k w) as [r2 w2] eqn:E2.
        assert (H2 : winv w2) by (change w2 with (snd (r2, w2)); rewrite <- E2; now apply pull_n_inv).
        now apply good_closed.
      * destruct (transport_reads reads w) as [r2 w2] eqn:E2.
        assert (H2 : winv w2) by (change w2 with (snd (r2, w2)); rewrite <- E2; now apply transport_reads_inv).
        destruct r2; unfold respond; now apply good_closed.
    + destruct (sc_transport sc); unfold respond; apply good_done; auto.
Qed.

Lemma call_good nvalues files sc :
  sc_param_err sc = false -> good (call all_fixed (compile all_fixed nvalues files) sc).
Proof.
  intros Hp. unfold call. rewrite Hp.
  set (w0 := start (compile all_fixed nvalues files)).
  assert (H0 : winv w0) by apply start_fixed_inv.
  clearbody w0.
  set (asks := match sc_auth sc with AOk a | AFail a => a | ANone => false end).
  destruct asks eqn:Easks.
  - (* the auth writer asked for the body *)
    destruct (read_to_end w0) as [r1 w1] eqn:E1.
    assert (H1 : winv w1) by (change w1 with (snd (r1, w1)); rewrite <- E1; now apply read_to_end_inv).
    destruct (close_reader_done _ H1) as [Hi [Hd _]].
    destruct r1; cbn [andb negb].
    + destruct (sc_auth sc); try (apply fail_late_good; auto).
      * destruct (sc_late_err sc); [apply fail_late_good; auto | apply submit_good; auto].
      * destruct (sc_late_err sc); [apply fail_late_good; auto | apply submit_good; auto].
    + destruct (sc_auth sc); try (apply fail_late_good; auto).
      * destruct (sc_late_err sc); [apply fail_late_good; auto | apply submit_good; auto].
      * destruct (sc_late_err sc); [apply fail_late_good; auto | apply submit_good; auto].
    + apply fail_late_good; [exact H1 | discriminate].
  - cbn [andb negb].
    destruct (sc_auth sc).
    + destruct (sc_late_err sc); [apply fail_late_good | apply submit_good]; auto; discriminate.
    + destruct (sc_late_err sc); [apply fail_late_good | apply submit_good]; auto; discriminate.
    + apply fail_late_good; auto; discriminate.
Qed.

(* how often the response body is closed: never when none was obtained, else as resp_closes_of says *)
Definition resp_counts (fx : fixes) (sc : scenario) (c : cst) : Prop :=
  (c_resp_opened c = 0 /\ c_resp_closes c = 0) \/
  (exists reads r, sc_transport sc = TRespond reads r /\ c_resp_opened c = 1 /\
                   c_resp_closes c = resp_closes_of fx (sc_debug sc) r).

Lemma fail_late_counts fx sc st w ro saw : resp_counts fx sc (fail_late fx st w ro saw).
Proof. unfold fail_late. destruct (fx_close_on_late_error fx); left; split; reflexivity. Qed.

Lemma submit_counts fx sc w ro : resp_counts fx sc (submit fx sc w ro).
Proof.
  unfold submit. cbv zeta. destruct (sc_debug sc && ro).
  - destruct (read_to_end w) as [r0 wd]. rewrite orb_true_r.
    destruct r0; try (left; split; reflexivity);
      (destruct (sc_transport sc) as [k|reads r] eqn:Et; [left; split; reflexivity|]);
      right; exists reads, r; (split; [exact Et | split; reflexivity]).
  - rewrite orb_false_r. destruct ro; cbn [negb].
    + destruct (sc_transport sc) as [k|reads r] eqn:Et.
      * destruct (pull_n k w). left; split; reflexivity.
      * destruct (transport_reads reads w) as [r2 w2].
        destruct r2; try (left; split; reflexivity); right; exists reads, r; (split; [exact Et | split; reflexivity]).
    + destruct (sc_transport sc) as [k|reads r] eqn:Et; [left; split; reflexivity|].
      right; exists reads, r; (split; [exact Et | split; reflexivity]).
Qed.

Lemma call_counts fx prog sc : resp_counts fx sc (call fx prog sc).
Proof.
  unfold call. destruct (sc_param_err sc); [left; split; reflexivity|].
  destruct (match sc_auth sc with AOk a | AFail a => a | ANone => false end).
  - destruct (read_to_end (start prog)) as [r1 w1]. destruct r1; cbn [andb negb];
      try apply fail_late_counts;
      (destruct (sc_auth sc); try apply fail_late_counts;
       (destruct (sc_late_err sc); [apply fail_late_counts | apply submit_counts])).
  - cbn [andb negb]. destruct (sc_auth sc); try apply fail_late_counts;
      (destruct (sc_late_err sc); [apply fail_late_counts | apply submit_counts]).
Qed.

(* with every repair in place the body handed out by the transport is closed exactly once, whatever the
   response and whether or not it is dumped *)
Lemma resp_closes_of_fixed debug r : resp_closes_of all_fixed debug r = 1.
Proof.
  unfold resp_closes_of. cbn [fx_resp_close_first fx_resp_close_held all_fixed].
  destruct (debug && printable (rb_ctype r)); destruct (faulty (rb_fault r)); reflexivity.
Qed.

(* leak-freedom over every fault placement: whatever the scenario, when the call has returned the writer
   goroutine has returned, every file was closed exactly once, and a response body that was obtained is closed *)
Lemma release_all_fixed nvalues files sc :
  released (call all_fixed (compile all_fixed nvalues files) sc) = true.
Proof.
  unfold released. apply andb_true_iff. split.
  - destruct (sc_param_err sc) eqn:Hp.
    + unfold call. rewrite Hp. reflexivity.
    + apply good_upload. now apply call_good.
  - unfold resp_closed.
    destruct (call_counts all_fixed (compile all_fixed nvalues files) sc) as [[Ho Hc]|[reads [r [_ [Ho Hc]]]]];
      rewrite Ho, Hc; [reflexivity|].
    rewrite resp_closes_of_fixed. reflexivity.
Qed.

(* ... and closed exactly once, on every path: Debug on or off, the dump of the response failing or going through *)
Lemma release_once_all_fixed nvalues files sc :
  released_once (call all_fixed (compile all_fixed nvalues files) sc) = true.
Proof.
  assert (Hr := release_all_fixed nvalues files sc).
  unfold released in Hr. apply andb_true_iff in Hr as [Hu _].
  unfold released_once. rewrite Hu. cbn [andb]. unfold resp_closed_once.
  destruct (call_counts all_fixed (compile all_fixed nvalues files) sc) as [[Ho Hc]|[reads [r [_ [Ho Hc]]]]];
    rewrite Ho, Hc; [reflexivity|].
  rewrite resp_closes_of_fixed. reflexivity.
Qed.

(* the repair of F-C12-5 is necessary: with the deferred Close bound to the body the response held when the defer
   statement was executed, Debug on and a printable response read without fault, the body the transport handed
   out is closed by the dump and once more by the deferred Close (the call still succeeds and nothing leaks) *)
Lemma release_once_needs_resp_close_held :
  let fx := mkfx true true true true false true in
  let sc := mksc false ANone false (TRespond None RespRead) true in
  let c := call fx (compile fx 0 [mkfp true true [true]]) sc in
  dump_closes_twice sc = true /\
  c_result c = ROk /\ c_resp_opened c = 1 /\ c_resp_closes c = 2 /\ released c = true /\ released_once c = false.
Proof. vm_compute. repeat split. Qed.

(* ... and the same input under the repaired code: closed once *)
Lemma resp_close_held_closes_once :
  let c := call all_fixed (compile all_fixed 0 [mkfp true true [true]])
                (mksc false ANone false (TRespond None RespRead) true) in
  c_result c = ROk /\ c_resp_opened c = 1 /\ c_resp_closes c = 1 /\ released_once c = true.
Proof. vm_compute. repeat split. Qed.

(* off that path the code before the repair closed the body exactly once too: the repair changes nothing else *)
Lemma resp_closes_of_without_close_held debug r :
  debug && (printable (rb_ctype r) && negb (faulty (rb_fault r))) = false ->
  resp_closes_of (mkfx true true true true false true) debug r = 1.
Proof.
  unfold resp_closes_of. cbn [fx_resp_close_first fx_resp_close_held].
  destruct debug; destruct (printable (rb_ctype r)); destruct (faulty (rb_fault r)); cbn; intros H; try reflexivity; discriminate.
Qed.

(* the order in Submit matters: were the Close deferred only after the Debug dump, a response body failing
   under the dump would never be closed (however the deferred function picks the body) *)
Lemma release_needs_resp_close_first :
  let fx := mkfx true true true false true true in
  let c := call fx (compile fx 0 [mkfp true true [true]])
                (mksc false ANone false (TRespond None (mkrb CtConsumed false RFLate)) true) in
  c_result c = RFail /\ c_resp_opened c = 1 /\ c_resp_closes c = 0 /\ released c = false.
Proof. vm_compute. repeat split. Qed.

(* each of the three repairs of the upload side is necessary: without it some fault placement leaks *)
Definition one_file : list fileprog := [mkfp false true [true; true]].

(* F-C12-1: the auth writer fails without asking for the body; no late-error close: the goroutine waits
   for ever at its first write and the file stays open *)
Lemma release_needs_late_close :
  let fx := mkfx true false true true true true in
  let c := call fx (compile fx 0 one_file) (mksc false (AFail false) false (TFail 0) false) in
  released c = false /\ w_done (c_w c) = false /\ w_file_closes (c_w c) = 0.
Proof. vm_compute. repeat split. Qed.

(* F-C12-2: one form field and one file, the transport fails before reading: the write of the field fails,
   the goroutine returns before the deferred function was registered: the file stays open *)
Lemma release_needs_defer_first :
  let fx := mkfx false true true true true true in
  let c := call fx (compile fx 1 one_file) (mksc false ANone false (TFail 0) false) in
  released c = false /\ w_done (c_w c) = true /\ w_file_closes (c_w c) = 0.
Proof. vm_compute. repeat split. Qed.

(* ... while without the form field the same scenario releases the file, as observed on the code *)
Lemma defer_late_without_fields_ok :
  let fx := mkfx false true true true true true in
  released (call fx (compile fx 0 one_file) (mksc false ANone false (TFail 0) false)) = true.
Proof. vm_compute. reflexivity. Qed.

(* F-C12-4: the parameter writer fails after handing files over *)
Lemma release_needs_param_close :
  let fx := mkfx true true false true true true in
  released (call fx (compile fx 0 one_file) (mksc true ANone false (TFail 0) false)) = false.
Proof. vm_compute. reflexivity. Qed.

(* a call that reports success was never given an upload error, under any fixes and any program *)
Lemma submit_success_saw_no_upload_error fx sc w ro :
  c_result (submit fx sc w ro) = ROk -> c_saw_upload_error (submit fx sc w ro) = false.
Proof.
  unfold submit. cbv zeta. destruct (sc_debug sc && ro).
  - destruct (read_to_end w) as [r0 wd]. rewrite orb_true_r.
    destruct r0; try discriminate; (destruct (sc_transport sc); [discriminate | reflexivity]).
  - rewrite orb_false_r. destruct ro; cbn [negb].
    + destruct (sc_transport sc) as [k|reads r]; [destruct (pull_n k w); discriminate|].
      destruct (transport_reads reads w) as [r2 w2]. destruct r2; try discriminate; reflexivity.
    + destruct (sc_transport sc); [discriminate | reflexivity].
Qed.

Lemma fail_late_not_ok fx st w ro saw : c_result (fail_late fx st w ro saw) = ROk -> False.
Proof. unfold fail_late. destruct (fx_close_on_late_error fx); discriminate. Qed.

Lemma success_saw_no_upload_error fx prog sc :
  c_result (call fx prog sc) = ROk -> c_saw_upload_error (call fx prog sc) = false.
Proof.
  unfold call. destruct (sc_param_err sc); [discriminate|].
  destruct (match sc_auth sc with AOk a | AFail a => a | ANone => false end).
  - destruct (read_to_end (start prog)) as [r1 w1]. destruct r1; cbn [andb negb];
      try (intros H; now apply fail_late_not_ok in H);
      (destruct (sc_auth sc); try (intros H; now apply fail_late_not_ok in H);
       (destruct (sc_late_err sc); [intros H; now apply fail_late_not_ok in H | apply submit_success_saw_no_upload_error])).
  - cbn [andb negb]. destruct (sc_auth sc); try (intros H; now apply fail_late_not_ok in H);
      (destruct (sc_late_err sc); [intros H; now apply fail_late_not_ok in H | apply submit_success_saw_no_upload_error]).
Qed.

(* a source that fails while the body is read to its end makes the reader of the pipe see an error:
   the goroutine ends with the pipe closed with an error as soon as a source Read has failed *)
Lemma run_sticky_err : forall ro ops sk df cl dl,
  let st := run_writer ro ops sk df true cl dl in w_pipe_err st = true.
Proof.
  induction ops as [|op r IH]; intros sk df cl dl; [reflexivity|].
  cbn [run_writer]. destruct sk.
  - destruct op; apply IH.
  - destruct op as [h|ok h| |].
    + cbn [orb]. destruct h; try apply IH; reflexivity.
    + destruct ok; [apply IH|]. destruct h; try apply IH; reflexivity.
    + apply IH.
    + apply IH.
Qed.

(* ====================== (iii) the effective deadline ====================== *)
Lemma deadline_no_timeout parent now : effective_deadline parent now 0 = parent.
Proof. reflexivity. Qed.

Lemma deadline_is_min parent now timeout :
  timeout <> 0%Z ->
  effective_deadline parent now timeout =
  Some (match parent with None => now + timeout | Some p => Z.min p (now + timeout) end)%Z.
Proof.
  intros H. unfold effective_deadline. destruct (timeout =? 0)%Z eqn:E; [apply Z.eqb_eq in E; contradiction|].
  destruct parent; reflexivity.
Qed.

Lemma deadline_bounds parent now timeout d :
  effective_deadline parent now timeout = Some d ->
  (forall p, parent = Some p -> (d <= p)%Z) /\ (timeout <> 0%Z -> (d <= now + timeout)%Z).
Proof.
  unfold effective_deadline. destruct (timeout =? 0)%Z eqn:E.
  - intros H. split.
    + intros p Hp. rewrite Hp in H. inversion H. lia.
    + apply Z.eqb_eq in E. intros Hne. contradiction.
  - destruct parent as [p|]; intros H; inversion H; subst; clear H.
    + split.
      * intros p' Hp. inversion Hp; subst. apply Z.le_min_l.
      * intros _. apply Z.le_min_r.
    + split.
      * intros p' Hp. discriminate.
      * intros _. lia.
Qed.

(* a negative timeout is a deadline that has already passed *)
Lemma deadline_negative_timeout parent now timeout :
  (timeout < 0)%Z -> exists d, effective_deadline parent now timeout = Some d /\ (d < now)%Z.
Proof.
  intros H. rewrite deadline_is_min by lia. eexists. split; [reflexivity|]. destruct parent; lia.
Qed.

(* reading every non-positive timeout as no timeout is a different function: with no caller deadline a negative
   timeout would then mean an unbounded wait *)
Lemma deadline_nonpositive_as_none_differs :
  exists parent now timeout,
    effective_deadline_nonpositive_as_none parent now timeout = None /\
    exists d, effective_deadline parent now timeout = Some d /\ (d < now)%Z.
Proof. exists None, 0%Z, (-1)%Z. split; [reflexivity|]. exists (-1)%Z. split; [reflexivity | lia]. Qed.

Lemma deadline_nonpositive_as_none_agrees parent now timeout :
  (0 <= timeout)%Z ->
  effective_deadline_nonpositive_as_none parent now timeout = effective_deadline parent now timeout.
Proof.
  intros H. unfold effective_deadline_nonpositive_as_none, effective_deadline.
  destruct (timeout =? 0)%Z eqn:E.
  - apply Z.eqb_eq in E. subst. reflexivity.
  - apply Z.eqb_neq in E. destruct (timeout <=? 0)%Z eqn:E2; [apply Z.leb_le in E2; lia | reflexivity].
Qed.

(* the latest return: not before the call began, not after either bound that exists *)
Lemma must_return_by_bounds parent now timeout m :
  must_return_by parent now timeout = Some m ->
  (now <= m)%Z /\ (forall p, parent = Some p -> (m <= Z.max now p)%Z) /\
  (timeout <> 0%Z -> (m <= Z.max now (now + timeout))%Z).
Proof.
  unfold must_return_by. destruct (effective_deadline parent now timeout) as [d|] eqn:E; [|discriminate].
  intros H. inversion H; subst; clear H. destruct (deadline_bounds _ _ _ _ E) as [H1 H2].
  split; [lia|]. split.
  - intros p Hp. specialize (H1 p Hp). lia.
  - intros Hn. specialize (H2 Hn). lia.
Qed.

(* ---- an http.Client with a Timeout of its own ---- *)
Lemma client_timeout_only_shortens parent now timeout client d :
  effective_deadline parent now timeout = Some d ->
  exists d', effective_deadline_with_client parent now timeout client = Some d' /\ (d' <= d)%Z.
Proof.
  intros H. unfold effective_deadline_with_client. rewrite H.
  destruct (client <=? 0)%Z; eexists; (split; [reflexivity | lia]).
Qed.

Lemma client_timeout_none parent now timeout client :
  (client <= 0)%Z -> effective_deadline_with_client parent now timeout client = effective_deadline parent now timeout.
Proof.
  intros H. unfold effective_deadline_with_client. apply Z.leb_le in H. now rewrite H.
Qed.

Lemma client_timeout_bound parent now timeout client d :
  (0 < client)%Z -> effective_deadline_with_client parent now timeout client = Some d -> (d <= now + client)%Z.
Proof.
  intros Hc. unfold effective_deadline_with_client.
  destruct (client <=? 0)%Z eqn:E; [apply Z.leb_le in E; lia|].
  destruct (effective_deadline parent now timeout); intros H; inversion H; lia.
Qed.

Lemma client_instead_refuted :
  exists parent now timeout client d d',
    effective_deadline parent now timeout = Some d /\
    effective_deadline_client_instead parent now timeout client = Some d' /\ (d < d')%Z.
Proof. exists None, 0%Z, 1%Z, 5%Z, 1%Z, 5%Z. repeat split; reflexivity. Qed.


Example ex_drain : exists d',
  d_close 7 (d_reads (d_init [4; 0; 9] FEofWithData) [3; 0; 1]) = Some d' /\ u_closes (d_u d') = 1 /\ u_finished (d_u d') = true.
Proof. eexists. vm_compute. repeat split. Qed.

Example ex_release :
  released (call all_fixed (compile all_fixed 2 [mkfp false true [true; false; true]; mkfp true true [true]])
                 (mksc false (AOk false) false (TRespond None RespRead) false)) = true.
Proof. vm_compute. reflexivity. Qed.

(* ====================== a failing source surfaces when the body is consumed ====================== *)
Definition is_fail (op : wop) : bool := match op with OSrc false _ => true | _ => false end.
Definition has_fail (ops : list wop) : bool := existsb is_fail ops.

Lemma run_err_done : forall ro ops sk df cl dl, w_done (run_writer ro ops sk df true cl dl) = true.
Proof.
  induction ops as [|op r IH]; intros sk df cl dl; [reflexivity|].
  cbn [run_writer]. destruct sk.
  - destruct op; apply IH.
  - destruct op as [h|ok h| |].
    + cbn [orb]. destruct h; try apply IH; reflexivity.
    + destruct ok; [apply IH|]. destruct h; try apply IH; reflexivity.
    + apply IH.
    + apply IH.
Qed.

(* with the reader present and no error so far, the goroutine either returns — with the error on the pipe if
   some source Read of its program fails — or waits at a write, no error raised, the failing Read still ahead *)
Lemma run_open_cases : forall ops df cl dl,
  let st := run_writer true ops false df false cl dl in
  (w_done st = true /\ (has_fail ops = true -> w_pipe_err st = true)) \/
  (w_done st = false /\ w_pipe_err st = false /\ (exists h r, w_ops st = OWrite h :: r) /\
   length (w_ops st) <= length ops /\ (has_fail ops = true -> has_fail (w_ops st) = true)).
Proof.
  induction ops as [|op r IH]; intros df cl dl.
  - left. split; [reflexivity | discriminate].
  - cbn [run_writer]. destruct op as [h|ok h| |].
    + cbn [orb negb]. right. cbn. repeat split; [now exists h, r | lia | auto].
    + destruct ok.
      * destruct (IH df cl dl) as [[H1 H2]|[H1 [H2 [H3 [H4 H5]]]]]; [left|right]; cbn [has_fail existsb is_fail orb] in *.
        -- split; assumption.
        -- repeat split; try assumption. cbn [length]. lia.
      * left. destruct h.
        -- split; reflexivity.
        -- split; [apply run_err_done | intros _; apply run_sticky_err].
        -- split; [apply run_err_done | intros _; apply run_sticky_err].
    + destruct (IH true cl dl) as [[H1 H2]|[H1 [H2 [H3 [H4 H5]]]]]; [left|right]; cbn [has_fail existsb is_fail orb] in *.
      * split; assumption.
      * repeat split; try assumption. cbn [length]. lia.
    + destruct (IH df cl dl) as [[H1 H2]|[H1 [H2 [H3 [H4 H5]]]]]; [left|right]; cbn [has_fail existsb is_fail orb] in *.
      * split; assumption.
      * repeat split; try assumption. cbn [length]. lia.
Qed.

Lemma pull_all_reaches_error : forall fuel st,
  w_done st = false -> w_pipe_err st = false -> (exists h r, w_ops st = OWrite h :: r) ->
  has_fail (w_ops st) = true -> length (w_ops st) < fuel ->
  fst (pull_all fuel st) = PErr.
Proof.
  induction fuel as [|f IH]; intros st Hd He [h [r Hops]] Hf Hlen; [lia|].
  cbn [pull_all]. unfold pull. rewrite Hd, Hops.
  rewrite Hops in Hf, Hlen. cbn [has_fail existsb is_fail orb] in Hf. cbn [length] in Hlen.
  rewrite He.
  destruct (run_open_cases r (w_defer st) (w_file_closes st) (S (w_delivered st))) as [[H1 H2]|[H1 [H2 [H3 [H4 H5]]]]].
  - (* the goroutine returned with the error: the next read reports it *)
    set (st' := run_writer true r false (w_defer st) false (w_file_closes st) (S (w_delivered st))) in *.
    destruct f as [|f']; [lia|]. cbn [pull_all]. unfold pull. rewrite H1, (H2 Hf). reflexivity.
  - set (st' := run_writer true r false (w_defer st) false (w_file_closes st) (S (w_delivered st))) in *.
    apply IH; try assumption; [now apply H5 | lia].
Qed.

(* the body read to its end while some source Read of the program fails: the reader is handed the error *)
Lemma read_to_end_sees_failure prog :
  has_fail prog = true -> fst (read_to_end (start prog)) = PErr.
Proof.
  intros Hf. unfold read_to_end, start.
  destruct (run_open_cases prog false 0 0) as [[H1 H2]|[H1 [H2 [H3 [H4 H5]]]]].
  - set (st := run_writer true prog false false false 0 0) in *.
    cbn [pull_all]. unfold pull. rewrite H1, (H2 Hf). reflexivity.
  - set (st := run_writer true prog false false false 0 0) in *.
    apply pull_all_reaches_error; try assumption; [now apply H5 | lia].
Qed.

(* a failing upload source is never reported as a success when the request body is consumed to its end
   (by GetBody, by the Debug dump of the request, or by a transport that reads everything before it answers) *)
Lemma fail_late_result fx st w ro saw : c_result (fail_late fx st w ro saw) = RFail.
Proof. unfold fail_late. destruct (fx_close_on_late_error fx); reflexivity. Qed.

Lemma submit_upload_failure fx sc prog :
  has_fail prog = true ->
  (sc_debug sc = true \/ exists r, sc_transport sc = TRespond None r) ->
  c_result (submit fx sc (start prog) true) = RFail.
Proof.
  intros Hf Hc. assert (Hend := read_to_end_sees_failure prog Hf).
  unfold submit. cbv zeta. rewrite andb_true_r. destruct (sc_debug sc) eqn:Ed.
  - destruct (read_to_end (start prog)) as [r0 wd]. cbn in Hend. subst r0. reflexivity.
  - destruct Hc as [Hc|[r Hr]]; [discriminate|]. cbn [negb orb]. rewrite Hr. unfold transport_reads.
    destruct (read_to_end (start prog)) as [r2 w2]. cbn in Hend. subst r2. reflexivity.
Qed.

Lemma upload_failure_is_error fx prog sc :
  has_fail prog = true -> sc_param_err sc = false ->
  (match sc_auth sc with
   | AOk true | AFail true => True
   | _ => sc_debug sc = true \/ exists r, sc_transport sc = TRespond None r
   end) ->
  c_result (call fx prog sc) = RFail.
Proof.
  intros Hf Hp Hc. unfold call. rewrite Hp.
  assert (Hend := read_to_end_sees_failure prog Hf).
  destruct (sc_auth sc) as [|[|]|[|]]; cbn [andb negb].
  - destruct (sc_late_err sc); [apply fail_late_result | now apply submit_upload_failure].
  - destruct (read_to_end (start prog)) as [r1 w1]. cbn in Hend. subst r1. cbn. apply fail_late_result.
  - destruct (sc_late_err sc); [apply fail_late_result | now apply submit_upload_failure].
  - destruct (read_to_end (start prog)) as [r1 w1]. cbn in Hend. subst r1. cbn. apply fail_late_result.
  - apply fail_late_result.
Qed.

Example ex_upload_failure :
  let prog := compile all_fixed 1 [mkfp false true [true; false; true]] in
  has_fail prog = true /\ c_result (call all_fixed prog (mksc false (AOk false) false (TRespond None RespRead) false)) = RFail.
Proof. vm_compute. split; reflexivity. Qed.

(* ====================== the error VALUE a source fails with ====================== *)
Lemma has_fail_app a b : has_fail (a ++ b) = has_fail a || has_fail b.
Proof. unfold has_fail. apply existsb_app. Qed.

Lemma has_fail_copy_ops chunks : existsb negb chunks = true -> has_fail (copy_ops chunks) = true.
Proof.
  induction chunks as [|c r IH]; cbn [existsb]; intros H; [discriminate|].
  unfold copy_ops. cbn [flat_map]. fold (copy_ops r). rewrite has_fail_app.
  destruct c; cbn [negb orb] in H.
  - rewrite (IH H). apply orb_true_r.
  - reflexivity.
Qed.

(* io.Copy: the first Read that does not return nil decides; only the bare io.EOF is the end *)
Lemma lower_chunks_failure wd l :
  is_failure (first_stop l) = true -> existsb negb (lower_chunks_with is_eof wd l) = true.
Proof.
  induction l as [|r rest IH]; cbn [first_stop lower_chunks_with]; intros H; [discriminate|].
  destruct r; cbn [is_eof is_failure] in *.
  - cbn [existsb negb orb]. now apply IH.
  - discriminate.
  - destruct wd; reflexivity.
  - destruct wd; reflexivity.
Qed.

Lemma lower_chunks_no_failure wd l :
  is_failure (first_stop l) = false -> existsb negb (lower_chunks_with is_eof wd l) = false.
Proof.
  induction l as [|r rest IH]; cbn [first_stop lower_chunks_with]; intros H; [reflexivity|].
  destruct r; cbn [is_eof is_failure] in *.
  - cbn [existsb negb orb]. now apply IH.
  - destruct wd; reflexivity.
  - discriminate.
  - discriminate.
Qed.

Lemma file_ops_lower_fails f : src_fails f = true -> has_fail (file_ops (lower f)) = true.
Proof.
  unfold src_fails, src_reads, lower, lower_with.
  destruct f as [decl sn chunks wd once]; cbn [sf_declared sf_sniff sf_chunks sf_with_data sf_once].
  destruct decl.
  - cbn [app]. intros H. unfold file_ops. cbn [fp_declared fp_chunks app].
    change (OWrite Abort :: copy_ops (lower_chunks_with is_eof wd chunks) ++ [OEndCopy])
      with ([OWrite Abort] ++ copy_ops (lower_chunks_with is_eof wd chunks) ++ [OEndCopy]).
    rewrite !has_fail_app. rewrite (has_fail_copy_ops _ (lower_chunks_failure wd chunks H)).
    cbn. reflexivity.
  - cbn [app first_stop]. destruct sn; cbn [is_failure is_eof]; intros H.
    + unfold file_ops. cbn [fp_declared fp_sniff_ok fp_chunks].
      rewrite !has_fail_app. rewrite (has_fail_copy_ops _ (lower_chunks_failure wd chunks H)).
      cbn. reflexivity.
    + discriminate.
    + reflexivity.          (* io.ErrUnexpectedEOF inside the sniffing window: logClose, return - sticky or not *)
    + reflexivity.
Qed.

Lemma has_fail_files files :
  existsb src_fails files = true -> has_fail (flat_map file_ops (map lower files)) = true.
Proof.
  induction files as [|f r IH]; cbn [existsb map flat_map]; intros H; [discriminate|].
  rewrite has_fail_app. destruct (src_fails f) eqn:E.
  - now rewrite (file_ops_lower_fails f E).
  - cbn [orb] in H. rewrite (IH H). apply orb_true_r.
Qed.

Lemma has_fail_compile fx nv files :
  existsb src_fails files = true -> has_fail (compile fx nv (map lower files)) = true.
Proof.
  intros H. unfold compile. rewrite !has_fail_app. rewrite (has_fail_files files H).
  rewrite !orb_true_r. reflexivity.
Qed.

Lemma lower_fx_fixed fx : fx_sniff_eof_only fx = true -> lower_fx fx = lower.
Proof. intros H. unfold lower_fx, ends_sniff, lower. now rewrite H. Qed.

(* whatever value a source fails with, inside the sniffing window or at any Read of the copy, with or without bytes
   next to the error, sticky or reported once: the call is not a success when the body is consumed to its end *)
Theorem upload_failure_any_error_value fx nv files sc :
  fx_sniff_eof_only fx = true ->
  existsb src_fails files = true -> sc_param_err sc = false ->
  (match sc_auth sc with
   | AOk true | AFail true => True
   | _ => sc_debug sc = true \/ exists r, sc_transport sc = TRespond None r
   end) ->
  c_result (call fx (compile fx nv (map (lower_fx fx) files)) sc) = RFail.
Proof.
  intros Hfx H Hp Hc. rewrite (lower_fx_fixed fx Hfx).
  apply upload_failure_is_error; [now apply has_fail_compile|assumption|assumption].
Qed.

(* a source that ends (io.EOF, early or not) without any failing Read is no failing source for the model either *)
Theorem early_end_is_no_failure f : src_fails f = false -> fp_fails (lower f) = false.
Proof.
  unfold src_fails, src_reads, lower, lower_with, fp_fails.
  destruct f as [decl sn chunks wd once]; cbn [sf_declared sf_sniff sf_chunks sf_with_data sf_once]. destruct decl.
  - cbn [app fp_declared fp_sniff_ok fp_chunks negb andb orb]. apply lower_chunks_no_failure.
  - cbn [app first_stop]. destruct sn; cbn [is_failure is_eof]; intros H; cbn [fp_declared fp_sniff_ok fp_chunks negb andb orb].
    + now apply lower_chunks_no_failure.
    + destruct once; reflexivity.
    + discriminate.
    + discriminate.
Qed.

(* F-C12-6: the repair is needed. With the sniffing window filled by io.ReadFull (sniff_unrepaired) a source that reports
   io.ErrUnexpectedEOF once inside the window and io.EOF afterwards is a failing source, its body is consumed to the end,
   and the call succeeds; with the repair the same call fails *)
Theorem upload_failure_refuted_without_sniff_eof_only : exists f sc,
  src_fails f = true /\ sniff_swallowed f = true /\ sc_param_err sc = false /\
  (exists r, sc_transport sc = TRespond None r) /\
  c_result (call sniff_unrepaired (compile sniff_unrepaired 0 (map (lower_fx sniff_unrepaired) [f])) sc) = ROk /\
  c_result (call all_fixed (compile all_fixed 0 (map (lower_fx all_fixed) [f])) sc) = RFail.
Proof.
  exists (mksf false RdTrunc [RdOk; RdOk] false true), (mksc false ANone false (TRespond None RespRead) false).
  vm_compute. repeat split; try reflexivity. now exists RespRead.
Qed.

(* apart from that one case the code before the repair reported every failing source as well: a sticky
   io.ErrUnexpectedEOF inside the window met the copy again *)
Theorem upload_failure_before_sniff_repair fx nv files sc :
  existsb (fun f => src_fails f && negb (sniff_swallowed f)) files = true -> sc_param_err sc = false ->
  (match sc_auth sc with
   | AOk true | AFail true => True
   | _ => sc_debug sc = true \/ exists r, sc_transport sc = TRespond None r
   end) ->
  c_result (call fx (compile fx nv (map (lower_fx fx) files)) sc) = RFail.
Proof.
  intros H Hp Hc. apply upload_failure_is_error; [|assumption|assumption].
  unfold compile. rewrite !has_fail_app.
  assert (Hf : has_fail (flat_map file_ops (map (lower_fx fx) files)) = true).
  { clear Hp Hc. induction files as [|f r IH]; cbn [existsb map flat_map] in *; [discriminate|].
    rewrite has_fail_app. destruct (src_fails f && negb (sniff_swallowed f)) eqn:E.
    - apply andb_prop in E. destruct E as [E1 E2].
      destruct (fx_sniff_eof_only fx) eqn:Efx.
      + rewrite (lower_fx_fixed fx Efx). now rewrite (file_ops_lower_fails f E1).
      + replace (has_fail (file_ops (lower_fx fx f))) with true; [reflexivity|].
        unfold lower_fx, ends_sniff. rewrite Efx.
        revert E1 E2. unfold sniff_swallowed, src_fails, src_reads, lower_with.
        destruct f as [decl sn chunks wd once]; cbn [sf_declared sf_sniff sf_chunks sf_with_data sf_once].
        destruct decl.
        * cbn [app]. intros H1 _. unfold file_ops. cbn [fp_declared fp_chunks app].
          change (OWrite Abort :: copy_ops (lower_chunks_with is_eof wd chunks) ++ [OEndCopy])
            with ([OWrite Abort] ++ copy_ops (lower_chunks_with is_eof wd chunks) ++ [OEndCopy]).
          rewrite !has_fail_app. rewrite (has_fail_copy_ops _ (lower_chunks_failure wd chunks H1)).
          cbn. reflexivity.
        * cbn [app first_stop negb andb]. destruct sn; cbn [is_failure is_eof_or_trunc]; intros H1 H2.
          -- unfold file_ops. cbn [fp_declared fp_sniff_ok fp_chunks].
             rewrite !has_fail_app. rewrite (has_fail_copy_ops _ (lower_chunks_failure wd chunks H1)).
             cbn. reflexivity.
          -- discriminate.
          -- destruct once; [discriminate H2|]. reflexivity.
          -- reflexivity.
    - cbn [orb] in H. rewrite (IH H). apply orb_true_r. }
  rewrite Hf. rewrite !orb_true_r. reflexivity.
Qed.

(* the old test of the sniffing ReadFull must not be applied to the copy: with a truncated stream taken for its end a
   source failing with io.ErrUnexpectedEOF in the middle of the copy is answered as a success *)
Theorem upload_failure_refuted_if_truncation_is_benign : exists files sc,
  existsb src_fails files = true /\ sc_param_err sc = false /\
  (exists r, sc_transport sc = TRespond None r) /\
  c_result (call all_fixed (compile all_fixed 0 (map lower_trunc_benign files)) sc) = ROk /\
  c_result (call all_fixed (compile all_fixed 0 (map lower files)) sc) = RFail.
Proof.
  exists [mksf true RdOk [RdOk; RdTrunc; RdOk] false false], (mksc false ANone false (TRespond None RespRead) false).
  vm_compute. repeat split; try reflexivity. now exists RespRead.
Qed.

(* ====================== (ii') the order of Submit's deferred calls ====================== *)
Theorem epilogue_drains keepalive saw :
  x_closes (after_exchange keepalive saw) = 1 /\
  (keepalive = true -> x_ended (after_exchange keepalive saw) = true) /\
  (keepalive = false -> x_ended (after_exchange keepalive saw) = saw).
Proof. destruct keepalive, saw; vm_compute; repeat split; congruence. Qed.

Lemma conns_used_all_kept : forall kept idle, forallb (fun b => b) kept = true ->
  conns_used idle kept = match kept with [] => 0 | _ => if idle then 0 else 1 end.
Proof.
  induction kept as [|k r IH]; intros idle H; [reflexivity|].
  cbn [forallb] in H. apply andb_prop in H. destruct H as [Hk Hr]. subst k.
  cbn [conns_used]. rewrite (IH true Hr). destruct r; destruct idle; reflexivity.
Qed.

(* with connection reuse enabled, any number of sequential calls on one Runtime dial one connection, whatever
   their readers left unread *)
Theorem reuse_one_connection : forall readers, readers <> [] ->
  conns_of_history submit_epilogue true readers = 1.
Proof.
  intros readers Hne. unfold conns_of_history. rewrite conns_used_all_kept.
  - destruct readers; [congruence|reflexivity].
  - induction readers as [|s r IH]; [reflexivity|]. cbn [map forallb]. destruct s; cbn.
    + destruct r; [reflexivity|]. apply IH. discriminate.
    + destruct r; [reflexivity|]. apply IH. discriminate.
Qed.

(* the order matters: cancel before the Close and every call whose reader left something unread costs its connection *)
Theorem reuse_refuted_if_cancel_runs_first :
  conns_of_history wrong_epilogue true [false; false; false] = 3 /\
  x_closes (run_epilogue true wrong_epilogue false) = 1 /\
  x_ended (run_epilogue true wrong_epilogue false) = false.
Proof. vm_compute. repeat split; reflexivity. Qed.
