(* StreamCodecsExamples.v — C15: concrete inputs meeting the hypotheses of the theorems (non-vacuity)
   and showing the behaviours the theorems speak about. All by computation. *)
From V Require Import StreamCodecsSpec.

Definition ex_pol (n : nat) : nat := 2.   (* offers 3 bytes per Read *)

(* 1-byte chunks, zero-length reads, a chunk longer than the offered buffer, data together with EOF,
   and junk after the terminal that must never be delivered *)
Definition ex_script : list rstep :=
  [([104], None); ([], None); ([], None); ([101; 108; 108; 111; 32; 119], None); ([111], Some EOF); ([74], None)].

Example ex_consume_string :
  consume ByteStream 3 ex_pol true (Some (Live ex_script, true)) (DPtrString [79; 76; 68]) =
  mkC (ORet None) (Some [104; 101; 108; 108; 111; 32; 119; 111]) 1.
Proof. vm_compute. reflexivity. Qed.

Example ex_consume_text :
  consume Text 3 ex_pol true (Some (Live ex_script, true)) (DPtrString [79; 76; 68]) =
  mkC (ORet None) (Some [104; 101; 108; 108; 111; 32; 119; 111]) 0.
Proof. vm_compute. reflexivity. Qed.

(* the hypotheses of consume_exact are met: success, and not the empty-input exception *)
Example ex_consume_exact_hyps :
  c_out (consume Text 3 ex_pol false (Some (Live ex_script, false)) (DPtrString [])) = ORet None /\
  text_empty_exception Text (steps_bytes ex_script) = false.
Proof. vm_compute. split; reflexivity. Qed.

(* an error after 3 bytes, delivered together with data: never a shorter success *)
Definition ex_failing : list rstep := [([97; 98], None); ([99], Some (EScript 7)); ([100], None)].

Example ex_consume_error :
  steps_term ex_failing <> EOF /\
  consume ByteStream 3 ex_pol false (Some (Live ex_failing, true)) (DPtrBytes []) =
  mkC (ORet (Some (EScript 7))) (Some []) 0.
Proof. vm_compute. split; [discriminate|reflexivity]. Qed.

(* io.Copy into a writer that accepts only 2 bytes of the second chunk without an error *)
Example ex_consume_short_writer :
  consume ByteStream 3 ex_pol false (Some (Live [([97; 98], None); ([99; 100; 101], None)], false))
          (DWriter (mkW [(9, None); (2, None)] [])) =
  mkC (ORet (Some EShortWrite)) (Some [97; 98; 99; 100]) 0.
Proof. vm_compute. reflexivity. Qed.

(* a payload reader into a writer that fails on its second call *)
Example ex_produce_reader :
  produce ByteStream 3 true (Some (mkW [(9, None); (1, Some (EScript 4))] [], true))
          (SReader (Live [([97], None); ([98; 99], Some EOF)]) true) ([], None) =
  mkP (ORet (Some (EScript 4))) [97; 98] 1 1.
Proof. vm_compute. reflexivity. Qed.

(* the hypotheses of produce_exact are met: success with a lawful writer *)
Example ex_produce_exact_hyps :
  let w := mkW [(9, None)] [48] in
  p_out (produce Text 3 false (Some (w, false)) (SString [97; 98]) ([], None)) = ORet None /\
  wlawful_next [97; 98] w = true /\
  p_got (produce Text 3 false (Some (w, false)) (SString [97; 98]) ([], None)) = [48; 97; 98].
Proof. vm_compute. repeat split; reflexivity. Qed.

(* ... and what the proviso excludes: a writer that reports 1 of 2 bytes with a nil error *)
Example ex_produce_unlawful_writer :
  let w := mkW [(1, None)] [] in
  produce ByteStream 3 false (Some (w, false)) (SBytes [97; 98]) ([], None) = mkP (ORet None) [97] 0 0 /\
  wlawful_next [97; 98] w = false.
Proof. vm_compute. split; reflexivity. Qed.

(* typed-nil pointers: errors (the code before the F-C15-1 repair panicked here) *)
Example ex_typed_nil :
  c_out (consume ByteStream 3 ex_pol false (Some (Live ex_script, false)) DNilPtrString) = ORet (Some E_nil_pointer) /\
  c_out (consume ByteStream 3 ex_pol false (Some (Live ex_script, false)) DNilPtrAny) = ORet (Some E_nil_pointer) /\
  c_out (consume Text 3 ex_pol false (Some (Live ex_script, false)) DNilPtrString) = ORet (Some E_nil_pointer) /\
  p_out (produce Text 3 false (Some (mkW [] [], false)) SNilPtr ([], None)) = ORet (Some E_nil_pointer).
Proof. vm_compute. repeat split; reflexivity. Qed.
