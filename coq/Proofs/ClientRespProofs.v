(* ClientRespProofs.v — lemmas about the model of the response half of Submit (C13). *)
From Coq Require Import Permutation.
From V Require Import ClientRespSpec.

Lemma lookup_in reg k c : lookup reg k = Some c -> In (k, c) reg.
Proof.
  induction reg as [|[k' c'] reg IH]; cbn; [discriminate|].
  destruct (bytes_eqb k' k) eqn:E.
  - intros H; inversion H; subst. apply bytes_eqb_eq in E. subst. now left.
  - intros H. right. now apply IH.
Qed.

Lemma lookup_none reg k : lookup reg k = None <-> ~ In k (keys reg).
Proof.
  induction reg as [|[k' c'] reg IH]; cbn; [tauto|].
  destruct (bytes_eqb k' k) eqn:E.
  - apply bytes_eqb_eq in E. subst. split; [discriminate|]. intros H. exfalso. apply H. now left.
  - apply bytes_eqb_neq in E. rewrite IH. unfold keys. tauto.
Qed.

Lemma in_lookup reg k c : NoDup (keys reg) -> In (k, c) reg -> lookup reg k = Some c.
Proof.
  induction reg as [|[k' c'] reg IH]; cbn; [tauto|].
  intros Hnd [H|H].
  - inversion H; subst. now rewrite bytes_eqb_refl.
  - inversion Hnd as [|? ? Hnotin Hnd']; subst.
    destruct (bytes_eqb k' k) eqn:E.
    + apply bytes_eqb_eq in E. subst. exfalso. apply Hnotin. unfold keys. apply in_map_iff. now exists (k, c).
    + now apply IH.
Qed.

Lemma lookup_perm reg reg' k : NoDup (keys reg) -> Permutation reg reg' -> lookup reg k = lookup reg' k.
Proof.
  intros Hnd Hp.
  assert (Hnd' : NoDup (keys reg')) by (eapply Permutation_NoDup; [apply Permutation_map; exact Hp | exact Hnd]).
  destruct (lookup reg k) as [c|] eqn:E.
  - symmetry. apply in_lookup; [exact Hnd'|]. eapply Permutation_in; [exact Hp|]. now apply lookup_in.
  - symmetry. apply lookup_none. apply lookup_none in E. intros H. apply E.
    eapply Permutation_in; [apply Permutation_sym, Permutation_map; exact Hp | exact H].
Qed.

(* the reader gets a consumer exactly when it is the registry's entry for the parsed media type, or, that
   type having no entry, the catch-all entry *)
Lemma consumer_exact reg ct parsed c :
  NoDup (keys reg) ->
  (select_consumer reg ct parsed = UseConsumer c <->
   exists mt, parsed = Some mt /\
     (In (mt, c) reg \/ (~ In mt (keys reg) /\ In (star_star, c) reg))).
Proof.
  intros Hnd. unfold select_consumer. split.
  - destruct parsed as [mt|]; [|discriminate]. exists mt. split; [reflexivity|].
    destruct (lookup reg mt) as [c'|] eqn:E1.
    + inversion H; subst. left. now apply lookup_in.
    + destruct (lookup reg star_star) as [c'|] eqn:E2; [|discriminate]. inversion H; subst.
      right. split; [now apply lookup_none | now apply lookup_in].
  - intros [mt [-> [H|[H1 H2]]]].
    + now rewrite (in_lookup _ _ _ Hnd H).
    + apply lookup_none in H1. rewrite H1. now rewrite (in_lookup _ _ _ Hnd H2).
Qed.

(* otherwise the call fails, and the failure carries the content type at hand *)
Lemma failure_names_content_type reg ct parsed :
  (exists c, select_consumer reg ct parsed = UseConsumer c) \/
  (parsed = None /\ select_consumer reg ct parsed = ErrParse ct) \/
  (exists mt, parsed = Some mt /\ ~ In mt (keys reg) /\ ~ In star_star (keys reg) /\
              select_consumer reg ct parsed = ErrNoConsumer ct).
Proof.
  unfold select_consumer. destruct parsed as [mt|]; [|right; left; split; reflexivity].
  destruct (lookup reg mt) as [c|] eqn:E1; [left; now exists c|].
  destruct (lookup reg star_star) as [c|] eqn:E2; [left; now exists c|].
  right. right. exists mt. repeat split; try reflexivity; now apply lookup_none.
Qed.

(* a Go map has no order: any listing of the same registry selects the same consumer *)
Lemma select_order_independent reg reg' ct parsed :
  NoDup (keys reg) -> Permutation reg reg' -> select_consumer reg ct parsed = select_consumer reg' ct parsed.
Proof.
  intros Hnd Hp. unfold select_consumer. destruct parsed as [mt|]; [|reflexivity].
  now rewrite (lookup_perm reg reg' mt Hnd Hp), (lookup_perm reg reg' star_star Hnd Hp).
Qed.

(* the boolean form used by the correspondence run agrees *)
Lemma has_key_in reg k : has_key reg k = true <-> In k (keys reg).
Proof.
  unfold has_key. rewrite existsb_exists. split.
  - intros [x [Hin E]]. apply bytes_eqb_eq in E. now subst.
  - intros H. exists k. split; [exact H | apply bytes_eqb_refl].
Qed.

Lemma has_entry_in reg k c : has_entry reg k c = true <-> In (k, c) reg.
Proof.
  unfold has_entry. rewrite existsb_exists. split.
  - intros [[k' c'] [Hin E]]. cbn in E. apply andb_true_iff in E as [E1 E2].
    apply bytes_eqb_eq in E1. apply Nat.eqb_eq in E2. now subst.
  - intros H. exists (k, c). split; [exact H|]. cbn. now rewrite bytes_eqb_refl, Nat.eqb_refl.
Qed.

Lemma selected_is_right reg ct mt c :
  NoDup (keys reg) -> select_consumer reg ct (Some mt) = UseConsumer c -> right_consumer reg mt c = true.
Proof.
  intros Hnd H. apply (consumer_exact reg ct (Some mt) c Hnd) in H as [mt' [E [H|[H1 H2]]]]; inversion E; subst mt'.
  - unfold right_consumer. assert (Hk : has_key reg mt = true).
    { apply has_key_in. unfold keys. apply in_map_iff. now exists (mt, c). }
    rewrite Hk. now apply has_entry_in.
  - unfold right_consumer. destruct (has_key reg mt) eqn:Hk.
    + apply has_key_in in Hk. contradiction.
    + now apply has_entry_in.
Qed.

(* the default media type stands in for an absent or empty header *)
Lemma effective_ct_default d : effective_ct d None = d /\ effective_ct d (Some []) = d.
Proof. split; reflexivity. Qed.
Lemma effective_ct_present d c r : effective_ct d (Some (c :: r)) = c :: r.
Proof. reflexivity. Qed.

(* status, headers and body reach the reader unchanged *)
Lemma view_unchanged reg d parsed r c code st body :
  submit_response reg d parsed r = Delivered c code st body ->
  code = r_code r /\ st = r_status r /\ body = r_body r.
Proof.
  unfold submit_response. destruct (select_consumer _ _ _); intros H; inversion H; subst; repeat split.
Qed.

Lemma header_first_value r k : get_header r k = hd [] (get_headers r k).
Proof. reflexivity. Qed.

(* a per-operation client or context wins over the transport-wide one *)
Lemma operation_overrides :
  choose_client true = FromOperation /\ choose_client false = FromTransport /\
  (forall rt, choose_context true rt = FromOperation) /\
  choose_context false true = FromTransport /\ choose_context false false = Background.
Proof. repeat split. Qed.

Example ex_registry :
  let reg := [([97;47;98], 1); (star_star, 2)] in
  NoDup (keys reg) /\ select_consumer reg [97;47;98;59;120] (Some [97;47;98]) = UseConsumer 1 /\
  select_consumer reg [99;47;100] (Some [99;47;100]) = UseConsumer 2 /\
  select_consumer [([97;47;98], 1)] [99;47;100] (Some [99;47;100]) = ErrNoConsumer [99;47;100].
Proof.
  repeat split. cbn. constructor.
  - cbn. intros [H|[]]. discriminate.
  - constructor; [intros []|constructor].
Qed.

(* ---- which client object carries the call ---- *)
Lemma behaves_as_run who c slow : behaves_as who c slow (run_client who c slow) = true.
Proof.
  unfold behaves_as, run_client.
  destruct (slow && c_timeout c); cbn; now rewrite !Nat.eqb_refl.
Qed.

Lemma behaves_as_unique who c slow t : behaves_as who c slow t = true -> t = run_client who c slow.
Proof.
  unfold behaves_as, run_client. destruct t as [tr rd jar ck res]. cbn.
  intros H. apply andb_true_iff in H as [H H4]. apply andb_true_iff in H as [H H3].
  apply andb_true_iff in H as [H1 H2].
  apply Nat.eqb_eq in H1, H2, H3. subst tr jar ck.
  destruct (slow && c_timeout c).
  - apply andb_true_iff in H4 as [Ha Hb]. apply Nat.eqb_eq in Ha, Hb. now subst.
  - apply andb_true_iff in H4 as [Ha Hb]. apply Nat.eqb_eq in Ha, Hb. now subst.
Qed.

Lemma right_client_route op rt slow : right_client op rt slow (route_call op rt slow) = true.
Proof. destruct op as [c|]; cbn; apply behaves_as_run. Qed.

Lemma right_client_unique op rt slow t : right_client op rt slow t = true -> t = route_call op rt slow.
Proof. destruct op as [c|]; cbn; apply behaves_as_unique. Qed.

(* with an operation client the runtime client plays no part, whichever fields the operation client sets
   (in particular when it has no Transport of its own) *)
Lemma op_client_alone c rt rt' slow : route_call (Some c) rt slow = route_call (Some c) rt' slow.
Proof. reflexivity. Qed.

(* and a call carried by a runtime client is told apart from one carried by the operation client as soon as the
   operation client sets anything at all: a transport, a jar or a redirect policy *)
Lemma other_client_rejected c rt rt' :
  c_transport c = true \/ c_jar c = true \/ c_redirect c <> 0 ->
  right_client (Some c) rt false (run_client who_rt rt' false) = false.
Proof.
  intros H. cbn [right_client]. unfold behaves_as, run_client. cbn [andb t_transport t_redirect t_jar t_cookie t_result].
  destruct c as [ctr crd cjar cto]. destruct rt' as [rtr rrd rjar rto]. cbn [c_transport c_redirect c_jar c_timeout] in *.
  destruct H as [H|[H|H]].
  - subst ctr. destruct rtr; reflexivity.
  - subst cjar. destruct ctr, rtr, rjar; reflexivity.
  - apply Nat.eqb_neq in H. rewrite H. cbn [negb mask_of].
    destruct ctr, rtr, cjar, rjar, (Nat.eqb rrd 0); reflexivity.
Qed.

Example ex_bare_operation_client :
  (* an operation client that only sets a stopping redirect policy, against a runtime client with a transport
     and a jar: the default transport is used, no jar, the redirect response reaches the reader *)
  route_call (Some (mkclient false 2 false false)) (mkclient true 0 true false) false = mktrace who_default who_op 0 0 1 /\
  right_client (Some (mkclient false 2 false false)) (mkclient true 0 true false) false
               (run_client who_rt (mkclient true 0 true false) false) = false.
Proof. split; reflexivity. Qed.

(* ---- kept responses ---- *)
Lemma retained_independent cs1 pc cs2 :
  nth_error (retained_all (cs1 ++ pc :: cs2)) (length cs1) = Some (retained_view (snd pc)).
Proof.
  unfold retained_all. rewrite map_app. cbn [map].
  rewrite nth_error_app2; rewrite map_length; [|apply Nat.le_refl].
  now rewrite Nat.sub_diag.
Qed.

Lemma retained_is_sent r :
  retained_view r = (r_code r, r_status r, hd [] (get_headers r x_token), hd [] (get_headers r content_type)).
Proof. reflexivity. Qed.

Lemma submit_all_pointwise reg d cs1 pc cs2 :
  nth_error (submit_all reg d (cs1 ++ pc :: cs2)) (length cs1) = Some (submit_response reg d (fst pc) (snd pc)).
Proof.
  unfold submit_all. rewrite map_app. cbn [map].
  rewrite nth_error_app2; rewrite map_length; [|apply Nat.le_refl].
  now rewrite Nat.sub_diag.
Qed.

(* ---- which context the call runs under ---- *)
Lemma governed_by_run o c timeout action : governed_by o c timeout action (run_under o c timeout action) = true.
Proof.
  unfold governed_by, run_under. cbn [n_value n_deadline n_ended n_failed].
  now rewrite !Nat.eqb_refl, !Bool.eqb_reflx.
Qed.

Lemma governed_by_unique o c timeout action s :
  governed_by o c timeout action s = true -> s = run_under o c timeout action.
Proof.
  unfold governed_by, run_under. destruct s as [v d e f]. cbn [n_value n_deadline n_ended n_failed].
  intros H. apply andb_true_iff in H as [H H4]. apply andb_true_iff in H as [H H3].
  apply andb_true_iff in H as [H1 H2].
  apply Nat.eqb_eq in H1, H2. apply Bool.eqb_prop in H3, H4. now subst.
Qed.

Lemma right_context_submit op rt timeout action :
  right_context op rt timeout action (submit_context op rt timeout action) = true.
Proof.
  destruct op as [c|]; [apply governed_by_run|]. destruct rt as [c|]; [apply governed_by_run|].
  cbn. now rewrite Nat.eqb_refl.
Qed.

Lemma right_context_unique op rt timeout action s :
  right_context op rt timeout action s = true -> s = submit_context op rt timeout action.
Proof.
  destruct op as [c|]; [apply governed_by_unique|]. destruct rt as [c|]; [apply governed_by_unique|].
  cbn [right_context submit_context]. destruct s as [v d e f]. cbn [n_value n_deadline n_ended n_failed who_code].
  intros H. apply andb_true_iff in H as [H H4]. apply andb_true_iff in H as [H H3].
  apply andb_true_iff in H as [H1 H2]. apply Nat.eqb_eq in H1, H2.
  destruct e; [discriminate|]. destruct f; [discriminate|]. now subst.
Qed.

(* with an operation context the runtime context plays no part: not its values, not its deadline (however early),
   not its cancellation *)
Lemma op_context_alone c rt rt' timeout action :
  submit_context (Some c) rt timeout action = submit_context (Some c) rt' timeout action.
Proof. reflexivity. Qed.

(* a call run under the runtime context instead is always told apart: the value that arrives is the wrong one *)
Lemma other_context_rejected c rt c' timeout action :
  right_context (Some c) rt timeout action (run_under FromTransport c' timeout action) = false.
Proof. reflexivity. Qed.

(* cancelling the operation context during the call ends it; cancelling the runtime context does not *)
Lemma op_cancel_ends_call c rt timeout :
  n_ended (submit_context (Some c) rt timeout 1) = true /\
  n_ended (submit_context (Some c) rt timeout 2) = x_cancelled c.
Proof.
  split; cbn; [apply orb_true_r|]. now rewrite orb_false_r.
Qed.

Example ex_runtime_deadline_does_not_take_over :
  (* operation context without a deadline, runtime context with one, no request timeout, the operation context
     cancelled during the call: the operation's value arrives, no deadline, the call ends *)
  submit_context (Some (mkctx 0 false)) (Some (mkctx 3 false)) 0 1 = mkseen 0 0 true true /\
  right_context (Some (mkctx 0 false)) (Some (mkctx 3 false)) 0 1 (run_under FromTransport (mkctx 3 false) 0 1) = false.
Proof. split; reflexivity. Qed.
