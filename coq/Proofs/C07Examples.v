(* C07Examples.v — non-vacuity: concrete inputs meet the hypotheses of the C07 theorems. *)
From V Require Import NegotiateSpec NegotiateProofs AcceptParseProofs QualityProofs.

(* header: text/plain q=0.5, text/STAR q=0.8, STAR/STAR q=0.8 *)
Definition ex_lines : list bytes :=
  [[116;101;120;116;47;112;108;97;105;110;59;113;61;48;46;53;44;32;116;101;120;116;47;42;59;113;61;48;46;56;44;32;42;47;42;59;113;61;48;46;56]].
Definition ex_offers : list bytes :=
  [[97;112;112;108;105;99;97;116;105;111;110;47;106;115;111;110]; [116;101;120;116;47;104;116;109;108]; [116;101;120;116;47;112;108;97;105;110]].

Example ex_parse : exists specs, parse_accept ex_lines = Some specs /\ length specs = 3 /\
  (* text/html wins: matched by the text wildcard range, q 0.8, more specific than the full wildcard, although application/json is offered first *)
  negotiate_content_type specs ex_offers [] = [116;101;120;116;47;104;116;109;108].
Proof. eexists. split; [vm_compute; reflexivity|]. split; reflexivity. Qed.

(* 0.1 and a 19-digit neighbour: both literals are accepted and ordered *)
Example ex_literals :
  exists n1 d1 n2 d2,
    q_literal [48;46;49] = Some (n1, d1) /\
    q_literal [48;46;49;52;48;56;51;57;53;56;57;54;51;50;51;48;54;48;51;54;49] = Some (n2, d2) /\
    (n1 * d2 <= n2 * d1)%Z.
Proof. do 4 eexists. split; [vm_compute; reflexivity|]. split; [vm_compute; reflexivity|]. vm_compute. discriminate. Qed.
