(* ReqStateProofs.v — proofs for C09 over the model in ReqState.v: once a stage has produced a result on
   the threaded request value it is never recomputed, for every finite history of accessor calls; and
   interleaving the histories of several requests changes nothing for any of them. *)
From V Require Import Bytes ReqState ReqStateSpec.
From Coq Require Import Lia.

Ltac break_match :=
  match goal with
  | |- context [match ?x with _ => _ end] => destruct x eqn:?
  | H : context [match ?x with _ => _ end] |- _ => destruct x eqn:?
  end.

(* ---------- validateRequest touches only the parse / negotiate / bind counters ---------- *)
Lemma validate_cnt st r c :
  let c' := snd (validate st r c) in
  n_lookup c' = n_lookup c /\ n_authn c' = n_authn c /\ n_authz c' = n_authz c /\
  n_bind c <= n_bind c' <= S (n_bind c).
Proof.
  unfold validate. repeat break_match; simpl; repeat split; try lia;
    repeat match goal with H : (_, _) = (_, _) |- _ => inversion H; clear H; subst end; simpl; lia.
Qed.

(* ---------- what it means for a stage result to be cached on a request value ---------- *)
Definition cached (st : static) (o : op) (x : res) (s : state) : Prop :=
  match o, x with
  | RouteInfo, RRoute (Some v) => c_route (s_req s) = Some v
  | ContentType, RCt (Some v) => c_ct (s_req s) = Some v
  | ResponseFormat _, RFmt (Some v) => c_fmt (s_req s) = Some v
  | Authorize, RAuth 1 => c_route (s_req s) <> None /\ st_has_auth st = true /\ c_principal (s_req s) = true
  | BindAndValidate, RBind e => c_route (s_req s) <> None /\ c_bound (s_req s) = Some e
  | _, _ => False
  end.

Lemma res_eqb_refl x : res_eqb x x = true.
Proof.
  destruct x as [r|m|f|c|e| | | |]; simpl; try reflexivity;
    try (destruct r; simpl; auto using Nat.eqb_refl);
    try (destruct m; simpl; auto using Nat.eqb_refl);
    try (destruct f; simpl; auto using Nat.eqb_refl);
    try apply Nat.eqb_refl.
  induction e as [|a e IH]; simpl; [reflexivity|]. now rewrite Nat.eqb_refl.
Qed.

(* a successful call leaves its result cached on the request value it returns *)
Lemma step_caches st s o s' x same :
  step st s o = (s', x, same) -> is_success x = true -> cached st o x s'.
Proof.
  intros H Hs. unfold step in H.
  destruct o; repeat break_match;
    inversion H; subst; clear H; simpl in *; try discriminate; try reflexivity; auto;
    try (split; [congruence|]; auto).
  all: try (repeat split; congruence).
  all: repeat match goal with H : negb _ = false |- _ => apply negb_false_iff in H end.
  all: repeat split; try congruence; try assumption.
Qed.

(* a cached result survives every later call (for a principal: every call but ResetAuth) and is what a later
   call of the same stage returns, together with the very same request value *)
Lemma cached_preserved st o x s o' s' x' same' :
  cached st o x s -> step st s o' = (s', x', same') ->
  (is_auth o && is_reset o') = false ->
  cached st o x s' /\ (same_stage o o' = true -> x' = x /\ same' = true).
Proof.
  intros Hc H Hnr. unfold step in H.
  destruct o, x as [r|m|f|c|e| | | |]; simpl in Hc; try contradiction;
    try (destruct r; try contradiction); try (destruct m; try contradiction); try (destruct f; try contradiction);
    try (destruct c as [|[|c']]; try contradiction).
  all: destruct o'; simpl in Hnr; try discriminate;
    repeat break_match; inversion H; subst; clear H; simpl in *;
    try (split; [first [assumption | tauto | (repeat split; tauto)] | intros E; try discriminate E; split; congruence]).
  all: try (destruct Hc as (A & B & C); try congruence).
  all: try (destruct Hc as (A & B); try congruence).
  all: try (split; [repeat split; congruence | intros E; try discriminate E; split; congruence]).
  all: try (rewrite B in *; simpl in *; discriminate).
Qed.

Lemma later_reuse_trace st o x : forall ops s, cached st o x s ->
  later_reuse o x (combine ops (trace st ops s)) = true.
Proof.
  induction ops as [|o' r IH]; intros s Hc; cbn [trace]; [reflexivity|].
  destruct (step st s o') as [[s' x'] same'] eqn:E. cbn [combine later_reuse].
  destruct (is_auth o && is_reset o') eqn:Er; [reflexivity|].
  destruct (cached_preserved _ _ _ _ _ _ _ _ Hc E Er) as [Hc' Hsame].
  rewrite (IH s' Hc'), andb_true_r.
  destruct (same_stage o o') eqn:Es; [|reflexivity].
  destruct (Hsame eq_refl) as [-> ->]. now rewrite res_eqb_refl.
Qed.

Theorem reuse_ok_trace st : forall ops s, reuse_ok (combine ops (trace st ops s)) = true.
Proof.
  induction ops as [|o r IH]; intros s; cbn [trace]; [reflexivity|].
  destruct (step st s o) as [[s' x] same] eqn:E. cbn [combine reuse_ok].
  rewrite IH, andb_true_r. destruct (is_success x) eqn:Hs; [|reflexivity].
  apply later_reuse_trace. eapply step_caches; eassumption.
Qed.

Lemma trace_length st : forall ops s, length (trace st ops s) = length ops.
Proof.
  induction ops as [|o r IH]; intros s; cbn [trace]; [reflexivity|].
  destruct (step st s o) as [[s' x] same]. simpl. now rewrite IH.
Qed.

Lemma run_cons st o ops s : run st (o :: ops) s = run st ops (step_state st s o).
Proof. reflexivity. Qed.

(* ---------- counters ---------- *)
(* the body is consumed (the binder runs) at most once, whatever the history *)
Definition bind_inv (s : state) : Prop :=
  n_bind (s_cnt s) <= 1 /\ (c_bound (s_req s) = None -> n_bind (s_cnt s) = 0).

Lemma step_bind_inv st s o : bind_inv s -> bind_inv (step_state st s o).
Proof.
  intros [H1 H2]. unfold step_state, step.
  destruct o; repeat break_match; simpl; unfold bind_inv; simpl; try (split; [assumption|assumption]).
  all: try (split; [lia | intros; auto]).
  all: try (split; [|intros E; discriminate E]).
  all: try congruence.
  all: try (pose proof (validate_cnt st (s_req s) (s_cnt s)) as V; cbv zeta in V;
            match goal with H : validate _ _ _ = (_, _) |- _ => rewrite H in V end; simpl in V;
            assert (n_bind (s_cnt s) = 0) by (apply H2; first [assumption | reflexivity]); lia).
Qed.

Theorem bind_once st ops : n_bind (s_cnt (run st ops state0)) <= 1.
Proof.
  assert (H : forall s, bind_inv s -> bind_inv (run st ops s)).
  { induction ops as [|o r IH]; intros s Hs; [exact Hs|]. rewrite run_cons. apply IH. now apply step_bind_inv. }
  destruct (H state0) as [H1 _]; [split; simpl; [lia | reflexivity] | exact H1].
Qed.

Definition has_res (p : res -> bool) (steps : list (res * bool)) : bool := existsb (fun s => p (fst s)) steps.

Ltac open_state s := destruct s as [[cr cc cf cb cp cs] [nl nc nn na nz nb]]; simpl in *.

Ltac use_validate :=
  match goal with
  | H : validate ?st ?r ?c = (_, _) |- _ =>
    let V := fresh "V" in pose proof (validate_cnt st r c) as V; cbv zeta in V; rewrite H in V; simpl in V
  end.

(* the route is looked up once: further lookups happen only while no route matched.
   Potential: lookups so far + 1 if no route is cached yet; it never grows along a step that does not answer not-found *)
Definition phi_lookup (s : state) : nat :=
  n_lookup (s_cnt s) + match c_route (s_req s) with Some _ => 0 | None => 1 end.

Lemma step_phi_lookup st s o s' x same : step st s o = (s', x, same) ->
  res_eqb x (RRoute None) = false -> phi_lookup s' <= phi_lookup s.
Proof.
  intros E Hx. unfold phi_lookup. open_state s. unfold step in E; simpl in E.
  destruct o; repeat break_match; inversion E; subst; clear E; simpl in *; try lia; try discriminate.
  all: try (use_validate; lia).
Qed.

Lemma lookups_bound st : forall ops s,
  has_res (fun x => res_eqb x (RRoute None)) (trace st ops s) = false ->
  n_lookup (s_cnt (run st ops s)) <= phi_lookup s.
Proof.
  induction ops as [|o r IH]; intros s Hn; [unfold phi_lookup; simpl; lia|].
  rewrite run_cons. cbn [trace] in Hn. unfold step_state.
  destruct (step st s o) as [[s' x] same] eqn:E. cbn [has_res existsb fst] in Hn.
  apply orb_false_iff in Hn as [Hx Hr]. specialize (IH s' Hr). cbn [fst].
  pose proof (step_phi_lookup _ _ _ _ _ _ E Hx). lia.
Qed.

(* an authenticator that accepted with a principal is not consulted again until the principal is reset *)
Definition auth_noise (x : res) : bool := res_eqb x (RAuth 2) || res_eqb x (RAuth 3) || res_eqb x (RAuth 4).

Definition phi_authn (s : state) : nat :=
  n_authn (s_cnt s) + (if c_principal (s_req s) then 0 else 1).

Lemma step_phi_authn st s o s' x same : step st s o = (s', x, same) ->
  auth_noise x = false -> phi_authn s' <= phi_authn s + (if is_reset o then 1 else 0).
Proof.
  intros E Hx. unfold phi_authn. open_state s. unfold step in E; simpl in E.
  destruct o; repeat break_match; inversion E; subst; clear E; simpl in *; try lia; try discriminate.
  all: try (use_validate; lia).
Qed.

Lemma authn_bound st : forall ops s,
  has_res auth_noise (trace st ops s) = false ->
  n_authn (s_cnt (run st ops s)) <= phi_authn s + count_op is_reset ops.
Proof.
  induction ops as [|o r IH]; intros s Hn; [unfold phi_authn; simpl; lia|].
  rewrite run_cons. cbn [trace] in Hn. unfold step_state.
  destruct (step st s o) as [[s' x] same] eqn:E. cbn [has_res existsb fst] in Hn.
  apply orb_false_iff in Hn as [Hx Hr]. specialize (IH s' Hr). cbn [fst].
  pose proof (step_phi_authn _ _ _ _ _ _ E Hx) as P.
  unfold count_op in *. cbn [filter]. destruct (is_reset o); simpl in *; lia.
Qed.

(* binding reuses a negotiated format *)
Lemma validate_no_406 st r c f : c_fmt r = Some f -> existsb (Nat.eqb 406) (fst (validate st r c)) = false.
Proof.
  intros Hf. unfold validate. rewrite Hf.
  repeat break_match; simpl; try reflexivity;
    repeat match goal with H : (_, _) = (_, _) |- _ => inversion H; clear H; subst end; simpl; try reflexivity; try discriminate.
Qed.

Lemma bind_reuses_format_trace st : forall ops s seen_fmt seen_bind,
  (seen_fmt = true -> c_fmt (s_req s) <> None) ->
  (seen_bind = false -> c_bound (s_req s) = None) ->
  bind_reuses_format seen_fmt seen_bind (trace st ops s) = true.
Proof.
  induction ops as [|o r IH]; intros s sf sb Hf Hb; cbn [trace]; [reflexivity|].
  destruct (step st s o) as [[s' x] same] eqn:E. cbn [bind_reuses_format].
  unfold step in E. open_state s.
  destruct o; repeat break_match; inversion E; subst; clear E; cbn [bind_reuses_format];
    try (apply IH; simpl; intros; auto; try congruence; fail).
  all: try (apply andb_true_iff; split; [| apply IH; simpl; intros; auto; try congruence]).
  all: try (destruct sf; destruct sb; simpl; try reflexivity).
  all: try (specialize (Hb eq_refl); congruence).
  all: try (match goal with H : _ && _ = true |- _ => simpl in H; discriminate H end).
  destruct cf as [f0|]; [|exfalso; apply (Hf eq_refl); reflexivity].
  match goal with H : validate ?st0 ?r0 ?c0 = _ |- _ =>
    pose proof (validate_no_406 st0 r0 c0 f0 eq_refl) as V; rewrite H in V end.
  cbn [fst] in V. apply negb_true_iff. exact V.
Qed.

(* every history of the model satisfies the property's predicate over observed histories *)
Theorem trace_memo_ok st ops :
  let s := run st ops state0 in
  memo_ok ops (trace st ops state0) (n_lookup (s_cnt s)) (n_authn (s_cnt s)) (n_bind (s_cnt s)) = true.
Proof.
  cbv zeta. unfold memo_ok.
  rewrite trace_length, Nat.eqb_refl, reuse_ok_trace. cbn [andb].
  rewrite (bind_reuses_format_trace st ops state0 false false) by (intros; try discriminate; reflexivity). cbn [andb].
  pose proof (bind_once st ops) as Hb. apply Nat.leb_le in Hb. rewrite Hb. cbn [andb].
  apply andb_true_iff; split.
  - destruct (existsb _ _) eqn:Ea; [reflexivity|]. apply Nat.leb_le.
    pose proof (authn_bound st ops state0) as H. unfold has_res, auth_noise in H.
    specialize (H Ea). unfold phi_authn in H. simpl in H. lia.
  - destruct (existsb _ _) eqn:Ea; [reflexivity|]. apply Nat.leb_le.
    pose proof (lookups_bound st ops state0) as H. unfold has_res in H.
    specialize (H Ea). unfold phi_lookup in H. simpl in H. lia.
Qed.

(* ---------- the cached value itself never changes: direct statements per stage ---------- *)
Theorem route_memo st v : forall ops s, c_route (s_req s) = Some v ->
  c_route (s_req (run st ops s)) = Some v /\ n_lookup (s_cnt (run st ops s)) = n_lookup (s_cnt s).
Proof.
  induction ops as [|o r IH]; intros s H; [split; [assumption | reflexivity]|].
  rewrite run_cons.
  assert (Hstep : c_route (s_req (step_state st s o)) = Some v /\ n_lookup (s_cnt (step_state st s o)) = n_lookup (s_cnt s)).
  { unfold step_state, step. open_state s.
    destruct o; repeat break_match; simpl in *; try (split; [assumption|reflexivity]); try congruence.
    all: try (use_validate; split; [assumption | lia]). }
  destruct Hstep as [A B]. destruct (IH _ A) as [C D]. split; [assumption | lia].
Qed.

Theorem bound_memo st e : forall ops s, c_bound (s_req s) = Some e ->
  c_bound (s_req (run st ops s)) = Some e /\ n_bind (s_cnt (run st ops s)) = n_bind (s_cnt s).
Proof.
  induction ops as [|o r IH]; intros s H; [split; [assumption | reflexivity]|].
  rewrite run_cons.
  assert (Hstep : c_bound (s_req (step_state st s o)) = Some e /\ n_bind (s_cnt (step_state st s o)) = n_bind (s_cnt s)).
  { unfold step_state, step. open_state s.
    destruct o; repeat break_match; simpl in *; try (split; [assumption|reflexivity]); try congruence. }
  destruct Hstep as [A B]. destruct (IH _ A) as [C D]. split; [assumption | lia].
Qed.

(* ---------- interleaving: each request's state is its own ---------- *)
Lemma nth_error_upd_same {A} (l : list A) i v x : nth_error l i = Some x -> nth_error (upd l i v) i = Some v.
Proof. revert i; induction l as [|a l IH]; intros [|i] H; simpl in *; try discriminate; auto. Qed.

Lemma nth_error_upd_other {A} (l : list A) i j v : i <> j -> nth_error (upd l i v) j = nth_error l j.
Proof.
  revert i j; induction l as [|a l IH]; intros [|i] [|j] H; simpl; try reflexivity; try congruence.
  apply IH. congruence.
Qed.

Theorem noninterference sts : forall sched ss i st s,
  nth_error sts i = Some st -> nth_error ss i = Some s ->
  nth_error (run_many sts sched ss) i = Some (run st (ops_of i sched) s).
Proof.
  induction sched as [|[j o] r IH]; intros ss i st s Hst Hs; [exact Hs|].
  unfold run_many. cbn [fold_left]. fold (run_many sts r (step_many sts ss (j, o))).
  unfold ops_of. cbn [filter fst]. destruct (Nat.eqb j i) eqn:Eji.
  - apply Nat.eqb_eq in Eji. subst j. cbn [map snd]. fold (ops_of i r). rewrite run_cons.
    apply IH; [assumption|]. unfold step_many. cbn [fst snd]. rewrite Hst, Hs.
    eapply nth_error_upd_same; eassumption.
  - apply Nat.eqb_neq in Eji. fold (ops_of i r). apply IH; [assumption|].
    unfold step_many. cbn [fst snd].
    destruct (nth_error sts j); [|assumption]. destruct (nth_error ss j); [|assumption].
    rewrite nth_error_upd_other by assumption. assumption.
Qed.

Theorem ct_memo st v : forall ops s, c_ct (s_req s) = Some v ->
  c_ct (s_req (run st ops s)) = Some v /\ n_ctparse (s_cnt (run st ops s)) = n_ctparse (s_cnt s).
Proof.
  induction ops as [|o r IH]; intros s H; [split; [assumption | reflexivity]|].
  rewrite run_cons.
  assert (Hstep : c_ct (s_req (step_state st s o)) = Some v /\ n_ctparse (s_cnt (step_state st s o)) = n_ctparse (s_cnt s)).
  { unfold step_state, step. open_state s. subst cc.
    destruct o; repeat break_match; simpl in *; try (split; [reflexivity|reflexivity]); try congruence.
    unfold validate in *. simpl in *. repeat break_match; simpl in *;
      repeat match goal with H : (_, _) = (_, _) |- _ => inversion H; clear H; subst end; simpl; split; reflexivity. }
  destruct Hstep as [A B]. destruct (IH _ A) as [C D]. split; [assumption | lia].
Qed.

Theorem fmt_memo st v : forall ops s, c_fmt (s_req s) = Some v ->
  c_fmt (s_req (run st ops s)) = Some v /\ n_negotiate (s_cnt (run st ops s)) = n_negotiate (s_cnt s).
Proof.
  induction ops as [|o r IH]; intros s H; [split; [assumption | reflexivity]|].
  rewrite run_cons.
  assert (Hstep : c_fmt (s_req (step_state st s o)) = Some v /\ n_negotiate (s_cnt (step_state st s o)) = n_negotiate (s_cnt s)).
  { unfold step_state, step. open_state s. subst cf.
    destruct o; repeat break_match; simpl in *; try (split; [reflexivity|reflexivity]); try congruence.
    unfold validate in *. simpl in *. repeat break_match; simpl in *;
      repeat match goal with H : (_, _) = (_, _) |- _ => inversion H; clear H; subst end; simpl; split; reflexivity. }
  destruct Hstep as [A B]. destruct (IH _ A) as [C D]. split; [assumption | lia].
Qed.

(* a cached principal: no authenticator and no authorizer is consulted again as long as no ResetAuth occurs *)
Theorem principal_memo st : forall ops s, c_principal (s_req s) = true -> count_op is_reset ops = 0 ->
  c_principal (s_req (run st ops s)) = true /\
  n_authn (s_cnt (run st ops s)) = n_authn (s_cnt s) /\ n_authz (s_cnt (run st ops s)) = n_authz (s_cnt s).
Proof.
  induction ops as [|o r IH]; intros s H Hr; [repeat split; assumption || reflexivity|].
  rewrite run_cons. unfold count_op in Hr. cbn [filter] in Hr.
  assert (Hno : is_reset o = false) by (destruct (is_reset o); [simpl in Hr; discriminate | reflexivity]).
  rewrite Hno in Hr.
  assert (Hstep : c_principal (s_req (step_state st s o)) = true /\
                  n_authn (s_cnt (step_state st s o)) = n_authn (s_cnt s) /\ n_authz (s_cnt (step_state st s o)) = n_authz (s_cnt s)).
  { unfold step_state, step. open_state s. subst cp.
    destruct o; simpl in Hno; try discriminate; repeat break_match; simpl in *; try (repeat split; reflexivity).
    all: try (use_validate; repeat split; lia). }
  destruct Hstep as (A & B & C). destruct (IH _ A Hr) as (D & E & F). repeat split; [assumption | lia | lia].
Qed.

(* non-vacuity: a concrete request and history exercising every stage twice *)
Definition ex_static : static :=
  mkstatic (Some 1) true true (Some 1) true true (fun k => match k with 0 => Some 1 | _ => Some 4 end) 0 true AuthPrincipal (Some true) true.
Definition ex_ops : list op :=
  [RouteInfo; RouteInfo; ContentType; ResponseFormat 0; Authorize; BindAndValidate; BindAndValidate; Authorize; ContentType; ResponseFormat 1; ResetAuth; Authorize].

Example ex_counts :
  let s := run ex_static ex_ops state0 in
  (n_lookup (s_cnt s), n_ctparse (s_cnt s), n_negotiate (s_cnt s), n_authn (s_cnt s), n_authz (s_cnt s), n_bind (s_cnt s)) = (1, 1, 1, 2, 2, 1).
Proof. reflexivity. Qed.
