(* PathCleanProofs.v — lemmas about the model of path.Clean (Lib/PathCleanLib.v), used by C01. *)
From V Require Import Bytes PathCleanLib.

Definition slash_free (s : bytes) : bool := negb (mem_byte SL s).
Definition rooted_of (segs : list bytes) : bytes := SL :: join_slash segs.

(* ---------- split / join ---------- *)
Lemma split_slash_cons_free s : slash_free s = true -> split_slash s = [s].
Proof.
  induction s as [|c s IH]; intro H; [reflexivity|].
  unfold slash_free, mem_byte in H. cbn [existsb] in H. apply negb_true_iff in H. apply orb_false_iff in H as [H1 H2].
  cbn [split_slash]. rewrite Nat.eqb_sym in H1. rewrite H1. rewrite IH by (unfold slash_free, mem_byte; now rewrite H2).
  reflexivity.
Qed.

Lemma split_slash_app_free s : slash_free s = true -> forall t, split_slash (s ++ SL :: t) = s :: split_slash t.
Proof.
  induction s as [|c s IH]; intros H t.
  - cbn [app split_slash]. now rewrite Nat.eqb_refl.
  - unfold slash_free, mem_byte in H. cbn [existsb] in H. apply negb_true_iff in H. apply orb_false_iff in H as [H1 H2].
    cbn [app split_slash]. rewrite Nat.eqb_sym in H1. rewrite H1.
    rewrite IH by (unfold slash_free, mem_byte; now rewrite H2). reflexivity.
Qed.

Lemma split_join l : l <> [] -> forallb slash_free l = true -> split_slash (join_slash l) = l.
Proof.
  induction l as [|s r IH]; intros Hne H; [contradiction|].
  cbn [forallb] in H. apply andb_true_iff in H as [Hs Hr].
  destruct r as [|s2 r'].
  - cbn [join_slash]. exact (split_slash_cons_free s Hs).
  - change (join_slash (s :: s2 :: r')) with (s ++ SL :: join_slash (s2 :: r')).
    rewrite (split_slash_app_free s Hs). rewrite IH; [reflexivity|discriminate|exact Hr].
Qed.

Lemma cons_head_free c l : forallb slash_free l = true -> Nat.eqb c SL = false -> forallb slash_free (cons_head c l) = true.
Proof.
  intros H Hc. destruct l as [|s t]; cbn [cons_head forallb] in *.
  - unfold slash_free, mem_byte. cbn [existsb]. rewrite Nat.eqb_sym, Hc. reflexivity.
  - apply andb_true_iff in H as [H1 H2]. rewrite H2, andb_true_r.
    unfold slash_free, mem_byte in *. cbn [existsb]. rewrite Nat.eqb_sym, Hc. exact H1.
Qed.

Lemma split_slash_free p : forallb slash_free (split_slash p) = true.
Proof.
  induction p as [|c r IH]; [reflexivity|]. cbn [split_slash].
  destruct (Nat.eqb c SL) eqn:E; [cbn [forallb]; now rewrite IH|]. now apply cons_head_free.
Qed.

Lemma split_slash_nonempty p : split_slash p <> [].
Proof.
  destruct p as [|c r]; [discriminate|]. cbn [split_slash].
  destruct (Nat.eqb c SL); [discriminate|]. destruct (split_slash r); discriminate.
Qed.

(* ---------- the normaliser on segment lists ---------- *)
Lemma plain_seg_not s : plain_seg s = true ->
  is_empty s = false /\ is_dot s = false /\ is_dotdot s = false /\ slash_free s = true.
Proof.
  unfold plain_seg, slash_free. intro H. repeat (apply andb_true_iff in H as [H ?]).
  repeat split; try (now apply negb_true_iff); assumption.
Qed.

Lemma norm_rooted_app a : forall st b, norm_rooted st (a ++ b) = norm_rooted (norm_rooted st a) b.
Proof.
  induction a as [|s a IH]; intros st b; [reflexivity|]. cbn [app norm_rooted].
  destruct (is_empty s || is_dot s); [apply IH|]. destruct (is_dotdot s); apply IH.
Qed.

(* what is kept is plain: no empty, single-dot or double-dot segment, no separator inside *)
Lemma norm_rooted_plain segs : forallb slash_free segs = true -> forall st,
  forallb plain_seg st = true -> forallb plain_seg (norm_rooted st segs) = true.
Proof.
  induction segs as [|s r IH]; intros H st Hst; [exact Hst|].
  cbn [forallb] in H. apply andb_true_iff in H as [Hs Hr]. cbn [norm_rooted].
  destruct (is_empty s || is_dot s) eqn:E1; [exact (IH Hr st Hst)|].
  destruct (is_dotdot s) eqn:E2.
  - apply (IH Hr). destruct st as [|x st']; [reflexivity|]. cbn [tl forallb] in *. apply andb_true_iff in Hst. tauto.
  - apply (IH Hr). cbn [forallb]. rewrite Hst, andb_true_r. apply orb_false_iff in E1 as [E0 E1].
    unfold plain_seg. rewrite E0, E1, E2. exact Hs.
Qed.

(* a list of plain segments is kept as it is *)
Lemma norm_rooted_id l : forallb plain_seg l = true -> forall st, norm_rooted st l = rev l ++ st.
Proof.
  induction l as [|s r IH]; intros H st; [reflexivity|].
  cbn [forallb] in H. apply andb_true_iff in H as [Hs Hr].
  destruct (plain_seg_not s Hs) as (E0 & E1 & E2 & _).
  cbn [norm_rooted]. rewrite E0, E1, E2. cbn [orb]. rewrite (IH Hr). cbn [rev]. now rewrite <- app_assoc.
Qed.

Lemma forallb_rev {A} (f : A -> bool) l : forallb f (rev l) = forallb f l.
Proof.
  induction l as [|x l IH]; [reflexivity|]. cbn [rev forallb]. rewrite forallb_app, IH. cbn [forallb].
  rewrite andb_true_r. apply andb_comm.
Qed.

Lemma plain_slash_free l : forallb plain_seg l = true -> forallb slash_free l = true.
Proof.
  induction l as [|s r IH]; [reflexivity|]. cbn [forallb]. intro H. apply andb_true_iff in H as [Hs Hr].
  destruct (plain_seg_not s Hs) as (_ & _ & _ & F). now rewrite F, IH.
Qed.

(* ---------- clean on rooted paths ---------- *)
Definition kept (r : bytes) : list bytes := rev (norm_rooted [] (split_slash r)).

Lemma clean_rooted r : clean (SL :: r) = SL :: join_slash (kept r).
Proof. unfold clean. now rewrite Nat.eqb_refl. Qed.

Lemma kept_plain r : forallb plain_seg (kept r) = true.
Proof. unfold kept. rewrite forallb_rev. apply norm_rooted_plain; [apply split_slash_free|reflexivity]. Qed.

(* clean of the rooted path written with the segments segs *)
Lemma clean_rooted_of segs : forallb slash_free segs = true ->
  clean (rooted_of segs) = SL :: join_slash (rev (norm_rooted [] segs)).
Proof.
  intro H. unfold rooted_of. rewrite clean_rooted. unfold kept.
  destruct segs as [|s t]; [reflexivity|]. rewrite split_join; [reflexivity|discriminate|exact H].
Qed.

Theorem clean_idem_rooted r : clean (clean (SL :: r)) = clean (SL :: r).
Proof.
  rewrite clean_rooted. pose proof (kept_plain r) as Hp.
  change (SL :: join_slash (kept r)) with (rooted_of (kept r)).
  rewrite (clean_rooted_of _ (plain_slash_free _ Hp)). unfold rooted_of.
  rewrite (norm_rooted_id _ Hp). now rewrite app_nil_r, rev_involutive.
Qed.

(* a rooted input yields the root, or a rooted path whose segments are non-empty, are neither the
   single nor the double dot and hold no separator; in particular no trailing separator *)
Theorem clean_rooted_normal r : rooted_normal (clean (SL :: r)) = true.
Proof.
  rewrite clean_rooted. unfold rooted_normal. rewrite Nat.eqb_refl. cbn [andb].
  pose proof (kept_plain r) as Hp. destruct (kept r) as [|s t] eqn:E; [reflexivity|].
  rewrite split_join; [now rewrite Hp, orb_true_r|discriminate|exact (plain_slash_free _ Hp)].
Qed.

(* the same, spelled out: clean of a rooted path is the separator followed by the plain segments it
   keeps, joined by separators *)
Theorem clean_rooted_shape r : exists l, clean (SL :: r) = rooted_of l /\ forallb plain_seg l = true.
Proof. exists (kept r). split; [apply clean_rooted|apply kept_plain]. Qed.

(* a rooted path in normal form is left unchanged *)
Theorem clean_normal_id l : forallb plain_seg l = true -> clean (rooted_of l) = rooted_of l.
Proof.
  intro Hp. rewrite (clean_rooted_of _ (plain_slash_free _ Hp)), (norm_rooted_id _ Hp).
  now rewrite app_nil_r, rev_involutive.
Qed.

(* ---------- the concrete laws: duplicate separators, dot segments, trailing separator ---------- *)
Lemma slash_free_app3 a x b : forallb slash_free a = true -> forallb slash_free x = true -> forallb slash_free b = true ->
  forallb slash_free (a ++ x ++ b) = true.
Proof. intros Ha Hx Hb. now rewrite !forallb_app, Ha, Hx, Hb. Qed.

(* an empty segment (two separators in a row, or a trailing separator when b is empty) *)
Theorem clean_empty_segment a b : forallb slash_free a = true -> forallb slash_free b = true ->
  clean (rooted_of (a ++ [] :: b)) = clean (rooted_of (a ++ b)).
Proof.
  intros Ha Hb. rewrite (clean_rooted_of (a ++ [] :: b)) by (apply (slash_free_app3 a [[]] b); auto).
  rewrite (clean_rooted_of (a ++ b)) by (rewrite forallb_app, Ha, Hb; reflexivity).
  now rewrite !norm_rooted_app.
Qed.

(* a single-dot segment *)
Theorem clean_dot_segment a b : forallb slash_free a = true -> forallb slash_free b = true ->
  clean (rooted_of (a ++ [DOT] :: b)) = clean (rooted_of (a ++ b)).
Proof.
  intros Ha Hb. rewrite (clean_rooted_of (a ++ [DOT] :: b)) by (apply (slash_free_app3 a [[DOT]] b); auto).
  rewrite (clean_rooted_of (a ++ b)) by (rewrite forallb_app, Ha, Hb; reflexivity).
  now rewrite !norm_rooted_app.
Qed.

(* a plain segment followed by a double-dot segment *)
Theorem clean_dotdot_segment a s b : forallb slash_free a = true -> plain_seg s = true -> forallb slash_free b = true ->
  clean (rooted_of (a ++ s :: [DOT; DOT] :: b)) = clean (rooted_of (a ++ b)).
Proof.
  intros Ha Hs Hb. destruct (plain_seg_not s Hs) as (E0 & E1 & E2 & F).
  rewrite (clean_rooted_of (a ++ s :: [DOT; DOT] :: b)).
  2:{ apply (slash_free_app3 a [s; [DOT; DOT]] b); auto. cbn [forallb]. now rewrite F. }
  rewrite (clean_rooted_of (a ++ b)) by (rewrite forallb_app, Ha, Hb; reflexivity).
  rewrite !norm_rooted_app. cbn [norm_rooted]. rewrite E0, E1, E2. reflexivity.
Qed.

(* a double-dot segment at the root is dropped *)
Theorem clean_leading_dotdot b : forallb slash_free b = true ->
  clean (rooted_of ([DOT; DOT] :: b)) = clean (rooted_of b).
Proof.
  intro Hb. rewrite (clean_rooted_of ([DOT; DOT] :: b)) by (cbn [forallb]; now rewrite Hb).
  rewrite (clean_rooted_of b Hb). reflexivity.
Qed.

(* writing a separator after a non-empty list of segments is appending an empty segment *)
Lemma join_trailing a : a <> [] -> join_slash (a ++ [[]]) = join_slash a ++ [SL].
Proof.
  induction a as [|s r IH]; intro H; [contradiction|]. destruct r as [|s2 r'].
  - cbn. reflexivity.
  - change (join_slash ((s :: s2 :: r') ++ [[]])) with (s ++ SL :: join_slash ((s2 :: r') ++ [[]])).
    rewrite IH by discriminate. change (join_slash (s :: s2 :: r')) with (s ++ SL :: join_slash (s2 :: r')).
    now rewrite <- app_assoc.
Qed.

Theorem clean_trailing_slash a : a <> [] -> forallb slash_free a = true ->
  clean (rooted_of a ++ [SL]) = clean (rooted_of a).
Proof.
  intros Hne Ha.
  assert (E : rooted_of a ++ [SL] = rooted_of (a ++ [] :: []))
    by (unfold rooted_of; cbn [app]; f_equal; symmetry; apply join_trailing; exact Hne).
  rewrite E. etransitivity; [exact (clean_empty_segment a [] Ha eq_refl)|]. now rewrite app_nil_r.
Qed.

(* ---------- clean on relative paths ---------- *)
Definition rel_result (N : nat * list bytes) : bytes :=
  match repeat [DOT; DOT] (fst N) ++ rev (snd N) with
  | [] => [DOT]
  | l => join_slash l
  end.

Lemma clean_rel c r : Nat.eqb c SL = false ->
  clean (c :: r) = rel_result (norm_rel 0 [] (split_slash (c :: r))).
Proof.
  intro H. unfold clean, rel_result. rewrite H. destruct (norm_rel 0 [] (split_slash (c :: r))) as [u st]. reflexivity.
Qed.

Lemma norm_rel_plain segs : forallb slash_free segs = true -> forall u st,
  forallb plain_seg st = true -> forallb plain_seg (snd (norm_rel u st segs)) = true.
Proof.
  induction segs as [|s r IH]; intros H u st Hst; [exact Hst|].
  cbn [forallb] in H. apply andb_true_iff in H as [Hs Hr]. cbn [norm_rel].
  destruct (is_empty s || is_dot s) eqn:E1; [exact (IH Hr u st Hst)|].
  destruct (is_dotdot s) eqn:E2.
  - destruct st as [|x st']; [exact (IH Hr (S u) [] eq_refl)|].
    apply (IH Hr). cbn [forallb] in Hst. apply andb_true_iff in Hst. tauto.
  - apply (IH Hr). cbn [forallb]. rewrite Hst, andb_true_r. apply orb_false_iff in E1 as [E0 E1].
    unfold plain_seg. rewrite E0, E1, E2. exact Hs.
Qed.

Lemma norm_rel_id l : forallb plain_seg l = true -> forall u st, norm_rel u st l = (u, rev l ++ st).
Proof.
  induction l as [|s r IH]; intros H u st; [reflexivity|].
  cbn [forallb] in H. apply andb_true_iff in H as [Hs Hr].
  destruct (plain_seg_not s Hs) as (E0 & E1 & E2 & _).
  cbn [norm_rel]. rewrite E0, E1, E2. cbn [orb]. rewrite (IH Hr). cbn [rev]. now rewrite <- app_assoc.
Qed.

Lemma norm_rel_ups n : forall u l, norm_rel u [] (repeat [DOT; DOT] n ++ l) = norm_rel (u + n) [] l.
Proof.
  induction n as [|n IH]; intros u l.
  - cbn [repeat app]. now rewrite Nat.add_0_r.
  - cbn [repeat app]. change (norm_rel u [] ([DOT; DOT] :: repeat [DOT; DOT] n ++ l))
      with (norm_rel (S u) [] (repeat [DOT; DOT] n ++ l)).
    rewrite IH. f_equal. lia.
Qed.

Lemma repeat_dd_free n : forallb slash_free (repeat [DOT; DOT] n) = true.
Proof. induction n as [|n IH]; [reflexivity|]. cbn [repeat forallb]. now rewrite IH. Qed.

(* the first byte of a joined list whose first segment is non-empty *)
Lemma join_head c s t : exists rest, join_slash ((c :: s) :: t) = c :: rest.
Proof. cbn [join_slash]. destruct t; eexists; reflexivity. Qed.

Lemma head_not_slash c s : slash_free (c :: s) = true -> Nat.eqb c SL = false.
Proof.
  unfold slash_free, mem_byte. cbn [existsb]. intro H. apply negb_true_iff in H. apply orb_false_iff in H as [H _].
  now rewrite Nat.eqb_sym.
Qed.

(* a relative path in normal form (leading double dots, then plain segments) is left unchanged *)
Lemma clean_rel_normal u l : forallb plain_seg l = true -> repeat [DOT; DOT] u ++ l <> [] ->
  clean (join_slash (repeat [DOT; DOT] u ++ l)) = join_slash (repeat [DOT; DOT] u ++ l).
Proof.
  intros Hp Hne.
  assert (Hfree : forallb slash_free (repeat [DOT; DOT] u ++ l) = true)
    by (rewrite forallb_app; apply andb_true_iff; split; [apply repeat_dd_free|apply plain_slash_free; exact Hp]).
  assert (Hhead : exists c s t, repeat [DOT; DOT] u ++ l = (c :: s) :: t /\ Nat.eqb c SL = false).
  { destruct u as [|u].
    - cbn [repeat app] in *. destruct l as [|s t]; [contradiction|]. cbn [forallb] in Hp.
      apply andb_true_iff in Hp as [Hs _]. destruct (plain_seg_not s Hs) as (E0 & _ & _ & F).
      destruct s as [|c s]; [discriminate|]. exists c, s, t. split; [reflexivity|exact (head_not_slash c s F)].
    - cbn [repeat app]. exists DOT, [DOT], (repeat [DOT; DOT] u ++ l). split; reflexivity. }
  destruct Hhead as (c & s & t & Eo & Hc).
  destruct (join_head c s t) as [rest Ej]. rewrite <- Eo in Ej.
  assert (Ec : clean (c :: rest) = rel_result (norm_rel 0 [] (split_slash (c :: rest)))) by (apply clean_rel; exact Hc).
  rewrite Ej. rewrite Ec. rewrite <- Ej.
  rewrite (split_join _ Hne Hfree). rewrite norm_rel_ups, (norm_rel_id _ Hp).
  unfold rel_result. cbn [fst snd Nat.add]. rewrite app_nil_r, rev_involutive.
  rewrite Eo. rewrite <- Eo. reflexivity.
Qed.

Theorem clean_idem_rel c r : Nat.eqb c SL = false -> clean (clean (c :: r)) = clean (c :: r).
Proof.
  intro Hc. rewrite (clean_rel c r Hc).
  destruct (norm_rel 0 [] (split_slash (c :: r))) as [u st] eqn:EN.
  assert (Hst : forallb plain_seg st = true).
  { pose proof (norm_rel_plain (split_slash (c :: r)) (split_slash_free _) 0 [] eq_refl) as H. now rewrite EN in H. }
  unfold rel_result. cbn [fst snd].
  destruct (repeat [DOT; DOT] u ++ rev st) as [|s t] eqn:Eo; [reflexivity|].
  rewrite <- Eo. apply clean_rel_normal; [now rewrite forallb_rev|rewrite Eo; discriminate].
Qed.

(* path.Clean is idempotent on every input *)
Theorem clean_idem p : clean (clean p) = clean p.
Proof.
  destruct p as [|c r]; [reflexivity|]. destruct (Nat.eqb c SL) eqn:E.
  - apply Nat.eqb_eq in E. subst c. apply clean_idem_rooted.
  - exact (clean_idem_rel c r E).
Qed.
