(* CSVGlueProofs.v — lemmas about the CSV glue model (C16). *)
From Coq Require Import List ZArith Bool Arith Lia.
From V Require Import Bytes CSVGlue CSVSpec.
Import ListNotations.

(* ---------- options ---------- *)

(* the options that reach a fresh reader / writer are the requested ones *)
Lemma applied_reader_opts_are_requested o : apply_to_reader (o_r o) default_ropts = requested_ropts o.
Proof.
  unfold apply_to_reader, requested_ropts, default_ropts; cbn [r_comma r_comment r_fpr].
  destruct (r_comma (o_r o)) as [|c] eqn:Ec; cbn [Nat.eqb];
    destruct (r_comment (o_r o)) as [|m] eqn:Em; cbn [Nat.eqb];
    destruct (Z.eqb_spec (r_fpr (o_r o)) 0) as [Ef|Ef]; try rewrite Ef; reflexivity.
Qed.

Lemma applied_writer_opts_are_requested o : apply_to_writer (o_w o) default_wopts = requested_wopts o.
Proof.
  unfold apply_to_writer, requested_wopts, default_wopts; cbn [w_comma].
  destruct (w_comma (o_w o)) as [|c]; reflexivity.
Qed.

Lemma drop_z_skipn k l : drop_z k l = skipn (Z.to_nat k) l.
Proof.
  unfold drop_z. destruct (Z.leb_spec (Z.of_nat (length l)) k) as [H|H]; [|reflexivity].
  symmetry. apply skipn_all2. lia.
Qed.

Lemma record_eqb_refl r : record_eqb r r = true.
Proof. induction r as [|f r IH]; [reflexivity|]. unfold record_eqb in *. cbn [list_eqb]. rewrite bytes_eqb_refl. exact IH. Qed.

Lemma records_eqb_refl l : records_eqb l l = true.
Proof. induction l as [|r l IH]; [reflexivity|]. unfold records_eqb in *. cbn [list_eqb]. rewrite record_eqb_refl. exact IH. Qed.

(* ---------- one Read ---------- *)

Lemma look_top rec st : look (length st) (rec :: st) = rec.
Proof. unfold look. cbn [length]. replace (S (length st) - 1 - length st) with 0 by lia. reflexivity. Qed.

Lemma firstn_overwrite rec buf : firstn (length rec) (overwrite rec buf) = rec.
Proof.
  unfold overwrite. rewrite firstn_app, Nat.sub_diag, firstn_all. cbn [firstn]. apply app_nil_r.
Qed.

(* what a reader still holds: the records it will yield and how it ends *)
Definition content (r : rdr) : list record * option bytes := rd_read_all r.

Lemma remaining_content r : remaining r = length (fst (content r)).
Proof. destruct r; reflexivity. Qed.

(* a Read answers with the next record (a handle that, right now, reads as that record), or with the end *)
Lemma read_step r st :
  match content r with
  | ([], None) => rd_read r st = (RdEOF, r, st)
  | ([], Some e) => rd_read r st = (RdErr e, r, st)
  | (rec :: rest, fin) =>
    exists h r' st', rd_read r st = (RdRec h, r', st') /\ deref st' h = rec /\ content r' = (rest, fin)
  end.
Proof.
  destruct r as [pending fin reuse|rows]; cbn [content rd_read_all].
  - destruct pending as [|rec rest].
    + destruct fin; reflexivity.
    + destruct reuse.
      * cbn [rd_read]. destruct st as [|buf tl].
        -- exists (HBuf 0 (length rec)), (RCsv rest fin true), [rec]. repeat split.
           cbn [deref]. change 0 with (length (@nil (list field))). rewrite look_top. apply firstn_all.
        -- destruct (length rec <=? length buf) eqn:E.
           ++ exists (HBuf (length tl) (length rec)), (RCsv rest fin true), (overwrite rec buf :: tl). repeat split.
              cbn [deref]. rewrite look_top. apply firstn_overwrite.
           ++ exists (HBuf (length (buf :: tl)) (length rec)), (RCsv rest fin true), (rec :: buf :: tl). repeat split.
              cbn [deref]. rewrite look_top. apply firstn_all.
      * exists (HVal rec), (RCsv rest fin false), st. repeat split.
  - destruct rows as [|rec rest]; [reflexivity|].
    exists (HVal rec), (RTable rest), st. repeat split.
Qed.

(* ---------- the skip loop ---------- *)

Lemma skip_loop_spec k : forall r st recs fin, content r = (recs, fin) ->
  (k <= length recs ->
     exists r' st', skip_loop k r st = SkCont r' st' /\ content r' = (skipn k recs, fin)) /\
  (length recs < k ->
     skip_loop k r st = match fin with None => SkEOF | Some e => SkErr e end).
Proof.
  induction k as [|k IH]; intros r st recs fin Hc.
  - split; [|lia]. intros _. exists r, st. split; [reflexivity|]. exact Hc.
  - pose proof (read_step r st) as Hs. rewrite Hc in Hs. cbn [skip_loop].
    destruct recs as [|rec rest].
    + split; [cbn [length]; lia|]. intros _.
      destruct fin as [e|]; rewrite Hs; reflexivity.
    + destruct Hs as (h & r' & st' & Hr & _ & Hc'). rewrite Hr.
      destruct (IH r' st' rest fin Hc') as [IH1 IH2]. cbn [length skipn]. split.
      * intros Hle. apply IH1. lia.
      * intros Hlt. apply IH2. lia.
Qed.

Lemma skip_count_spec k r :
  skip_count k r = Nat.min (Z.to_nat k) (S (remaining r)).
Proof.
  unfold skip_count. destruct (Z.leb_spec k 0) as [H0|H0]; [lia|].
  destruct (Z.leb_spec (Z.of_nat (S (remaining r))) k) as [H|H]; lia.
Qed.

(* the skip phase as a whole: the reader positioned after the skipped records, or the end met inside them *)
Lemma skip_phase k r st recs fin : content r = (recs, fin) ->
  (Z.to_nat k <= length recs /\
     exists r' st', skip_loop (skip_count k r) r st = SkCont r' st' /\ content r' = (skipn (Z.to_nat k) recs, fin)) \/
  (length recs < Z.to_nat k /\ skipn (Z.to_nat k) recs = [] /\
     skip_loop (skip_count k r) r st = match fin with None => SkEOF | Some e => SkErr e end).
Proof.
  intros Hc. rewrite skip_count_spec, remaining_content, Hc. cbn [fst].
  destruct (le_lt_dec (Z.to_nat k) (length recs)) as [Hle|Hlt].
  - left. split; [exact Hle|].
    replace (Nat.min (Z.to_nat k) (S (length recs))) with (Z.to_nat k) by lia.
    apply (proj1 (skip_loop_spec _ r st recs fin Hc)). exact Hle.
  - right. split; [exact Hlt|]. split; [apply skipn_all2; lia|].
    replace (Nat.min (Z.to_nat k) (S (length recs))) with (S (length recs)) by lia.
    apply (proj2 (skip_loop_spec _ r st recs fin Hc)). lia.
Qed.

(* ---------- the copy loop ---------- *)

(* what a Write amounts to when the writer consumes or copies the record: the record's text is appended *)
Definition w_add (w : wtr) (rec : record) : wtr :=
  match w with
  | WCsv written => WCsv (written ++ [rec])
  | WTable rows => WTable (rows ++ [HVal rec])
  end.

Lemma w_write_copying w h st : w_write_with true w h st = w_add w (deref st h).
Proof. destruct w; reflexivity. Qed.

Lemma pipe_loop_spec : forall recs fuel r w st fin, content r = (recs, fin) -> length recs < fuel ->
  match fin with
  | Some e => pipe_loop_with true fuel r w st = PErr e
  | None => exists st', pipe_loop_with true fuel r w st = PDone (fold_left w_add recs w) st'
  end.
Proof.
  induction recs as [|rec rest IH]; intros fuel r w st fin Hc Hf;
    (destruct fuel as [|fuel]; [cbn [length] in Hf; lia|]);
    pose proof (read_step r st) as Hs; rewrite Hc in Hs; cbn [pipe_loop_with].
  - destruct fin as [e|]; rewrite Hs; [reflexivity|]. exists st. reflexivity.
  - destruct Hs as (h & r' & st' & Hr & Hd & Hc'). rewrite Hr, w_write_copying, Hd.
    cbn [fold_left]. apply IH; [exact Hc'|]. cbn [length] in Hf. lia.
Qed.

Lemma records_writer_copies_true : records_writer_copies = true.
Proof. reflexivity. Qed.

(* pipeCSV: the parser's error, or the writer having been handed exactly the records after the skipped ones *)
Lemma pipe_csv_spec w r st k recs fin : content r = (recs, fin) ->
  match fin with
  | Some e => pipe_csv w r st k = PErr e
  | None => exists st', pipe_csv w r st k = PDone (fold_left w_add (skipn (Z.to_nat k) recs) w) st'
  end.
Proof.
  intros Hc. unfold pipe_csv, pipe_csv_with. rewrite records_writer_copies_true.
  destruct (skip_phase k r st recs fin Hc) as [(Hle & r' & st' & Hs & Hc')|(Hlt & Hnil & Hs)]; rewrite Hs.
  - rewrite remaining_content, Hc'. cbn [fst].
    apply (pipe_loop_spec _ _ r' w st' fin Hc'). lia.
  - destruct fin as [e|]; [reflexivity|]. exists st. rewrite Hnil. reflexivity.
Qed.

(* bufferedCSV likewise *)
Lemma buffered_csv_spec r st k recs fin : content r = (recs, fin) ->
  match fin with
  | Some e => buffered_csv r st k = BErr e
  | None => buffered_csv r st k = BDone (skipn (Z.to_nat k) recs) \/
            (buffered_csv r st k = BEarly /\ skipn (Z.to_nat k) recs = [])
  end.
Proof.
  intros Hc. unfold buffered_csv.
  destruct (skip_phase k r st recs fin Hc) as [(Hle & r' & st' & Hs & Hc')|(Hlt & Hnil & Hs)]; rewrite Hs.
  - unfold content in Hc'. rewrite Hc'. destruct fin as [e|]; [reflexivity|]. left. reflexivity.
  - destruct fin as [e|]; [reflexivity|]. right. split; [reflexivity|exact Hnil].
Qed.

(* ---------- what the writer holds afterwards ---------- *)

Lemma w_records_add w rec st : w_records (w_add w rec) st = w_records w st ++ [rec].
Proof. destruct w; cbn [w_add w_records]; [reflexivity|]. rewrite map_app. reflexivity. Qed.

Lemma w_records_fold recs : forall w st, w_records (fold_left w_add recs w) st = w_records w st ++ recs.
Proof.
  induction recs as [|rec rest IH]; intros w st; cbn [fold_left].
  - symmetry. apply app_nil_r.
  - rewrite IH, w_records_add, <- app_assoc. reflexivity.
Qed.

Definition all_values (rows : list handle) : Prop := Forall (fun h => exists r, h = HVal r) rows.

Lemma wtr_rows_fold recs : forall w, all_values (wtr_rows w) -> all_values (wtr_rows (fold_left w_add recs w)).
Proof.
  induction recs as [|rec rest IH]; intros w Hw; cbn [fold_left]; [exact Hw|].
  apply IH. destruct w; cbn [w_add wtr_rows] in *; [constructor|].
  apply Forall_app. split; [exact Hw|]. constructor; [|constructor]. exists rec. reflexivity.
Qed.

Lemma all_values_no_sharing rows : all_values rows -> shares_buffer rows = false.
Proof.
  induction 1 as [|h rows (r & ->) _ IH]; [reflexivity|]. cbn [shares_buffer]. exact IH.
Qed.

Lemma all_values_store_independent rows : all_values rows -> forall st1 st2, map (deref st1) rows = map (deref st2) rows.
Proof.
  induction 1 as [|h rows (r & ->) _ IH]; intros st1 st2; [reflexivity|].
  cbn [map deref]. f_equal. apply IH.
Qed.

(* ---------- what a caller's CSVWriter is handed ---------- *)

(* a reader that does not reuse its record answers every Read with a private slice, and stays such a reader *)
Lemma read_fresh r st : reader_reuses r = false ->
  match rd_read r st with
  | (RdRec h, r', _) => (exists rec, h = HVal rec) /\ reader_reuses r' = false
  | _ => True
  end.
Proof.
  destruct r as [pending fin reuse|rows]; cbn [reader_reuses]; intros H.
  - subst reuse. destruct pending as [|rec rest]; cbn [rd_read].
    + destruct fin; exact I.
    + split; [exists rec; reflexivity|reflexivity].
  - destruct rows as [|rec rest]; cbn [rd_read]; [exact I|].
    split; [exists rec; reflexivity|reflexivity].
Qed.

Lemma skip_loop_fresh k : forall r st r' st', reader_reuses r = false ->
  skip_loop k r st = SkCont r' st' -> reader_reuses r' = false.
Proof.
  induction k as [|k IH]; intros r st r' st' Hf H; cbn [skip_loop] in H.
  - inversion H; subst; exact Hf.
  - pose proof (read_fresh r st Hf) as Hr. destruct (rd_read r st) as [[res r1] st1].
    destruct res as [h| |e]; try discriminate H.
    destruct Hr as [_ Hf1]. exact (IH _ _ _ _ Hf1 H).
Qed.

(* the copy loop into a writer that keeps the very slices it is handed *)
Lemma pipe_loop_retaining_fresh fuel : forall r w st w' st', reader_reuses r = false -> all_values (wtr_rows w) ->
  pipe_loop_with false fuel r w st = PDone w' st' -> all_values (wtr_rows w').
Proof.
  induction fuel as [|f IH]; intros r w st w' st' Hf Hw H; cbn [pipe_loop_with] in H; [discriminate H|].
  pose proof (read_fresh r st Hf) as Hr. destruct (rd_read r st) as [[res r1] st1].
  destruct res as [h| |e].
  - destruct Hr as [(rec & ->) Hf1]. apply (IH _ _ _ _ _ Hf1) in H; [exact H|].
    destruct w as [written|rows]; cbn [w_write_with wtr_rows] in *; [constructor|].
    apply Forall_app. split; [exact Hw|]. constructor; [|constructor]. exists rec. reflexivity.
  - inversion H; subst; exact Hw.
  - discriminate H.
Qed.

(* without ReuseRecord, whatever pipeCSV hands to a writer that retains the slices (any store before, any skip count):
   no two of them share a buffer and they read the same in every later state of the store *)
Lemma handed_records_private r st k w' st' : reader_reuses r = false ->
  pipe_csv_with false (WTable []) r st k = PDone w' st' ->
  shares_buffer (wtr_rows w') = false /\ (forall later, w_records w' later = w_records w' st').
Proof.
  intros Hf H. unfold pipe_csv_with in H.
  assert (Hv : all_values (wtr_rows w')).
  { destruct (skip_loop (skip_count k r) r st) as [|e|r1 st1] eqn:Hs.
    - inversion H; subst. constructor.
    - discriminate H.
    - apply (pipe_loop_retaining_fresh (S (remaining r1)) r1 (WTable []) st1 w' st'); [|constructor|exact H].
      exact (skip_loop_fresh _ _ _ _ _ Hf Hs). }
  split; [apply all_values_no_sharing; exact Hv|].
  intros later. destruct w' as [written|rows]; cbn [w_records wtr_rows] in *; [reflexivity|].
  apply all_values_store_independent. exact Hv.
Qed.

(* so the aliasing flag of a caller's CSVWriter is never raised *)
Lemma handed_alias_false r k : handed_alias r k = false.
Proof.
  unfold handed_alias. destruct (reader_reuses r) eqn:Hf; [reflexivity|].
  destruct (pipe_csv_with false (WTable []) r [] k) as [e|w st|] eqn:H; try reflexivity.
  exact (proj1 (handed_records_private r [] k w st Hf H)).
Qed.

(* ---------- the destination table ---------- *)

Lemma table_resets_len_true : table_resets_len = true.
Proof. reflexivity. Qed.

Lemma t_setlen_ok n t : n <= t_cap t -> t_setlen n t = Some (mkT n (t_cap t)).
Proof. intros H. unfold t_setlen. destruct (t_cap t <? n) eqn:E; [apply Nat.ltb_lt in E; lia|reflexivity]. Qed.

Lemma t_setcap_ok n t : t_len t <= n -> n <= t_cap t -> t_setcap n t = Some (mkT (t_len t) n).
Proof.
  intros H1 H2. unfold t_setcap.
  destruct (n <? t_len t) eqn:E1; [apply Nat.ltb_lt in E1; lia|].
  destruct (t_cap t <? n) eqn:E2; [apply Nat.ltb_lt in E2; lia|]. reflexivity.
Qed.

Lemma t_grow_ok n t : exists c, t_grow n t = Some (mkT (t_len t) c) /\ t_len t + n <= c.
Proof.
  unfold t_grow. destruct (t_len t + n <=? t_cap t) eqn:E.
  - apply Nat.leb_le in E. exists (t_cap t). destruct t; split; [reflexivity|exact E].
  - exists (t_len t + n). split; [reflexivity|lia].
Qed.

(* no (len, cap) of the destination makes the resize sequence panic, and it ends with len = cap = n *)
Lemma t_store_total n t : t_store n t = Some (mkT n n).
Proof.
  unfold t_store, t_store_with. rewrite table_resets_len_true.
  rewrite (t_setlen_ok 0 t) by lia. cbn [obind].
  destruct (t_grow_ok n (mkT 0 (t_cap t))) as (c & -> & Hc). cbn [t_len Nat.add obind] in *.
  rewrite (t_setcap_ok n (mkT 0 c)) by (cbn [t_len t_cap]; lia). cbn [obind t_len].
  rewrite (t_setlen_ok n (mkT 0 n)) by (cbn [t_cap]; lia). reflexivity.
Qed.

Lemma t_copy_exact recs : t_copy (mkT (length recs) (length recs)) recs = recs.
Proof. unfold t_copy. cbn [t_len]. rewrite firstn_all, Nat.sub_diag. apply app_nil_r. Qed.

(* the pre-fix sequence does panic: a table of length 1, nothing delivered *)
Example t_store_before_fix_panics : t_store_with false 0 (mkT 1 7) = None.
Proof. reflexivity. Qed.

(* ---------- CSVConsumer / CSVProducer ---------- *)

(* what a destination of kind k shows once it was handed recs (len = cap = number of rows for the table) *)
Definition shown (render : wopts -> list record -> bytes) (o : opts) (k : dkind) (recs : list record) : outcome :=
  match k with
  | DCSVWriter => ORecs recs 0 0 false
  | DRecords => ORecs recs (length recs) (length recs) false
  | _ => OBytes (rendering render (requested_wopts o) recs)
  end.

Section Oracles.
  Variable parse : ropts -> bytes -> presult.
  Variable render : wopts -> list record -> bytes.

  Lemma content_reader_over ro text :
    content (reader_over parse ro text) = (p_recs (parse ro text), p_end (parse ro text)).
  Proof. reflexivity. Qed.

  Lemma via_pipe_bytes_spec wo r k recs fin : content r = (recs, fin) ->
    via_pipe_bytes render wo r k =
    match fin with
    | Some e => OErr (EParser e)
    | None => OBytes (rendering render wo (skipn (Z.to_nat k) recs))
    end.
  Proof.
    intros Hc. unfold via_pipe_bytes. pose proof (pipe_csv_spec (WCsv []) r [] k recs fin Hc) as H.
    destruct fin as [e|]; [rewrite H; reflexivity|]. destruct H as (st' & ->).
    rewrite w_records_fold. cbn [w_records app]. unfold rendering.
    destruct (skipn (Z.to_nat k) recs); reflexivity.
  Qed.

  Lemma via_buffer_bytes_spec wo r k recs fin : content r = (recs, fin) ->
    via_buffer_bytes render wo r k =
    match fin with
    | Some e => OErr (EParser e)
    | None => OBytes (rendering render wo (skipn (Z.to_nat k) recs))
    end.
  Proof.
    intros Hc. unfold via_buffer_bytes. pose proof (buffered_csv_spec r [] k recs fin Hc) as H.
    destruct fin as [e|]; [rewrite H; reflexivity|]. destruct H as [->|(-> & Hn)].
    - unfold rendering. destruct (skipn (Z.to_nat k) recs); reflexivity.
    - rewrite Hn. reflexivity.
  Qed.

  (* the complete behaviour of the consumer on a usable destination, for every kind, option set, skip count,
     text, and pre-state of the table *)
  Lemma consume_spec o d text : d_usable d = true ->
    consume parse render o d text =
    match p_end (parse (requested_ropts o) text) with
    | Some e => OErr (EParser e)
    | None => shown render o (d_kind d) (skipn (Z.to_nat (o_skip o)) (p_recs (parse (requested_ropts o) text)))
    end.
  Proof.
    intros Hu. unfold d_usable in Hu. apply andb_true_iff in Hu as [Hn Hcmp].
    apply negb_true_iff in Hn. unfold consume. rewrite Hn.
    rewrite applied_reader_opts_are_requested, applied_writer_opts_are_requested.
    set (ro := requested_ropts o). set (pr := parse ro text).
    assert (Hc : content (reader_over parse ro text) = (p_recs pr, p_end pr)) by reflexivity.
    destruct (d_kind d) eqn:Ek; cbn [shown].
    - rewrite (via_pipe_bytes_spec _ _ _ _ _ Hc). destruct (p_end pr); reflexivity.
    - pose proof (pipe_csv_spec (WCsv []) _ [] (o_skip o) _ _ Hc) as H.
      destruct (p_end pr) as [e|]; [rewrite H; reflexivity|]. destruct H as (st' & ->).
      rewrite w_records_fold, handed_alias_false. reflexivity.
    - rewrite (via_pipe_bytes_spec _ _ _ _ _ Hc). destruct (p_end pr); reflexivity.
    - rewrite (via_buffer_bytes_spec _ _ _ _ _ Hc). destruct (p_end pr); reflexivity.
    - rewrite (via_buffer_bytes_spec _ _ _ _ _ Hc). destruct (p_end pr); reflexivity.
    - cbn [negb orb] in Hcmp. rewrite orb_false_r in Hcmp. rewrite Hcmp. cbn [negb andb].
      pose proof (pipe_csv_spec (WTable []) _ [] (o_skip o) _ _ Hc) as H.
      destruct (p_end pr) as [e|]; [rewrite H; reflexivity|]. destruct H as (st' & ->).
      rewrite w_records_fold. cbn [w_records map app]. rewrite t_store_total. cbn [t_len t_cap].
      rewrite t_copy_exact, all_values_no_sharing; [reflexivity|].
      apply wtr_rows_fold. constructor.
    - rewrite (via_buffer_bytes_spec _ _ _ _ _ Hc). destruct (p_end pr); reflexivity.
    - rewrite (via_buffer_bytes_spec _ _ _ _ _ Hc). destruct (p_end pr); reflexivity.
  Qed.

  (* the complete behaviour of the producer on a usable source *)
  Lemma produce_spec o s : s_usable s = true ->
    produce parse render o s =
    match p_end (source_input parse o s) with
    | Some e => OErr (EParser e)
    | None => OBytes (rendering render (requested_wopts o) (skipn (Z.to_nat (o_skip o)) (p_recs (source_input parse o s))))
    end.
  Proof.
    intros Hu. unfold s_usable in Hu. apply andb_true_iff in Hu as [Hn Hcmp].
    apply negb_true_iff in Hn. unfold produce. rewrite Hn.
    rewrite applied_reader_opts_are_requested, applied_writer_opts_are_requested.
    set (ro := requested_ropts o).
    assert (Hc : content (reader_over parse ro (s_text s)) = (p_recs (parse ro (s_text s)), p_end (parse ro (s_text s)))) by reflexivity.
    unfold source_input. fold ro.
    destruct (s_kind s) eqn:Ek; cbn [marshaler_gets_reader_opts].
    - apply (via_pipe_bytes_spec _ _ _ _ _ Hc).
    - apply via_pipe_bytes_spec. reflexivity.
    - apply (via_pipe_bytes_spec _ _ _ _ _ Hc).
    - apply (via_pipe_bytes_spec _ _ _ _ _ Hc).
    - apply (via_buffer_bytes_spec _ _ _ _ _ Hc).
    - cbn [negb orb] in Hcmp. rewrite orb_false_r in Hcmp. rewrite Hcmp. cbn [negb].
      apply via_pipe_bytes_spec. reflexivity.
    - apply (via_buffer_bytes_spec _ _ _ _ _ Hc).
    - apply (via_buffer_bytes_spec _ _ _ _ _ Hc).
  Qed.

  (* ----- the clauses of the property ----- *)

  Lemma consume_delivers_parsed o d text : d_usable d = true ->
    p_end (parse (requested_ropts o) text) = None ->
    consume parse render o d text =
    shown render o (d_kind d) (skipn (Z.to_nat (o_skip o)) (p_recs (parse (requested_ropts o) text))).
  Proof. intros Hu He. rewrite (consume_spec o d text Hu), He. reflexivity. Qed.

  Lemma produce_delivers_parsed o s : s_usable s = true ->
    p_end (source_input parse o s) = None ->
    produce parse render o s =
    OBytes (rendering render (requested_wopts o) (skipn (Z.to_nat (o_skip o)) (p_recs (source_input parse o s)))).
  Proof. intros Hu He. rewrite (produce_spec o s Hu), He. reflexivity. Qed.

  Lemma consume_error_passthrough o d text e : d_usable d = true ->
    p_end (parse (requested_ropts o) text) = Some e -> consume parse render o d text = OErr (EParser e).
  Proof. intros Hu He. rewrite (consume_spec o d text Hu), He. reflexivity. Qed.

  Lemma produce_error_passthrough o s e : s_usable s = true ->
    p_end (source_input parse o s) = Some e -> produce parse render o s = OErr (EParser e).
  Proof. intros Hu He. rewrite (produce_spec o s Hu), He. reflexivity. Qed.

  (* all destination kinds are handed the same records: byte sinks receive the same bytes, record sinks the same rows,
     and a byte sink receives the standard rendering of what a record sink holds *)
  Lemma consume_kinds_agree o d1 d2 text : d_usable d1 = true -> d_usable d2 = true ->
    exists res : list record + bytes,
      consume parse render o d1 text = match res with inl recs => shown render o (d_kind d1) recs | inr e => OErr (EParser e) end /\
      consume parse render o d2 text = match res with inl recs => shown render o (d_kind d2) recs | inr e => OErr (EParser e) end.
  Proof.
    intros H1 H2. rewrite (consume_spec o d1 text H1), (consume_spec o d2 text H2).
    destruct (p_end (parse (requested_ropts o) text)) as [e|].
    - exists (inr e). split; reflexivity.
    - eexists (inl _). split; reflexivity.
  Qed.

  Lemma consume_byte_sinks_equal o d1 d2 text : d_usable d1 = true -> d_usable d2 = true ->
    is_record_sink (d_kind d1) = false -> is_record_sink (d_kind d2) = false ->
    consume parse render o d1 text = consume parse render o d2 text.
  Proof.
    intros H1 H2 K1 K2. rewrite (consume_spec o d1 text H1), (consume_spec o d2 text H2).
    destruct (p_end (parse (requested_ropts o) text)); [reflexivity|].
    destruct (d_kind d1); try discriminate K1; destruct (d_kind d2); try discriminate K2; reflexivity.
  Qed.

  (* all source kinds that denote the same input produce the same bytes *)
  Lemma produce_kinds_agree o s1 s2 : s_usable s1 = true -> s_usable s2 = true ->
    source_input parse o s1 = source_input parse o s2 ->
    produce parse render o s1 = produce parse render o s2.
  Proof. intros H1 H2 E. rewrite (produce_spec o s1 H1), (produce_spec o s2 H2), E. reflexivity. Qed.

  (* no destination state, option set, skip count or input makes the codec panic (or the model run out of fuel) *)
  Lemma consume_total o d text :
    consume parse render o d text <> OPanic /\ consume parse render o d text <> OFuel.
  Proof.
    destruct (d_usable d) eqn:Hu.
    - rewrite (consume_spec o d text Hu).
      destruct (p_end (parse (requested_ropts o) text)); [split; discriminate|].
      destruct (d_kind d); cbn [shown]; split; discriminate.
    - unfold d_usable in Hu. unfold consume.
      destruct (d_nil d && d_owned (d_kind d)) eqn:Hn; [cbn; split; discriminate|].
      cbn [negb andb] in Hu. apply orb_false_iff in Hu as [Hc Hk]. apply negb_false_iff in Hk.
      destruct (d_kind d); try discriminate Hk. rewrite Hc. cbn. split; discriminate.
  Qed.

  Lemma produce_total o s :
    produce parse render o s <> OPanic /\ produce parse render o s <> OFuel.
  Proof.
    destruct (s_usable s) eqn:Hu.
    - rewrite (produce_spec o s Hu). destruct (p_end (source_input parse o s)); split; discriminate.
    - unfold s_usable in Hu. unfold produce.
      destruct (s_nil s && s_owned (s_kind s)) eqn:Hn; [cbn; split; discriminate|].
      cbn [negb andb] in Hu. apply orb_false_iff in Hu as [Hc Hk]. apply negb_false_iff in Hk.
      destruct (s_kind s); try discriminate Hk. rewrite Hc. cbn. split; discriminate.
  Qed.

  (* a destination that cannot receive anything gets an error *)
  Lemma consume_unusable_is_error o d text : d_usable d = false -> exists e, consume parse render o d text = OErr e.
  Proof.
    intros Hu. unfold d_usable in Hu. unfold consume.
    destruct (d_nil d && d_owned (d_kind d)) eqn:Hn; [eexists; reflexivity|].
    cbn [negb andb] in Hu. apply orb_false_iff in Hu as [Hc Hk]. apply negb_false_iff in Hk.
    destruct (d_kind d); try discriminate Hk. rewrite Hc. eexists; reflexivity.
  Qed.

  Lemma produce_unusable_is_error o s : s_usable s = false -> exists e, produce parse render o s = OErr e.
  Proof.
    intros Hu. unfold s_usable in Hu. unfold produce.
    destruct (s_nil s && s_owned (s_kind s)) eqn:Hn; [eexists; reflexivity|].
    cbn [negb andb] in Hu. apply orb_false_iff in Hu as [Hc Hk]. apply negb_false_iff in Hk.
    destruct (s_kind s); try discriminate Hk. rewrite Hc. eexists; reflexivity.
  Qed.

  (* the model's outcome satisfies the very predicate the correspondence run evaluates on the implementation's
     observable (Check_C16.check_case, bit 2), for every input *)
  Lemma consume_meets_check_predicate o d text :
    consume_ok parse render o d text (consume parse render o d text) true RNone = true.
  Proof.
    unfold consume_ok. apply andb_true_iff. split.
    - destruct (consume_total o d text) as [H1 H2]. destruct (consume parse render o d text); try reflexivity; congruence.
    - destruct (d_usable d) eqn:Hu; cbn [negb].
      + rewrite (consume_spec o d text Hu). unfold expected. rewrite drop_z_skipn.
        destruct (p_end (parse (requested_ropts o) text)) as [e|]; cbn [delivered_ok].
        * cbn [outcome_eqb err_eqb]. rewrite bytes_eqb_refl. reflexivity.
        * destruct (d_kind d); cbn [shown is_record_sink outcome_eqb reparse_ok negb];
            rewrite ?records_eqb_refl, ?bytes_eqb_refl; reflexivity.
      + destruct (consume_unusable_is_error o d text Hu) as (e & ->). reflexivity.
  Qed.

  Lemma produce_meets_check_predicate o s :
    produce_ok parse render o s (produce parse render o s) RNone = true.
  Proof.
    unfold produce_ok. apply andb_true_iff. split.
    - destruct (produce_total o s) as [H1 H2]. destruct (produce parse render o s); try reflexivity; congruence.
    - destruct (s_usable s) eqn:Hu; cbn [negb].
      + rewrite (produce_spec o s Hu). unfold expected. rewrite drop_z_skipn.
        destruct (p_end (source_input parse o s)) as [e|]; cbn [delivered_ok outcome_eqb err_eqb reparse_ok];
          rewrite bytes_eqb_refl; reflexivity.
      + destruct (produce_unusable_is_error o s Hu) as (e & ->). reflexivity.
  Qed.
  (* a history on one codec value: as many answers as calls, the k-th answer is the answer of the k-th call alone
     under the options the value was built with (in particular the skipped-lines count is the same for every call),
     and every answer satisfies the single-call predicate of the check *)
  Lemma consume_history_pointwise o l :
    length (consume_history parse render o l) = length l /\
    (forall k x, nth_error l k = Some x ->
       nth_error (consume_history parse render o l) k = Some (consume parse render o (fst x) (snd x))) /\
    (forall k x, nth_error l k = Some x ->
       consume_ok parse render o (fst x) (snd x) (consume parse render o (fst x) (snd x)) true RNone = true).
  Proof.
    unfold consume_history. split; [apply map_length|]. split.
    - intros k x Hk. rewrite nth_error_map, Hk. reflexivity.
    - intros k x _. apply consume_meets_check_predicate.
  Qed.

  Lemma produce_history_pointwise o l :
    length (produce_history parse render o l) = length l /\
    (forall k s, nth_error l k = Some s ->
       nth_error (produce_history parse render o l) k = Some (produce parse render o s)) /\
    (forall k s, nth_error l k = Some s ->
       produce_ok parse render o s (produce parse render o s) RNone = true).
  Proof.
    unfold produce_history. split; [apply map_length|]. split.
    - intros k s Hk. rewrite nth_error_map, Hk. reflexivity.
    - intros k s _. apply produce_meets_check_predicate.
  Qed.
End Oracles.

(* ---------- aliasing ---------- *)

(* whatever the reader does to its buffer (ReuseRecord or not, any store before, any skip count), the rows the record
   container ends up with are private values: they read the same in every later state of the store, i.e. no later
   Read can change them, and no two of them share a buffer *)
Lemma records_container_not_aliased r st k w' st' :
  pipe_csv (WTable []) r st k = PDone w' st' ->
  shares_buffer (wtr_rows w') = false /\
  (forall later, w_records w' later = w_records w' st') /\
  w_records w' st' = skipn (Z.to_nat k) (fst (content r)).
Proof.
  intros H. destruct (content r) as [recs fin] eqn:Hc.
  pose proof (pipe_csv_spec (WTable []) r st k recs fin Hc) as Hs.
  destruct fin as [e|]; [rewrite Hs in H; discriminate|]. destruct Hs as (st2 & Hs). rewrite Hs in H.
  inversion H; subst w' st'. clear H.
  assert (Hv : all_values (wtr_rows (fold_left w_add (skipn (Z.to_nat k) recs) (WTable [])))) by (apply wtr_rows_fold; constructor).
  split; [apply all_values_no_sharing; exact Hv|]. split.
  - intros later. rewrite !w_records_fold. reflexivity.
  - rewrite w_records_fold. reflexivity.
Qed.

(* the container as it was before the fix of F-C16-2 (Write keeps the slice it is handed) did alias: three records read
   with ReuseRecord end up as three views of one buffer holding the last record *)
Example alias_before_fix :
  exists w' st', pipe_csv_with false (WTable []) (RCsv [[[97]; [98]]; [[99]; [100]]; [[101]; [102]]] None true) [] 0 = PDone w' st' /\
    w_records w' st' = [[[101]; [102]]; [[101]; [102]]; [[101]; [102]]] /\ shares_buffer (wtr_rows w') = true.
Proof. eexists. eexists. split; [reflexivity|]. split; reflexivity. Qed.

(* ---------- satisfiability of the hypotheses, on concrete oracles ---------- *)

Definition ex_parse (ro : ropts) (text : bytes) : presult :=
  if r_lazy ro then mkP [[[104]]; [[97]; [98]]; [[99]]] None else mkP [[[104]]] (Some [66]).
Definition ex_render (wo : wopts) (recs : list record) : bytes := concat (map (fun r => concat r ++ [10]) recs).

Example ex_usable_table : d_usable (mkD DRecords false true 5 9) = true.
Proof. reflexivity. Qed.

Example ex_delivers :
  consume ex_parse ex_render (mkO (mkR 0 0 0 true false true) (mkW 0 false) 1) (mkD DRecords false true 5 9) [1; 2; 3]
  = ORecs [[[97]; [98]]; [[99]]] 2 2 false.
Proof. reflexivity. Qed.

Example ex_error :
  consume ex_parse ex_render (mkO (mkR 0 0 0 false false true) (mkW 0 false) 1) (mkD DString false true 0 0) [1; 2; 3]
  = OErr (EParser [66]).
Proof. reflexivity. Qed.

Example ex_produce :
  produce ex_parse ex_render (mkO (mkR 0 0 0 true false false) (mkW 0 false) 2) (mkS SBinaryMarshaler false true [1] (mkP [] None) [])
  = OBytes [99; 10].
Proof. reflexivity. Qed.
