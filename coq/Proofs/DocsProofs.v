(* DocsProofs.v — proofs for C20. *)
From V Require Import Docs.

(* ---- the handler shape shared by Spec and serveUI ---- *)
Lemma handler_intercept_iff pth ct body ct404 hn req :
  (exists ct' b, handler pth ct body ct404 hn req = Serve ct' b) <-> clean req = pth.
Proof.
  unfold handler. destruct (bytes_eqb (clean req) pth) eqn:E.
  - apply bytes_eqb_eq in E. split; [intros _; exact E | intros _; eauto].
  - apply bytes_eqb_neq in E. split; [|intros H; contradiction].
    intros [ct' [b H]]. destruct hn; discriminate.
Qed.

Lemma handler_serve_exact pth ct body ct404 hn req ct' b :
  handler pth ct body ct404 hn req = Serve ct' b -> ct' = ct /\ b = body.
Proof.
  unfold handler. destruct (bytes_eqb (clean req) pth); [intros H; inversion H; now subst|].
  destruct hn; discriminate.
Qed.

Lemma handler_passthrough pth ct body ct404 req :
  clean req <> pth -> handler pth ct body ct404 true req = Next.
Proof. intros H. apply bytes_eqb_neq in H. unfold handler. now rewrite H. Qed.

Lemma handler_404 pth ct body ct404 req :
  clean req <> pth -> handler pth ct body ct404 false req = R404 ct404.
Proof. intros H. apply bytes_eqb_neq in H. unfold handler. now rewrite H. Qed.

(* ---- C20_intercept_iff, for every option combination ---- *)
Lemma spec_intercept_iff base opath odoc b hn req :
  (exists ct b', spec_handler base opath odoc b hn req = Serve ct b') <-> clean req = spec_doc_path base opath odoc.
Proof. apply handler_intercept_iff. Qed.

Lemma ui_intercept_iff f o page hn req :
  (exists ct b', serve_ui f o page hn req = Serve ct b') <-> clean req = ui_path f o.
Proof. apply handler_intercept_iff. Qed.

Lemma spec_exact_bytes_json base opath odoc b hn req ct b' :
  spec_handler base opath odoc b hn req = Serve ct b' -> ct = CTJson /\ b' = b.
Proof. apply handler_serve_exact. Qed.

Lemma ui_exact_page f o page hn req ct b' :
  serve_ui f o page hn req = Serve ct b' -> ct = CTHtml /\ b' = page.
Proof. apply handler_serve_exact. Qed.

Lemma passthrough_unmodified :
  (forall base opath odoc b req, clean req <> spec_doc_path base opath odoc -> spec_handler base opath odoc b true req = Next) /\
  (forall f o page req, clean req <> ui_path f o -> serve_ui f o page true req = Next).
Proof. split; intros; now apply handler_passthrough. Qed.

Lemma not_found_without_next :
  (forall base opath odoc b req, clean req <> spec_doc_path base opath odoc -> spec_handler base opath odoc b false req = R404 CTJson) /\
  (forall f o page req, clean req <> ui_path f o -> serve_ui f o page false req = R404 CTPlain).
Proof. split; intros; now apply handler_404. Qed.

(* A cleaned path never ends in a slash (except the root) and has no dot segments, so a request can only be
   intercepted on a configured path that is itself clean: *)
Lemma intercepted_path_is_clean pth ct body ct404 hn req ct' b :
  handler pth ct body ct404 hn req = Serve ct' b -> clean pth = pth.
Proof.
  intros H. assert (E : clean req = pth) by (apply (handler_intercept_iff pth ct body ct404 hn req); eauto).
  rewrite <- E. apply clean_idem.
Qed.

(* ---- escaping ---- *)
Lemma skeleton_app a b : skeleton (a ++ b) = skeleton a ++ skeleton b.
Proof. apply filter_app. Qed.

Lemma options_escaped esc val t i :
  (forall j s, skeleton (esc j s) = []) -> skeleton (render esc val i t) = skeleton (literals t).
Proof.
  intros Hesc. revert i; induction t as [|c r IH]; intros i; [reflexivity|].
  destruct c as [b|f]; cbn [render literals]; rewrite skeleton_app.
  - now rewrite IH, skeleton_app.
  - now rewrite Hesc, IH.
Qed.

(* with the identity escaper (text/template) an option value reaches the page as markup *)
Lemma identity_escaper_injects :
  exists val t, skeleton (render (fun _ s => s) val 0 t) <> skeleton (literals t).
Proof. exists (fun _ => [60]), [Act 0]. cbn. discriminate. Qed.

(* ---- UI and spec URL agree ---- *)
Lemma clean_double_slash_root b : clean (slash :: slash :: b) = clean (slash :: b).
Proof.
  unfold clean. rewrite Nat.eqb_refl. cbn [segments]. rewrite Nat.eqb_refl. reflexivity.
Qed.

Lemma is_nil_false_iff (s : bytes) : is_nil s = false <-> s <> [].
Proof. destruct s; cbn; split; congruence. Qed.

Lemma rooted_split_dir p : rooted p = true -> exists d', fst (path_split p) = d' ++ [slash] /\ (d' = [] \/ rooted d' = true).
Proof.
  destruct p as [|c r]; [discriminate|]. cbn [rooted]. intros Hc. cbn [path_split].
  destruct (path_split r) as [d f] eqn:E. rewrite Hc. cbn [fst].
  destruct (path_split_dir r) as [H | [d'' H]]; rewrite E in H; cbn [fst] in H.
  - subst d. apply Nat.eqb_eq in Hc; subst c. exists []. split; [reflexivity | now left].
  - subst d. exists (c :: d''). split; [reflexivity | right; exact Hc].
Qed.

(* Join(dir, , document) of a rooted path with a document name is the cleaned path *)
Lemma join_split_clean p : rooted p = true -> snd (path_split p) <> [] ->
  path_join [fst (path_split p); []; snd (path_split p)] = clean p.
Proof.
  intros Hr Hf. destruct (rooted_split_dir p Hr) as [d' [Hd Hd']].
  pose proof (path_split_app p) as Happ. destruct (path_split p) as [d f]. cbn [fst snd] in *. subst d.
  unfold path_join. cbn [filter is_nil negb].
  assert (E1 : is_nil (d' ++ [slash]) = false) by (destruct d'; reflexivity).
  assert (E2 : is_nil f = false) by (destruct f; [congruence | reflexivity]).
  rewrite E1, E2. cbn [negb join_slash]. rewrite <- Happ, <- !app_assoc. cbn [app].
  destruct Hd' as [-> | Hd'].
  - cbn [app]. apply clean_double_slash_root.
  - destruct d' as [|c a]; [discriminate|]. cbn [rooted] in Hd'. apply Nat.eqb_eq in Hd'; subst c.
    cbn [app]. apply clean_double_slash.
Qed.

Lemma is_dot_split_dir p : rooted p = true -> is_dot (fst (path_split p)) = false.
Proof.
  intros Hr. destruct (rooted_split_dir p Hr) as [d' [-> Hd']].
  destruct Hd' as [-> | Hd']; [reflexivity|]. destruct d' as [|c a]; [discriminate|].
  cbn [rooted] in Hd'. apply Nat.eqb_eq in Hd'; subst c. cbn. destruct a; reflexivity.
Qed.

(* the spec is served at the cleaned path component of SpecURL, when that is rooted and names a document *)
Lemma api_spec_path_clean a :
  rooted (a_url_path a) = true -> snd (path_split (a_url_path a)) <> [] ->
  api_spec_path a = clean (a_url_path a).
Proof.
  intros Hr Hf. unfold api_spec_path.
  pose proof (join_split_clean _ Hr Hf) as J. pose proof (is_dot_split_dir _ Hr) as Hdot.
  destruct (rooted_split_dir _ Hr) as [d' [Hd _]].
  destruct (path_split (a_url_path a)) as [d f]. cbn [fst snd] in *.
  rewrite Hdot. unfold spec_doc_path.
  assert (E1 : is_nil d = false) by (subst d; destruct d'; reflexivity).
  assert (E2 : is_nil f = false) by (destruct f; [congruence | reflexivity]).
  rewrite E1, E2. exact J.
Qed.

Lemma api_handler_spec f a req : api_handler f a req = ASpec <-> clean req = api_spec_path a.
Proof.
  unfold api_handler, handler. destruct (bytes_eqb (clean req) (api_spec_path a)) eqn:E.
  - apply bytes_eqb_eq in E. tauto.
  - apply bytes_eqb_neq in E. split; [|contradiction].
    unfold serve_ui, handler. destruct (bytes_eqb (clean req) (ui_path f (api_ui_opts a))); discriminate.
Qed.

Lemma ui_references_served_spec f a :
  rooted (a_url_path a) = true -> snd (path_split (a_url_path a)) <> [] ->
  api_handler f a (a_url_path a) = ASpec.
Proof. intros Hr Hf. apply api_handler_spec. symmetry. now apply api_spec_path_clean. Qed.

(* ... and so is every request whose cleaned path is that of the URL path: what a browser sends after resolving the
   reference (dot segments removed, percent-encoding undone by the server) *)
Lemma reference_request_served f a req :
  rooted (a_url_path a) = true -> snd (path_split (a_url_path a)) <> [] ->
  clean req = clean (a_url_path a) -> api_handler f a req = ASpec.
Proof. intros Hr Hf E. apply api_handler_spec. rewrite E. symmetry. now apply api_spec_path_clean. Qed.

(* the flavour-specific options (script, style and icon URLs) do not move the page and decide nothing else *)
Lemma assets_only_reach_the_page f o l page hn req :
  ui_path f (with_assets o l) = ui_path f o /\ serve_ui f (with_assets o l) page hn req = serve_ui f o page hn req.
Proof.
  assert (E : ui_path f (with_assets o l) = ui_path f o) by (destruct f; reflexivity).
  split; [exact E|]. unfold serve_ui. now rewrite E.
Qed.

(* without any SpecURL option the page references /swagger.json and that is where the spec is served *)
Lemma default_spec_url_served f a :
  a_o_spec_url a = None -> a_url_path a = [] ->
  api_spec_ref a = default_spec_url /\ api_handler f a default_spec_url = ASpec.
Proof.
  intros Ho Hp. split.
  - unfold api_spec_ref, api_ui_opts, ensure_defaults. cbn [u_spec_url]. rewrite Ho. reflexivity.
  - apply api_handler_spec. unfold api_spec_path. rewrite Hp. reflexivity.
Qed.

(* F-C20-2: a SpecURL that names a directory. The page references /spec/dir/ (cleaned: /spec/dir) while the spec is
   served at /spec/dir/swagger.json *)
Definition spec_dir : bytes := [47;115;112;101;99;47;100;105;114;47].     (* /spec/dir/ *)
Lemma ui_references_served_spec_needs_document :
  exists f a, rooted (a_url_path a) = true /\ a_o_spec_url a = Some (a_url_path a) /\
              api_handler f a (a_url_path a) <> ASpec /\
              api_spec_path a = spec_dir ++ swagger_json.
Proof.
  exists Redoc, (mkAPI [] [] None None (Some spec_dir) None spec_dir).
  split; [reflexivity|]. split; [reflexivity|]. split; [vm_compute; discriminate | reflexivity].
Qed.

(* ---- everything else reaches the router ---- *)
Lemma operations_reachable f a req :
  api_handler f a req = ARouter <-> (clean req <> api_spec_path a /\ clean req <> ui_path f (api_ui_opts a)).
Proof.
  unfold api_handler, serve_ui, handler.
  destruct (bytes_eqb (clean req) (api_spec_path a)) eqn:E1.
  - apply bytes_eqb_eq in E1. split; [discriminate | intros [H _]; contradiction].
  - apply bytes_eqb_neq in E1.
    destruct (bytes_eqb (clean req) (ui_path f (api_ui_opts a))) eqn:E2.
    + apply bytes_eqb_eq in E2. split; [discriminate | intros [_ H]; contradiction].
    + apply bytes_eqb_neq in E2. tauto.
Qed.

(* hypotheses are satisfiable: /spec/openapi.json *)
Example ex_api :
  let p := [47;115;112;101;99;47;111;46;106] in            (* /spec/o.j *)
  let a := mkAPI [47;97;112;105] [] None None (Some p) None p in   (* base path /api *)
  rooted p = true /\ snd (path_split p) <> [] /\ api_spec_path a = p /\
  ui_path Redoc (api_ui_opts a) = [47;97;112;105;47;100;111;99;115] /\                 (* /api/docs *)
  api_handler Redoc a [47;97;112;105;47;100;111;99;115;47] = AUI /\                    (* /api/docs/ *)
  api_handler Redoc a [47;97;112;105;47;112;101;116;115] = ARouter.                    (* /api/pets *)
Proof. cbn zeta. repeat split; try reflexivity. discriminate. Qed.

(* ---- several middlewares built in one process ---- *)
Lemma ui_member_handler f o page hn req :
  member_handler (MUI f o page) hn req =
  if bytes_eqb (clean req) (ui_path f o) then HServe CTHtml page else if hn then HNext else H404 CTPlain.
Proof.
  cbn [member_handler]. unfold serve_ui, handler.
  destruct (bytes_eqb (clean req) (ui_path f o)); [reflexivity|]. destruct hn; reflexivity.
Qed.

(* a chain of UI middlewares answers with the page of the FIRST member configured on the cleaned request path, the page
   that member serves when built alone; when there is none the request reaches what is behind the chain *)
Lemma chain_first_match ms hn req :
  forallb is_ui_member ms = true ->
  chain_handler ms hn req =
  match find (fun m => bytes_eqb (clean req) (member_path m)) ms with
  | Some m => HServe CTHtml (member_page m)
  | None => if hn then HNext else H404 CTPlain
  end.
Proof.
  induction ms as [|m r IH]; [reflexivity|].
  cbn [forallb]. intros H. apply andb_true_iff in H as [Hm Hr].
  destruct m as [f o page|f a page]; [|discriminate]. clear Hm.
  cbn [chain_handler find member_path member_page].
  destruct r as [|m' r'].
  - rewrite ui_member_handler. destruct (bytes_eqb (clean req) (ui_path f o)); reflexivity.
  - rewrite ui_member_handler. destruct (bytes_eqb (clean req) (ui_path f o)); [reflexivity|].
    exact (IH Hr).
Qed.

(* side by side: what a member answers is a function of that member alone, the single-middleware function *)
Lemma member_alone_ui f o page hn req :
  member_handler (MUI f o page) hn req =
  match serve_ui f o page hn req with Serve ct b => HServe ct b | Next => HNext | R404 ct => H404 ct end.
Proof. reflexivity. Qed.

Lemma member_page_served m hn :
  is_ui_member m = true -> clean (member_path m) = member_path m ->
  member_handler m hn (member_path m) = HServe CTHtml (member_page m).
Proof.
  destruct m as [f o page|f a page]; [|discriminate]. intros _ Hc.
  rewrite ui_member_handler. cbn [member_path member_page] in *. rewrite Hc, bytes_eqb_refl. reflexivity.
Qed.

Lemma api_member_page f a page req :
  member_handler (MAPI f a page) true req = HServe CTHtml page <-> api_handler f a req = AUI.
Proof.
  cbn [member_handler]. destruct (api_handler f a req); split; intros H; try discriminate; reflexivity.
Qed.
