(* SpecRouterSegProofs.v — ties the shape-level statements of C01 (C05 smatch / pref on the denco key
   of a template) to the segment-level reading of the property (SpecRouterSpec.seg_match,
   seg_pref_b) for simple templates: every placeholder a whole segment. *)
From V Require Import Bytes DencoSpec DencoSpecProofs PathCleanLib PathUnescapeLib SpecRouter SpecRouterSpec SpecRouterSegs.

(* ---------- byte classes ---------- *)
Lemma lit_byte_facts c : lit_byte_ok c = true ->
  c <> LBRACE /\ c <> COLON /\ c <> STAR /\ c <> SLASH /\ c <> RBRACE.
Proof.
  unfold lit_byte_ok. intros H. repeat (apply andb_true_iff in H; destruct H as [H ?]).
  repeat match goal with Hx : negb (Nat.eqb _ _) = true |- _ => apply negb_true_iff, Nat.eqb_neq in Hx end.
  repeat split; assumption.
Qed.

Lemma name_byte_facts c : name_byte_ok c = true -> c <> RBRACE /\ c <> NL /\ c <> SLASH.
Proof.
  unfold name_byte_ok. intros H. repeat (apply andb_true_iff in H; destruct H as [H ?]).
  repeat match goal with Hx : negb (Nat.eqb _ _) = true |- _ => apply negb_true_iff, Nat.eqb_neq in Hx end.
  repeat split; assumption.
Qed.

Lemma lit_ok_facts l : lit_ok l = true -> l <> [] /\ forallb lit_byte_ok l = true.
Proof.
  unfold lit_ok. intros H. repeat (apply andb_true_iff in H; destruct H as [H ?]).
  split; [|assumption]. destruct l; [discriminate|discriminate].
Qed.

Lemma name_ok_facts n : name_ok n = true -> n <> [] /\ forallb name_byte_ok n = true.
Proof.
  unfold name_ok. intros H. apply andb_true_iff in H. destruct H as [H1 H2].
  split; [|assumption]. destruct n; [discriminate|discriminate].
Qed.

Lemma names_no_slash n : forallb name_byte_ok n = true -> no_slash n = true.
Proof.
  unfold no_slash, mem_byte. induction n as [|c n IH]; [reflexivity|]. cbn [forallb existsb]. intros H.
  apply andb_true_iff in H. destruct H as [H1 H2]. destruct (name_byte_facts c H1) as (_ & _ & Hs).
  apply Nat.eqb_neq in Hs. rewrite Nat.eqb_sym, Hs. cbn [orb]. now apply IH.
Qed.

Lemma lits_no_slash l : forallb lit_byte_ok l = true -> no_slash l = true.
Proof.
  unfold no_slash, mem_byte. induction l as [|c l IH]; [reflexivity|]. cbn [forallb existsb]. intros H.
  apply andb_true_iff in H. destruct H as [H1 H2]. destruct (lit_byte_facts c H1) as (_ & _ & _ & Hs & _).
  apply Nat.eqb_neq in Hs. rewrite Nat.eqb_sym, Hs. cbn [orb]. now apply IH.
Qed.

(* a slashed list is empty or starts with the separator *)
Lemma slashed_head {A} (f : A -> bytes) l : slashed f l = [] \/ exists r, slashed f l = SLASH :: r.
Proof. destruct l; [left; reflexivity|right]. cbn. eauto. Qed.

Lemma span_seg_slashed {A} (f : A -> bytes) l : span_seg (slashed f l) = ([], slashed f l).
Proof.
  destruct (slashed_head f l) as [->|[r ->]]; [reflexivity|].
  rewrite span_seg_cons. now rewrite Nat.eqb_refl.
Qed.

(* ---------- pathConverter on a simple template ---------- *)
Lemma scan_close_len r : forall n a, scan_close r = Some (n, a) -> length a < length r.
Proof.
  induction r as [|c r IH]; intros n a; cbn [scan_close]; [discriminate|].
  destruct (Nat.eqb c RBRACE); [intros H; inversion H; subst; cbn; lia|].
  destruct (Nat.eqb c NL); [discriminate|].
  destruct (scan_close r) as [[n' a']|] eqn:E; [|discriminate].
  intros H; inversion H; subst. specialize (IH _ _ eq_refl). cbn. lia.
Qed.

Lemma match_placeholder_len r n a : match_placeholder r = Some (n, a) -> length a < length r.
Proof.
  destruct r as [|c0 r']; cbn [match_placeholder]; [discriminate|].
  destruct (Nat.eqb c0 NL); [discriminate|].
  destruct (scan_close r') as [[n' a']|] eqn:E; [|discriminate].
  intros H; inversion H; subst. apply scan_close_len in E. cbn. lia.
Qed.

Lemma convert_fuel_indep f : forall g s, length s < f -> length s < g -> convert_fuel f s = convert_fuel g s.
Proof.
  induction f as [|f IH]; intros g s Hf Hg; [lia|]. destruct g as [|g]; [lia|].
  destruct s as [|c r]; [reflexivity|]. cbn [convert_fuel]. cbn [length] in Hf, Hg.
  destruct (Nat.eqb c LBRACE).
  - destruct (match_placeholder r) as [[name after]|] eqn:E.
    + apply match_placeholder_len in E. pose proof (span_seg_snd_length after).
      f_equal. f_equal. apply IH; lia.
    + f_equal. apply IH; lia.
  - f_equal. apply IH; lia.
Qed.

Lemma convert_fuel_S f c r : convert_fuel (S f) (c :: r) =
  if Nat.eqb c LBRACE then
    match match_placeholder r with
    | Some (name, after) => COLON :: name ++ convert_fuel f (snd (span_seg after))
    | None => c :: convert_fuel f r
    end
  else c :: convert_fuel f r.
Proof. reflexivity. Qed.

Lemma convert_cons c r : c <> LBRACE -> convert_template (c :: r) = c :: convert_template r.
Proof.
  intros H. unfold convert_template. cbn [length]. rewrite convert_fuel_S. apply Nat.eqb_neq in H. now rewrite H.
Qed.

Lemma convert_lit l R : forallb lit_byte_ok l = true -> convert_template (l ++ R) = l ++ convert_template R.
Proof.
  induction l as [|c l IH]; [reflexivity|]. cbn [forallb app]. intros H.
  apply andb_true_iff in H. destruct H as [H1 H2]. destruct (lit_byte_facts c H1) as (Hb & _).
  rewrite convert_cons by exact Hb. now rewrite IH.
Qed.

Lemma scan_close_name n R : forallb name_byte_ok n = true -> scan_close (n ++ RBRACE :: R) = Some (n, R).
Proof.
  induction n as [|c n IH]; cbn [app scan_close forallb].
  - intros _. now rewrite Nat.eqb_refl.
  - intros H. apply andb_true_iff in H. destruct H as [H1 H2].
    destruct (name_byte_facts c H1) as (Hr & Hn & _).
    apply Nat.eqb_neq in Hr. apply Nat.eqb_neq in Hn. rewrite Hr, Hn. now rewrite IH.
Qed.

Lemma convert_par {A} n (f : A -> bytes) l : name_ok n = true ->
  convert_template (LBRACE :: n ++ RBRACE :: slashed f l) = COLON :: n ++ convert_template (slashed f l).
Proof.
  intros Hn. destruct (name_ok_facts n Hn) as [Hne Hall].
  unfold convert_template at 1. cbn [length]. rewrite convert_fuel_S, Nat.eqb_refl.
  destruct n as [|c0 n']; [contradiction|]. cbn [app match_placeholder].
  cbn [forallb] in Hall. apply andb_true_iff in Hall. destruct Hall as [H0 Hall].
  destruct (name_byte_facts c0 H0) as (_ & Hnl & _). apply Nat.eqb_neq in Hnl. rewrite Hnl.
  rewrite (scan_close_name n' _ Hall). rewrite span_seg_slashed. cbn [snd].
  f_equal. change ((c0 :: n') ++ convert_fuel (S (length (c0 :: n' ++ RBRACE :: slashed f l))) (slashed f l)
                   = (c0 :: n') ++ convert_template (slashed f l)).
  f_equal. apply convert_fuel_indep; cbn [length]; rewrite ?app_length; cbn [length]; lia.
Qed.

Lemma convert_slashed ts : simple_ok ts = true -> convert_template (slashed seg_text ts) = slashed seg_key ts.
Proof.
  induction ts as [|t ts IH]; [reflexivity|]. cbn [simple_ok forallb]. intros H.
  apply andb_true_iff in H. destruct H as [Ht Hts].
  change (slashed seg_text (t :: ts)) with (SLASH :: seg_text t ++ slashed seg_text ts).
  change (slashed seg_key (t :: ts)) with (SLASH :: seg_key t ++ slashed seg_key ts).
  rewrite convert_cons by discriminate. f_equal.
  destruct t as [l|n|? ?]; cbn [seg_ok seg_text seg_key] in *; [| |discriminate].
  - destruct (lit_ok_facts l Ht) as [_ Hl]. rewrite convert_lit by exact Hl. now rewrite IH.
  - cbn [app]. rewrite <- app_assoc. cbn [app]. rewrite convert_par by exact Ht.
    cbn [app]. now rewrite IH.
Qed.

Theorem convert_render ts : simple_ok ts = true -> convert_template (render ts) = render_key ts.
Proof. destruct ts as [|t ts]; [reflexivity|]. apply convert_slashed. Qed.

(* ---------- the denco key of a simple template and its shape ---------- *)
Lemma tok_fuel_S f c r : tok_fuel (S f) (c :: r) =
  if Nat.eqb c COLON then
    let '(s, ns) := tok_fuel f (snd (span_seg r)) in (SPar :: s, fst (span_seg r) :: ns)
  else if Nat.eqb c STAR then ([SWild], [r])
  else let '(s, ns) := tok_fuel f r in (SLit c :: s, ns).
Proof. reflexivity. Qed.

Lemma tok_fuel_indep f : forall g k, length k < f -> length k < g -> tok_fuel f k = tok_fuel g k.
Proof.
  induction f as [|f IH]; intros g k Hf Hg; [lia|]. destruct g as [|g]; [lia|].
  destruct k as [|c r]; [reflexivity|]. rewrite !tok_fuel_S. cbn [length] in Hf, Hg.
  destruct (Nat.eqb c COLON).
  - pose proof (span_seg_snd_length r). rewrite (IH g (snd (span_seg r))) by lia. reflexivity.
  - destruct (Nat.eqb c STAR); [reflexivity|]. rewrite (IH g r) by lia. reflexivity.
Qed.

Lemma tok_cons c r : c <> COLON -> c <> STAR -> tok (c :: r) = (SLit c :: fst (tok r), snd (tok r)).
Proof.
  intros H1 H2. unfold tok. cbn [length]. rewrite tok_fuel_S.
  apply Nat.eqb_neq in H1. apply Nat.eqb_neq in H2. rewrite H1, H2.
  destruct (tok_fuel (S (length r)) r); reflexivity.
Qed.

Lemma tok_lit l R : forallb lit_byte_ok l = true -> tok (l ++ R) = (map SLit l ++ fst (tok R), snd (tok R)).
Proof.
  induction l as [|c l IH]; [cbn [app map]; now destruct (tok R)|]. cbn [forallb app map]. intros H.
  apply andb_true_iff in H. destruct H as [H1 H2]. destruct (lit_byte_facts c H1) as (_ & Hc & Hs & _).
  rewrite tok_cons by assumption. rewrite (IH H2). reflexivity.
Qed.

Lemma tok_par {A} n (f : A -> bytes) l : forallb name_byte_ok n = true ->
  tok (COLON :: n ++ slashed f l) = (SPar :: fst (tok (slashed f l)), n :: snd (tok (slashed f l))).
Proof.
  intros Hn. unfold tok at 1. cbn [length]. rewrite tok_fuel_S, Nat.eqb_refl.
  assert (Hsp : span_seg (n ++ slashed f l) = (n, slashed f l)).
  { destruct (slashed_head f l) as [->|[r ->]].
    - rewrite app_nil_r. apply span_seg_whole, names_no_slash, Hn.
    - apply span_seg_app_slash, names_no_slash, Hn. }
  rewrite Hsp. cbn [fst snd].
  rewrite (tok_fuel_indep _ (S (length (slashed f l))) (slashed f l)) by (rewrite ?app_length; lia).
  fold (tok (slashed f l)). destruct (tok (slashed f l)); reflexivity.
Qed.

Lemma tok_slashed ts : simple_ok ts = true -> tok (slashed seg_key ts) = (tshape' ts, tpl_names ts).
Proof.
  induction ts as [|t ts IH]; [reflexivity|]. cbn [simple_ok forallb]. intros H.
  apply andb_true_iff in H. destruct H as [Ht Hts].
  change (slashed seg_key (t :: ts)) with (SLASH :: seg_key t ++ slashed seg_key ts).
  rewrite tok_cons by discriminate.
  destruct t as [l|n|? ?]; cbn [seg_ok seg_key] in *; [| |discriminate].
  - destruct (lit_ok_facts l Ht) as [_ Hl]. rewrite tok_lit by exact Hl. rewrite (IH Hts). reflexivity.
  - destruct (name_ok_facts n Ht) as [_ Hn]. cbn [app]. rewrite tok_par by exact Hn. rewrite (IH Hts). reflexivity.
Qed.

Lemma has_sub2_absent a b k : ~ In b k -> has_sub2 a b k = false.
Proof.
  induction k as [|x k IH]; [reflexivity|]. intros Hn. cbn [has_sub2].
  destruct k as [|y k']; [reflexivity|].
  assert (Hy : Nat.eqb y b = false) by (apply Nat.eqb_neq; intros ->; apply Hn; cbn; auto).
  rewrite Hy, andb_false_r. cbn [orb]. apply IH. intros Hin. apply Hn. now right.
Qed.

Lemma has_sub2_cons2 a b x y r :
  has_sub2 a b (x :: y :: r) = (Nat.eqb x a && Nat.eqb y b) || has_sub2 a b (y :: r).
Proof. reflexivity. Qed.

Lemma has_sub2_app a b pre k : has_sub2 a b k = true -> has_sub2 a b (pre ++ k) = true.
Proof.
  induction pre as [|x pre IH]; [auto|]. intros H. specialize (IH H). cbn [app].
  destruct (pre ++ k) as [|y r] eqn:E; [discriminate|].
  rewrite has_sub2_cons2, IH. apply orb_true_r.
Qed.

Lemma lit_key_no_special ts : simple_ok ts = true -> forallb is_lit ts = true ->
  ~ In COLON (slashed seg_key ts) /\ ~ In STAR (slashed seg_key ts).
Proof.
  induction ts as [|t ts IH]; [cbn; tauto|]. cbn [simple_ok forallb]. intros H Hl.
  apply andb_true_iff in H. destruct H as [Ht Hts]. apply andb_true_iff in Hl. destruct Hl as [Hl1 Hl2].
  destruct t as [l|n|? ?]; try discriminate. cbn [seg_ok] in Ht. destruct (lit_ok_facts l Ht) as [_ Hall].
  destruct (IH Hts Hl2) as [IH1 IH2].
  change (slashed seg_key (TLit l :: ts)) with (SLASH :: l ++ slashed seg_key ts).
  assert (Hl : forall c, In c l -> c <> COLON /\ c <> STAR).
  { intros c Hc. rewrite forallb_forall in Hall. destruct (lit_byte_facts c (Hall c Hc)) as (_ & ? & ? & _). auto. }
  split; intros [H|H]; try discriminate; apply in_app_or in H; destruct H as [H|H]; auto;
    destruct (Hl _ H); congruence.
Qed.

Lemma lit_shape ts : forallb is_lit ts = true -> tshape' ts = map SLit (slashed seg_key ts).
Proof.
  induction ts as [|t ts IH]; [reflexivity|]. cbn [forallb]. intros H. apply andb_true_iff in H. destruct H as [H1 H2].
  destruct t as [l|n|? ?]; try discriminate.
  change (slashed seg_key (TLit l :: ts)) with (SLASH :: l ++ slashed seg_key ts).
  cbn [tshape' flat_map seg_shape map app]. rewrite map_app. fold (tshape' ts). now rewrite (IH H2).
Qed.

Lemma lit_names ts : forallb is_lit ts = true -> tpl_names ts = [].
Proof.
  induction ts as [|t ts IH]; [reflexivity|]. cbn [forallb]. intros H. apply andb_true_iff in H. destruct H as [H1 H2].
  destruct t; try discriminate. cbn. now apply IH.
Qed.

Lemma par_key_is_param ts : simple_ok ts = true -> forallb is_lit ts = false ->
  has_sub2 SLASH COLON (slashed seg_key ts) = true.
Proof.
  induction ts as [|t ts IH]; [discriminate|]. cbn [simple_ok forallb]. intros H Hl.
  apply andb_true_iff in H. destruct H as [Ht Hts].
  change (slashed seg_key (t :: ts)) with (SLASH :: seg_key t ++ slashed seg_key ts).
  destruct t as [l|n|? ?]; cbn [seg_ok seg_key is_lit] in *; [| |discriminate].
  - cbn [andb] in Hl. change (SLASH :: l ++ slashed seg_key ts) with ((SLASH :: l) ++ slashed seg_key ts).
    apply has_sub2_app. now apply IH.
  - cbn [app has_sub2]. now rewrite !Nat.eqb_refl.
Qed.

(* T1: pathConverter + Build's tokeniser on a simple template give the expected shape and names *)
Theorem key_shape_render ts : simple_ok ts = true ->
  key_shape (convert_template (render ts)) = (tshape ts, tpl_names ts).
Proof.
  intros H. rewrite (convert_render ts H). destruct ts as [|t ts]; [reflexivity|].
  unfold render_key, tshape. set (l := t :: ts) in *. unfold key_shape, is_param_key.
  destruct (forallb is_lit l) eqn:El.
  - destruct (lit_key_no_special l H El) as [Hc Hs].
    rewrite !(has_sub2_absent _ COLON _ Hc), (has_sub2_absent _ STAR _ Hs). cbn [orb].
    now rewrite (lit_shape l El), (lit_names l El).
  - rewrite (par_key_is_param l H El). cbn [orb]. now apply tok_slashed.
Qed.

(* ---------- matching: shapes against paths = segments against segments ---------- *)
Lemma plain_seg_facts s : plain_seg s = true -> s <> [] /\ no_slash s = true.
Proof.
  unfold plain_seg. intros H. repeat (apply andb_true_iff in H; destruct H as [H ?]).
  split; [destruct s; [discriminate|discriminate]|]. unfold no_slash. assumption.
Qed.

(* a literal segment against a path segment: equal or no match *)
Lemma smatch_lit_seg l : forall s X Y, no_slash l = true -> no_slash s = true -> l <> [] ->
  (X = [] \/ exists X', X = SLit SLASH :: X') -> (Y = [] \/ exists Y', Y = SLASH :: Y') ->
  smatch (map SLit l ++ X) (s ++ Y) = if bytes_eqb l s then smatch X Y else None.
Proof.
  unfold no_slash, mem_byte.
  induction l as [|c l IH]; intros s X Y Hl Hs Hne HX HY; [contradiction|].
  cbn [existsb] in Hl. apply negb_true_iff, orb_false_iff in Hl. destruct Hl as [Hc Hl].
  destruct s as [|d s].
  - (* the path segment is exhausted first *)
    cbn [map app bytes_eqb]. destruct HY as [->|[Y' ->]]; cbn [smatch]; [reflexivity|].
    rewrite Nat.eqb_sym, Hc. reflexivity.
  - cbn [existsb] in Hs. apply negb_true_iff, orb_false_iff in Hs. destruct Hs as [Hd Hs].
    cbn [map app smatch bytes_eqb]. destruct (Nat.eqb c d) eqn:E; [|reflexivity]. cbn [andb].
    destruct l as [|c' l'].
    + (* the literal is exhausted *)
      cbn [map app]. destruct s as [|d' s']; cbn [bytes_eqb app]; [reflexivity|].
      cbn [existsb] in Hs. apply orb_false_iff in Hs. destruct Hs as [Hd' _].
      destruct HX as [->|[X' ->]]; cbn [smatch]; [reflexivity|]. now rewrite Hd'.
    + apply IH; try assumption; [now rewrite Hl|now rewrite Hs|discriminate].
Qed.

Lemma slashed_cases {A} (f : A -> bytes) l : slashed f l = [] \/ exists Y', slashed f l = SLASH :: Y'.
Proof. apply slashed_head. Qed.

Lemma tshape'_cases ts : tshape' ts = [] \/ exists X', tshape' ts = SLit SLASH :: X'.
Proof. destruct ts; [left; reflexivity|right]. cbn. eauto. Qed.

Lemma smatch_slashed ts : simple_ok ts = true -> forall segs, forallb plain_seg segs = true ->
  smatch (tshape' ts) (slashed (fun s => s) segs) = seg_match ts segs.
Proof.
  induction ts as [|t ts IH]; intros Hok segs Hsegs.
  - destruct segs; reflexivity.
  - cbn [simple_ok forallb] in Hok. apply andb_true_iff in Hok. destruct Hok as [Ht Hts].
    destruct segs as [|s segs].
    + destruct t; reflexivity.
    + cbn [forallb] in Hsegs. apply andb_true_iff in Hsegs. destruct Hsegs as [Hs Hsegs].
      destruct (plain_seg_facts s Hs) as [Hsne Hsns].
      change (slashed (fun s => s) (s :: segs)) with (SLASH :: s ++ slashed (fun s => s) segs).
      change (tshape' (t :: ts)) with (SLit SLASH :: seg_shape t ++ tshape' ts).
      cbn [smatch]. rewrite Nat.eqb_refl.
      destruct t as [l|n|? ?]; cbn [seg_ok seg_shape seg_match] in *; [| |discriminate].
      * destruct (lit_ok_facts l Ht) as [Hlne Hl].
        rewrite smatch_lit_seg; [|now apply lits_no_slash|exact Hsns|exact Hlne|apply tshape'_cases|apply slashed_cases].
        destruct (bytes_eqb l s); [now apply IH|reflexivity].
      * cbn [app]. destruct (s ++ slashed (fun s => s) segs) as [|c0 q] eqn:E.
        { destruct s; [contradiction|discriminate]. }
        rewrite <- E. cbn [smatch]. rewrite E. rewrite <- E.
        assert (Hsp : span_seg (s ++ slashed (fun s => s) segs) = (s, slashed (fun s => s) segs)).
        { destruct (slashed_cases (fun s : bytes => s) segs) as [->|[r ->]].
          - rewrite app_nil_r. now apply span_seg_whole.
          - now apply span_seg_app_slash. }
        rewrite Hsp. cbn [fst snd]. rewrite (IH Hts segs Hsegs).
        destruct s; [contradiction|]. reflexivity.
Qed.

(* T2: on a rooted normal path the shape of a simple template binds exactly the texts that the
   template's segments bind against the path's segments *)
Theorem smatch_render ts segs : simple_ok ts = true -> forallb plain_seg segs = true ->
  smatch (tshape ts) (render_path segs) = seg_match ts segs.
Proof.
  intros Hok Hsegs. destruct ts as [|t ts], segs as [|s segs].
  - reflexivity.
  - cbn [tshape render_path]. change (slashed (fun s => s) (s :: segs)) with (SLASH :: s ++ slashed (fun s => s) segs).
    cbn [smatch seg_match]. rewrite Nat.eqb_refl.
    cbn [forallb] in Hsegs. apply andb_true_iff in Hsegs. destruct Hsegs as [Hs _].
    destruct (plain_seg_facts s Hs) as [Hne _]. destruct s; [contradiction|reflexivity].
  - cbn [tshape render_path]. change (tshape' (t :: ts)) with (SLit SLASH :: seg_shape t ++ tshape' ts).
    cbn [smatch seg_match]. rewrite Nat.eqb_refl.
    cbn [simple_ok forallb] in Hok. apply andb_true_iff in Hok. destruct Hok as [Ht _].
    destruct t as [l|n|? ?]; cbn [seg_ok seg_shape] in *; [| |discriminate].
    + destruct (lit_ok_facts l Ht) as [Hne _]. destruct l; [contradiction|reflexivity].
    + reflexivity.
  - apply smatch_slashed; assumption.
Qed.

(* ---------- preference: shapes vs segments ---------- *)
Lemma pref_cons_iff x a b : pref (x :: a) (x :: b) <-> pref a b.
Proof. split; [|apply pref_cons]. intros H. inversion H; subst; assumption. Qed.

Lemma pref_app_same l a b : pref (l ++ a) (l ++ b) <-> pref a b.
Proof. induction l as [|x l IH]; [tauto|]. cbn [app]. now rewrite pref_cons_iff. Qed.

Lemma seg_match_tail t a s segs : seg_match (t :: a) (s :: segs) <> None -> seg_match a segs <> None.
Proof.
  destruct t as [l|n|ns ls]; cbn [seg_match].
  - destruct (bytes_eqb l s); [auto|congruence].
  - destruct (is_empty s); [congruence|]. destruct (seg_match a segs); congruence.
  - destruct (comp_match ls s); [|congruence]. destruct (all_nonempty l); [|congruence].
    destruct (seg_match a segs); congruence.
Qed.

Lemma seg_match_lit l a s segs : seg_match (TLit l :: a) (s :: segs) <> None -> l = s.
Proof. cbn [seg_match]. destruct (bytes_eqb l s) eqn:E; [intros _; now apply bytes_eqb_eq|congruence]. Qed.

Lemma pref_slashed segs : forall ts1 ts2, simple_ok ts1 = true -> simple_ok ts2 = true ->
  seg_match ts1 segs <> None -> seg_match ts2 segs <> None ->
  (pref (tshape' ts1) (tshape' ts2) <-> seg_pref_b ts1 ts2 = true).
Proof.
  induction segs as [|s segs IH]; intros ts1 ts2 H1 H2 M1 M2.
  - destruct ts1 as [|t1 a]; [|destruct t1; cbn in M1; congruence].
    destruct ts2 as [|t2 b]; [|destruct t2; cbn in M2; congruence].
    cbn. split; [intros H; inversion H|discriminate].
  - destruct ts1 as [|t1 a]; [cbn in M1; congruence|]. destruct ts2 as [|t2 b]; [cbn in M2; congruence|].
    cbn [simple_ok forallb] in H1, H2. apply andb_true_iff in H1. apply andb_true_iff in H2.
    destruct H1 as [Ht1 Ha], H2 as [Ht2 Hb].
    pose proof (seg_match_tail _ _ _ _ M1) as Ma. pose proof (seg_match_tail _ _ _ _ M2) as Mb.
    specialize (IH a b Ha Hb Ma Mb).
    change (tshape' (t1 :: a)) with (SLit SLASH :: seg_shape t1 ++ tshape' a).
    change (tshape' (t2 :: b)) with (SLit SLASH :: seg_shape t2 ++ tshape' b).
    rewrite pref_cons_iff.
    destruct t1 as [l1|n1|? ?], t2 as [l2|n2|? ?]; cbn [seg_ok seg_shape seg_pref_b] in *; try discriminate.
    + pose proof (seg_match_lit _ _ _ _ M1) as E1. pose proof (seg_match_lit _ _ _ _ M2) as E2. subst l1 l2.
      rewrite bytes_eqb_refl. cbn [andb]. rewrite pref_app_same. exact IH.
    + destruct (lit_ok_facts l1 Ht1) as [Hne _]. destruct l1 as [|c l1]; [contradiction|].
      cbn [map app]. split; [reflexivity|intros _; constructor].
    + destruct (lit_ok_facts l2 Ht2) as [Hne _]. destruct l2 as [|c l2]; [contradiction|].
      cbn [map app]. split; [intros H; inversion H|discriminate].
    + cbn [app]. rewrite pref_cons_iff. exact IH.
Qed.

(* T3: among simple templates instantiated by the same rooted normal path, the C05 preference of
   their shapes is the segment-level preference: a literal segment before a placeholder at the first
   segment where the two templates differ *)
Theorem pref_render ts1 ts2 segs : simple_ok ts1 = true -> simple_ok ts2 = true ->
  seg_match ts1 segs <> None -> seg_match ts2 segs <> None ->
  (pref (tshape ts1) (tshape ts2) <-> seg_pref_b ts1 ts2 = true).
Proof.
  intros H1 H2 M1 M2. destruct ts1 as [|t1 a], ts2 as [|t2 b].
  - cbn. split; [intros H; inversion H; subst; match goal with Hx : pref [] [] |- _ => inversion Hx end|discriminate].
  - exfalso. destruct segs; [destruct t2; cbn in M2; congruence|cbn in M1; congruence].
  - exfalso. destruct segs; [destruct t1; cbn in M1; congruence|cbn in M2; congruence].
  - now apply (pref_slashed segs).
Qed.

(* two simple templates with the same shape and both instantiated are segment-wise equal up to the
   names of their placeholders; in particular neither is preferred *)
Lemma pref_irrefl_shape (s : shape) : ~ pref s s.
Proof. induction s as [|x s IH]; intros H; inversion H; subst; auto. Qed.

(* ---------- a rooted normal path is the rendering of its segments ---------- *)
Lemma split_slash_nonempty r : split_slash r <> [].
Proof. induction r as [|c r IH]; cbn [split_slash]; [discriminate|]. destruct (Nat.eqb c SL); [discriminate|]. destruct (split_slash r); discriminate. Qed.

Lemma slashed_split r : slashed (fun s => s) (split_slash r) = SLASH :: r.
Proof.
  induction r as [|c r IH]; [reflexivity|]. cbn [split_slash]. destruct (Nat.eqb c SL) eqn:E.
  - apply Nat.eqb_eq in E. subst c. change (slashed (fun s => s) ([] :: split_slash r)) with (SLASH :: [] ++ slashed (fun s => s) (split_slash r)).
    rewrite IH. reflexivity.
  - destruct (split_slash r) as [|s t] eqn:Es; [exfalso; now apply (split_slash_nonempty r)|].
    cbn [cons_head]. change (slashed (fun s => s) (s :: t)) with (SLASH :: s ++ slashed (fun s => s) t) in IH.
    change (slashed (fun s => s) ((c :: s) :: t)) with (SLASH :: (c :: s) ++ slashed (fun s => s) t).
    inversion IH as [IH']. cbn [app]. now rewrite IH'.
Qed.

Theorem rooted_normal_render p : rooted_normal p = true ->
  exists segs, p = render_path segs /\ forallb plain_seg segs = true.
Proof.
  unfold rooted_normal. destruct p as [|c r]; [discriminate|]. intros H.
  apply andb_true_iff in H. destruct H as [Hc H]. apply Nat.eqb_eq in Hc. subst c.
  destruct r as [|d r'].
  - exists []. split; reflexivity.
  - cbn [is_empty orb] in H. exists (split_slash (d :: r')). split; [|exact H].
    unfold render_path. destruct (split_slash (d :: r')) as [|s t] eqn:Es; [exfalso; now apply (split_slash_nonempty (d :: r'))|].
    rewrite <- Es. now rewrite slashed_split.
Qed.
