(* BinderFileProofs.v -- C03: file parameters: the model equals the specification; a required file that the
   request does not carry is refused whatever the flavour of the form body. *)
From V Require Import Bytes BinderFile.
From Coq Require Import List Bool Arith.
Import ListNotations.
Local Open Scope nat_scope.

Lemma find_filter_head : forall (A : Type) (f : A -> bool) (l : list A),
  List.find f l = match filter f l with x :: _ => Some x | [] => None end.
Proof.
  intros A f l. induction l as [|a l IH]; cbn [List.find filter].
  - reflexivity.
  - destruct (f a) eqn:Hfa.
    + reflexivity.
    + exact IH.
Qed.

Lemma file_model_meets_spec : forall required name rq,
  bind_file required name rq = spec_file required name rq.
Proof.
  intros required name rq. unfold bind_file, spec_file, form_file, carried_file.
  destruct (fr_flavour rq) eqn:Hfl.
  - rewrite find_filter_head.
    destruct (filter (is_file_named name) (fr_parts rq)) as [|p ps] eqn:Hf; reflexivity.
  - reflexivity.
Qed.

(* the clause: required and not carried => refused, never FNone (the handler would run without it) *)
Lemma file_required_missing_refused : forall name rq,
  carried_file name rq = None ->
  bind_file true name rq = FRefused parse_error_status.
Proof.
  intros name rq Hc. rewrite file_model_meets_spec. unfold spec_file. rewrite Hc. reflexivity.
Qed.

(* an urlencoded body never carries a file, whatever its fields are called *)
Lemma file_urlencoded_carries_none : forall name parts,
  carried_file name (FReq FUrlencoded parts) = None.
Proof. intros name parts. reflexivity. Qed.

Lemma file_required_urlencoded_refused : forall name parts,
  bind_file true name (FReq FUrlencoded parts) = FRefused parse_error_status.
Proof. intros name parts. apply file_required_missing_refused. apply file_urlencoded_carries_none. Qed.

(* a carried file is what the handler gets, required or not *)
Lemma file_carried_is_received : forall required name rq f d,
  carried_file name rq = Some (f, d) ->
  bind_file required name rq = FGot f d.
Proof.
  intros required name rq f d Hc. rewrite file_model_meets_spec. unfold spec_file. rewrite Hc. reflexivity.
Qed.

Example file_example_missing :
  carried_file [117] (FReq FMultipart [FPart [85] (Some [97]) [1]; FPart [117] None [2]]) = None.
Proof. reflexivity. Qed.
Example file_example_carried :
  carried_file [117] (FReq FMultipart [FPart [117] None [2]; FPart [117] (Some [97]) [1]; FPart [117] (Some [98]) [3]])
  = Some ([97], [1]).
Proof. reflexivity. Qed.
