(* SpecRouterSimpleRoutes.v — the semantic hypothesis plain_routes of the C01 dispatch theorems is
   derived from syntactic conditions on the route set: every template under the base path is the
   rendering of a list of simple segments (simple_view), placeholder names are distinct inside a
   template, the templates of one method have pairwise distinct shapes, and every operation is
   registered under its own template. The dispatch theorems are then restated with these conditions
   only (dispatch_simple, allow_simple). *)
From V Require Import Bytes DencoSpec DencoTrie DencoSpecProofs PathCleanLib PathUnescapeLib
  SpecRouter SpecRouterSpec SpecRouterProofs SpecRouterSegs SpecRouterSegProofs SpecRouterSegDispatch
  PathCleanProofs SpecRouterSelfReg.

(* ---------- the template text of a simple template is a plain pattern ---------- *)
Lemma rbrace_skip l R : (forall c, In c l -> c <> RBRACE) -> rbrace_ends_seg (l ++ R) = rbrace_ends_seg R.
Proof.
  induction l as [|c l IH]; [reflexivity|]. intros H. cbn [app rbrace_ends_seg].
  assert (Hc : Nat.eqb c RBRACE = false) by (apply Nat.eqb_neq, H; left; reflexivity).
  rewrite Hc. cbn [andb]. apply IH. intros d Hd. apply H. now right.
Qed.

Lemma rbrace_slashed ts : simple_ok ts = true -> rbrace_ends_seg (slashed seg_text ts) = true.
Proof.
  induction ts as [|t ts IH]; [reflexivity|]. cbn [simple_ok forallb]. intros H.
  apply andb_true_iff in H. destruct H as [Ht Hts].
  change (slashed seg_text (t :: ts)) with ([SLASH] ++ seg_text t ++ slashed seg_text ts).
  rewrite rbrace_skip by (intros c [<-|[]]; discriminate).
  destruct t as [l|n|? ?]; cbn [seg_ok seg_text] in *; [| |discriminate].
  - destruct (lit_ok_facts l Ht) as [_ Hl]. rewrite rbrace_skip; [now apply IH|].
    intros c Hc. rewrite forallb_forall in Hl. now destruct (lit_byte_facts c (Hl c Hc)) as (_ & _ & _ & _ & ?).
  - destruct (name_ok_facts n Ht) as [_ Hn].
    change ((LBRACE :: n ++ [RBRACE]) ++ slashed seg_text ts) with ([LBRACE] ++ (n ++ [RBRACE]) ++ slashed seg_text ts).
    rewrite rbrace_skip by (intros c [<-|[]]; discriminate). rewrite <- app_assoc.
    rewrite rbrace_skip.
    + cbn [app rbrace_ends_seg]. rewrite Nat.eqb_refl, (IH Hts), andb_true_r.
      destruct (slashed_head seg_text ts) as [->|[r ->]]; [reflexivity|apply Nat.eqb_refl].
    + intros c Hc. rewrite forallb_forall in Hn. now destruct (name_byte_facts c (Hn c Hc)).
Qed.

Lemma index_of_found pat a b : exists i, index_of pat (a ++ pat ++ b) = Some i.
Proof.
  induction a as [|x a IH].
  - exists 0. cbn [app]. destruct (pat ++ b) eqn:E; cbn [index_of]; rewrite <- E, has_prefix_app; reflexivity.
  - destruct IH as [i IH]. cbn [app index_of]. rewrite IH.
    destruct (has_prefix pat (x :: a ++ pat ++ b)); eauto.
Qed.

Lemma name_in_render ts n : simple_ok ts = true -> In n (tpl_names ts) ->
  exists a b, slashed seg_text ts = a ++ (LBRACE :: n ++ [RBRACE]) ++ b.
Proof.
  induction ts as [|t ts IH]; [intros _ []|]. cbn [simple_ok forallb]. intros Hok.
  apply andb_true_iff in Hok. destruct Hok as [Ht Hts]. unfold tpl_names. cbn [flat_map]. intros H.
  change (slashed seg_text (t :: ts)) with (SLASH :: seg_text t ++ slashed seg_text ts).
  apply in_app_or in H. destruct H as [H|H].
  - destruct t as [l|m|? ?]; cbn [seg_names seg_ok] in *; try contradiction; try discriminate.
    destruct H as [<-|[]]. exists [SLASH], (slashed seg_text ts). reflexivity.
  - destruct (IH Hts H) as (a & b & E). exists (SLASH :: seg_text t ++ a), b. rewrite E.
    cbn [app]. f_equal. now rewrite app_assoc.
Qed.

Theorem plain_pattern_render ts : simple_ok ts = true -> plain_pattern (render ts) = true.
Proof.
  intros Hok. unfold plain_pattern. apply andb_true_iff. split.
  - destruct ts as [|t ts]; [reflexivity|]. now apply rbrace_slashed.
  - unfold names_occur. rewrite (key_shape_render ts Hok). cbn [snd]. apply forallb_forall. intros n Hn.
    destruct ts as [|t ts]; [destruct Hn|]. unfold render.
    destruct (name_in_render _ n Hok Hn) as (a & b & E). rewrite E.
    destruct (index_of_found (LBRACE :: n ++ [RBRACE]) a b) as [i Hi]. now rewrite Hi.
Qed.

(* ---------- the denco key of a simple template is routable ---------- *)
Definition key_byte_ok (c : byte) : bool := (c <? 256) && negb (Nat.eqb c 0) && negb (Nat.eqb c SHARP).

Lemma lit_byte_key c : lit_byte_ok c = true -> key_byte_ok c = true.
Proof.
  unfold lit_byte_ok, key_byte_ok. intros H. repeat (apply andb_true_iff in H; destruct H as [H ?]).
  repeat (apply andb_true_iff; split); assumption.
Qed.

Lemma name_byte_key c : name_byte_ok c = true -> key_byte_ok c = true.
Proof.
  unfold name_byte_ok, key_byte_ok. intros H. repeat (apply andb_true_iff in H; destruct H as [H ?]).
  repeat (apply andb_true_iff; split); assumption.
Qed.

Lemma key_bytes_slashed ts : simple_ok ts = true -> forallb key_byte_ok (slashed seg_key ts) = true.
Proof.
  induction ts as [|t ts IH]; [reflexivity|]. cbn [simple_ok forallb]. intros H.
  apply andb_true_iff in H. destruct H as [Ht Hts].
  change (slashed seg_key (t :: ts)) with (SLASH :: seg_key t ++ slashed seg_key ts).
  cbn [forallb]. rewrite forallb_app, (IH Hts), andb_true_r.
  change (key_byte_ok SLASH) with true. cbn [andb].
  destruct t as [l|n|? ?]; cbn [seg_ok seg_key] in *; [| |discriminate].
  - destruct (lit_ok_facts l Ht) as [_ Hl]. rewrite forallb_forall in *. intros c Hc. now apply lit_byte_key, Hl.
  - destruct (name_ok_facts n Ht) as [_ Hn]. cbn [forallb]. change (key_byte_ok COLON) with true. cbn [andb].
    rewrite forallb_forall in *. intros c Hc. now apply name_byte_key, Hn.
Qed.

Lemma key_bytes_facts k : forallb key_byte_ok k = true ->
  mem_byte SHARP k = false /\ mem_byte 0 k = false /\ forallb (fun c => c <? 256) k = true.
Proof.
  unfold mem_byte. induction k as [|c k IH]; [auto|]. cbn [forallb existsb]. intros H.
  apply andb_true_iff in H. destruct H as [Hc Hk]. destruct (IH Hk) as (I1 & I2 & I3).
  unfold key_byte_ok in Hc. apply andb_true_iff in Hc. destruct Hc as [Hc H3]. apply andb_true_iff in Hc. destruct Hc as [H1 H2].
  apply negb_true_iff in H2. apply negb_true_iff in H3.
  rewrite I1, I2, I3, H1. rewrite (Nat.eqb_sym SHARP c), H3, (Nat.eqb_sym 0 c), H2. auto.
Qed.

Theorem key_ok_render ts : simple_ok ts = true -> nodup_b (tpl_names ts) = true ->
  key_ok (convert_template (render ts)) = true.
Proof.
  intros Hok Hnd. pose proof (key_shape_render ts Hok) as Hks. rewrite (convert_render ts Hok) in *.
  unfold key_ok. unfold key_shape in Hks. destruct (is_param_key (render_key ts)); [|reflexivity].
  rewrite Hks. cbn [snd]. rewrite Hnd, andb_true_r.
  assert (Hb : forallb key_byte_ok (render_key ts) = true).
  { destruct ts as [|t ts]; [reflexivity|]. now apply key_bytes_slashed. }
  destruct (key_bytes_facts _ Hb) as (H1 & H2 & H3). now rewrite H1, H2, H3.
Qed.

(* ---------- the method tables of a simple route set ---------- *)
Section Simple.
Variables (base : bytes) (routes : list route) (ts_of : route -> list tseg).

(* syntactic conditions on a route set *)
Definition simple_routes : Prop :=
  simple_view base routes ts_of /\
  (forall r, In r routes -> nodup_b (tpl_names (ts_of r)) = true) /\
  (forall r0, In r0 routes ->
     NoDup (map (fun r => tshape (ts_of r))
                (filter (fun r => bytes_eqb (upper (r_method r)) (upper (r_method r0))) routes))) /\
  (* AddRoute finds, for every operation, the handler registered for that very operation *)
  (forall r, In r routes -> self_registered base routes r = true).

Hypothesis Hs : simple_routes.

Lemma table_simple mth : forall sub, incl sub routes ->
  table base routes sub mth =
  map (fun r => (route_key base r, (path_join base (r_tpl r), (r_id r, r_id r))))
      (filter (fun r => bytes_eqb (upper (r_method r)) mth) sub).
Proof.
  destruct Hs as (_ & _ & _ & Hself).
  induction sub as [|r rest IH]; intros Hincl; [reflexivity|]. cbn [table filter].
  assert (Hin : In r routes) by (apply Hincl; left; reflexivity).
  assert (Hrest : incl rest routes) by (intros x Hx; apply Hincl; now right).
  destruct (bytes_eqb (upper (r_method r)) mth).
  - rewrite (self_registered_record base routes r (Hself r Hin)). cbn [map]. now rewrite (IH Hrest).
  - now apply IH.
Qed.

Lemma table_shapes mth :
  map fst (entries_of (table base routes routes mth)) =
  map (fun r => tshape (ts_of r)) (filter (fun r => bytes_eqb (upper (r_method r)) mth) routes).
Proof.
  rewrite (table_simple mth routes (incl_refl _)). unfold entries_of. rewrite !map_map.
  destruct Hs as (Hview & _). apply map_ext_in. intros r Hr. apply filter_In in Hr. destruct Hr as [Hin _].
  cbn [entry_of fst]. destruct (Hview r Hin) as [Hj Hok]. unfold route_key. rewrite Hj.
  now rewrite (key_shape_render _ Hok).
Qed.

Lemma table_wf mth : wf_patset (table base routes routes mth) = true.
Proof.
  unfold wf_patset. apply andb_true_iff. split.
  - rewrite (table_simple mth routes (incl_refl _)). apply forallb_forall. intros kv Hkv.
    apply in_map_iff in Hkv. destruct Hkv as (r & <- & Hr). apply filter_In in Hr. destruct Hr as [Hin _].
    cbn [fst]. destruct Hs as (Hview & Hnames & _). destruct (Hview r Hin) as [Hj Hok].
    unfold route_key. rewrite Hj. apply key_ok_render; [exact Hok|now apply Hnames].
  - apply NoDup_nodup_shapes_b. rewrite table_shapes. destruct Hs as (_ & _ & Hnd & _).
    destruct (filter (fun r => bytes_eqb (upper (r_method r)) mth) routes) as [|r0 l] eqn:E; [constructor|].
    assert (Hin0 : In r0 (filter (fun r => bytes_eqb (upper (r_method r)) mth) routes)) by (rewrite E; left; reflexivity).
    apply filter_In in Hin0. destruct Hin0 as [Hin0 Hm]. apply bytes_eqb_eq in Hm.
    rewrite <- E. rewrite <- Hm. now apply Hnd.
Qed.

(* the syntactic conditions imply the hypothesis of the dispatch theorems *)
Theorem simple_routes_plain : plain_routes base routes = true.
Proof.
  unfold plain_routes. apply forallb_forall. intros r Hin.
  destruct Hs as (Hview & _ & _ & Hself). destruct (Hview r Hin) as [Hj Hok].
  rewrite Hj, (plain_pattern_render _ Hok), (Hself r Hin), table_wf. reflexivity.
Qed.

(* the dispatch clause, with syntactic hypotheses only and in the segment vocabulary *)
Theorem dispatch_simple m p segs h ps :
  clean p = render_path segs -> forallb plain_seg segs = true ->
  (serve base routes m p = Run h ps <->
   exists r vs, best_seg_route routes ts_of m segs r vs /\ r_id r = h /\
                ps = combine (tpl_names (ts_of r)) (map unescape_or_raw vs)).
Proof.
  destruct Hs as (Hview & _). intros Hp Hsegs.
  exact (dispatch_segments base routes ts_of Hview m p segs h ps simple_routes_plain Hp Hsegs).
Qed.

Theorem allow_simple m p segs :
  clean p = render_path segs -> forallb plain_seg segs = true ->
  (forall r, In r routes -> under m r -> seg_match (ts_of r) segs = None) ->
  exists A, NoDup A /\
    (forall k, In k A <-> exists r, In r routes /\ upper (r_method r) = k /\ seg_match (ts_of r) segs <> None) /\
    serve base routes m p = match A with [] => R404 | _ => R405 A end.
Proof.
  destruct Hs as (Hview & _). intros Hp Hsegs.
  exact (allow_segments base routes ts_of Hview m p segs simple_routes_plain Hp Hsegs).
Qed.

End Simple.

(* non-vacuity: the example route set (base path /api/, literal and parameter siblings, two
   placeholders, the root template) satisfies the syntactic conditions *)
Theorem example_simple_routes : simple_routes example_base example_routes example_ts_of.
Proof.
  split; [apply example_simple_view|]. split; [|split].
  - intros r Hin. cbn in Hin. repeat (destruct Hin as [<-|Hin]; [reflexivity|]). destruct Hin.
  - intros r Hin. cbn in Hin.
    repeat (destruct Hin as [<-|Hin]; [apply nodup_shapes_b_ok; vm_compute; reflexivity|]). destruct Hin.
  - intros r Hin. cbn in Hin. repeat (destruct Hin as [<-|Hin]; [vm_compute; reflexivity|]). destruct Hin.
Qed.

(* ---------- purely syntactic conditions ---------- *)
(* the base path is empty or rooted; the templates are rooted normal paths; no two operations share
   method and template; every template under the base path is the rendering of simple segments with
   distinct placeholder names; the templates of one method have pairwise distinct shapes *)
Definition syntactic_routes (base : bytes) (routes : list route) (ts_of : route -> list tseg) : Prop :=
  (base = [] \/ exists b, base = SL :: b) /\
  distinct_ops routes /\
  (forall r, In r routes -> normal_template (r_tpl r)) /\
  simple_view base routes ts_of /\
  (forall r, In r routes -> nodup_b (tpl_names (ts_of r)) = true) /\
  (forall r0, In r0 routes ->
     NoDup (map (fun r => tshape (ts_of r))
                (filter (fun r => bytes_eqb (upper (r_method r)) (upper (r_method r0))) routes))).

Theorem syntactic_routes_simple base routes ts_of :
  syntactic_routes base routes ts_of -> simple_routes base routes ts_of.
Proof.
  intros (Hb & Hd & Hn & Hv & Hnames & Hshapes). split; [exact Hv|]. split; [exact Hnames|]. split; [exact Hshapes|].
  intros r Hin. apply self_registered_syntactic; auto.
Qed.

Theorem example_syntactic_routes : syntactic_routes example_base example_routes example_ts_of.
Proof.
  destruct example_simple_routes as (Hv & Hnames & Hshapes & _).
  split; [right; eexists; reflexivity|]. split; [|split; [|split; [exact Hv|split; [exact Hnames|exact Hshapes]]]].
  - intros r r' H H'. cbn in H, H'.
    repeat (destruct H as [<-|H]; [repeat (destruct H' as [<-|H']; [vm_compute; intros; (reflexivity || discriminate)|]); destruct H'|]).
    destruct H.
  - intros r H. cbn in H.
    destruct H as [<-|H]; [exists [[97]; [123;105;100;125]]; split; reflexivity|].
    destruct H as [<-|H]; [exists [[97]; [123;105;100;125]]; split; reflexivity|].
    destruct H as [<-|H]; [exists [[97]; [98]]; split; reflexivity|].
    destruct H as [<-|H]; [exists [[97]; [123;105;100;125]; [99]; [123;120;125]]; split; reflexivity|].
    destruct H as [<-|H]; [exists []; split; reflexivity|]. destruct H.
Qed.
