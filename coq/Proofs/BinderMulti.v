(* BinderMulti.v -- C03: the loop of UntypedRequestBinder.Bind over all declared parameters of one request
   (Binder.bind_request): the composite error names exactly the parameters rejected one by one. *)
From V Require Import Bytes Decimal Binder BinderSpec DecimalProofs BinderProofs BinderClauses.
From Coq Require Import Permutation.
Local Open Scope nat_scope.

Definition judge_of (O : oracles) (rq : request) : decl -> option nat -> outcome :=
  fun d valid => bind_param O d rq valid.

Lemma rejected_names_cons_bound O rq p r v :
  bind_param O (fst p) rq (snd p) = Bound v ->
  rejected_names (judge_of O rq) (p :: r) = rejected_names (judge_of O rq) r.
Proof.
  intros Hv. unfold rejected_names, judge_of. cbn [filter]. rewrite Hv. reflexivity.
Qed.

Lemma rejected_names_cons_422 O rq p r n c :
  bind_param O (fst p) rq (snd p) = R422 n c ->
  rejected_names (judge_of O rq) (p :: r) = d_name (fst p) :: rejected_names (judge_of O rq) r.
Proof.
  intros Hc. unfold rejected_names, judge_of. cbn [filter]. rewrite Hc. reflexivity.
Qed.

Lemma bind_loop_names O rq : forall ps vals errs,
  (forall p, In p ps -> decl_wf O (fst p) = true) ->
  (errs ++ rejected_names (judge_of O rq) ps = [] -> exists vs, bind_loop O rq ps vals errs = AllBound vs) /\
  (errs ++ rejected_names (judge_of O rq) ps <> [] ->
   bind_loop O rq ps vals errs = Rejected (errs ++ rejected_names (judge_of O rq) ps)).
Proof.
  induction ps as [|p r IH]; intros vals errs Hwf.
  - unfold rejected_names. cbn [filter map bind_loop]. rewrite app_nil_r. split.
    + intros Hnil. rewrite Hnil. eexists. reflexivity.
    + intros Hne. destruct errs as [|e es]; [congruence | reflexivity].
  - assert (Hp : decl_wf O (fst p) = true) by (apply Hwf; left; reflexivity).
    assert (Hr : forall q, In q r -> decl_wf O (fst q) = true) by (intros q Hq; apply Hwf; right; exact Hq).
    destruct (bind_total O (fst p) rq (snd p) Hp) as [[v Hv] | [c Hc]].
    + rewrite (rejected_names_cons_bound O rq p r v Hv). cbn [bind_loop]. rewrite Hv. apply IH. exact Hr.
    + rewrite (rejected_names_cons_422 O rq p r _ c Hc). cbn [bind_loop]. rewrite Hc.
      replace (errs ++ d_name (fst p) :: rejected_names (judge_of O rq) r)
        with ((errs ++ [d_name (fst p)]) ++ rejected_names (judge_of O rq) r)
        by (rewrite <- app_assoc; reflexivity).
      apply IH. exact Hr.
Qed.

(* every parameter that is rejected when judged alone is named by the composite error, and no other; when none
   is rejected the handler runs. Whatever happened to the parameters visited earlier. *)
Theorem every_rejected_parameter_named O ps rq :
  (forall p, In p ps -> decl_wf O (fst p) = true) ->
  (rejected_names (fun d valid => bind_param O d rq valid) ps = [] /\
   exists vs, bind_request O ps rq = AllBound vs) \/
  (rejected_names (fun d valid => bind_param O d rq valid) ps <> [] /\
   bind_request O ps rq = Rejected (rejected_names (fun d valid => bind_param O d rq valid) ps)).
Proof.
  intros Hwf. fold (judge_of O rq). unfold bind_request.
  destruct (bind_loop_names O rq ps [] [] Hwf) as [Hnil Hne]. cbn [app] in Hnil, Hne.
  destruct (rejected_names (judge_of O rq) ps) as [|n ns] eqn:E.
  - left. split; [reflexivity | apply Hnil; reflexivity].
  - right. split; [discriminate | apply Hne; discriminate].
Qed.

(* the set of names does not depend on the order in which the Go map hands out the parameters *)
Theorem rejected_names_any_order judge ps ps' : Permutation ps ps' ->
  forall n, In n (rejected_names judge ps) <-> In n (rejected_names judge ps').
Proof.
  intros HP n. unfold rejected_names. rewrite !in_map_iff.
  split; intros [p [E Hin]]; exists p; (split; [exact E|]);
    apply filter_In in Hin; destruct Hin as [Hin Hrej]; apply filter_In; (split; [|exact Hrej]).
  - eapply Permutation_in; [exact HP | exact Hin].
  - eapply Permutation_in; [apply Permutation_sym; exact HP | exact Hin].
Qed.

(* a request with two offending parameters and a good one: both offenders are named, in either order *)
Example two_offenders_named :
  let O := {| o_registered := fun _ => false; o_format := fun _ _ => None; o_float := fun _ => None |} in
  let mk n := {| d_name := n; d_in := LQuery; d_kind := KInteger; d_format := []; d_item_kind := None;
                 d_item_format := []; d_cf := []; d_required := false; d_default := None; d_allow_empty := false |} in
  let rq := {| r_query := [([97], [49]); ([98], [120]); ([99], [53])]; r_header := []; r_path := []; r_form := [] |} in
  bind_request O [(mk [97], Some 8); (mk [98], None); (mk [99], None)] rq = Rejected [[97]; [98]] /\
  bind_request O [(mk [98], None); (mk [99], None); (mk [97], Some 8)] rq = Rejected [[98]; [97]].
Proof. vm_compute. split; reflexivity. Qed.
