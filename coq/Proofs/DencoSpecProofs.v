(* DencoSpecProofs.v — facts about the C05 vocabulary (segments, matching vs substitution, the key
   tokeniser, preference) and the theorems about the trie-level model of Router.Lookup. *)
From Coq Require Import Permutation.
From V Require Import Bytes DencoSpec DencoTrie DencoTrieProofs.

(* ---------- segments ---------- *)
Lemma span_seg_nil : span_seg [] = ([], []).
Proof. reflexivity. Qed.

Lemma span_seg_cons c r :
  span_seg (c :: r) = if Nat.eqb c SLASH then ([], c :: r) else (c :: fst (span_seg r), snd (span_seg r)).
Proof.
  unfold span_seg at 1. fold span_seg. destruct (Nat.eqb c SLASH); [reflexivity|].
  destruct (span_seg r); reflexivity.
Qed.

Lemma span_seg_app p : fst (span_seg p) ++ snd (span_seg p) = p.
Proof.
  induction p as [|c r IH]; [reflexivity|]. rewrite span_seg_cons.
  destruct (Nat.eqb c SLASH); cbn [fst snd app]; [reflexivity|]. now rewrite IH.
Qed.

Lemma span_seg_no_slash p : no_slash (fst (span_seg p)) = true.
Proof.
  unfold no_slash, mem_byte. induction p as [|c r IH]; [reflexivity|]. rewrite span_seg_cons.
  destruct (Nat.eqb c SLASH) eqn:E; cbn [fst existsb]; [reflexivity|].
  rewrite Nat.eqb_sym, E. exact IH.
Qed.

Lemma span_seg_snd p : snd (span_seg p) = [] \/ exists r, snd (span_seg p) = SLASH :: r.
Proof.
  induction p as [|c r IH]; [left; reflexivity|]. rewrite span_seg_cons.
  destruct (Nat.eqb c SLASH) eqn:E; cbn [snd]; [|exact IH].
  apply Nat.eqb_eq in E; subst. right. now exists r.
Qed.

Lemma span_seg_snd_length p : length (snd (span_seg p)) <= length p.
Proof.
  induction p as [|c r IH]; [rewrite span_seg_nil; cbn; lia|]. rewrite span_seg_cons.
  destruct (Nat.eqb c SLASH); cbn [snd length] in *; lia.
Qed.

Lemma span_seg_whole v : no_slash v = true -> span_seg v = (v, []).
Proof.
  unfold no_slash, mem_byte. induction v as [|c r IH]; [reflexivity|]. cbn [existsb].
  intros H. apply negb_true_iff, orb_false_iff in H. destruct H as [H1 H2].
  rewrite span_seg_cons, Nat.eqb_sym, H1. rewrite IH; [reflexivity|]. now rewrite H2.
Qed.

Lemma span_seg_app_slash v r : no_slash v = true -> span_seg (v ++ SLASH :: r) = (v, SLASH :: r).
Proof.
  unfold no_slash, mem_byte. induction v as [|c v IH]; cbn [app existsb].
  - intros _. rewrite span_seg_cons, Nat.eqb_refl. reflexivity.
  - intros H. apply negb_true_iff, orb_false_iff in H. destruct H as [H1 H2].
    rewrite span_seg_cons, Nat.eqb_sym, H1. rewrite IH; [reflexivity|]. now rewrite H2.
Qed.

(* ---------- shapes ---------- *)
Lemma wf_shape_b_ok s : wf_shape_b s = true <-> wf_shape s.
Proof.
  induction s as [|x s IH]; cbn [wf_shape_b wf_shape]; [tauto|].
  destruct x as [c| |].
  - exact IH.
  - rewrite andb_true_iff, IH. destruct s as [|[d| |] s']; try rewrite Nat.eqb_eq; intuition congruence.
  - destruct s; intuition congruence.
Qed.

Lemma wf_shape_wild_last s : wf_shape s -> wild_last s.
Proof.
  induction s as [|x s IH]; cbn [wf_shape wild_last]; [tauto|].
  destruct x as [c| |]; [exact IH| |tauto]. intros [_ H]. now apply IH.
Qed.

Lemma smatch_subst s : wild_last s -> forall p vs, smatch s p = Some vs -> subst s vs = Some p.
Proof.
  induction s as [|x s IH]; intros Hw p vs; cbn [smatch subst].
  - destruct p; [|discriminate]. intros H; inversion H; reflexivity.
  - destruct x as [c| |]; cbn [wild_last] in Hw.
    + destruct p as [|c' p']; [discriminate|]. destruct (Nat.eqb c c') eqn:E; [|discriminate].
      apply Nat.eqb_eq in E; subst c'. intros H. now rewrite (IH Hw p' vs H).
    + destruct p as [|c' p']; [discriminate|].
      destruct (smatch s (snd (span_seg (c' :: p')))) as [vs'|] eqn:E; [|discriminate].
      intros H; inversion H; subst. rewrite (IH Hw _ _ E). now rewrite span_seg_app.
    + subst s. destruct p as [|c' p']; [discriminate|]. intros H; inversion H; subst.
      cbn [subst]. now rewrite app_nil_r.
Qed.

Lemma par_texts_ok_nil s : par_texts_ok s [] = true.
Proof. induction s as [|[c| |] s IH]; cbn; auto. Qed.

Lemma smatch_par_texts s : forall p vs, smatch s p = Some vs -> par_texts_ok s vs = true.
Proof.
  induction s as [|x s IH]; intros p vs; cbn [smatch par_texts_ok].
  - destruct p; [|discriminate]. intros H; inversion H; reflexivity.
  - destruct x as [c| |].
    + destruct p as [|c' p']; [discriminate|]. destruct (Nat.eqb c c'); [|discriminate]. apply IH.
    + destruct p as [|c' p']; [discriminate|].
      destruct (smatch s (snd (span_seg (c' :: p')))) as [vs'|] eqn:E; [|discriminate].
      intros H; inversion H; subst. rewrite span_seg_no_slash. now rewrite (IH _ _ E).
    + destruct p as [|c' p']; [discriminate|]. intros H; inversion H; subst.
      apply par_texts_ok_nil.
Qed.

Lemma smatch_length s : wild_last s -> forall p vs, smatch s p = Some vs -> length vs = placeholders s.
Proof.
  induction s as [|x s IH]; intros Hw p vs; cbn [smatch placeholders].
  - destruct p; [|discriminate]. intros H; inversion H; reflexivity.
  - destruct x as [c| |]; cbn [wild_last] in Hw.
    + destruct p as [|c' p']; [discriminate|]. destruct (Nat.eqb c c'); [|discriminate]. now apply IH.
    + destruct p as [|c' p']; [discriminate|].
      destruct (smatch s (snd (span_seg (c' :: p')))) as [vs'|] eqn:E; [|discriminate].
      intros H; inversion H; subst. cbn [length]. now rewrite (IH Hw _ _ E).
    + subst s. destruct p as [|c' p']; [discriminate|]. intros H; inversion H; reflexivity.
Qed.

(* completeness of matching: an instantiation with non-empty texts, '/'-free for the
   single-segment parameters, is recognised, and with exactly those texts *)
Lemma subst_smatch s : wf_shape s -> forall vs p,
  subst s vs = Some p -> par_texts_ok s vs = true -> forallb nonempty vs = true ->
  smatch s p = Some vs.
Proof.
  induction s as [|x s IH]; intros Hw vs p; cbn [subst smatch par_texts_ok].
  - destruct vs; [|discriminate]. intros H; inversion H; reflexivity.
  - destruct x as [c| |]; cbn [wf_shape] in Hw.
    + destruct (subst s vs) as [r|] eqn:E; [|discriminate]. intros H; inversion H; subst.
      rewrite Nat.eqb_refl. now apply IH.
    + destruct Hw as [Hnext Hw]. destruct vs as [|v vs']; [discriminate|].
      destruct (subst s vs') as [r|] eqn:E; [|discriminate]. intros H; inversion H; subst.
      intros Hp Hne. apply andb_true_iff in Hp. destruct Hp as [Hv Hp].
      cbn [forallb] in Hne. apply andb_true_iff in Hne. destruct Hne as [Hv1 Hne].
      assert (Hsp : span_seg (v ++ r) = (v, r)).
      { destruct s as [|[d| |] s']; try contradiction.
        - cbn [subst] in E. destruct vs'; [|discriminate]. inversion E; subst.
          rewrite app_nil_r. now apply span_seg_whole.
        - subst d. cbn [subst] in E. destruct (subst s' vs'); [|discriminate]. inversion E; subst.
          now apply span_seg_app_slash. }
      destruct (v ++ r) as [|c0 q] eqn:Eq.
      { destruct v; [discriminate|discriminate]. }
      rewrite Hsp. cbn [fst snd]. now rewrite (IH Hw vs' r E Hp Hne).
    + subst s. destruct vs as [|v vs']; [discriminate|]. cbn [subst].
      destruct vs'; [|discriminate]. intros H; inversion H; subst. rewrite app_nil_r.
      intros _ Hne. cbn [forallb] in Hne. destruct v; [discriminate|reflexivity].
Qed.

(* ---------- literal shapes (static keys) ---------- *)
Lemma smatch_lits k p vs : smatch (map SLit k) p = Some vs -> k = p /\ vs = [].
Proof.
  revert p. induction k as [|c k IH]; intros p; cbn [map smatch].
  - destruct p; [|discriminate]. intros H; inversion H; auto.
  - destruct p as [|c' p']; [discriminate|]. destruct (Nat.eqb c c') eqn:E; [|discriminate].
    apply Nat.eqb_eq in E; subst. intros H. destruct (IH _ H) as [-> ->]. auto.
Qed.

Lemma smatch_lits_refl p : smatch (map SLit p) p = Some [].
Proof. induction p as [|c p IH]; cbn [map smatch]; [reflexivity|]. now rewrite Nat.eqb_refl. Qed.

Lemma map_SLit_inj k k' : map SLit k = map SLit k' -> k = k'.
Proof.
  revert k'. induction k as [|c k IH]; intros [|c' k']; cbn [map]; try discriminate; [reflexivity|].
  intros H; inversion H; subst. f_equal. now apply IH.
Qed.

(* an all-literal shape that matches is preferred to every other matching shape *)
Lemma lit_pref_least s : forall p, smatch s p <> None -> s <> map SLit p -> pref (map SLit p) s.
Proof.
  induction s as [|x s IH]; intros p Hm Hne.
  - destruct p; [contradiction|]. cbn in Hm. congruence.
  - destruct x as [c| |].
    + destruct p as [|c' p']; cbn [smatch] in Hm; [congruence|].
      destruct (Nat.eqb c c') eqn:E; [|congruence]. apply Nat.eqb_eq in E; subst c'.
      cbn [map]. apply pref_cons. apply IH; [exact Hm|]. intros ->. apply Hne. reflexivity.
    + destruct p as [|c' p']; cbn [smatch] in Hm; [congruence|]. cbn [map]. constructor.
    + destruct p as [|c' p']; cbn [smatch] in Hm; [congruence|]. cbn [map]. constructor.
Qed.

Lemma pref_b_ok a : forall b, pref_b a b = true <-> pref a b.
Proof.
  induction a as [|x a IH]; intros b.
  - cbn. split; [discriminate|]. intros H; inversion H.
  - destruct b as [|y b]; [cbn; split; [discriminate|intros H; inversion H]|].
    cbn [pref_b]. destruct (stok_eqb x y) eqn:E.
    + assert (x = y) as ->.
      { destruct x, y; cbn in E; try discriminate; try reflexivity. apply Nat.eqb_eq in E. now subst. }
      rewrite IH. split; [apply pref_cons|]. intros H; inversion H; subst; try assumption;
        cbn in E; discriminate.
    + split.
      * destruct x, y; try discriminate; intros _; constructor.
      * intros H; inversion H; subst; try reflexivity.
        destruct y; cbn in E; try discriminate. now rewrite Nat.eqb_refl in E.
Qed.

(* ---------- the key tokeniser ---------- *)
Lemma tok_fuel_wf f : forall k, length k < f -> wf_shape (fst (tok_fuel f k)) /\
  (fst (tok_fuel f k) = [] \/ exists x r, fst (tok_fuel f k) = x :: r /\
     match k with c :: _ => (x = SLit c /\ c <> COLON /\ c <> STAR) \/ (c = COLON /\ x = SPar) \/ (c = STAR /\ x = SWild) | [] => False end).
Proof.
  induction f as [|f IH]; intros k Hl; [lia|].
  destruct k as [|c r]; cbn [tok_fuel]; [cbn; auto|].
  destruct (Nat.eqb c COLON) eqn:Ec.
  - pose proof (span_seg_snd_length r) as Hlen. cbn [length] in Hl.
    destruct (IH (snd (span_seg r)) ltac:(lia)) as [Hw Hhead].
    destruct (tok_fuel f (snd (span_seg r))) as [s ns] eqn:Et. cbn [fst] in *.
    split.
    + cbn [wf_shape]. split; [|exact Hw].
      destruct Hhead as [->|(x & r' & -> & Hx)]; [exact I|].
      destruct (span_seg_snd r) as [Hs|[q Hs]]; rewrite Hs in Hx; [contradiction|].
      destruct Hx as [(-> & _ & _)|[(Hc & _)|(Hc & _)]]; [reflexivity|discriminate|discriminate].
    + right. exists SPar, s. split; [reflexivity|]. right. left. apply Nat.eqb_eq in Ec. auto.
  - destruct (Nat.eqb c STAR) eqn:Es.
    + cbn [fst]. split; [reflexivity|]. right. exists SWild, []. split; [reflexivity|].
      right. right. apply Nat.eqb_eq in Es. auto.
    + cbn [length] in Hl. destruct (IH r ltac:(lia)) as [Hw _].
      destruct (tok_fuel f r) as [s ns]. cbn [fst] in *. split; [exact Hw|].
      right. exists (SLit c), s. split; [reflexivity|]. left.
      apply Nat.eqb_neq in Ec. apply Nat.eqb_neq in Es. auto.
Qed.

Lemma tok_wf_shape k : wf_shape (fst (tok k)).
Proof. unfold tok. apply tok_fuel_wf. lia. Qed.

Lemma tok_fuel_names f : forall k, length (snd (tok_fuel f k)) = placeholders (fst (tok_fuel f k)).
Proof.
  induction f as [|f IH]; intros k; [reflexivity|].
  destruct k as [|c r]; cbn [tok_fuel]; [reflexivity|].
  destruct (Nat.eqb c COLON).
  - specialize (IH (snd (span_seg r))). destruct (tok_fuel f (snd (span_seg r))) as [s ns].
    cbn [fst snd length placeholders] in *. now rewrite IH.
  - destruct (Nat.eqb c STAR); [reflexivity|].
    specialize (IH r). destruct (tok_fuel f r) as [s ns]. cbn [fst snd placeholders] in *. exact IH.
Qed.

Lemma key_shape_wf k : wf_shape (fst (key_shape k)).
Proof.
  unfold key_shape. destruct (is_param_key k); [apply tok_wf_shape|]. cbn [fst].
  induction k; cbn; auto.
Qed.

Lemma key_shape_names k : length (snd (key_shape k)) = placeholders (fst (key_shape k)).
Proof.
  unfold key_shape. destruct (is_param_key k); [apply tok_fuel_names|]. cbn [fst snd].
  induction k; cbn; auto.
Qed.

Lemma zip_names_combine ns : forall vs, length ns = length vs -> zip_names ns vs = Some (combine ns vs).
Proof.
  induction ns as [|n ns IH]; intros [|v vs]; cbn; try discriminate; [reflexivity|].
  intros H. now rewrite IH by lia.
Qed.

Lemma combine_fst (ns vs : list bytes) : length ns = length vs -> map fst (combine ns vs) = ns.
Proof.
  revert vs. induction ns as [|n ns IH]; intros [|v vs]; cbn; try discriminate; [reflexivity|].
  intros H. now rewrite IH by lia.
Qed.

Lemma combine_snd (ns vs : list bytes) : length ns = length vs -> map snd (combine ns vs) = vs.
Proof.
  revert vs. induction ns as [|n ns IH]; intros [|v vs]; cbn; try discriminate; [reflexivity|].
  intros H. now rewrite IH by lia.
Qed.

(* ---------- the route table ---------- *)
Section Table.
Context {V : Type}.
Implicit Types pats : list (bytes * V).

Lemma nodup_shapes_b_ok l : nodup_shapes_b l = true -> NoDup l.
Proof.
  induction l as [|x l IH]; cbn [nodup_shapes_b]; [constructor|].
  intros H. apply andb_true_iff in H. destruct H as [H1 H2]. constructor; [|now apply IH].
  intros Hin. apply negb_true_iff in H1. rewrite <- not_true_iff_false in H1. apply H1.
  apply existsb_exists. exists x. split; [exact Hin|].
  clear. induction x as [|a x IH]; cbn; [reflexivity|]. rewrite IH, andb_true_r.
  destruct a; cbn; auto. apply Nat.eqb_refl.
Qed.

Lemma shape_eqb_eq a : forall b, shape_eqb a b = true -> a = b.
Proof.
  induction a as [|x a IH]; intros [|y b]; cbn; try discriminate; [reflexivity|].
  intros H. apply andb_true_iff in H. destruct H as [H1 H2]. f_equal; [|now apply IH].
  destruct x, y; cbn in H1; try discriminate; try reflexivity. apply Nat.eqb_eq in H1. now subst.
Qed.

Lemma NoDup_nodup_shapes_b l : NoDup l -> nodup_shapes_b l = true.
Proof.
  induction 1 as [|x l Hn Hnd IH]; cbn [nodup_shapes_b]; [reflexivity|].
  rewrite IH, andb_true_r. apply negb_true_iff. rewrite <- not_true_iff_false. intros H.
  apply existsb_exists in H. destruct H as (y & Hy & E). apply shape_eqb_eq in E. now subst.
Qed.

Lemma wf_patset_nodup pats : wf_patset pats = true -> NoDup (map fst (entries_of pats)).
Proof. unfold wf_patset. intros H. apply andb_true_iff in H. now apply nodup_shapes_b_ok. Qed.

Lemma entries_of_wild_last pats : Forall (fun e : shape * (V * list bytes) => wild_last (fst e)) (entries_of pats).
Proof.
  unfold entries_of. apply Forall_forall. intros e He. apply in_map_iff in He.
  destruct He as (kv & <- & _). cbn [entry_of fst]. apply wf_shape_wild_last, key_shape_wf.
Qed.

Lemma NoDup_map_filter {A B} (g : A -> B) (f : A -> bool) l : NoDup (map g l) -> NoDup (map g (filter f l)).
Proof.
  induction l as [|x l IH]; cbn; [auto|]. intros H. inversion H as [|? ? Hn Hnd]; subst.
  destruct (f x); cbn; [|now apply IH]. constructor; [|now apply IH].
  intros Hin. apply Hn. apply in_map_iff in Hin. destruct Hin as (y & Hy & Hin).
  apply filter_In in Hin. apply in_map_iff. exists y. tauto.
Qed.

Lemma static_lookup_spec pats p : forall acc,
  match static_lookup pats p acc with
  | Some v => acc = Some v \/ (In (p, v) pats /\ is_param_key p = false)
  | None => acc = None /\ forall v, In (p, v) pats -> is_param_key p = true
  end.
Proof.
  induction pats as [|[k v] r IH]; intros acc; cbn [static_lookup].
  - destruct acc; [left; reflexivity|]. split; [reflexivity|]. intros v [].
  - specialize (IH (if negb (is_param_key k) && bytes_eqb k p then Some v else acc)).
    destruct (static_lookup r p _) as [v'|].
    + destruct IH as [IH|[IH1 IH2]]; [|right; split; [right; exact IH1|exact IH2]].
      destruct (negb (is_param_key k) && bytes_eqb k p) eqn:E; [|left; exact IH].
      apply andb_true_iff in E. destruct E as [E1 E2]. apply bytes_eqb_eq in E2. subst k.
      apply negb_true_iff in E1. inversion IH; subst. right. split; [left; reflexivity|exact E1].
    + destruct IH as [IH1 IH2].
      destruct (negb (is_param_key k) && bytes_eqb k p) eqn:E; [discriminate|].
      split; [exact IH1|]. intros v0 [H|H]; [|now apply (IH2 v0)].
      inversion H; subst. rewrite bytes_eqb_refl, andb_true_r in E. now apply negb_false_iff in E.
Qed.

Lemma in_entries_of pats e : In e (entries_of pats) <-> exists kv, In kv pats /\ e = entry_of kv.
Proof. unfold entries_of. rewrite in_map_iff. split; intros (kv & H1 & H2); exists kv; auto. Qed.

Lemma uniq_by_shape (ents : list (shape * (V * list bytes))) s x y :
  NoDup (map fst ents) -> In (s, x) ents -> In (s, y) ents -> x = y.
Proof.
  induction ents as [|[s0 x0] r IH]; intros Hnd H H'; [destruct H|].
  cbn in Hnd. inversion Hnd as [|? ? Hn Hnd']; subst.
  destruct H as [H|H], H' as [H'|H'].
  - congruence.
  - inversion H; subst. exfalso. apply Hn. apply in_map_iff. exists (s, y); auto.
  - inversion H'; subst. exfalso. apply Hn. apply in_map_iff. exists (s, x); auto.
  - eapply IH; eauto.
Qed.

(* the model of Router.Lookup answers with the best match of the table, and never panics *)
Theorem router_best pats p : wf_patset pats = true ->
  match router_lookup pats p with
  | Found v ps => exists s ns vs, is_best (entries_of pats) p s v ns vs /\
                                  length ns = length vs /\ ps = combine ns vs
  | NotFound => forall e, In e (entries_of pats) -> smatch (fst e) p = None
  | Panic => False
  | OutOfFuel => False
  end.
Proof.
  intros Hwf. pose proof (wf_patset_nodup pats Hwf) as Hnd.
  unfold router_lookup. pose proof (static_lookup_spec pats p None) as Hst.
  destruct (static_lookup pats p None) as [v|].
  - destruct Hst as [Hst|[Hin Hstatic]]; [discriminate|].
    exists (map SLit p), [], []. split; [|split; reflexivity].
    assert (He : In (map SLit p, (v, [])) (entries_of pats)).
    { apply in_entries_of. exists (p, v). split; [exact Hin|].
      unfold entry_of, key_shape. cbn [fst snd]. now rewrite Hstatic. }
    split; [exact He|]. split; [apply smatch_lits_refl|].
    intros [s' x'] He' Hm. cbn [fst] in *.
    destruct (list_eq_dec (fun a b : stok => ltac:(decide equality; apply Nat.eq_dec)) s' (map SLit p)) as [->|Hne].
    + left. f_equal. eapply uniq_by_shape; eauto.
    + right. now apply lit_pref_least.
  - destruct Hst as [_ Hst].
    assert (Hstat : forall e, In e (entries_of pats) -> smatch (fst e) p <> None ->
                    In e (entries_of (param_pats pats))).
    { intros e He Hm. apply in_entries_of in He. destruct He as ([k v] & Hin & ->).
      apply in_entries_of. exists (k, v). split; [|reflexivity].
      unfold param_pats. apply filter_In. split; [exact Hin|]. cbn [fst].
      destruct (is_param_key k) eqn:E; [reflexivity|]. exfalso.
      unfold entry_of, key_shape in Hm. cbn [fst snd] in Hm. rewrite E in Hm. cbn [fst] in Hm.
      destruct (smatch (map SLit k) p) as [vs|] eqn:Es; [|congruence].
      apply smatch_lits in Es. destruct Es as [-> _]. rewrite (Hst v Hin) in E. discriminate. }
    assert (Hsub : forall e, In e (entries_of (param_pats pats)) -> In e (entries_of pats)).
    { intros e He. apply in_entries_of in He. destruct He as (kv & Hin & ->).
      apply in_entries_of. exists kv. split; [|reflexivity]. unfold param_pats in Hin.
      now apply filter_In in Hin. }
    assert (Hnd' : NoDup (map fst (entries_of (param_pats pats)))).
    { unfold entries_of, param_pats in *. rewrite map_map. rewrite map_map in Hnd.
      now apply NoDup_map_filter. }
    pose proof (build_best (entries_of (param_pats pats)) p (entries_of_wild_last _) Hnd') as Hb.
    unfold model_trie. destruct (tlookup (build (entries_of (param_pats pats))) p) as [[[v ns] vs]|].
    + destruct Hb as (s & Hin & Hs & Hleast).
      assert (Hlen : length ns = length vs).
      { pose proof (Hsub _ Hin) as Hin'. apply in_entries_of in Hin'. destruct Hin' as (kv & _ & E).
        unfold entry_of in E. inversion E; subst.
        rewrite key_shape_names. symmetry. eapply smatch_length; [|exact Hs].
        apply wf_shape_wild_last, key_shape_wf. }
      rewrite (zip_names_combine ns vs Hlen).
      exists s, ns, vs. split; [|split; [exact Hlen|reflexivity]].
      split; [apply Hsub; exact Hin|]. split; [exact Hs|].
      intros e' He' Hm. apply Hleast; [apply Hstat; assumption|exact Hm].
    + intros e He. destruct (smatch (fst e) p) eqn:Es; [|reflexivity]. exfalso.
      apply (Hb e); [apply Hstat; [exact He|congruence]|unfold matches; congruence].
Qed.

Lemma is_best_unique (ents : list (shape * (V * list bytes))) p s v ns vs s' v' ns' vs' :
  NoDup (map fst ents) ->
  is_best ents p s v ns vs -> is_best ents p s' v' ns' vs' -> s = s' /\ v = v' /\ ns = ns' /\ vs = vs'.
Proof.
  intros Hnd (Hin & Hs & Hl) (Hin' & Hs' & Hl').
  assert (Hss : s = s').
  { destruct (Hl _ Hin' ltac:(cbn [fst]; congruence)) as [E|Hp]; [now inversion E|].
    destruct (Hl' _ Hin ltac:(cbn [fst]; congruence)) as [E|Hp']; [now inversion E|].
    cbn [fst] in *. exfalso. exact (pref_asym _ _ Hp Hp'). }
  subst s'. pose proof (uniq_by_shape ents s _ _ Hnd Hin Hin') as E. inversion E; subst.
  rewrite Hs in Hs'. inversion Hs'. auto.
Qed.

Lemma wf_patset_perm pats pats' : Permutation pats pats' -> wf_patset pats = true -> wf_patset pats' = true.
Proof.
  intros Hp H. unfold wf_patset in *. apply andb_true_iff in H. destruct H as [H1 H2].
  apply andb_true_iff. split.
  - rewrite forallb_forall in *. intros x Hx. apply H1. eapply Permutation_in; [symmetry; exact Hp|exact Hx].
  - apply NoDup_nodup_shapes_b. apply nodup_shapes_b_ok in H2.
    eapply Permutation_NoDup; [|exact H2]. unfold entries_of. now do 2 apply Permutation_map.
Qed.

Theorem router_order_independent pats pats' p :
  wf_patset pats = true -> Permutation pats pats' -> router_lookup pats p = router_lookup pats' p.
Proof.
  intros Hwf Hperm. pose proof (wf_patset_perm _ _ Hperm Hwf) as Hwf'.
  pose proof (router_best pats p Hwf) as H1. pose proof (router_best pats' p Hwf') as H2.
  pose proof (wf_patset_nodup pats Hwf) as Hnd.
  assert (Hin : forall e, In e (entries_of pats) <-> In e (entries_of pats')).
  { intros e. unfold entries_of. split; apply Permutation_in; apply Permutation_map; [exact Hperm|symmetry; exact Hperm]. }
  assert (Hbest : forall s v ns vs, is_best (entries_of pats') p s v ns vs -> is_best (entries_of pats) p s v ns vs).
  { intros s v ns vs (Ha & Hb & Hc). split; [now apply Hin|]. split; [exact Hb|].
    intros e' He'. apply Hc. now apply Hin. }
  destruct (router_lookup pats p) as [v ps| | |], (router_lookup pats' p) as [v' ps'| | |]; try contradiction; try reflexivity.
  - destruct H1 as (s & ns & vs & Hb1 & _ & ->). destruct H2 as (s' & ns' & vs' & Hb2 & _ & ->).
    destruct (is_best_unique _ _ _ _ _ _ _ _ _ _ Hnd Hb1 (Hbest _ _ _ _ Hb2)) as (_ & -> & -> & ->). reflexivity.
  - destruct H1 as (s & ns & vs & (Hi & Hs & _) & _). exfalso.
    specialize (H2 _ (proj1 (Hin _) Hi)). cbn [fst] in H2. congruence.
  - destruct H2 as (s & ns & vs & (Hi & Hs & _) & _). exfalso.
    specialize (H1 _ (proj2 (Hin _) Hi)). cbn [fst] in H1. congruence.
Qed.

(* ---------- the clauses of the property ---------- *)
Definition shape_of (k : bytes) : shape := fst (key_shape k).
Definition names_of (k : bytes) : list bytes := snd (key_shape k).

Lemma best_in_pats pats p s v ns vs : is_best (entries_of pats) p s v ns vs ->
  exists k, In (k, v) pats /\ shape_of k = s /\ names_of k = ns.
Proof.
  intros (Hin & _). apply in_entries_of in Hin. destruct Hin as ([k v0] & Hin & E).
  unfold entry_of in E. cbn [fst snd] in E. inversion E; subst. exists k. auto.
Qed.

(* soundness and parameters: a reported match is a pattern of the table which the path really
   instantiates; one parameter per placeholder, in pattern order, with the pattern's names, carrying
   exactly the texts whose substitution gives the path; single-segment texts hold no '/' *)
Theorem router_sound_params pats p v ps : wf_patset pats = true -> router_lookup pats p = Found v ps ->
  exists k, In (k, v) pats /\
    map fst ps = names_of k /\ length ps = placeholders (shape_of k) /\
    subst (shape_of k) (map snd ps) = Some p /\ par_texts_ok (shape_of k) (map snd ps) = true.
Proof.
  intros Hwf Hl. pose proof (router_best pats p Hwf) as H. rewrite Hl in H.
  destruct H as (s & ns & vs & Hb & Hlen & ->).
  destruct (best_in_pats _ _ _ _ _ _ Hb) as (k & Hin & Hs & Hn). exists k.
  destruct Hb as (_ & Hm & _). subst s ns.
  assert (Hwl : wild_last (shape_of k)) by apply wf_shape_wild_last, key_shape_wf.
  split; [exact Hin|]. rewrite combine_fst, combine_snd by exact Hlen.
  split; [reflexivity|]. split.
  - rewrite combine_length, Hlen, Nat.min_id. eapply smatch_length; eauto.
  - split; [now apply smatch_subst|eapply smatch_par_texts; eauto].
Qed.

Theorem router_sound pats p v ps : wf_patset pats = true -> router_lookup pats p = Found v ps ->
  exists k, In (k, v) pats /\ subst (shape_of k) (map snd ps) = Some p.
Proof.
  intros H1 H2. destruct (router_sound_params pats p v ps H1 H2) as (k & A & _ & _ & B & _).
  exists k. exact (conj A B).
Qed.

Theorem router_complete pats p k v vs : wf_patset pats = true -> In (k, v) pats ->
  subst (shape_of k) vs = Some p -> par_texts_ok (shape_of k) vs = true -> forallb nonempty vs = true ->
  exists v' ps', router_lookup pats p = Found v' ps'.
Proof.
  intros Hwf Hin Hsub Hpt Hne.
  pose proof (subst_smatch (shape_of k) (key_shape_wf k) vs p Hsub Hpt Hne) as Hm.
  pose proof (router_best pats p Hwf) as H.
  destruct (router_lookup pats p) as [v' ps'| | |]; try contradiction; [eauto|].
  exfalso. specialize (H (entry_of (k, v))). cbn [entry_of fst] in H.
  unfold shape_of in Hm. rewrite H in Hm; [discriminate|].
  apply in_entries_of. exists (k, v). auto.
Qed.

Theorem router_static_exact pats k v : wf_patset pats = true -> In (k, v) pats ->
  is_param_key k = false -> router_lookup pats k = Found v [].
Proof.
  intros Hwf Hin Hst. unfold router_lookup.
  pose proof (static_lookup_spec pats k None) as H.
  destruct (static_lookup pats k None) as [v'|].
  - destruct H as [H|[Hin' _]]; [discriminate|]. f_equal.
    pose proof (wf_patset_nodup pats Hwf) as Hnd.
    assert (E : (v', @nil bytes) = (v, [])); [|now inversion E].
    apply (uniq_by_shape (entries_of pats) (map SLit k)); [exact Hnd| |];
      apply in_entries_of; [exists (k, v')|exists (k, v)]; (split; [assumption|]);
      unfold entry_of, key_shape; cbn [fst snd]; now rewrite Hst.
  - destruct H as [_ H]. rewrite (H v Hin) in Hst. discriminate.
Qed.

(* literal wins: the reported pattern is preferred to every other pattern of the table that matches
   the path - at the first position where the two differ it has the literal (or the single-segment
   parameter against the wildcard) *)
Theorem router_literal_wins pats p v ps : wf_patset pats = true -> router_lookup pats p = Found v ps ->
  exists k, In (k, v) pats /\ smatch (shape_of k) p <> None /\
    forall k' v', In (k', v') pats -> smatch (shape_of k') p <> None ->
                  (k', v') = (k, v) \/ pref (shape_of k) (shape_of k').
Proof.
  intros Hwf Hl. pose proof (router_best pats p Hwf) as H. rewrite Hl in H.
  destruct H as (s & ns & vs & Hb & Hlen & ->).
  pose proof Hb as (Hin & Hm & Hleast). apply in_entries_of in Hin.
  destruct Hin as ([k v0] & Hin & E). unfold entry_of in E. cbn [fst snd] in E. inversion E; subst.
  exists k. split; [exact Hin|]. split; [unfold shape_of; congruence|].
  intros k' v' Hin' Hm'. destruct (Hleast (entry_of (k', v'))) as [E'|Hp].
  - apply in_entries_of. exists (k', v'). auto.
  - exact Hm'.
  - left. unfold entry_of in E'. cbn [fst snd] in E'. inversion E' as [[E1 E2 E3]].
    f_equal. pose proof (wf_patset_nodup pats Hwf) as Hnd.
    (* same shape, same table => same record: keys are determined by position, so use NoDup on the keys' shapes *)
    clear - Hnd Hin Hin' E1. unfold entries_of in Hnd. rewrite map_map in Hnd. cbn [entry_of fst] in Hnd.
    induction pats as [|[k0 v1] r IH]; [destruct Hin|]. cbn [map fst] in Hnd.
    inversion Hnd as [|? ? Hn Hnd']; subst.
    destruct Hin as [H|H], Hin' as [H'|H'].
    + congruence.
    + inversion H; subst. exfalso. apply Hn. apply in_map_iff. exists (k', v'). cbn [fst]. split; [now rewrite E1|exact H'].
    + inversion H'; subst. exfalso. apply Hn. apply in_map_iff. exists (k, v0). cbn [fst]. split; [now rewrite E1|exact H].
    + now apply IH.
  - right. exact Hp.
Qed.

Theorem router_total pats p : wf_patset pats = true ->
  router_lookup pats p <> Panic /\ router_lookup pats p <> OutOfFuel.
Proof.
  intros Hwf. pose proof (router_best pats p Hwf) as H.
  destruct (router_lookup pats p); split; try discriminate; contradiction.
Qed.

(* a parameter-free key - is_param_key false, whatever ':' or '*' it holds inside a segment - is all
   literal: it has no placeholder and only the path equal to it instantiates it. Hence a reported
   match of such a key is for the path equal to the key and carries no parameter. *)
Lemma placeholders_lits k : placeholders (map SLit k) = 0.
Proof. induction k as [|c k IH]; cbn [map placeholders]; auto. Qed.

Lemma subst_lits k : forall vs p, subst (map SLit k) vs = Some p -> p = k /\ vs = [].
Proof.
  induction k as [|c k IH]; intros vs p H; cbn [map subst] in H.
  - destruct vs; [inversion H; auto|discriminate].
  - destruct (subst (map SLit k) vs) as [r|] eqn:E; [|discriminate]. inversion H; subst.
    destruct (IH _ _ E) as [-> ->]. auto.
Qed.

Lemma static_key_shape k : is_param_key k = false -> shape_of k = map SLit k /\ names_of k = [].
Proof. intros H. unfold shape_of, names_of, key_shape. rewrite H. auto. Qed.

Theorem router_static_only_itself pats p v ps : wf_patset pats = true -> router_lookup pats p = Found v ps ->
  exists k, In (k, v) pats /\ map fst ps = names_of k /\ subst (shape_of k) (map snd ps) = Some p /\
    (is_param_key k = false -> p = k /\ ps = []).
Proof.
  intros Hwf Hl. destruct (router_sound_params pats p v ps Hwf Hl) as (k & Hin & Hn & Hlen & Hs & _).
  exists k. split; [exact Hin|]. split; [exact Hn|]. split; [exact Hs|].
  intros Hst. destruct (static_key_shape k Hst) as [E _]. rewrite E in Hs, Hlen.
  rewrite placeholders_lits in Hlen. destruct (subst_lits _ _ _ Hs) as [-> _].
  split; [reflexivity|]. destruct ps; [reflexivity|discriminate].
Qed.

End Table.
