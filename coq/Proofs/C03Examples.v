(* C03Examples.v -- concrete instances: the hypotheses of the C03 theorems are satisfiable, and the boundary
   literals of every integer width behave as the property says (evaluated on the model by vm_compute). *)
From V Require Import Bytes Decimal Binder BinderSpec DecimalProofs BinderProofs BinderClauses.
From Coq Require Import String.
Local Open Scope nat_scope.

Definition b (s : string) : bytes := bytes_of_string s.

(* oracles that know no format and no float: enough for integers, booleans, strings *)
Definition O0 : oracles :=
  {| o_registered := fun _ => false; o_format := fun _ _ => None; o_float := fun _ => None |}.

Definition dint (name fmt : string) (l : loc) : decl :=
  {| d_name := b name; d_in := l; d_kind := KInteger; d_format := b fmt; d_item_kind := None; d_item_format := [];
     d_cf := []; d_required := false; d_default := None; d_allow_empty := false |}.
Definition q (ps : list (string * string)) : request :=
  {| r_query := List.map (fun p => (b (fst p), b (snd p))) ps; r_header := []; r_path := []; r_form := [] |}.
Definition h (ps : list (string * string)) : request :=
  {| r_query := []; r_header := List.map (fun p => (b (fst p), b (snd p))) ps; r_path := []; r_form := [] |}.

Definition bound_int (w : nat) (z : Z) : outcome := Bound (VScalar (VInt w z)).
Definition bad (name : string) : outcome := R422 (b name) code_invalid_type.
Definition bindq (fmt txt : string) : outcome := bind_param O0 (dint "n" fmt LQuery) (q [("n", txt)]%string) None.

(* boundaries of every width: +-2^(w-1) and the neighbours *)
Example int8_max : bindq "int8" "127" = bound_int 8 127. Proof. vm_compute. reflexivity. Qed.
Example int8_over : bindq "int8" "128" = bad "n". Proof. vm_compute. reflexivity. Qed.
Example int8_min : bindq "int8" "-128" = bound_int 8 (-128). Proof. vm_compute. reflexivity. Qed.
Example int8_under : bindq "int8" "-129" = bad "n". Proof. vm_compute. reflexivity. Qed.
Example int16_max : bindq "int16" "32767" = bound_int 16 32767. Proof. vm_compute. reflexivity. Qed.
Example int16_over : bindq "int16" "32768" = bad "n". Proof. vm_compute. reflexivity. Qed.
Example int16_min : bindq "int16" "-32768" = bound_int 16 (-32768). Proof. vm_compute. reflexivity. Qed.
Example int16_under : bindq "int16" "-32769" = bad "n". Proof. vm_compute. reflexivity. Qed.
Example int32_max : bindq "int32" "2147483647" = bound_int 32 2147483647. Proof. vm_compute. reflexivity. Qed.
Example int32_over : bindq "int32" "2147483648" = bad "n". Proof. vm_compute. reflexivity. Qed.
Example int32_min : bindq "int32" "-2147483648" = bound_int 32 (-2147483648). Proof. vm_compute. reflexivity. Qed.
Example int32_under : bindq "int32" "-2147483649" = bad "n". Proof. vm_compute. reflexivity. Qed.
Example int64_max : bindq "int64" "9223372036854775807" = bound_int 64 9223372036854775807. Proof. vm_compute. reflexivity. Qed.
Example int64_over : bindq "int64" "9223372036854775808" = bad "n". Proof. vm_compute. reflexivity. Qed.
Example int64_min : bindq "int64" "-9223372036854775808" = bound_int 64 (-9223372036854775808). Proof. vm_compute. reflexivity. Qed.
Example int64_under : bindq "int64" "-9223372036854775809" = bad "n". Proof. vm_compute. reflexivity. Qed.
Example noformat_is_64 : bindq "" "9223372036854775807" = bound_int 64 9223372036854775807. Proof. vm_compute. reflexivity. Qed.
Example noformat_over : bindq "" "9223372036854775808" = bad "n". Proof. vm_compute. reflexivity. Qed.
Example huge : bindq "" "99999999999999999999999999999999999999" = bad "n". Proof. vm_compute. reflexivity. Qed.
(* accepted and rejected spellings *)
Example plus5 : bindq "int32" "+5" = bound_int 32 5. Proof. vm_compute. reflexivity. Qed.
Example lead0 : bindq "int32" "007" = bound_int 32 7. Proof. vm_compute. reflexivity. Qed.
Example minus0 : bindq "int32" "-0" = bound_int 32 0. Proof. vm_compute. reflexivity. Qed.
Example hex : bindq "int32" "0x10" = bad "n". Proof. vm_compute. reflexivity. Qed.
Example underscore : bindq "int32" "1_0" = bad "n". Proof. vm_compute. reflexivity. Qed.
Example lead_space : bindq "int32" " 5" = bad "n". Proof. vm_compute. reflexivity. Qed.
Example trail_space : bindq "int32" "5 " = bad "n". Proof. vm_compute. reflexivity. Qed.
Example exponent : bindq "int32" "1e3" = bad "n". Proof. vm_compute. reflexivity. Qed.
Example lone_sign : bindq "int32" "-" = bad "n". Proof. vm_compute. reflexivity. Qed.
Example two_signs : bindq "int32" "+-5" = bad "n". Proof. vm_compute. reflexivity. Qed.

(* the hypotheses of C03_int_exact hold of a concrete case, and its literal relation is inhabited *)
Example int_exact_hyps :
  request_wf (q [("n", "-128")]%string) = true /\
  gtype_for O0 (dint "n" "int8" LQuery) = Some (GScalar (SInt 8)) /\
  last_or_empty (occurrences (dint "n" "int8" LQuery) (q [("m", "1"); ("n", "7"); ("n", "-128")]%string)) = b "-128" /\
  dec_literal (b "-128") (-128) /\ int_range 8 (-128).
Proof.
  repeat split; try (vm_compute; reflexivity); try (vm_compute; congruence).
  apply (proj1 (parse_int_dec_iff (b "-128") (-128))). vm_compute. reflexivity.
Qed.

(* last occurrence wins; repeated keys *)
Example last_wins : bind_param O0 (dint "n" "int8" LQuery) (q [("n", "1"); ("m", "9"); ("n", "zz"); ("n", "42")]%string) None = bound_int 8 42.
Proof. vm_compute. reflexivity. Qed.

(* header names: declared in lower case, sent in any case, stored canonically by net/http *)
Example header_lower : bind_param O0 (dint "x-rate-lim" "int32" LHeader) (h [("X-Rate-Lim", "42")]%string) None = bound_int 32 42.
Proof. vm_compute. reflexivity. Qed.
Example header_wf : request_wf (h [("X-Rate-Lim", "42"); ("Accept-Language", "en")]%string) = true.
Proof. vm_compute. reflexivity. Qed.
Example canon_ex : canon_key (b "x-rATE-lim") = b "X-Rate-Lim" /\ canon_key (b "a b") = b "a b".
Proof. split; vm_compute; reflexivity. Qed.

(* arrays *)
Definition darr (cf : string) (l : loc) (def : option dval) (req : bool) : decl :=
  {| d_name := b "t"; d_in := l; d_kind := KArray; d_format := []; d_item_kind := Some KInteger; d_item_format := b "int32";
     d_cf := b cf; d_required := req; d_default := def; d_allow_empty := false |}.
Definition ints (l : list Z) : outcome := Bound (VSlice (SInt 32) (List.map (VInt 32) l)).

Example csv_items : bind_param O0 (darr "csv" LQuery None false) (q [("t", "9"); ("t", " 1, 2,,+3 ")]%string) None = ints [1; 2; 3]%Z.
Proof. vm_compute. reflexivity. Qed.
Example pipes_items : bind_param O0 (darr "pipes" LQuery None false) (q [("t", "1|2|3,4")]%string) None = R422 (b "t") code_invalid_type.
Proof. vm_compute. reflexivity. Qed.
Example multi_items : bind_param O0 (darr "multi" LQuery None false) (q [("t", "1"); ("u", "5"); ("t", "2")]%string) None = ints [1; 2]%Z.
Proof. vm_compute. reflexivity. Qed.
Example multi_header : bind_param O0 (darr "multi" LHeader None false) (h [("T", "1")]%string) None = R422 (b "t") code_invalid_type.
Proof. vm_compute. reflexivity. Qed.
Example array_default_absent :
  bind_param O0 (darr "csv" LQuery (Some (DSlice [VInt 32 7; VInt 32 8]%Z)) true) (q [("u", "5")]%string) None = ints [7; 8]%Z.
Proof. vm_compute. reflexivity. Qed.
Example array_default_empty :
  bind_param O0 (darr "csv" LQuery (Some (DSlice [VInt 32 7]%Z)) false) (q [("t", " , ")]%string) None = ints [7]%Z.
Proof. vm_compute. reflexivity. Qed.
Example array_required : bind_param O0 (darr "csv" LQuery None true) (q [("t", "")]%string) None = R422 (b "t") code_required.
Proof. vm_compute. reflexivity. Qed.
Example nbsp_trimmed : split_by_format (32 :: 194 :: 160 :: 97 :: 226 :: 128 :: 128 :: 44 :: 98 :: []) [] = [[97]; [98]].
Proof. vm_compute. reflexivity. Qed.

(* defaults and required, scalars *)
Definition dint_def (def : option dval) (req ae : bool) : decl :=
  {| d_name := b "n"; d_in := LQuery; d_kind := KInteger; d_format := b "int8"; d_item_kind := None; d_item_format := [];
     d_cf := []; d_required := req; d_default := def; d_allow_empty := ae |}.
Example default_absent : bind_param O0 (dint_def (Some (DScalar (VInt 8 5))) true false) (q []) None = bound_int 8 5.
Proof. vm_compute. reflexivity. Qed.
Example default_empty : bind_param O0 (dint_def (Some (DScalar (VInt 8 5))) false false) (q [("n", "3"); ("n", "")]%string) None = bound_int 8 5.
Proof. vm_compute. reflexivity. Qed.
Example required_absent : bind_param O0 (dint_def None true false) (q [("m", "3")]%string) None = R422 (b "n") code_required.
Proof. vm_compute. reflexivity. Qed.
Example required_empty : bind_param O0 (dint_def None true false) (q [("n", "")]%string) None = R422 (b "n") code_required.
Proof. vm_compute. reflexivity. Qed.
Example required_empty_allowed : bind_param O0 (dint_def None true true) (q [("n", "")]%string) None = bound_int 8 0.
Proof. vm_compute. reflexivity. Qed.
Example validation_rejects : bind_param O0 (dint_def None false false) (q [("n", "3")]%string) (Some 607) = R422 (b "n") 607.
Proof. vm_compute. reflexivity. Qed.

(* well-formed declarations exist (hypothesis of C03_total), with and without defaults *)
Example wf_examples :
  decl_wf O0 (dint "n" "int8" LQuery) = true /\
  decl_wf O0 (dint_def (Some (DScalar (VInt 8 5))) true false) = true /\
  decl_wf O0 (darr "multi" LHeader (Some (DSlice [VInt 32 7]%Z)) true) = true /\
  decl_wf O0 (dint_def (Some (DScalar (VInt 8 300))) true false) = false /\
  decl_wf O0 (dint_def (Some DIll) true false) = false.
Proof. repeat split; vm_compute; reflexivity. Qed.

(* cross-location decoys (hypothesis of C03_only_declared_location is satisfiable, non-trivially): a formData
   parameter on a request whose query string, a header line and a path segment carry the same name *)
Definition fq (form query : list (string * string)) : request :=
  {| r_query := List.map (fun p => (b (fst p), b (snd p))) query;
     r_header := [(b "N", b "8")]; r_path := [(b "n", b "6")];
     r_form := List.map (fun p => (b (fst p), b (snd p))) form |}.
Definition dform (def : option dval) (req : bool) : decl :=
  {| d_name := b "n"; d_in := LForm; d_kind := KInteger; d_format := b "int8"; d_item_kind := None; d_item_format := [];
     d_cf := []; d_required := req; d_default := def; d_allow_empty := false |}.
Example decoy_same_source :
  own_source (dform None true) (fq [("n", "5")] [("n", "9")])%string = own_source (dform None true) (fq [("n", "5")] [])%string.
Proof. vm_compute. reflexivity. Qed.
Example decoy_does_not_override : bind_param O0 (dform None true) (fq [("n", "5")] [("n", "9")])%string None = bound_int 8 5.
Proof. vm_compute. reflexivity. Qed.
Example decoy_invalid_ignored : bind_param O0 (dform None true) (fq [("n", "5")] [("n", "zzz")])%string None = bound_int 8 5.
Proof. vm_compute. reflexivity. Qed.
Example decoy_does_not_satisfy_required : bind_param O0 (dform None true) (fq [] [("n", "9")])%string None = R422 (b "n") code_required.
Proof. vm_compute. reflexivity. Qed.
Example decoy_does_not_suppress_default :
  bind_param O0 (dform (Some (DScalar (VInt 8 7))) false) (fq [] [("n", "9")])%string None = bound_int 8 7.
Proof. vm_compute. reflexivity. Qed.
Example query_ignores_form_body :
  bind_param O0 (dint "n" "int8" LQuery) (fq [("n", "5")] [])%string None = bound_int 8 0 /\
  bind_param O0 (dint "n" "int8" LQuery) (fq [("n", "5")] [("n", "9")])%string None = bound_int 8 9.
Proof. split; vm_compute; reflexivity. Qed.
