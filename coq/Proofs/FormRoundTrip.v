(* FormRoundTrip.v — C04/C11/C10: url.ParseQuery (C10's model) inverts url.Values.Encode (C11's model) on every
   form or query value map: each name gets back exactly its values, in order. *)
From V Require Import Bytes RoundTrip RoundTripProofs.
From V Require UrlEscape ClientURL ClientBody.
From Coq Require Import Lia Permutation.

Module UE := UrlEscape.
Module CU := ClientURL.
Module CB := ClientBody.

(* the two models of url.QueryEscape (C11's and C10's) agree on bytes *)
Lemma qesc1_agree : forall c, c < 256 -> CB.cb_qesc1 c = UE.escape1 UE.MQuery c.
Proof.
  assert (H : forall c, c < 256 -> list_eqb Nat.eqb (CB.cb_qesc1 c) (UE.escape1 UE.MQuery c) = true).
  { apply UE.all_bytes. vm_compute. reflexivity. }
  intros c Hc. specialize (H c Hc).
  assert (E : forall a b : list nat, list_eqb Nat.eqb a b = true -> a = b).
  { induction a as [|x a IH]; intros [|y b] Hab; simpl in Hab; try discriminate; [reflexivity|].
    apply andb_true_iff in Hab as [H1 H2]. apply Nat.eqb_eq in H1. subst. f_equal. now apply IH. }
  now apply E.
Qed.

Lemma query_escape_agree s : UE.wf_bytes s -> CB.cb_query_escape s = UE.query_escape s.
Proof.
  unfold CB.cb_query_escape, UE.query_escape, UE.escape. induction 1 as [|c s Hc Hs IH]; [reflexivity|].
  cbn [flat_map]. now rewrite qesc1_agree, IH.
Qed.

Definition wf_field (f : CB.field) : Prop := UE.wf_bytes (fst f) /\ Forall UE.wf_bytes (snd f).

(* ---- one pair ---- *)
Lemma no_byte_of_safe d s : forallb query_safe s = true -> query_safe d = false -> mem_byte d s = false.
Proof.
  intros Hs Hd. unfold mem_byte. destruct (existsb (Nat.eqb d) s) eqn:E; [|reflexivity].
  apply existsb_exists in E as [x [Hin Hx]]. apply Nat.eqb_eq in Hx. subst x.
  rewrite forallb_forall in Hs. specialize (Hs _ Hin). congruence.
Qed.

Lemma cut_app d a b : mem_byte d a = false -> CU.cut d (a ++ d :: b) = (a, Some b).
Proof.
  induction a as [|c a IH]; intros H; cbn [app CU.cut].
  - now rewrite Nat.eqb_refl.
  - unfold mem_byte in H. cbn [existsb] in H. apply orb_false_iff in H as [H1 H2].
    rewrite Nat.eqb_sym in H1. rewrite H1. rewrite (IH H2). reflexivity.
Qed.

Lemma mem_byte_app d a b : mem_byte d (a ++ b) = mem_byte d a || mem_byte d b.
Proof. unfold mem_byte. apply existsb_app. Qed.

Lemma pair_piece k v m : UE.wf_bytes k -> UE.wf_bytes v ->
  CU.parse_query_piece m (CB.pair_text k v) = CU.q_add k v m.
Proof.
  intros Hk Hv. unfold CU.parse_query_piece, CB.pair_text.
  rewrite (query_escape_agree k Hk), (query_escape_agree v Hv).
  pose proof (query_escape_safe k Hk) as Sk. pose proof (query_escape_safe v Hv) as Sv.
  assert (Hsemi : mem_byte 59 (UE.query_escape k ++ [61] ++ UE.query_escape v) = false).
  { rewrite !mem_byte_app, (no_byte_of_safe 59 _ Sk eq_refl), (no_byte_of_safe 59 _ Sv eq_refl). reflexivity. }
  rewrite Hsemi.
  destruct (UE.query_escape k ++ [61] ++ UE.query_escape v) eqn:E.
  - exfalso. destruct (UE.query_escape k); discriminate.
  - rewrite <- E. change ([61] ++ UE.query_escape v) with (61 :: UE.query_escape v).
    rewrite (cut_app 61 _ _ (no_byte_of_safe 61 _ Sk eq_refl)).
    rewrite (query_unescape_escape k Hk), (query_unescape_escape v Hv). reflexivity.
Qed.

(* ---- splitting the encoded text back into its pairs ---- *)
Lemma split_on_free d s : mem_byte d s = false -> CU.split_on d s = [s].
Proof.
  induction s as [|c s IH]; intros H; cbn [CU.split_on]; [reflexivity|].
  unfold mem_byte in H. cbn [existsb] in H. apply orb_false_iff in H as [H1 H2].
  rewrite Nat.eqb_sym in H1. rewrite H1, (IH H2). reflexivity.
Qed.

Lemma split_on_app d a b : mem_byte d a = false -> CU.split_on d (a ++ d :: b) = a :: CU.split_on d b.
Proof.
  induction a as [|c a IH]; intros H; cbn [app CU.split_on].
  - now rewrite Nat.eqb_refl.
  - unfold mem_byte in H. cbn [existsb] in H. apply orb_false_iff in H as [H1 H2].
    rewrite Nat.eqb_sym in H1. rewrite H1, (IH H2). reflexivity.
Qed.

Lemma split_join_amp l : l <> [] -> Forall (fun p => mem_byte 38 p = false) l ->
  CU.split_on 38 (CB.join_amp l) = l.
Proof.
  induction l as [|x r IH]; intros Hne Hall; [congruence|].
  inversion Hall as [|? ? Hx Hr]; subst. destruct r as [|y r'].
  - cbn [CB.join_amp]. now apply split_on_free.
  - change (CB.join_amp (x :: y :: r')) with (x ++ [38] ++ CB.join_amp (y :: r')).
    change ([38] ++ CB.join_amp (y :: r')) with (38 :: CB.join_amp (y :: r')).
    rewrite (split_on_app 38 x _ Hx). f_equal. apply IH; [discriminate | assumption].
Qed.

Lemma pair_text_no_amp k v : UE.wf_bytes k -> UE.wf_bytes v -> mem_byte 38 (CB.pair_text k v) = false.
Proof.
  intros Hk Hv. unfold CB.pair_text. rewrite (query_escape_agree k Hk), (query_escape_agree v Hv).
  rewrite !mem_byte_app, (no_byte_of_safe 38 _ (query_escape_safe k Hk) eq_refl),
          (no_byte_of_safe 38 _ (query_escape_safe v Hv) eq_refl). reflexivity.
Qed.

(* the (name, value) pairs of a list of fields, in order *)
Definition kv_pairs (fs : list CB.field) : list (bytes * bytes) :=
  flat_map (fun f => map (fun v => (fst f, v)) (snd f)) fs.

Lemma field_pairs_text fs :
  flat_map CB.field_pairs fs = map (fun kv => CB.pair_text (fst kv) (snd kv)) (kv_pairs fs).
Proof.
  unfold kv_pairs. induction fs as [|f r IH]; [reflexivity|].
  cbn [flat_map]. rewrite map_app, IH. f_equal. unfold CB.field_pairs. rewrite map_map. reflexivity.
Qed.

Definition add_pair (m : CU.qmap) (kv : bytes * bytes) : CU.qmap := CU.q_add (fst kv) (snd kv) m.

Lemma kv_pairs_wf fs : Forall wf_field fs -> Forall (fun kv => UE.wf_bytes (fst kv) /\ UE.wf_bytes (snd kv)) (kv_pairs fs).
Proof.
  unfold kv_pairs. induction 1 as [|f r [Hk Hv] Hr IH]; [constructor|].
  cbn [flat_map]. apply Forall_app. split; [|assumption].
  apply Forall_forall. intros kv Hin. apply in_map_iff in Hin as [v [E Hv']]. subst kv. simpl.
  rewrite Forall_forall in Hv. split; [assumption | now apply Hv].
Qed.

Lemma fold_pieces pairs : Forall (fun kv => UE.wf_bytes (fst kv) /\ UE.wf_bytes (snd kv)) pairs ->
  forall m, fold_left CU.parse_query_piece (map (fun kv => CB.pair_text (fst kv) (snd kv)) pairs) m
            = fold_left add_pair pairs m.
Proof.
  induction 1 as [|kv r [Hk Hv] Hr IH]; intros m; [reflexivity|].
  cbn [map fold_left]. rewrite (pair_piece _ _ m Hk Hv). apply IH.
Qed.

Lemma insert_wf f l : wf_field f -> Forall wf_field l -> Forall wf_field (CB.insert_field f l).
Proof.
  intros Hf Hl. induction Hl as [|g l' Hg Hl' IH]; cbn [CB.insert_field]; [constructor; [assumption | constructor]|].
  destruct (CB.bytes_leb (fst f) (fst g)); [constructor; [assumption | constructor; assumption] | constructor; assumption].
Qed.

Lemma sort_wf fs : Forall wf_field fs -> Forall wf_field (CB.sort_fields fs).
Proof.
  unfold CB.sort_fields. induction 1 as [|f r Hf Hr IH]; [constructor|]. cbn [fold_right]. now apply insert_wf.
Qed.

Theorem parse_form_encode fs : Forall wf_field fs ->
  CU.parse_query (CB.form_encode fs) = fold_left add_pair (kv_pairs (CB.sort_fields fs)) [].
Proof.
  intros Hwf. unfold CU.parse_query, CB.form_encode. rewrite field_pairs_text.
  pose proof (sort_wf fs Hwf) as Hs.
  pose proof (kv_pairs_wf _ Hs) as Hp.
  destruct (kv_pairs (CB.sort_fields fs)) as [|p ps] eqn:E.
  - reflexivity.
  - rewrite <- E in *. rewrite split_join_amp.
    + now apply fold_pieces.
    + rewrite E. discriminate.
    + apply Forall_forall. intros x Hin. apply in_map_iff in Hin as [kv [Ex Hkv]]. subst x.
      rewrite Forall_forall in Hp. destruct (Hp _ Hkv). now apply pair_text_no_amp.
Qed.

(* ---- what the rebuilt map holds for a name ---- *)
Definition vals_of (k : bytes) (pairs : list (bytes * bytes)) : list bytes :=
  map snd (filter (fun kv => bytes_eqb k (fst kv)) pairs).

Lemma q_get_add_same k v m : CU.q_get k (CU.q_add k v m) = Some (match CU.q_get k m with Some vs => vs ++ [v] | None => [v] end).
Proof.
  induction m as [|[k' vs] r IH]; cbn [CU.q_add CU.q_get].
  - now rewrite bytes_eqb_refl.
  - destruct (bytes_eqb k k') eqn:E; cbn [CU.q_get]; rewrite E; [reflexivity | exact IH].
Qed.

Lemma q_get_add_other k k' v m : bytes_eqb k k' = false -> CU.q_get k (CU.q_add k' v m) = CU.q_get k m.
Proof.
  intros Hne. induction m as [|[k2 vs] r IH]; cbn [CU.q_add CU.q_get].
  - now rewrite Hne.
  - destruct (bytes_eqb k' k2) eqn:E; cbn [CU.q_get].
    + apply bytes_eqb_eq in E. subst k2. now rewrite Hne.
    + destruct (bytes_eqb k k2); [reflexivity | exact IH].
Qed.

Lemma q_get_fold k pairs : forall m,
  CU.q_get k (fold_left add_pair pairs m) =
  match vals_of k pairs with
  | [] => CU.q_get k m
  | vs => Some (match CU.q_get k m with Some old => old ++ vs | None => vs end)
  end.
Proof.
  unfold vals_of. induction pairs as [|[k' v] r IH]; intros m; cbn [fold_left filter map fst]; [now destruct (CU.q_get k m)|].
  rewrite IH. unfold add_pair; cbn [fst snd].
  destruct (bytes_eqb k k') eqn:E.
  - apply bytes_eqb_eq in E. subst k'. cbn [map snd]. rewrite q_get_add_same.
    destruct (map snd (filter (fun kv => bytes_eqb k (fst kv)) r)) as [|w ws];
      destruct (CU.q_get k m); cbn [app]; try reflexivity; now rewrite <- app_assoc.
  - rewrite (q_get_add_other k k' v m E). reflexivity.
Qed.

(* the values of a name among the pairs of fields with pairwise distinct names: those of its field *)
Lemma vals_of_fields k fs : NoDup (map fst fs) ->
  vals_of k (kv_pairs fs) = match find (fun f => bytes_eqb k (fst f)) fs with Some f => snd f | None => [] end.
Proof.
  unfold vals_of, kv_pairs. induction fs as [|f r IH]; intros Hnd; [reflexivity|].
  inversion Hnd as [|? ? Hnotin Hnd']; subst. cbn [flat_map find].
  rewrite filter_app, map_app.
  destruct (bytes_eqb k (fst f)) eqn:E.
  - apply bytes_eqb_eq in E. subst k.
    assert (H1 : map snd (filter (fun kv : bytes * bytes => bytes_eqb (fst f) (fst kv)) (map (fun v => (fst f, v)) (snd f))) = snd f).
    { induction (snd f) as [|v vs IHv]; [reflexivity|]. cbn [map filter fst]. rewrite bytes_eqb_refl. cbn [map snd]. now rewrite IHv. }
    rewrite H1, (IH Hnd').
    destruct (find (fun f0 => bytes_eqb (fst f) (fst f0)) r) as [g|] eqn:Ef; [|now rewrite app_nil_r].
    exfalso. apply find_some in Ef as [Hin Hg]. apply bytes_eqb_eq in Hg. apply Hnotin. rewrite Hg. now apply in_map.
  - assert (H1 : filter (fun kv : bytes * bytes => bytes_eqb k (fst kv)) (map (fun v => (fst f, v)) (snd f)) = []).
    { induction (snd f) as [|v vs IHv]; [reflexivity|]. cbn [map filter fst]. now rewrite E. }
    rewrite H1. cbn [map app]. exact (IH Hnd').
Qed.

Lemma insert_perm f l : Permutation (CB.insert_field f l) (f :: l).
Proof.
  induction l as [|g r IH]; cbn [CB.insert_field]; [reflexivity|].
  destruct (CB.bytes_leb (fst f) (fst g)); [reflexivity|].
  rewrite IH. apply perm_swap.
Qed.

Lemma sort_perm fs : Permutation (CB.sort_fields fs) fs.
Proof.
  unfold CB.sort_fields. induction fs as [|f r IH]; [reflexivity|]. cbn [fold_right].
  rewrite insert_perm. now constructor.
Qed.

Lemma find_perm_nodup k (l l' : list CB.field) : Permutation l l' -> NoDup (map fst l) ->
  find (fun f => bytes_eqb k (fst f)) l = find (fun f => bytes_eqb k (fst f)) l'.
Proof.
  induction 1 as [|x l l' Hp IH|x y l|l l' l'' Hp1 IH1 Hp2 IH2]; intros Hnd.
  - reflexivity.
  - cbn [find]. inversion Hnd; subst. destruct (bytes_eqb k (fst x)); [reflexivity | now apply IH].
  - cbn [find]. inversion Hnd as [|? ? Hn1 Hnd1]; subst. inversion Hnd1 as [|? ? Hn2 Hnd2]; subst.
    destruct (bytes_eqb k (fst y)) eqn:Ey, (bytes_eqb k (fst x)) eqn:Ex; try reflexivity.
    apply bytes_eqb_eq in Ey, Ex. exfalso. apply Hn1. left. congruence.
  - rewrite IH1 by assumption. apply IH2. eapply Permutation_NoDup; [apply Permutation_map; eassumption | assumption].
Qed.

(* THE ROUND TRIP: every name gets back exactly its values, in order (a name without values vanishes) *)
Theorem form_roundtrip fs k : Forall wf_field fs -> NoDup (map fst fs) ->
  CU.q_get k (CU.parse_query (CB.form_encode fs)) =
  match find (fun f => bytes_eqb k (fst f)) fs with
  | Some f => match snd f with [] => None | vs => Some vs end
  | None => None
  end.
Proof.
  intros Hwf Hnd. rewrite (parse_form_encode fs Hwf), q_get_fold. cbn [CU.q_get].
  assert (Hnd' : NoDup (map fst (CB.sort_fields fs))).
  { eapply Permutation_NoDup; [apply Permutation_map; symmetry; apply sort_perm | assumption]. }
  rewrite (vals_of_fields k _ Hnd').
  rewrite (find_perm_nodup k _ _ (sort_perm fs) Hnd').
  destruct (find (fun f => bytes_eqb k (fst f)) fs) as [f|]; [|reflexivity].
  destruct (snd f); reflexivity.
Qed.
