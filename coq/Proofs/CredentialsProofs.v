(* CredentialsProofs.v — lemmas and proofs for C14. *)
From V Require Import Bytes Base64Std Credentials CredentialsSpec.

Lemma trim_id v :
  match v with c :: _ => negb (is_blank c) | [] => true end = true ->
  match rev v with c :: _ => negb (is_blank c) | [] => true end = true ->
  trim_blanks v = v.
Proof.
  intros H1 H2.
  assert (Hd : drop_while is_blank v = v).
  { destruct v as [|c r]; [reflexivity|]. cbn [drop_while]. apply negb_true_iff in H1. now rewrite H1. }
  unfold trim_blanks, bytes, byte in *. rewrite Hd. remember (rev v) as w eqn:Ew.
  assert (Hd2 : drop_while is_blank w = w).
  { destruct w as [|c r]; [reflexivity|]. cbn [drop_while]. apply negb_true_iff in H2. now rewrite H2. }
  rewrite Hd2. subst w. apply rev_involutive.
Qed.

Lemma last_nonblank_app (a b : list nat) : b <> [] -> (forall c, In c b -> is_blank c = false) ->
  match rev (a ++ b) with c :: _ => negb (is_blank c) | [] => true end = true.
Proof.
  intros Hne Hb. rewrite rev_app_distr. destruct (rev b) as [|c r] eqn:E.
  - apply (f_equal (@rev nat)) in E. rewrite rev_involutive in E. contradiction.
  - cbn [app]. apply negb_true_iff. apply Hb. apply in_rev. rewrite E. now left.
Qed.

Lemma header_safe_trim v : header_safe v = true -> trim_blanks v = v.
Proof.
  unfold header_safe. intros H. apply andb_true_iff in H as [H H2]. apply andb_true_iff in H as [_ H1].
  now apply trim_id.
Qed.

Lemma get_set_header name v q : get_header name (set_header name v q) = trim_blanks v.
Proof. unfold get_header, raw_header, set_header. cbn [r_headers lookup]. now rewrite bytes_eqb_refl. Qed.

Lemma get_set_query name v q : get_query name (set_query name [v] q) = v.
Proof. unfold get_query, set_query. cbn [r_query lookup_vals]. now rewrite bytes_eqb_refl. Qed.

Lemma span_until (f : nat -> bool) u c r : forallb f u = true -> f c = false -> span f (u ++ c :: r) = (u, c :: r).
Proof.
  intros Hu Hc. induction u as [|x u IH]; cbn [app span].
  - now rewrite Hc.
  - cbn [forallb] in Hu. apply andb_true_iff in Hu as [Hx Hu]. rewrite Hx, (IH Hu). reflexivity.
Qed.

Lemma b64_encode_nonempty s : s <> [] -> b64_encode s <> [].
Proof. destruct s as [|a [|b [|c r]]]; intros H; [contradiction| | |]; discriminate. Qed.

(* the Basic header value has no blank at either end *)
Lemma basic_header_trim u p : Forall (fun c => c < 256) (u ++ 58 :: p) -> trim_blanks (basic_header u p) = basic_header u p.
Proof.
  intros Hwf. apply trim_id; [reflexivity|].
  unfold basic_header. apply last_nonblank_app.
  - apply b64_encode_nonempty. now destruct u.
  - intros c Hin. pose proof (b64_encode_printable _ Hwf) as Hp. rewrite Forall_forall in Hp.
    specialize (Hp c Hin). unfold is_blank. apply orb_false_iff. split; apply Nat.eqb_neq; lia.
Qed.

(* the server's basic authenticator recovers exactly the user and password the client wrote *)
Theorem basic_roundtrip : forall u p q,
  Forall (fun c => c < 256) u -> Forall (fun c => c < 256) p -> ~ In 58 u ->
  basic_read (basic_write u p q) = Some (u, p).
Proof.
  intros u p q Hu Hp Hn.
  assert (Hwf : Forall (fun c => c < 256) (u ++ 58 :: p)).
  { apply Forall_app. split; [exact Hu | constructor; [lia | exact Hp]]. }
  unfold basic_read, basic_write. rewrite get_set_header, (basic_header_trim u p Hwf).
  unfold basic_header at 1. unfold s_basic at 1. cbn [app].
  unfold parse_basic. cbn [length firstn skipn].
  change (lower [66; 97; 115; 105; 99; 32]) with (lower s_basic).
  rewrite bytes_eqb_refl. cbn [negb Nat.ltb Nat.leb orb].
  pose proof (b64_roundtrip _ Hwf) as R. unfold bytes, byte in *. rewrite R.
  rewrite span_until.
  - reflexivity.
  - apply forallb_forall. intros x Hx. apply negb_true_iff. apply Nat.eqb_neq. intro; subst. contradiction.
  - reflexivity.
Qed.

Theorem apikey_roundtrip : forall name loc v q, v <> [] ->
  (loc = InHeader -> header_safe v = true) ->
  apikey_read name loc (apikey_write name loc v q) = Some v.
Proof.
  intros name loc v q Hne Hs. unfold apikey_read, apikey_write. destruct loc.
  - rewrite get_set_header, (header_safe_trim v (Hs eq_refl)). destruct v; [contradiction | reflexivity].
  - rewrite get_set_query. destruct v; [contradiction | reflexivity].
Qed.

Theorem apikey_empty_not_applicable : forall name loc q,
  apikey_read name loc (apikey_write name loc [] q) = None.
Proof.
  intros name loc q. unfold apikey_read, apikey_write. destruct loc.
  - rewrite get_set_header. reflexivity.
  - rewrite get_set_query. reflexivity.
Qed.

Lemma bearer_value_trim tok : tok <> [] -> header_safe tok = true -> trim_blanks (s_bearer ++ tok) = s_bearer ++ tok.
Proof.
  intros Hne Hs. apply trim_id; [reflexivity|].
  unfold header_safe in Hs. apply andb_true_iff in Hs as [_ H2].
  rewrite rev_app_distr. unfold bytes, byte in *. remember (rev tok) as w eqn:Ew. destruct w as [|c r].
  - apply (f_equal (@rev nat)) in Ew. rewrite rev_involutive in Ew. cbn in Ew. congruence.
  - exact H2.
Qed.

Theorem bearer_roundtrip : forall tok q, tok <> [] -> header_safe tok = true ->
  bearer_read (bearer_write tok q) = Some tok.
Proof.
  intros tok q Hne Hs. unfold bearer_read, bearer_write.
  unfold header_token. cbv zeta.
  rewrite get_set_header, (bearer_value_trim tok Hne Hs). rewrite has_prefix_app.
  unfold s_bearer. cbn [app skipn]. destruct tok; [contradiction | reflexivity].
Qed.

(* header, else query, else form body (only for the two form media types) *)
Theorem bearer_precedence : forall q,
  bearer_read q = bearer_expected (header_token q) (get_query s_access_token q) (form_token q) (r_form_ct q).
Proof.
  intros q. unfold bearer_read, bearer_expected. cbv zeta.
  destruct (header_token q); [|reflexivity].
  destruct (get_query s_access_token q); reflexivity.
Qed.

Section AuthFacts.
  Variables (Cred Principal Err : Type).
  Variable read : request -> option Cred.
  Variable cb : Cred -> option Principal * option Err.

  (* not applicable exactly when the request carries no such credential *)
  Theorem not_applicable_iff_absent : forall q,
    fst (fst (authenticate Cred Principal Err read cb q)) = false <-> read q = None.
  Proof.
    intros q. unfold authenticate. destruct (read q) as [c|].
    - destruct (cb c) as [p e]. cbn. split; discriminate.
    - cbn. split; reflexivity.
  Qed.

  (* the principal and the error are the callback's, for the credential that was read *)
  Theorem principal_is_callbacks : forall q p e,
    authenticate Cred Principal Err read cb q = (true, p, e) ->
    exists c, read q = Some c /\ cb c = (p, e) /\ callback_args Cred read q = [c].
  Proof.
    intros q p e. unfold authenticate, callback_args. destruct (read q) as [c|]; [|discriminate].
    destruct (cb c) as [p' e'] eqn:E. intros H. inversion H; subst. exists c. repeat split. exact E.
  Qed.
End AuthFacts.

(* the default credential is applied only when the operation has none and no Authorization header is set *)
Theorem default_auth_rule : forall op default q,
  effective_auth op default q =
  match op with
  | Some w => w q
  | None => match default, raw_header s_authorization q with
            | Some d, [] => d q
            | _, _ => q
            end
  end.
Proof. intros [w|] [d|] q; cbn [effective_auth]; reflexivity. Qed.

Theorem realm_marker : forall configured applies failed,
  basic_marker configured applies failed =
  if negb applies || failed then (match configured with [] => [65; 80; 73] | _ => configured end) else [].
Proof. reflexivity. Qed.

(* the hypotheses are satisfiable: user admin, password s3:cr et *)
Example ex_basic :
  basic_read (basic_write [97;100;109;105;110] [115;51;58;99;114;32;101;116] (mkReq [] [] false [])) =
  Some ([97;100;109;105;110], [115;51;58;99;114;32;101;116]).
Proof. vm_compute. reflexivity. Qed.
(* a colon in the user name moves the cut: the hypothesis of basic_roundtrip is needed *)
Example ex_basic_colon_user :
  basic_read (basic_write [97;58;98] [99] (mkReq [] [] false [])) = Some ([97], [98;58;99]).
Proof. vm_compute. reflexivity. Qed.

(* ---------- writers as data; the default credential against every kind of operation writer ---------- *)
Section WriterInd.
  Variable P : writer -> Prop.
  Hypothesis Hbasic : forall u p, P (WBasic u p).
  Hypothesis Hbearer : forall tok, P (WBearer tok).
  Hypothesis Hkey : forall name loc v, P (WKey name loc v).
  Hypothesis Hpass : P WPass.
  Hypothesis Hcompose : forall ws, Forall P ws -> P (WCompose ws).
  Fixpoint writer_ind' (w : writer) : P w :=
    match w with
    | WBasic u p => Hbasic u p
    | WBearer tok => Hbearer tok
    | WKey name loc v => Hkey name loc v
    | WPass => Hpass
    | WCompose ws =>
      Hcompose ws ((fix go (l : list writer) : Forall P l :=
                      match l with
                      | [] => Forall_nil P
                      | x :: r => Forall_cons x (writer_ind' x) (go r)
                      end) ws)
    end.
End WriterInd.

(* a composition writes its members in order on the same request; the empty one and PassThroughAuth write nothing *)
Theorem compose_sequence : forall a r q,
  write_cred (WCompose (a :: r)) q = write_cred (WCompose r) (write_cred a q).
Proof. reflexivity. Qed.
Theorem compose_empty : forall q, write_cred (WCompose []) q = q /\ write_cred WPass q = q.
Proof. intros q. split; reflexivity. Qed.

Lemma lookup_remove_other k k' l : bytes_eqb k k' = false -> lookup k (remove_key k' l) = lookup k l.
Proof.
  intros Hne. induction l as [|[a v] l IH]; [reflexivity|].
  unfold remove_key in *. cbn [filter fst lookup].
  destruct (bytes_eqb k' a) eqn:Ea; cbn [negb].
  - apply bytes_eqb_eq in Ea. subst a. rewrite Hne. exact IH.
  - cbn [lookup]. destruct (bytes_eqb k a); [reflexivity | exact IH].
Qed.

Lemma raw_header_set_other name v q :
  bytes_eqb (lower name) s_authorization = false ->
  raw_header s_authorization (set_header name v q) = raw_header s_authorization q.
Proof.
  intros Hne. unfold raw_header, set_header. cbn [r_headers lookup].
  change (lower s_authorization) with s_authorization.
  assert (Hne' : bytes_eqb s_authorization (lower name) = false).
  { apply bytes_eqb_neq. apply bytes_eqb_neq in Hne. congruence. }
  rewrite Hne'. now apply lookup_remove_other.
Qed.

(* a writer that is not an Authorization writer leaves the Authorization header as it was *)
Theorem non_authorization_writer_frame : forall w q,
  writes_authorization w = false ->
  raw_header s_authorization (write_cred w q) = raw_header s_authorization q.
Proof.
  intros w. induction w as [u p|tok|name loc v| |ws IH] using writer_ind'; intros q Hw; cbn [writes_authorization] in Hw.
  - discriminate.
  - discriminate.
  - destruct loc; cbn [write_cred apikey_write].
    + now apply raw_header_set_other.
    + reflexivity.
  - reflexivity.
  - cbn [write_cred]. revert q. induction IH as [|x l Hx Hl IHl]; intros q; [reflexivity|].
    cbn [existsb] in Hw. apply orb_false_iff in Hw as [Hwx Hwl].
    cbn [fold_left]. rewrite (IHl Hwl). now apply Hx.
Qed.

(* the implementation's rule = the property's rule, for every pair of writers *)
Theorem effective_cred_expected : forall op default q,
  effective_cred op default q = expected_request op default q.
Proof.
  intros [w|] [d|] q; unfold effective_cred, expected_request, default_applicable; cbn [option_map effective_auth];
    try reflexivity.
  destruct (raw_header s_authorization q); reflexivity.
Qed.

(* an operation with a writer of its own never gets the default credential, whatever its writer does *)
Theorem own_credential_excludes_default : forall w default q,
  effective_cred (Some w) default q = write_cred w q.
Proof. intros w [d|] q; reflexivity. Qed.

(* a pre-set Authorization header keeps the default credential away *)
Theorem preset_authorization_excludes_default : forall default q,
  raw_header s_authorization q <> [] -> effective_cred None default q = q.
Proof.
  intros [d|] q H; unfold effective_cred; cbn [option_map effective_auth]; [|reflexivity].
  destruct (raw_header s_authorization q); [contradiction | reflexivity].
Qed.

(* the default credential is not a fallback: an operation whose own writer leaves Authorization alone
   (API key, pass-through, compositions of those) still has no Authorization header afterwards *)
Theorem default_not_a_fallback : forall w d q,
  writes_authorization w = false -> raw_header s_authorization q = [] ->
  raw_header s_authorization (effective_cred (Some w) (Some d) q) = [].
Proof.
  intros w d q Hw Hq. rewrite own_credential_excludes_default.
  rewrite (non_authorization_writer_frame w q Hw). exact Hq.
Qed.

(* the hypotheses are satisfiable and the rule differs from the fallback reading: X-Key writer, bearer default *)
Example ex_default_not_a_fallback :
  let w := WCompose [WKey [120;45;107;101;121] InHeader [107]; WPass; WKey [107] InQuery [118]] in
  let d := WBearer [68;69;70] in
  let q := mkReq [] [] false [] in
  writes_authorization w = false /\
  get_header s_authorization (effective_cred (Some w) (Some d) q) = [] /\
  get_header s_authorization (write_cred d (write_cred w q)) = s_bearer ++ [68;69;70] /\
  get_header [120;45;107;101;121] (effective_cred (Some w) (Some d) q) = [107] /\
  get_query [107] (effective_cred (Some w) (Some d) q) = [118].
Proof. vm_compute. repeat split. Qed.

(* ---------- histories on one transport ---------- *)
Lemma build_all_pointwise h1 s h2 :
  nth_error (build_all (h1 ++ s :: h2)) (length h1) = Some (build_request s).
Proof.
  unfold build_all. rewrite map_app. cbn [map].
  rewrite nth_error_app2; rewrite map_length; [|apply Nat.le_refl].
  now rewrite Nat.sub_diag.
Qed.

(* the request built at some point of a history is the one the property asks for under the setting in force then *)
Lemma build_all_current h1 op default q0 h2 :
  nth_error (build_all (h1 ++ (op, default, q0) :: h2)) (length h1) = Some (expected_request op default q0).
Proof. rewrite build_all_pointwise. cbn [build_request]. now rewrite effective_cred_expected. Qed.

(* replacing the default credential takes effect on the next request: the earlier setting plays no part *)
Lemma replaced_default_applies old new q1 q2 :
  build_all [(None, Some old, q1); (None, Some new, q2)] =
  [effective_cred None (Some old) q1; effective_cred None (Some new) q2].
Proof. reflexivity. Qed.

Example ex_refreshed_token :
  (* token OLD, then token NEW on the same transport: the second request carries NEW; an implementation that kept the
     first writer would send OLD, which the predicate of the run rejects *)
  let q0 := mkReq [] [] false [] in
  map (get_header s_authorization) (build_all [(None, Some (WBearer [79;76;68]), q0); (None, Some (WBearer [78;69;87]), q0); (None, None, q0)])
  = [s_bearer ++ [79;76;68]; s_bearer ++ [78;69;87]; []].
Proof. vm_compute. reflexivity. Qed.

(* ---------- a credential is taken from its declared location only ---------- *)
Lemma lookup_keep k l : lookup k (keep_key k l) = lookup k l.
Proof.
  induction l as [|[k' v] r IH]; [reflexivity|].
  unfold keep_key in *. cbn [filter fst lookup].
  destruct (bytes_eqb k k') eqn:E; cbn [lookup]; rewrite ?E; [reflexivity | exact IH].
Qed.

Lemma lookup_vals_keep k (l : list (bytes * list bytes)) : lookup_vals k (keep_key k l) = lookup_vals k l.
Proof.
  induction l as [|[k' v] r IH]; [reflexivity|].
  unfold keep_key in *. cbn [filter fst lookup_vals].
  destruct (bytes_eqb k k') eqn:E; cbn [lookup_vals]; rewrite ?E; [reflexivity | exact IH].
Qed.

Lemma lower_authorization : lower s_authorization = s_authorization.
Proof. reflexivity. Qed.

Lemma get_header_declared_authz q rest1 rest2 rest3 :
  get_header s_authorization (mkReq (keep_key s_authorization (r_headers q)) rest1 rest2 rest3) = get_header s_authorization q.
Proof.
  unfold get_header, raw_header. cbn [r_headers]. rewrite lower_authorization, lookup_keep. reflexivity.
Qed.

Theorem declared_location_only : forall k name q,
  read_cred k name q = read_cred k name (declared_part k name q).
Proof.
  intros k name q. destruct k; unfold read_cred, declared_part.
  - unfold basic_read. rewrite get_header_declared_authz. reflexivity.
  - unfold apikey_read, get_header, raw_header. cbn [r_headers]. rewrite lookup_keep. reflexivity.
  - unfold apikey_read, get_query. cbn [r_query]. rewrite lookup_vals_keep. reflexivity.
  - unfold bearer_read, header_token, form_token, get_query. rewrite get_header_declared_authz.
    cbn [r_query r_form r_form_ct]. rewrite !lookup_vals_keep. reflexivity.
Qed.

Theorem same_declared_same_credential : forall k name q q',
  declared_part k name q = declared_part k name q' -> read_cred k name q = read_cred k name q'.
Proof.
  intros k name q q' H. rewrite (declared_location_only k name q), (declared_location_only k name q'), H. reflexivity.
Qed.

Theorem declared_location_accepts_model : forall k name q,
  from_declared_location k name q (has_cred (read_cred k name q)) (read_cred k name q) = true.
Proof.
  intros k name q. unfold from_declared_location. rewrite <- declared_location_only.
  destruct (read_cred k name q) as [[a b]|]; cbn; [|reflexivity].
  unfold cred_eqb. cbn [fst snd]. rewrite !bytes_eqb_refl. reflexivity.
Qed.

(* a form field (and a header, and a cookie) named like a key declared in the query is not that key *)
Example ex_form_field_is_not_a_query_key :
  let name := [97;112;105;95;107;101;121] in
  let q := mkReq [(name, [120]); ([99;111;111;107;105;101], name ++ [61;120])] [([111], [[49]])] true [(name, [[102;114;111;109]])] in
  read_cred KKeyQuery name q = None /\
  from_declared_location KKeyQuery name q true (Some ([102;114;111;109], [])) = false.
Proof. vm_compute. split; reflexivity. Qed.
