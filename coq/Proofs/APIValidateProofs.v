(* APIValidateProofs.v — proofs about Model/APIValidate.v in the vocabulary of Model/APIValidateSpec.v. *)
From V Require Import APIValidateSpec PathCleanProofs.
From Coq Require Import Permutation.

Lemma mem_in x l : mem_bytes x l = true <-> In x l.
Proof.
  unfold mem_bytes. rewrite existsb_exists. split.
  - intros [y [Hy E]]. apply bytes_eqb_eq in E. now subst.
  - intros H. exists x. split; [assumption | apply bytes_eqb_refl].
Qed.
Lemma mem_not_in x l : mem_bytes x l = false <-> ~ In x l.
Proof.
  split; intro H.
  - intro Hin. apply mem_in in Hin. congruence.
  - destruct (mem_bytes x l) eqn:E; [|reflexivity]. apply mem_in in E. contradiction.
Qed.

(* ---- sorting ---- *)
Lemma in_insert x y l : In x (insert_sorted y l) <-> x = y \/ In x l.
Proof.
  induction l as [|z r IH]; simpl; [intuition|].
  destruct (bytes_leb y z); simpl; [intuition|]. rewrite IH. intuition.
Qed.
Lemma in_sort x l : In x (sort_bytes l) <-> In x l.
Proof.
  induction l as [|y r IH]; simpl; [reflexivity|]. rewrite in_insert, IH. intuition.
Qed.
Lemma sort_nil l : sort_bytes l = [] <-> l = [].
Proof.
  split; [|intros ->; reflexivity]. destruct l as [|y r]; [reflexivity|]. intros H.
  assert (In y (sort_bytes (y :: r))) as Hin by (apply in_sort; now left). rewrite H in Hin. destruct Hin.
Qed.

Lemma bytes_leb_total a : forall b, bytes_leb a b = false -> bytes_leb b a = true.
Proof.
  induction a as [|x a IH]; intros [|y b]; simpl; try discriminate; try reflexivity.
  destruct (x <? y) eqn:E1; [discriminate|]. destruct (y <? x) eqn:E2; [reflexivity|]. apply IH.
Qed.

Lemma sorted_cons x l : sorted_b false (x :: l) = true <->
  (match l with [] => True | y :: _ => bytes_leb x y = true end) /\ sorted_b false l = true.
Proof.
  destruct l as [|y r]; [simpl; intuition|].
  change (sorted_b false (x :: y :: r)) with (bytes_leb x y && (negb false || negb (bytes_eqb x y)) && sorted_b false (y :: r)).
  simpl negb. simpl orb. rewrite andb_true_r, andb_true_iff. reflexivity.
Qed.

Lemma insert_sorted_ok x l : sorted_b false l = true -> sorted_b false (insert_sorted x l) = true.
Proof.
  induction l as [|y r IH]; intros Hs; [reflexivity|].
  simpl insert_sorted. destruct (bytes_leb x y) eqn:E.
  - apply sorted_cons. split; assumption.
  - apply sorted_cons in Hs. destruct Hs as [Hh Hs]. apply sorted_cons. split; [|now apply IH].
    destruct r as [|z r']; simpl.
    + now apply bytes_leb_total.
    + destruct (bytes_leb x z); [now apply bytes_leb_total | exact Hh].
Qed.
Lemma sort_sorted l : sorted_b false (sort_bytes l) = true.
Proof. induction l as [|x r IH]; [reflexivity|]. simpl. now apply insert_sorted_ok. Qed.

Lemma nodup_insert x l : ~ In x l -> NoDup l -> NoDup (insert_sorted x l).
Proof.
  induction l as [|y r IH]; intros Hn Hd; simpl.
  - constructor; [intros []|constructor].
  - destruct (bytes_leb x y); [constructor; assumption|].
    inversion Hd; subst. constructor.
    + rewrite in_insert. intros [->|H]; [apply Hn; now left | contradiction].
    + apply IH; [intro H; apply Hn; now right | assumption].
Qed.
Lemma nodup_sort l : NoDup l -> NoDup (sort_bytes l).
Proof.
  induction 1 as [|x l Hn Hd IH]; simpl; [constructor|].
  apply nodup_insert; [now rewrite in_sort | assumption].
Qed.

Lemma sorted_strict l : sorted_b false l = true -> NoDup l -> sorted_b true l = true.
Proof.
  induction l as [|x r IH]; intros Hs Hd; [reflexivity|].
  destruct r as [|y r']; [reflexivity|].
  apply sorted_cons in Hs. destruct Hs as [Hh Hs]. inversion Hd; subst.
  change (sorted_b true (x :: y :: r')) with (bytes_leb x y && (negb true || negb (bytes_eqb x y)) && sorted_b true (y :: r')).
  rewrite Hh, IH by assumption. simpl.
  destruct (bytes_eqb x y) eqn:E; [|reflexivity]. apply bytes_eqb_eq in E. subst. exfalso. apply H1. now left.
Qed.

(* ---- dedup ---- *)
Lemma in_dedup x l : In x (dedup l) <-> In x l.
Proof.
  induction l as [|y r IH]; simpl; [reflexivity|]. rewrite filter_In, IH.
  destruct (bytes_eqb x y) eqn:E.
  - apply bytes_eqb_eq in E. subst. intuition.
  - apply bytes_eqb_neq in E. simpl. intuition congruence.
Qed.
Lemma nodup_filter (f : bytes -> bool) l : NoDup l -> NoDup (filter f l).
Proof.
  induction 1 as [|x l Hn Hd IH]; simpl; [constructor|].
  destruct (f x); [|assumption]. constructor; [|assumption]. intro H. apply filter_In in H. now apply Hn.
Qed.
Lemma nodup_dedup l : NoDup (dedup l).
Proof.
  induction l as [|y r IH]; simpl; [constructor|]. constructor.
  - intro H. apply filter_In in H. destruct H as [_ H]. now rewrite bytes_eqb_refl in H.
  - now apply nodup_filter.
Qed.

(* ---- sets ---- *)
Lemma subset_b_iff a b : subset_b a b = true <-> (forall x, In x a -> In x b).
Proof.
  unfold subset_b. rewrite forallb_forall. split; intros H x Hx.
  - apply mem_in. now apply H.
  - apply mem_in. now apply H.
Qed.
Lemma set_eqb_iff a b : set_eqb a b = true <-> (forall x, In x a <-> In x b).
Proof.
  unfold set_eqb. rewrite andb_true_iff, !subset_b_iff. split.
  - intros [H1 H2] x. split; auto.
  - intros H. split; intros x Hx; now apply H.
Qed.

Lemma filter_nil {A} (f : A -> bool) l : filter f l = [] <-> (forall x, In x l -> f x = false).
Proof.
  induction l as [|y r IH]; simpl; [intuition|].
  destruct (f y) eqn:E.
  - split; [discriminate|]. intros H. specialize (H y (or_introl eq_refl)). congruence.
  - rewrite IH. split; [intros H x [->|Hx]; auto | intros H x Hx; apply H; now right].
Qed.

(* ---- verify ---- *)
Definition unspecified_of (regs exps : list bytes) := sort_bytes (filter (fun v => negb (mem_bytes v exps)) regs).
Definition unregistered_of (regs exps : list bytes) := sort_bytes (dedup (filter (fun v => negb (mem_bytes v regs)) exps)).

Lemma verify_eq k regs exps : verify k regs exps =
  match unregistered_of regs exps, unspecified_of regs exps with
  | [], [] => None
  | _, _ => Some (mkfail k (unspecified_of regs exps) (unregistered_of regs exps))
  end.
Proof. reflexivity. Qed.

Lemma in_unspecified x regs exps : In x (unspecified_of regs exps) <-> In x regs /\ ~ In x exps.
Proof.
  unfold unspecified_of. rewrite in_sort, filter_In, negb_true_iff, mem_not_in. reflexivity.
Qed.
Lemma in_unregistered x regs exps : In x (unregistered_of regs exps) <-> In x exps /\ ~ In x regs.
Proof.
  unfold unregistered_of. rewrite in_sort, in_dedup, filter_In, negb_true_iff, mem_not_in. reflexivity.
Qed.

Lemma in_dec_bytes (x : bytes) l : In x l \/ ~ In x l.
Proof. destruct (mem_bytes x l) eqn:E; [left; now apply mem_in | right; now apply mem_not_in]. Qed.

Lemma verify_none_iff k regs exps : verify k regs exps = None <-> set_eqb regs exps = true.
Proof.
  rewrite verify_eq, set_eqb_iff. split.
  - intros H. destruct (unregistered_of regs exps) as [|u us] eqn:E1; [|discriminate].
    destruct (unspecified_of regs exps) as [|v vs] eqn:E2; [|discriminate].
    intros x. split; intros Hx.
    + destruct (in_dec_bytes x exps) as [|Hn]; [assumption|].
      assert (In x (unspecified_of regs exps)) as Hin by (apply in_unspecified; now split). rewrite E2 in Hin. destruct Hin.
    + destruct (in_dec_bytes x regs) as [|Hn]; [assumption|].
      assert (In x (unregistered_of regs exps)) as Hin by (apply in_unregistered; now split). rewrite E1 in Hin. destruct Hin.
  - intros H. destruct (unregistered_of regs exps) as [|u us] eqn:E1.
    + destruct (unspecified_of regs exps) as [|v vs] eqn:E2; [reflexivity|].
      assert (In v (unspecified_of regs exps)) as Hin by (rewrite E2; now left).
      apply in_unspecified in Hin. destruct Hin as [H1 H2]. apply H in H1. contradiction.
    + assert (In u (unregistered_of regs exps)) as Hin by (rewrite E1; now left).
      apply in_unregistered in Hin. destruct Hin as [H1 H2]. apply H in H1. contradiction.
Qed.

Lemma verify_some k regs exps f : verify k regs exps = Some f ->
  f_section f = k /\ f_unspecified f = unspecified_of regs exps /\ f_unregistered f = unregistered_of regs exps.
Proof.
  rewrite verify_eq. destruct (unregistered_of regs exps); [destruct (unspecified_of regs exps); [discriminate|]|];
    intros H; inversion H; auto.
Qed.

Lemma set_eqb_filter l regs exps : (forall x, In x l <-> In x regs /\ ~ In x exps) ->
  set_eqb l (filter (fun v => negb (mem_bytes v exps)) regs) = true.
Proof.
  intros H. apply set_eqb_iff. intros x. rewrite H, filter_In, negb_true_iff, mem_not_in. reflexivity.
Qed.

(* a failure of category (regs, exps) reports exactly the superfluous and the missing names, sorted *)
Lemma verify_reports k regs exps f : verify k regs exps = Some f -> reports f (regs, exps) = true.
Proof.
  intros H. apply verify_some in H. destruct H as [_ [H1 H2]]. unfold reports. rewrite H1, H2.
  rewrite (set_eqb_filter _ regs exps) by (intros x; apply in_unspecified).
  rewrite (set_eqb_filter _ exps regs) by (intros x; apply in_unregistered).
  unfold unspecified_of at 1. rewrite sort_sorted.
  unfold unregistered_of. rewrite sorted_strict; [reflexivity | apply sort_sorted | apply nodup_sort, nodup_dedup].
Qed.

(* ---- validate ---- *)
Definition verify_cat (k : nat) (c : list bytes * list bytes) : option failure := verify k (fst c) (snd c).

Lemma validate_eq a d : validate a d =
  match categories a d with
  | [c0; c1; c2; c3; c4] =>
    or_else (verify_cat 0 c0) (or_else (verify_cat 1 c1) (or_else (verify_cat 2 c2) (or_else (verify_cat 3 c3) (verify_cat 4 c4))))
  | _ => None
  end.
Proof. reflexivity. Qed.

Theorem validate_none_iff a d : validate a d = None <-> coincide a d = true.
Proof.
  rewrite validate_eq. unfold coincide, categories, verify_cat. cbn [forallb fst snd].
  rewrite !andb_true_iff.
  rewrite <- (verify_none_iff 0 (a_consumers a)), <- (verify_none_iff 1 (a_producers a)), <- (verify_none_iff 2 (a_ops a)),
          <- (verify_none_iff 3 (a_auths a)), <- (verify_none_iff 4 (g_defs d)).
  destruct (verify 0 (a_consumers a) (required_consumes d)); cbn [or_else]; [split; [discriminate | intros [H _]; discriminate]|].
  destruct (verify 1 (a_producers a) (required_produces d)); cbn [or_else]; [split; [discriminate | intros [_ [H _]]; discriminate]|].
  destruct (verify 2 (a_ops a) (required_ops d)); cbn [or_else]; [split; [discriminate | intros [_ [_ [H _]]]; discriminate]|].
  destruct (verify 3 (a_auths a) (required_schemes d)); cbn [or_else]; [split; [discriminate | intros [_ [_ [_ [H _]]]]; discriminate]|].
  split; [intros H; repeat split; auto | intros [_ [_ [_ [_ [H _]]]]]; exact H].
Qed.

Lemma verify_some_not_eq k regs exps f : verify k regs exps = Some f -> set_eqb regs exps = false.
Proof.
  intros H. destruct (set_eqb regs exps) eqn:E; [|reflexivity].
  apply (verify_none_iff k) in E. congruence.
Qed.

(* the answer of validate is what the property demands: nil exactly when everything coincides, otherwise the
   first category that does not coincide, with exactly its superfluous and missing names, sorted *)
Theorem validate_meets_prop a d : validate_prop a d (validate a d) = true.
Proof.
  destruct (validate a d) as [f|] eqn:V; [|now apply validate_none_iff].
  rewrite validate_eq in V. unfold categories, verify_cat in V. cbn [fst snd] in V.
  unfold validate_prop, categories.
  destruct (verify 0 (a_consumers a) (required_consumes d)) as [f0|] eqn:E0; cbn [or_else] in V.
  { inversion V; subst f0. pose proof (verify_some _ _ _ _ E0) as [S _]. rewrite S. cbn [firstn forallb nth_error fst snd andb].
    now rewrite (verify_some_not_eq _ _ _ _ E0), (verify_reports _ _ _ _ E0). }
  apply verify_none_iff in E0.
  destruct (verify 1 (a_producers a) (required_produces d)) as [f1|] eqn:E1; cbn [or_else] in V.
  { inversion V; subst f1. pose proof (verify_some _ _ _ _ E1) as [S _]. rewrite S. cbn [firstn forallb nth_error fst snd andb].
    now rewrite E0, (verify_some_not_eq _ _ _ _ E1), (verify_reports _ _ _ _ E1). }
  apply verify_none_iff in E1.
  destruct (verify 2 (a_ops a) (required_ops d)) as [f2|] eqn:E2; cbn [or_else] in V.
  { inversion V; subst f2. pose proof (verify_some _ _ _ _ E2) as [S _]. rewrite S. cbn [firstn forallb nth_error fst snd andb].
    now rewrite E0, E1, (verify_some_not_eq _ _ _ _ E2), (verify_reports _ _ _ _ E2). }
  apply verify_none_iff in E2.
  destruct (verify 3 (a_auths a) (required_schemes d)) as [f3|] eqn:E3; cbn [or_else] in V.
  { inversion V; subst f3. pose proof (verify_some _ _ _ _ E3) as [S _]. rewrite S. cbn [firstn forallb nth_error fst snd andb].
    now rewrite E0, E1, E2, (verify_some_not_eq _ _ _ _ E3), (verify_reports _ _ _ _ E3). }
  apply verify_none_iff in E3.
  pose proof (verify_some _ _ _ _ V) as [S _]. rewrite S. cbn [firstn forallb nth_error fst snd andb].
  now rewrite E0, E1, E2, E3, (verify_some_not_eq _ _ _ _ V), (verify_reports _ _ _ _ V).
Qed.

(* Prop-level reading of coincide *)
Theorem coincide_iff a d : coincide a d = true <->
  (forall x, In x (a_consumers a) <-> In x (required_consumes d)) /\
  (forall x, In x (a_producers a) <-> In x (required_produces d)) /\
  (forall x, In x (a_ops a) <-> In x (required_ops d)) /\
  (forall x, In x (a_auths a) <-> In x (required_schemes d)) /\
  (forall x, In x (g_defs d) <-> In x (required_schemes d)).
Proof.
  unfold coincide, categories. cbn [forallb fst snd]. rewrite !andb_true_iff, !set_eqb_iff. intuition.
Qed.

(* the answer depends on the registered and required names as sets only: success, the failing category and
   the elements of the two reported lists are the same for any other listing (any map iteration order,
   repeated registrations). PARTIAL with respect to equality of the reported lists themselves: that
   needs antisymmetry of bytes_leb and uniqueness of sorted duplicate-free lists, not proved here. *)
Theorem verify_order_insensitive_partial k regs exps regs' exps' :
  (forall x, In x regs <-> In x regs') -> (forall x, In x exps <-> In x exps') ->
  match verify k regs exps, verify k regs' exps' with
  | None, None => True
  | Some f, Some f' => f_section f = f_section f' /\
                       (forall x, In x (f_unspecified f) <-> In x (f_unspecified f')) /\
                       (forall x, In x (f_unregistered f) <-> In x (f_unregistered f'))
  | _, _ => False
  end.
Proof.
  intros Hr He.
  assert (set_eqb regs exps = set_eqb regs' exps') as Heq.
  { destruct (set_eqb regs exps) eqn:E1; destruct (set_eqb regs' exps') eqn:E2; try reflexivity.
    - rewrite set_eqb_iff in E1. assert (set_eqb regs' exps' = true); [|congruence].
      apply set_eqb_iff. intros x. rewrite <- Hr, <- He. apply E1.
    - rewrite set_eqb_iff in E2. assert (set_eqb regs exps = true); [|congruence].
      apply set_eqb_iff. intros x. rewrite Hr, He. apply E2. }
  destruct (verify k regs exps) as [f|] eqn:V1; destruct (verify k regs' exps') as [f'|] eqn:V2.
  - apply verify_some in V1. apply verify_some in V2. destruct V1 as [S1 [U1 R1]]. destruct V2 as [S2 [U2 R2]].
    split; [congruence|]. rewrite U1, U2, R1, R2. split; intros x.
    + rewrite !in_unspecified, Hr, He. reflexivity.
    + rewrite !in_unregistered, Hr, He. reflexivity.
  - apply verify_some_not_eq in V1. apply verify_none_iff in V2. congruence.
  - apply verify_some_not_eq in V2. apply verify_none_iff in V1. congruence.
  - exact I.
Qed.

(* ---- serving a validated API ---- *)
Lemma in_flat_map_ops {B} (f : opdesc -> list B) d o x : In o (g_ops d) -> In x (f o) -> In x (flat_map f (g_ops d)).
Proof. intros Ho Hx. apply in_flat_map. now exists o. Qed.

Theorem validated_lookups a d o : validate a d = None -> In o (g_ops d) ->
  (* the handler *)
  In (op_key (op_method o) (op_path o)) (a_ops a) /\
  (* a consumer for every media type the operation admits *)
  (forall ct, In ct (effective_consumes d o) -> In ct (a_consumers a)) /\
  (* a producer for every media type the operation offers *)
  (forall p, In p (effective_produces d o) -> In p (a_producers a)) /\
  (* an authenticator and a definition for every scheme of every requirement *)
  (forall alt s, In alt (effective_security d o) -> In s alt -> In s (a_auths a) /\ In s (g_defs d)).
Proof.
  intros V Ho. apply validate_none_iff, coincide_iff in V. destruct V as [Hc [Hp [Hops [Ha Hd]]]].
  split; [|split; [|split]].
  - apply Hops. unfold required_ops. apply in_map_iff. now exists o.
  - intros ct Hct. apply Hc. unfold required_consumes, effective_consumes in *. apply in_or_app.
    destruct (op_consumes o) eqn:E; [now left|]. right. apply (in_flat_map_ops op_consumes d o); [assumption|]. now rewrite E.
  - intros p Hp'. apply Hp. unfold required_produces, effective_produces in *. apply in_or_app.
    destruct (op_produces o) eqn:E; [now left|]. right. apply (in_flat_map_ops op_produces d o); [assumption|]. now rewrite E.
  - intros alt s Halt Hs.
    assert (In s (required_schemes d)) as Hreq.
    { unfold required_schemes, effective_security in *. apply in_or_app.
      destruct (op_security o) as [alts|] eqn:E.
      - right. apply (in_flat_map_ops op_schemes d o); [assumption|]. unfold op_schemes. rewrite E.
        apply in_concat. now exists alt.
      - left. apply in_concat. now exists alt. }
    split; [now apply Ha | now apply Hd].
Qed.

(* hence the route of the operation finds the producer of every parameter-free media type it offers *)
Theorem validated_producer_for_every_offer a d o p : validate a d = None -> In o (g_ops d) ->
  In p (effective_produces d o) -> normalize_offer p = p ->
  route_or_default (a_producers a) (a_default a) (route_of a d o) (normalize_offer p) = Some p.
Proof.
  intros V Ho Hp Hn. destruct (validated_lookups a d o V Ho) as [_ [_ [Hprod _]]].
  rewrite Hn. unfold route_or_default, route_producer, producers_for.
  assert (mem_bytes p (a_producers a) = true) as H1 by (apply mem_in; now apply Hprod).
  assert (mem_bytes p (map normalize_offer (rt_produces (route_of a d o))) = true) as H2.
  { apply mem_in. rewrite <- Hn. apply in_map. unfold route_of. cbn [rt_produces]. unfold route_produces_of.
    assert (In p (dedup (effective_produces d o))) as Hd by (now apply in_dedup).
    destruct (a_default a); [assumption|]. destruct (contains_ci _ _); [assumption | apply in_or_app; now left]. }
  now rewrite H1, H2.
Qed.

Definition ex_get : bytes := [71; 69; 84].

(* ---- the route table of a validated API ----
   AddRoute recovers the template of an operation from path.Join(basePath, template): for an empty or rooted
   base path and a template in rooted normal form, cutting the cleaned base path off the front gives the
   template back, so the handler is looked up under the very key the description declares.
   (Same argument as C01's template_recovered, over this model's definitions.) *)
Lemma split_slash_app a : forall t, split_slash (a ++ SL :: t) = split_slash a ++ split_slash t.
Proof.
  induction a as [|c a IH]; intros t; [cbn [app split_slash]; now rewrite Nat.eqb_refl|].
  cbn [app split_slash]. destruct (Nat.eqb c SL); [now rewrite IH|]. rewrite IH.
  destruct (split_slash a) as [|s l] eqn:E; [exfalso; now apply (split_slash_nonempty a)|]. reflexivity.
Qed.

Lemma join_slash_cons2 s s' l : join_slash (s :: s' :: l) = s ++ SL :: join_slash (s' :: l).
Proof. reflexivity. Qed.

Lemma join_slash_app k : forall l, k <> [] -> l <> [] -> join_slash (k ++ l) = join_slash k ++ SL :: join_slash l.
Proof.
  induction k as [|s k IH]; intros l Hk Hl; [contradiction|]. destruct k as [|s' k'].
  - destruct l as [|t l']; [contradiction|]. reflexivity.
  - change ((s :: s' :: k') ++ l) with (s :: s' :: (k' ++ l)). rewrite !join_slash_cons2.
    change (s' :: k' ++ l) with ((s' :: k') ++ l). rewrite IH by (assumption || discriminate).
    now rewrite <- app_assoc.
Qed.

Lemma plain_seg_slash_free s : plain_seg s = true -> s <> [] /\ forall z, In z s -> z <> SL.
Proof.
  unfold plain_seg. intros H. repeat (apply andb_true_iff in H; destruct H as [H ?]).
  split; [destruct s; [discriminate|discriminate]|]. intros z Hz ->.
  match goal with Hm : negb (mem_byte SL s) = true |- _ => apply negb_true_iff in Hm; unfold mem_byte in Hm end.
  assert (existsb (Nat.eqb SL) s = true) by (apply existsb_exists; exists SL; split; [exact Hz|apply Nat.eqb_refl]).
  congruence.
Qed.

Lemma join_last l : l <> [] -> forallb plain_seg l = true -> exists x z, join_slash l = x ++ [z] /\ z <> SL.
Proof.
  induction l as [|s l IH]; intros Hne Hp; [contradiction|].
  cbn [forallb] in Hp. apply andb_true_iff in Hp. destruct Hp as [Hs Hl]. destruct l as [|s' l'].
  - destruct (plain_seg_slash_free s Hs) as [Hsne Hsf].
    destruct (exists_last Hsne) as (x & z & E). exists x, z. cbn [join_slash]. split; [exact E|].
    apply Hsf. rewrite E. apply in_or_app. right. left. reflexivity.
  - destruct (IH ltac:(discriminate) Hl) as (x & z & E & Hz). rewrite join_slash_cons2, E.
    exists (s ++ SL :: x), z. split; [now rewrite <- app_assoc|exact Hz].
Qed.

Lemma trim_suffix_rooted k : forallb plain_seg k = true ->
  (if has_suffix [SL] (rooted_of k) then removelast (rooted_of k) else rooted_of k) =
  match k with [] => [] | _ => rooted_of k end.
Proof.
  intros Hp. destruct k as [|s k']; [reflexivity|].
  destruct (join_last (s :: k') ltac:(discriminate) Hp) as (x & z & E & Hz).
  unfold has_suffix, rooted_of. rewrite E. cbn [rev]. rewrite rev_app_distr. cbn [rev app has_prefix].
  apply Nat.eqb_neq in Hz. rewrite Nat.eqb_sym, Hz. reflexivity.
Qed.

Lemma skipn_app_exact {A} (a b : list A) : skipn (length a) (a ++ b) = b.
Proof. induction a; cbn; auto. Qed.

Lemma trim_prefix_app p q : trim_prefix p (p ++ q) = q.
Proof. unfold trim_prefix. now rewrite has_prefix_app, skipn_app_exact. Qed.

Lemma trim_prefix_self p : trim_prefix p p = [].
Proof. pose proof (trim_prefix_app p []) as H. now rewrite app_nil_r in H. Qed.

Lemma clean_base_template b tsegs : forallb plain_seg tsegs = true ->
  clean ((SL :: b) ++ SL :: rooted_of tsegs) = rooted_of (kept b ++ tsegs).
Proof.
  intros Hp. change ((SL :: b) ++ SL :: rooted_of tsegs) with (SL :: (b ++ SL :: rooted_of tsegs)).
  rewrite clean_rooted. unfold rooted_of at 2. f_equal. f_equal. unfold kept.
  rewrite split_slash_app. unfold rooted_of. change (SL :: join_slash tsegs) with ([] ++ SL :: join_slash tsegs).
  rewrite split_slash_app. cbn [split_slash]. rewrite !norm_rooted_app.
  cbn [norm_rooted is_empty orb].
  destruct tsegs as [|t ts].
  - cbn [join_slash split_slash norm_rooted is_empty orb]. now rewrite app_nil_r.
  - rewrite split_join by (discriminate || now apply plain_slash_free).
    rewrite (norm_rooted_id _ Hp). rewrite rev_app_distr, rev_involutive. reflexivity.
Qed.

(* the vocabulary of the spec in the form the argument uses *)
Definition base_ok (base : bytes) : Prop := base = [] \/ exists b, base = SL :: b.
Definition template_ok (t : bytes) : Prop := exists tsegs, t = rooted_of tsegs /\ forallb plain_seg tsegs = true.

Lemma join_split p : join_slash (split_slash p) = p.
Proof.
  induction p as [|c r IH]; [reflexivity|]. cbn [split_slash].
  destruct (split_slash r) as [|s t] eqn:E; [exfalso; now apply (split_slash_nonempty r)|].
  destruct (Nat.eqb c SL) eqn:Ec.
  - apply Nat.eqb_eq in Ec. subst c. rewrite join_slash_cons2. cbn [app]. now rewrite IH.
  - cbn [cons_head]. rewrite <- IH. destruct t as [|s' t']; [reflexivity|]. now rewrite !join_slash_cons2.
Qed.

Lemma wf_base_ok b : wf_base b = true -> base_ok b.
Proof.
  destruct b as [|c r]; [now left|]. cbn [wf_base]. intros H. apply Nat.eqb_eq in H. subst c. right. now exists r.
Qed.

Lemma wf_template_ok t : wf_template t = true -> template_ok t.
Proof.
  unfold wf_template, rooted_normal. destruct t as [|c r]; [discriminate|]. intros H.
  apply andb_true_iff in H. destruct H as [Hc Hr]. apply Nat.eqb_eq in Hc. subst c.
  destruct r as [|x r'].
  - exists []. split; reflexivity.
  - cbn [is_empty orb] in Hr. exists (split_slash (x :: r')). split; [|exact Hr].
    unfold rooted_of. now rewrite join_split.
Qed.

Theorem route_template_recovered d o : wf_base (g_base d) = true -> wf_template (op_path o) = true ->
  route_template d o = op_path o.
Proof.
  intros Hb Ht. apply wf_base_ok in Hb. apply wf_template_ok in Ht. destruct Ht as (tsegs & Ht & Hp). unfold route_template, full_route. rewrite Ht. clear Ht.
  destruct Hb as [E|[b E]]; rewrite E; clear E.
  - (* no base path: path.Clean of the empty text is a single dot, which is no prefix of a rooted path *)
    unfold path_join. cbn [rooted_of]. rewrite (clean_normal_id tsegs Hp).
    unfold route_base, trim_prefix. reflexivity.
  - unfold path_join. rewrite (clean_base_template b tsegs Hp).
    unfold route_base. cbv zeta. rewrite clean_rooted.
    change (SL :: join_slash (kept b)) with (rooted_of (kept b)).
    match goal with |- context [trim_prefix ?x _] =>
      replace x with (match kept b with [] => [] | _ => rooted_of (kept b) end)
        by (symmetry; exact (trim_suffix_rooted (kept b) (kept_plain b))) end.
    destruct (kept b) as [|s k'] eqn:Ek.
    + cbn [app]. unfold trim_prefix. cbn [has_prefix length skipn]. reflexivity.
    + destruct tsegs as [|t ts].
      * rewrite app_nil_r. rewrite trim_prefix_self. reflexivity.
      * unfold rooted_of at 2 3. rewrite join_slash_app by discriminate.
        change (SL :: join_slash (s :: k') ++ SL :: join_slash (t :: ts))
          with (rooted_of (s :: k') ++ rooted_of (t :: ts)).
        rewrite trim_prefix_app. reflexivity.
Qed.

(* every declared operation of a validated API gets its route: the handler lookup of AddRoute cannot miss *)
Theorem validated_routes a d o : validate a d = None -> In o (g_ops d) ->
  wf_base (g_base d) = true -> wf_template (op_path o) = true -> route_added a d o = true.
Proof.
  intros V Ho Hb Ht. destruct (validated_lookups a d o V Ho) as [Hh _].
  unfold route_added, handler_for. rewrite (route_template_recovered d o Hb Ht).
  apply andb_true_iff. split; apply mem_in; [exact Hh|].
  unfold required_ops. apply in_map_iff. now exists o.
Qed.

(* the hypotheses are needed, and satisfiable: a dotted template without a base path, under a dotted base path,
   under a base path written with a trailing slash, and the base path repeated as the first segment *)
Definition ex_items_json : bytes := [47; 105; 116; 101; 109; 115; 46; 106; 115; 111; 110].   (* /items.json *)
Definition ex_base_ab : bytes := [47; 97; 46; 98].                                              (* /a.b *)
Definition ex_base_ab_slash : bytes := [47; 97; 46; 98; 47].                                    (* /a.b/ *)
Definition ex_tpl_ab_x : bytes := [47; 97; 46; 98; 47; 120].                                    (* /a.b/x *)
Example ex_route_templates :
  let d base := mkdesc base [] [] [] [] [] in
  let o t := mkop ex_get t [] [] None in
  route_template (d []) (o ex_items_json) = ex_items_json /\
  route_template (d ex_base_ab) (o ex_items_json) = ex_items_json /\
  route_template (d ex_base_ab_slash) (o ex_tpl_ab_x) = ex_tpl_ab_x /\
  route_template (d ex_base_ab) (o ex_tpl_ab_x) = ex_tpl_ab_x /\
  route_template (d ex_base_ab) (o [SL]) = [SL].
Proof. vm_compute. repeat split. Qed.
Example ex_wf : wf_base [] = true /\ wf_base ex_base_ab = true /\ wf_base ex_base_ab_slash = true /\
                wf_template ex_items_json = true /\ wf_template ex_tpl_ab_x = true /\ wf_template [SL] = true.
Proof. vm_compute. repeat split. Qed.

(* a template outside the normal form is not served although the API validates: path.Join drops the trailing slash,
   the handler is registered under the template as written *)
Definition ex_tpl_trailing : bytes := [47; 97; 47].   (* /a/ *)
Theorem validated_routes_needs_normal_template_refuted :
  exists regs d o, validate (build_api regs) d = None /\ In o (g_ops d) /\ wf_base (g_base d) = true /\
                   wf_template (op_path o) = false /\ route_added (build_api regs) d o = false.
Proof.
  exists [RWithoutJSON; ROperation ex_get ex_tpl_trailing], (mkdesc [] [] [] [] [] [mkop ex_get ex_tpl_trailing [] [] None]),
         (mkop ex_get ex_tpl_trailing [] [] None).
  split; [vm_compute; reflexivity|]. split; [now left|]. split; [reflexivity|]. split; vm_compute; reflexivity.
Qed.

(* without the guard that the operation offers something, a validated API panics when served: F-C19-1 *)
Definition ex_path_a : bytes := [47; 97].
Definition ex_desc : desc := mkdesc [] [] [] [] [] [mkop ex_get ex_path_a [] [] None].
Definition ex_regs : list reg := [RWithoutJSON; ROperation ex_get ex_path_a].

Theorem validated_serves_needs_produces_refuted :
  exists regs d o, validate (build_api regs) d = None /\ In o (g_ops d) /\ simple_desc d = true /\
                   exercise (build_api regs) d o = Panicked PNoProducer [].
Proof.
  exists ex_regs, ex_desc, (mkop ex_get ex_path_a [] [] None).
  split; [vm_compute; reflexivity|]. split; [now left|]. split; vm_compute; reflexivity.
Qed.

(* a non-trivial validated instance: the hypotheses of validated_lookups are satisfiable *)
Definition ex_text : bytes := [116; 101; 120; 116; 47; 112; 108; 97; 105; 110].
Example ex_validated :
  validate (build_api [RProducer ex_text; ROperation ex_get ex_path_a])
           (mkdesc [] [JSON_MIME] [JSON_MIME] [] [] [mkop ex_get ex_path_a [] [ex_text] None]) = None.
Proof. vm_compute. reflexivity. Qed.

(* Register* normalisation: media types are stored lower-cased, methods upper-cased *)
Theorem register_normalises a mt m p :
  In (lower mt) (a_consumers (apply_reg a (RConsumer mt))) /\
  In (lower mt) (a_producers (apply_reg a (RProducer mt))) /\
  In (upper m ++ SP :: p) (a_ops (apply_reg a (ROperation m p))).
Proof.
  assert (A : forall k l, In k (add_key k l)).
  { intros k l. unfold add_key. destruct (mem_bytes k l) eqn:E; [now apply mem_in | apply in_or_app; right; now left]. }
  simpl. repeat split; apply A.
Qed.

(* ---- histories on one API value ---- *)
Lemma validate_history_length d : forall steps a, length (validate_history a d steps) = length steps.
Proof. induction steps as [|s r IH]; intros a; cbn [validate_history length]; [reflexivity | now rewrite IH]. Qed.

(* the k-th answer of a history is the answer of a fresh API value given every registration made so far *)
Theorem validate_history_fresh d : forall steps a k r,
  nth_error (validate_history a d steps) k = Some r ->
  r = validate (fold_left apply_reg (concat (firstn (S k) steps)) a) d.
Proof.
  induction steps as [|s rest IH]; intros a k r H.
  - destruct k; discriminate H.
  - cbn [validate_history] in H. destruct k as [|k'].
    + cbn [nth_error] in H. injection H as H. subst r. cbn [firstn concat]. now rewrite app_nil_r.
    + cbn [nth_error] in H. apply IH in H. subst r.
      change (firstn (S (S k')) (s :: rest)) with (s :: firstn (S k') rest). cbn [concat]. now rewrite fold_left_app.
Qed.

Lemma list_eqb_bytes_refl l : list_eqb bytes_eqb l l = true.
Proof. induction l as [|x r IH]; cbn [list_eqb]; [reflexivity | now rewrite bytes_eqb_refl, IH]. Qed.
Lemma failure_eqb_refl f : failure_eqb f f = true.
Proof. unfold failure_eqb. now rewrite Nat.eqb_refl, !list_eqb_bytes_refl. Qed.
Lemma opt_failure_eqb_refl r : opt_eqb failure_eqb r r = true.
Proof. destruct r as [f|]; cbn; [apply failure_eqb_refl | reflexivity]. Qed.

(* the model's own history: what the check demands of the implementation's (history_ok) holds of it *)
Fixpoint model_more (a : api) (d : desc) (steps : list (list reg)) : list (list reg * option failure * option failure) :=
  match steps with
  | [] => []
  | s :: r => let a' := fold_left apply_reg s a in (s, validate a' d, validate a' d) :: model_more a' d r
  end.
Theorem model_history_ok d : forall steps a, history_ok a d (model_more a d steps) = true.
Proof.
  induction steps as [|s r IH]; intros a; cbn [model_more history_ok]; [reflexivity|].
  now rewrite opt_failure_eqb_refl, validate_meets_prop, IH.
Qed.

(* the handler keeps nothing between requests *)
Theorem serve_history_is_map a d rqs : serve_history a d rqs = map (serve_one a d) rqs.
Proof. reflexivity. Qed.

(* ---- a well-formed request to a validated API ---- *)
(* the API default is empty or the JSON media type with its consumer and producer registered *)
Definition defaults_inv (a : api) : Prop :=
  a_default a = [] \/ (a_default a = JSON_MIME /\ In JSON_MIME (a_consumers a) /\ In JSON_MIME (a_producers a)).
Lemma in_add_key x k l : In x l -> In x (add_key k l).
Proof. intros H. unfold add_key. destruct (mem_bytes k l); [assumption | apply in_or_app; now left]. Qed.
Lemma apply_reg_inv a r : defaults_inv a -> defaults_inv (apply_reg a r).
Proof.
  intros [H | [H [Hc Hp]]]; destruct r; cbn [apply_reg]; unfold defaults_inv; cbn [a_default a_consumers a_producers];
    try (left; assumption); try (left; reflexivity).
  - right. split; [assumption|]. split; [now apply in_add_key | assumption].
  - right. split; [assumption|]. split; [assumption | now apply in_add_key].
  - right. now split.
  - right. now split.
Qed.
Lemma fold_reg_inv rs : forall a, defaults_inv a -> defaults_inv (fold_left apply_reg rs a).
Proof. induction rs as [|r rs IH]; intros a H; cbn [fold_left]; [assumption | apply IH, apply_reg_inv, H]. Qed.
Lemma build_api_inv regs : defaults_inv (build_api regs).
Proof. apply fold_reg_inv. right. split; [reflexivity|]. split; now left. Qed.

Lemma split_semi_id s : mem_byte SEMI s = false -> split_semi s = s.
Proof.
  induction s as [|c r IH]; intros H; cbn [split_semi]; [reflexivity|].
  unfold mem_byte in H. cbn [existsb] in H. apply Bool.orb_false_iff in H. destruct H as [H1 H2].
  rewrite Nat.eqb_sym, H1. f_equal. now apply IH.
Qed.
Lemma simple_mt_normal mt : simple_mt mt = true -> normalize_offer mt = mt /\ mt <> [].
Proof.
  unfold simple_mt. intros H. apply Bool.andb_true_iff in H. destruct H as [H Hne].
  apply Bool.andb_true_iff in H. destruct H as [H _]. apply Bool.andb_true_iff in H. destruct H as [_ Hs].
  split; [apply split_semi_id; now apply Bool.negb_true_iff in Hs | intros ->; discriminate Hne].
Qed.
Lemma simple_effective d o mt : simple_desc d = true -> In o (g_ops d) ->
  In mt (effective_consumes d o) \/ In mt (effective_produces d o) -> simple_mt mt = true.
Proof.
  intros S Ho H. unfold simple_desc in S. rewrite forallb_forall in S. apply S. unfold desc_media_types.
  rewrite !in_app_iff. destruct H as [H | H].
  - unfold effective_consumes in H. destruct (op_consumes o) eqn:E; [now left|].
    right. right. left. apply (in_flat_map_ops op_consumes d o); [assumption | now rewrite E].
  - unfold effective_produces in H. destruct (op_produces o) eqn:E; [right; now left|].
    right. right. right. apply (in_flat_map_ops op_produces d o); [assumption | now rewrite E].
Qed.
Lemma in_route_produces_of dflt l x : In x (route_produces_of dflt l) -> In x l \/ (x = dflt /\ dflt <> []).
Proof.
  unfold route_produces_of. intros H. destruct dflt as [|c r].
  - left. apply (proj1 (in_dedup x l)). exact H.
  - cbv beta iota zeta in H. destruct (contains_ci (dedup l) (c :: r)).
    + left. apply (proj1 (in_dedup x l)). exact H.
    + apply in_app_or in H. destruct H as [H | [H | []]].
      * left. apply (proj1 (in_dedup x l)). exact H.
      * right. split; [now symmetry | discriminate].
Qed.

Lemma auth_passes_covered a d o creds : validate a d = None -> In o (g_ops d) ->
  creds_cover (effective_security d o) creds = true -> auth_passes (a_auths a) (effective_security d o) creds = true.
Proof.
  intros V Ho C. destruct (validated_lookups a d o V Ho) as [_ [_ [_ Hs]]].
  unfold auth_passes. unfold creds_cover in C. destruct (is_nil (effective_security d o)); [reflexivity|].
  cbn [orb] in *. apply existsb_exists in C. destruct C as [alt [Halt Hall]].
  destruct alt as [|s alt'] eqn:E.
  - apply Bool.orb_true_iff. right. apply existsb_exists. now exists [].
  - apply Bool.orb_true_iff. left. apply existsb_exists. exists (s :: alt'). split; [assumption|].
    unfold alt_applies. cbn [is_nil negb andb]. rewrite forallb_forall in *. intros x Hx.
    rewrite (Hall x Hx), Bool.andb_true_r. apply mem_in. now apply (Hs (s :: alt') x).
Qed.

Lemma consumer_available regs d o mt : validate (build_api regs) d = None -> In o (g_ops d) -> simple_desc d = true ->
  mem_bytes mt (map normalize_offer (route_consumes_of (build_api regs) d o)) = true ->
  content_admitted (route_consumes_of (build_api regs) d o) mt = true /\
  consumer_found (build_api regs) (route_consumes_of (build_api regs) d o) mt = true.
Proof.
  intros V Ho S M. split.
  - unfold content_admitted. apply Bool.orb_true_iff. right. unfold contains_ci.
    unfold mem_bytes in M. apply existsb_exists in M. destruct M as [y [Hy E]]. apply existsb_exists. exists y.
    split; [assumption|]. apply bytes_eqb_eq in E. subst y. apply bytes_eqb_refl.
  - unfold consumer_found. rewrite M. cbn [andb]. apply mem_in. apply mem_in in M. apply in_map_iff in M.
    destruct M as [c [Hn Hc]]. unfold route_consumes_of in Hc. apply in_route_produces_of in Hc.
    destruct (validated_lookups _ d o V Ho) as [_ [Hcons _]]. destruct Hc as [Hc | [Hc Hne]].
    + assert (simple_mt c = true) as Sc by (apply (simple_effective d o); [assumption | assumption | now left]).
      apply simple_mt_normal in Sc. destruct Sc as [Sc _]. rewrite Sc in Hn. subst mt. now apply Hcons.
    + destruct (build_api_inv regs) as [H0 | [HJ [HC _]]]; [congruence|].
      rewrite Hc, HJ in Hn. vm_compute in Hn. subst mt. exact HC.
Qed.

(* a well-formed request to a declared operation of a validated API over a simple description is never turned away for
   lack of a route or handler (4), of an authenticator (7), of an admitted content type (5), of a consumer (1):
   the handler runs, or the request is answered as Respond answers a value (outcomes of C08's serve) *)
Theorem validated_wf_request regs d o rq :
  validate (build_api regs) d = None -> In o (g_ops d) -> simple_desc d = true ->
  wf_base (g_base d) = true -> wf_template (op_path o) = true ->
  wf_request (build_api regs) d o rq = true ->
  let k := rs_outcome (serve_request (build_api regs) d o rq) in k <> 1 /\ k <> 4 /\ k <> 5 /\ k <> 7.
Proof.
  intros V Ho S Wb Wt W. unfold wf_request in W. apply Bool.andb_true_iff in W. destruct W as [W Wa].
  apply Bool.andb_true_iff in W. destruct W as [Wc Wct].
  unfold serve_request. rewrite (validated_routes _ d o V Ho Wb Wt). cbn [negb].
  unfold own_template. rewrite (route_template_recovered d o Wb Wt), bytes_eqb_refl. cbn [negb].
  rewrite (auth_passes_covered _ d o _ V Ho Wc). cbn [negb].
  assert ((negb (is_nil (rq_ct rq)) && negb (content_admitted (route_consumes_of (build_api regs) d o) (media_type_of (rq_ct rq))) = false) /\
          (negb (is_nil (rq_ct rq)) && negb (consumer_found (build_api regs) (route_consumes_of (build_api regs) d o) (media_type_of (rq_ct rq))) = false)) as [B1 B2].
  { destruct (is_nil (rq_ct rq)); [now split|]. cbn [orb] in Wct. cbn [negb andb].
    destruct (consumer_available regs d o _ V Ho S Wct) as [C1 C2]. now rewrite C1, C2. }
  rewrite B1, B2.
  destruct (parse_accept (rq_accept rq)) as [specs|]; [|cbn; repeat split; discriminate].
  destruct (serve _ _ _ _ _ _ _) as [pk ct | r].
  - destruct pk; cbn; repeat split; discriminate.
  - destruct (o_error r) as [e|]; [destruct (Nat.eqb e 406) | destruct (o_producer r); [|destruct (is_head o)]]; cbn; repeat split; discriminate.
Qed.

(* stronger: such a request runs the handler and is answered 200 through a producer, or Respond finds no producer at all
   (which C19_validated_producer_for_every_offer excludes for every offered format: what remains is F-C19-1, nothing offered) *)
Lemma route_produces_nonempty regs d o p : In o (g_ops d) -> simple_desc d = true ->
  In p (rt_produces (route_of (build_api regs) d o)) -> p <> [].
Proof.
  intros Ho S H. unfold route_of in H. cbn [rt_produces] in H. apply in_route_produces_of in H.
  destruct H as [H | [H Hne]]; [|congruence].
  assert (simple_mt p = true) as Sp by (apply (simple_effective d o); [assumption | assumption | now right]).
  now apply simple_mt_normal in Sp.
Qed.

Lemma serve_value_outcomes dflt registered rt specs :
  rt_has_op rt = true -> rt_codes rt = [200] ->
  (negotiate_content_type specs (rt_produces rt) [] = [] -> rt_produces rt = []) ->
  (exists fmt p, serve dflt registered rt specs false NoAuth DValue = Responded (mkresp fmt 200 None (Some p) None None)) \/
  (exists fmt, serve dflt registered rt specs false NoAuth DValue = Panicked PNoProducer fmt).
Proof.
  intros Hop Hc Hn. unfold serve, serve_validated.
  assert (serve_respond dflt registered rt specs false None [] DValue =
          match route_or_default registered dflt rt (normalize_offer (response_format None specs (respond_offers dflt (rt_produces rt)))) with
          | Some p => Responded (mkresp (response_format None specs (respond_offers dflt (rt_produces rt))) 200 None (Some p) None None)
          | None => Panicked PNoProducer (response_format None specs (respond_offers dflt (rt_produces rt)))
          end) as E.
  { unfold serve_respond, respond. rewrite Hop, Hc. reflexivity. }
  destruct (negotiate_content_type specs (rt_produces rt) []) eqn:F.
  - rewrite (Hn eq_refl). rewrite E. destruct (route_or_default _ _ _ _); [left | right]; eauto.
  - destruct (rt_produces rt); rewrite E; destruct (route_or_default _ _ _ _); [left | right | left | right]; eauto.
Qed.

(* the answer to HEAD: status and headers only, whatever producers there are *)
Lemma serve_head_outcome dflt registered rt specs :
  rt_has_op rt = true -> rt_codes rt = [200] ->
  (negotiate_content_type specs (rt_produces rt) [] = [] -> rt_produces rt = []) ->
  exists fmt, serve dflt registered rt specs true NoAuth DValue = Responded (mkresp fmt 200 None None None None).
Proof.
  intros Hop Hc Hn. unfold serve, serve_validated.
  assert (serve_respond dflt registered rt specs true None [] DValue =
          Responded (mkresp (response_format None specs (respond_offers dflt (rt_produces rt))) 200 None None None None)) as E.
  { unfold serve_respond, respond. rewrite Hop, Hc. reflexivity. }
  destruct (negotiate_content_type specs (rt_produces rt) []) eqn:F.
  - rewrite (Hn eq_refl). rewrite E. eauto.
  - destruct (rt_produces rt); rewrite E; eauto.
Qed.

Theorem validated_wf_request_served regs d o rq :
  validate (build_api regs) d = None -> In o (g_ops d) -> simple_desc d = true ->
  wf_base (g_base d) = true -> wf_template (op_path o) = true ->
  wf_request (build_api regs) d o rq = true ->
  (exists ct p, serve_request (build_api regs) d o rq = mkres 0 ct p) \/
  serve_request (build_api regs) d o rq = res_fail 2.
Proof.
  intros V Ho S Wb Wt W. pose proof W as W0. unfold wf_request in W. apply Bool.andb_true_iff in W. destruct W as [W Wa].
  apply Bool.andb_true_iff in W. destruct W as [Wc Wct].
  unfold serve_request. rewrite (validated_routes _ d o V Ho Wb Wt). cbn [negb].
  unfold own_template. rewrite (route_template_recovered d o Wb Wt), bytes_eqb_refl. cbn [negb].
  rewrite (auth_passes_covered _ d o _ V Ho Wc). cbn [negb].
  assert ((negb (is_nil (rq_ct rq)) && negb (content_admitted (route_consumes_of (build_api regs) d o) (media_type_of (rq_ct rq))) = false) /\
          (negb (is_nil (rq_ct rq)) && negb (consumer_found (build_api regs) (route_consumes_of (build_api regs) d o) (media_type_of (rq_ct rq))) = false)) as [B1 B2].
  { destruct (is_nil (rq_ct rq)); [now split|]. cbn [orb] in Wct. cbn [negb andb].
    destruct (consumer_available regs d o _ V Ho S Wct) as [C1 C2]. now rewrite C1, C2. }
  rewrite B1, B2. unfold accept_ok in Wa.
  destruct (parse_accept (rq_accept rq)) as [specs|]; [|discriminate Wa].
  assert (negotiate_content_type specs (rt_produces (route_of (build_api regs) d o)) [] = [] ->
          rt_produces (route_of (build_api regs) d o) = []) as HN.
  { intros F. destruct (rt_produces (route_of (build_api regs) d o)) as [|p ps] eqn:EP; [reflexivity|]. exfalso.
    assert (p <> []) as Hp by (apply (route_produces_nonempty regs d o); [assumption | assumption | rewrite EP; now left]).
    destruct specs as [|sp specs'].
    + cbn in F. contradiction.
    + cbn [is_nil orb] in Wa. rewrite F in Wa. discriminate Wa. }
  destruct (is_head o) eqn:HD.
  - destruct (serve_head_outcome (a_default (build_api regs)) (a_producers (build_api regs)) (route_of (build_api regs) d o) specs)
      as [fmt E]; try reflexivity; [exact HN|].
    left. rewrite E. cbn. eauto.
  - destruct (serve_value_outcomes (a_default (build_api regs)) (a_producers (build_api regs)) (route_of (build_api regs) d o) specs)
      as [[fmt [p E]] | [fmt E]]; try reflexivity; [exact HN| |].
    + left. rewrite E. cbn. eauto.
    + right. rewrite E. reflexivity.
Qed.

(* a declared HEAD operation of a validated API: a well-formed request runs the handler and is answered without a body,
   and never fails for lack of a producer (F-C19-1 does not concern HEAD) *)
Theorem validated_head_served regs d o rq :
  validate (build_api regs) d = None -> In o (g_ops d) -> simple_desc d = true ->
  wf_base (g_base d) = true -> wf_template (op_path o) = true ->
  wf_request (build_api regs) d o rq = true -> is_head o = true ->
  exists ct, serve_request (build_api regs) d o rq = mkres 0 ct [].
Proof.
  intros V Ho S Wb Wt W HD. pose proof W as W0. unfold wf_request in W. apply Bool.andb_true_iff in W. destruct W as [W Wa].
  apply Bool.andb_true_iff in W. destruct W as [Wc Wct].
  unfold serve_request. rewrite (validated_routes _ d o V Ho Wb Wt). cbn [negb].
  unfold own_template. rewrite (route_template_recovered d o Wb Wt), bytes_eqb_refl. cbn [negb].
  rewrite (auth_passes_covered _ d o _ V Ho Wc). cbn [negb].
  assert ((negb (is_nil (rq_ct rq)) && negb (content_admitted (route_consumes_of (build_api regs) d o) (media_type_of (rq_ct rq))) = false) /\
          (negb (is_nil (rq_ct rq)) && negb (consumer_found (build_api regs) (route_consumes_of (build_api regs) d o) (media_type_of (rq_ct rq))) = false)) as [B1 B2].
  { destruct (is_nil (rq_ct rq)); [now split|]. cbn [orb] in Wct. cbn [negb andb].
    destruct (consumer_available regs d o _ V Ho S Wct) as [C1 C2]. now rewrite C1, C2. }
  rewrite B1, B2. unfold accept_ok in Wa.
  destruct (parse_accept (rq_accept rq)) as [specs|]; [|discriminate Wa].
  rewrite HD.
  destruct (serve_head_outcome (a_default (build_api regs)) (a_producers (build_api regs)) (route_of (build_api regs) d o) specs)
    as [fmt E]; try reflexivity.
  - intros F. destruct (rt_produces (route_of (build_api regs) d o)) as [|p ps] eqn:EP; [reflexivity|]. exfalso.
    assert (p <> []) as Hp by (apply (route_produces_nonempty regs d o); [assumption | assumption | rewrite EP; now left]).
    destruct specs as [|sp specs'].
    + cbn in F. contradiction.
    + cbn [is_nil orb] in Wa. rewrite F in Wa. discriminate Wa.
  - rewrite E. cbn. eauto.
Qed.

(* the hypotheses are satisfiable: a validated API with two alternative requirements, a request in mixed case with a
   parameter that satisfies the first alternative only; it is served, in the format it asks for *)
Definition ex_post : bytes := [80; 79; 83; 84].
Definition ex_basic : bytes := [98; 97; 115; 105; 99].
Definition ex_key : bytes := [107; 101; 121].
Definition ex_ct_mixed : bytes := [84; 101; 120; 116; 47; 80; 76; 65; 73; 78; 59; 32; 99; 104; 97; 114; 115; 101; 116; 61; 117; 116; 102; 45; 56].  (* Text/PLAIN; charset=utf-8 *)
Definition ex_desc2 : desc :=
  mkdesc [] [ex_text] [ex_text] [[ex_basic]; [ex_key]] [ex_basic; ex_key] [mkop ex_post ex_path_a [] [] None].
Definition ex_regs2 : list reg :=
  [RWithoutJSON; RConsumer ex_text; RProducer ex_text; ROperation ex_post ex_path_a; RAuth ex_basic; RAuth ex_key].
Definition ex_rq : request := mkreq 0 ex_ct_mixed [ex_text] [ex_basic].
Example ex_wf_request :
  validate (build_api ex_regs2) ex_desc2 = None /\ simple_desc ex_desc2 = true /\
  wf_request (build_api ex_regs2) ex_desc2 (mkop ex_post ex_path_a [] [] None) ex_rq = true /\
  serve_one (build_api ex_regs2) ex_desc2 ex_rq = mkres 0 ex_text ex_text /\
  rs_outcome (serve_one (build_api ex_regs2) ex_desc2 (mkreq 0 ex_ct_mixed [ex_text] [])) = 7.
Proof. vm_compute. repeat split; reflexivity. Qed.

(* HEAD, registered under a capitalised spelling, nothing produced and no default producer: validated, routed, the handler
   runs and the body-less answer needs no producer (the same description with GET is F-C19-1) *)
Definition ex_head_spelt : bytes := [72; 101; 97; 100].   (* Head *)
Definition ex_desc_head : desc := mkdesc [] [] [] [] [] [mkop HEAD_M ex_path_a [] [] None].
Example ex_head_request :
  validate (build_api [RWithoutJSON; ROperation ex_head_spelt ex_path_a]) ex_desc_head = None /\
  wf_request (build_api [RWithoutJSON; ROperation ex_head_spelt ex_path_a]) ex_desc_head (mkop HEAD_M ex_path_a [] [] None) (mkreq 0 [] [] []) = true /\
  serve_one (build_api [RWithoutJSON; ROperation ex_head_spelt ex_path_a]) ex_desc_head (mkreq 0 [] [] []) = mkres 0 [] [].
Proof. vm_compute. repeat split; reflexivity. Qed.
