(* BinderProofs.v -- C03: the model of the binder (Binder.bind_param, which follows the Go code) meets
   the specification written in the property's vocabulary (BinderSpec.spec_outcome), and the clauses of
   the property follow. *)
From V Require Import Bytes Decimal Binder BinderSpec DecimalProofs.
Local Open Scope nat_scope.

(* ------------------------------------------------------------------ small facts *)
Lemma is_nil_true {A} (l : list A) : is_nil l = true -> l = [].
Proof. destruct l; [reflexivity | discriminate]. Qed.

Lemma has_key_values_of k ps : has_key k ps = negb (is_nil (values_of k ps)).
Proof.
  unfold has_key, values_of. induction ps as [|p ps IH]; simpl; [reflexivity|].
  destruct (bytes_eqb (fst p) k); simpl; [reflexivity | exact IH].
Qed.

Lemma split_by_format_nil cf : split_by_format [] cf = [].
Proof. reflexivity. Qed.

Lemma last_nil_of_nil (l : list bytes) : l = [] -> last_or_empty l = [].
Proof. intros ->. reflexivity. Qed.

(* ------------------------------------------------------------------ header names *)
Lemma to_lower_idem c : to_lower (to_lower c) = to_lower c.
Proof.
  unfold to_lower. destruct ((65 <=? c) && (c <=? 90)) eqn:E; [|now rewrite E].
  apply andb_true_iff in E as [E1 E2]. apply Nat.leb_le in E1. apply Nat.leb_le in E2.
  destruct ((65 <=? c + 32) && (c + 32 <=? 90)) eqn:F; [|reflexivity].
  apply andb_true_iff in F as [F1 F2]. apply Nat.leb_le in F2. lia.
Qed.

Lemma to_upper_lower c : to_upper (to_lower c) = to_upper c.
Proof.
  unfold to_lower, to_upper. destruct ((65 <=? c) && (c <=? 90)) eqn:E; [|reflexivity].
  apply andb_true_iff in E as [E1 E2]. apply Nat.leb_le in E1. apply Nat.leb_le in E2.
  replace ((97 <=? c + 32) && (c + 32 <=? 122)) with true
    by (symmetry; apply andb_true_iff; split; apply Nat.leb_le; lia).
  replace ((97 <=? c) && (c <=? 122)) with false
    by (symmetry; apply andb_false_iff; left; apply Nat.leb_gt; lia).
  lia.
Qed.

Lemma canon_go_lower s : forall up, canon_go up (lower s) = canon_go up s.
Proof.
  unfold lower. induction s as [|c s IH]; intro up; simpl; [reflexivity|].
  destruct up; rewrite ?to_upper_lower, ?to_lower_idem, IH; reflexivity.
Qed.

Lemma lower_canon_go s : forall up, lower (canon_go up s) = lower s.
Proof.
  unfold lower. induction s as [|c s IH]; intro up; simpl; [reflexivity|]. rewrite IH. f_equal.
  destruct up; [|apply to_lower_idem].
  unfold to_upper, to_lower. destruct ((97 <=? c) && (c <=? 122)) eqn:E.
  - apply andb_true_iff in E as [E1 E2]. apply Nat.leb_le in E1. apply Nat.leb_le in E2.
    replace ((65 <=? c - 32) && (c - 32 <=? 90)) with true
      by (symmetry; apply andb_true_iff; split; apply Nat.leb_le; lia).
    replace ((65 <=? c) && (c <=? 90)) with false
      by (symmetry; apply andb_false_iff; right; apply Nat.leb_gt; lia).
    lia.
  - reflexivity.
Qed.

Lemma is_token_lower c : is_token_byte (to_lower c) = is_token_byte c.
Proof.
  unfold to_lower. destruct ((65 <=? c) && (c <=? 90)) eqn:E; [|reflexivity].
  apply andb_true_iff in E as [E1 E2]. apply Nat.leb_le in E1. apply Nat.leb_le in E2.
  unfold is_token_byte, is_alpha.
  replace ((65 <=? c) && (c <=? 90)) with true by (symmetry; apply andb_true_iff; split; apply Nat.leb_le; lia).
  replace ((97 <=? c + 32) && (c + 32 <=? 122)) with true
    by (symmetry; apply andb_true_iff; split; apply Nat.leb_le; lia).
  rewrite orb_true_r. reflexivity.
Qed.

Lemma forallb_token_lower s : forallb is_token_byte (lower s) = forallb is_token_byte s.
Proof. unfold lower. induction s as [|c s IH]; simpl; [reflexivity|]. now rewrite is_token_lower, IH. Qed.

(* canonicalisation identifies exactly the token names that are equal up to ASCII case *)
Lemma canon_key_fold k n : forallb is_token_byte k = true -> canon_key k = k ->
  bytes_eqb k (canon_key n) = eq_fold k n.
Proof.
  intros Htok Hcanon. unfold eq_fold.
  destruct (bytes_eqb (lower k) (lower n)) eqn:E.
  - apply bytes_eqb_eq in E. apply bytes_eqb_eq.
    assert (Hn : forallb is_token_byte n = true)
      by (rewrite <- forallb_token_lower, <- E, forallb_token_lower; exact Htok).
    rewrite <- Hcanon. unfold canon_key. rewrite Htok, Hn.
    rewrite <- (canon_go_lower k), <- (canon_go_lower n), E. reflexivity.
  - apply bytes_eqb_neq in E. apply bytes_eqb_neq. intro Hk. apply E. subst k.
    unfold canon_key. destruct (forallb is_token_byte n); [apply lower_canon_go | reflexivity].
Qed.

Lemma header_occurrences d rq : request_wf rq = true ->
  values_of (canon_key (d_name d)) (r_header rq) =
  List.map snd (List.filter (fun p => eq_fold (fst p) (d_name d)) (r_header rq)).
Proof.
  intro Hwf. unfold request_wf in Hwf. apply andb_true_iff in Hwf as [Hh _].
  unfold values_of. f_equal. apply filter_ext_in. intros p Hp.
  rewrite forallb_forall in Hh. specialize (Hh p Hp). apply andb_true_iff in Hh as [H1 H2].
  apply bytes_eqb_eq in H1. now apply canon_key_fold.
Qed.

(* ------------------------------------------------------------------ path parameters *)
Fixpoint nodup_keys (l : pairs) : bool :=
  match l with
  | [] => true
  | p :: r => negb (has_key (fst p) r) && nodup_keys r
  end.

Lemma request_wf_path rq : request_wf rq = true -> nodup_keys (r_path rq) = true.
Proof. unfold request_wf. intro H. apply andb_true_iff in H as [_ H]. exact H. Qed.

Lemma route_get_ok_nodup k ps : nodup_keys ps = true ->
  route_get_ok k ps =
  match values_of k ps with
  | [] => ([], false, false)
  | v :: _ => ([v], true, negb (is_nil v))
  end /\ (forall v r, values_of k ps = v :: r -> r = []).
Proof.
  induction ps as [|p ps IH]; intro H; [split; [reflexivity | discriminate]|].
  simpl in H. apply andb_true_iff in H as [H1 H2]. specialize (IH H2) as [IH1 IH2].
  unfold values_of in *. simpl. destruct (bytes_eqb (fst p) k) eqn:E.
  - simpl. split; [reflexivity|]. intros v r Hv. inversion Hv; subst.
    apply bytes_eqb_eq in E. subst k. rewrite has_key_values_of in H1. unfold values_of in H1.
    apply negb_true_iff, negb_false_iff, is_nil_true in H1. exact H1.
  - split; [exact IH1 | exact IH2].
Qed.

(* ------------------------------------------------------------------ sources *)
(* what the lookups of the code return, in terms of the texts the client sent for the name *)
Lemma source_get_ok_occ d rq : request_wf rq = true ->
  exists hv, source_get_ok d rq = (occurrences d rq, negb (is_nil (occurrences d rq)), hv) /\
             (hv = false -> last_or_empty (occurrences d rq) = []).
Proof.
  intro Hwf. unfold source_get_ok, occurrences. destruct (d_in d).
  - eexists. split; [unfold get_ok; rewrite has_key_values_of; reflexivity|].
    intro H. apply negb_false_iff, is_nil_true in H. now rewrite H.
  - rewrite <- (header_occurrences d rq Hwf).
    eexists. split; [unfold get_ok; rewrite has_key_values_of; reflexivity|].
    intro H. apply negb_false_iff, is_nil_true in H. now rewrite H.
  - destruct (route_get_ok_nodup (d_name d) (r_path rq) (request_wf_path rq Hwf)) as [E U].
    rewrite E. destruct (values_of (d_name d) (r_path rq)) as [|v r] eqn:Hv.
    + eexists. split; [reflexivity | reflexivity].
    + rewrite (U v r eq_refl). eexists. split; [reflexivity|].
      intro H. apply negb_false_iff, is_nil_true in H. subst v. reflexivity.
  - eexists. split; [unfold get_ok; rewrite has_key_values_of; reflexivity|].
    intro H. apply negb_false_iff, is_nil_true in H. now rewrite H.
Qed.

Section WithOracles.
Variable O : oracles.

(* ------------------------------------------------------------------ scalars *)
Definition stype_ok (t : stype) : Prop := match t with SInt w => w <= 64 | _ => True end.

Lemma stype_for_ok k f t : stype_for O k f = Some t -> stype_ok t.
Proof.
  destruct k; simpl; try discriminate.
  - destruct (o_registered O f); intro E; inversion E; exact I.
  - destruct (bytes_eqb f s_int8); [intro E; inversion E; simpl; lia|].
    destruct (bytes_eqb f s_int16); [intro E; inversion E; simpl; lia|].
    destruct (bytes_eqb f s_int32); intro E; inversion E; simpl; lia.
  - destruct (bytes_eqb f s_float); intro E; inversion E; exact I.
  - intro E; inversion E; exact I.
Qed.

Lemma in_range_64 w z : w <= 64 -> in_int_range w z = true -> in_int_range 64 z = true.
Proof.
  intros Hw. unfold in_int_range. intro H. apply andb_true_iff in H as [H1 H2].
  apply Z.leb_le in H1. apply Z.ltb_lt in H2.
  assert (Hp : (2 ^ (Z.of_nat w - 1) <= 2 ^ (Z.of_nat 64 - 1))%Z).
  { destruct w as [|w'].
    - change (Z.of_nat 0 - 1)%Z with (-1)%Z. rewrite Z.pow_neg_r by lia. apply Z.pow_nonneg. lia.
    - apply Z.pow_le_mono_r; lia. }
  apply andb_true_iff. split; [apply Z.leb_le | apply Z.ltb_lt]; lia.
Qed.

(* a non-empty text: strconv/oracle parsing in the code = the denotation of the property *)
Lemma set_field_text d t def c r : stype_ok t ->
  required_fails d true false = false ->
  set_field O d t def (c :: r) true = text_value O t (c :: r).
Proof.
  intros Hok Hreq. unfold set_field. cbn [is_nil]. rewrite Hreq. unfold text_value, denote.
  destruct t as [| |f|w| |].
  - reflexivity.
  - reflexivity.
  - destruct def; destruct (o_format O f (c :: r)); reflexivity.
  - rewrite parse_int_dec_denotes. destruct (dec_denotes (c :: r)) as [z|]; [|reflexivity].
    destruct (in_int_range w z) eqn:Hr.
    + rewrite (in_range_64 w z Hok Hr), Hr. reflexivity.
    + destruct (in_int_range 64 z); [rewrite Hr|]; reflexivity.
  - destruct (o_float O (c :: r)) as [[[b64 ov] b32]|]; [destruct ov|]; reflexivity.
  - destruct (o_float O (c :: r)) as [[[b64 ov] b32]|]; reflexivity.
Qed.

Lemma required_fails_present d : required_fails d true false = false.
Proof. unfold required_fails. simpl. rewrite andb_false_r. reflexivity. Qed.

Lemma set_field_scalar d t (occ : list bytes) : stype_ok t ->
  set_field O d t (d_default d) (last_or_empty occ) (negb (is_nil occ)) = scalar_value O d t occ.
Proof.
  intro Hok. unfold scalar_value. change (List.last occ []) with (last_or_empty occ).
  destruct (last_or_empty occ) as [|c r] eqn:Hlast.
  - cbn [is_nil]. unfold set_field, required_fails. rewrite negb_involutive. cbn [is_nil].
    rewrite andb_true_r.
    destruct (d_default d) as [dv|] eqn:Hdef.
    + rewrite andb_false_r. destruct t; reflexivity.
    + rewrite andb_true_r. rewrite (andb_comm (d_required d)).
      destruct ((is_nil occ || negb (d_allow_empty d)) && d_required d); [reflexivity|].
      unfold empty_value, denote. destruct t as [| |f|w| |]; try reflexivity. destruct (o_format O f []); reflexivity.
  - cbn [is_nil]. assert (Hne : is_nil occ = false).
    { destruct occ; [discriminate | reflexivity]. }
    rewrite Hne. cbn [negb]. apply set_field_text; [exact Hok | apply (required_fails_present d)].
Qed.

(* ------------------------------------------------------------------ arrays *)
Lemma set_field_item d t x : stype_ok t ->
  set_field O d t None x true = item_value O d t x.
Proof.
  intro Hok. unfold item_value. destruct x as [|c r].
  - cbn [is_nil]. unfold set_field, required_fails, no_default. cbn [negb orb is_nil]. rewrite andb_true_r.
    rewrite (andb_comm (negb (d_allow_empty d)) (d_required d)).
    destruct (d_required d && negb (d_allow_empty d) && match d_default d with None => true | Some _ => false end);
      [reflexivity|].
    unfold empty_value, denote. destruct t as [| |f|w| |]; try reflexivity. destruct (o_format O f []); reflexivity.
  - cbn [is_nil]. apply set_field_text; [exact Hok | apply (required_fails_present d)].
Qed.

Lemma set_items_spec d t items : stype_ok t ->
  set_items O d t items true = items_value O d t items.
Proof.
  intro Hok. induction items as [|x items IH]; [reflexivity|].
  cbn [set_items items_value]. rewrite (set_field_item d t x Hok), IH.
  destruct (item_value O d t x); [|reflexivity..].
  destruct (items_value O d t items); reflexivity.
Qed.

Lemma set_slice_spec d t (occ items : list bytes) : stype_ok t ->
  (occ = [] -> items = []) ->
  set_slice O d t items (negb (is_nil occ)) =
  (let empty := match items with [] => true | [x] => is_nil x | _ => false end in
   if (is_nil occ || (negb (d_allow_empty d) && empty)) && d_required d && no_default d then Err code_required
   else match items with
        | [] => match d_default d with
                | None => Ok (VSlice t [])
                | Some (DSlice l) => if forallb (fun v => sval_has_type v t) l then Ok (VSlice t l) else UnspecR
                | Some _ => UnspecR
                end
        | _ => match items_value O d t items with
               | Ok vs => Ok (VSlice t vs)
               | Err c => Err c
               | UnspecR => UnspecR
               end
        end).
Proof.
  intros Hok Hocc. unfold set_slice, slice_required_fails, no_default. rewrite negb_involutive.
  cbv zeta.
  destruct ((is_nil occ || negb (d_allow_empty d) && match items with [] => true | [x] => is_nil x | _ :: _ :: _ => false end)
            && d_required d && match d_default d with None => true | Some _ => false end); [reflexivity|].
  destruct items as [|x items']; [reflexivity|].
  assert (Hne : is_nil occ = false) by (destruct occ; [specialize (Hocc eq_refl); discriminate | reflexivity]).
  rewrite Hne. cbn [negb]. rewrite (set_items_spec d t (x :: items') Hok). reflexivity.
Qed.

(* ------------------------------------------------------------------ the model meets the specification *)
Lemma read_value_spec d rq : request_wf rq = true ->
  let occ := occurrences d rq in
  read_value d rq =
  match d_kind d with
  | KArray =>
    if bytes_eqb (d_cf d) s_multi then
      if allows_multi d then Ok (occ, negb (is_nil occ)) else Err code_invalid_type
    else Ok (split_by_format (last_or_empty occ) (d_cf d), negb (is_nil occ))
  | _ => Ok (occ, negb (is_nil occ))
  end.
Proof.
  intro Hwf. cbv zeta. unfold read_value.
  destruct (source_get_ok_occ d rq Hwf) as [hv [E Hhv]]. rewrite E.
  destruct (d_kind d); try reflexivity.
  destruct (bytes_eqb (d_cf d) s_multi); [reflexivity|].
  destruct hv; [reflexivity|]. rewrite (Hhv eq_refl). reflexivity.
Qed.

Lemma gtype_for_ok d gt : gtype_for O d = Some gt ->
  match gt with GScalar t => stype_ok t /\ d_kind d <> KArray | GSlice t => stype_ok t /\ d_kind d = KArray end.
Proof.
  unfold gtype_for. destruct (d_kind d) eqn:Hk.
  1-4: destruct (stype_for O _ (d_format d)) eqn:E; [|discriminate]; intro H; inversion H; subst;
       split; [eapply stype_for_ok; eauto | discriminate].
  - destruct (d_item_kind d) as [ik|]; [|discriminate].
    destruct (stype_for O ik (d_item_format d)) eqn:E; [|discriminate]. intro H; inversion H; subst.
    split; [eapply stype_for_ok; eauto | reflexivity].
  - discriminate.
Qed.

Theorem bind_param_meets_spec d rq valid : request_wf rq = true ->
  gtype_for O d <> None ->
  bind_param O d rq valid = spec_outcome O d rq valid.
Proof.
  intros Hwf Hgt. unfold bind_param, spec_outcome.
  destruct (gtype_for O d) as [gt|] eqn:Egt; [|congruence].
  pose proof (gtype_for_ok d gt Egt) as Hok.
  rewrite (read_value_spec d rq Hwf). cbv zeta.
  destruct gt as [t|t]; destruct Hok as [Hok Hk].
  - (* scalar *)
    assert (E : match d_kind d with
                | KArray => if bytes_eqb (d_cf d) s_multi
                            then if allows_multi d then Ok (occurrences d rq, negb (is_nil (occurrences d rq))) else Err code_invalid_type
                            else Ok (split_by_format (last_or_empty (occurrences d rq)) (d_cf d), negb (is_nil (occurrences d rq)))
                | _ => Ok (occurrences d rq, negb (is_nil (occurrences d rq)))
                end = Ok (occurrences d rq, negb (is_nil (occurrences d rq)))).
    { destruct (d_kind d); try reflexivity. congruence. }
    rewrite E. unfold bind_value. rewrite (set_field_scalar d t (occurrences d rq) Hok).
    destruct (scalar_value O d t (occurrences d rq)); reflexivity.
  - (* array *)
    rewrite Hk. unfold array_value.
    destruct (bytes_eqb (d_cf d) s_multi) eqn:Hm.
    + destruct (allows_multi d); [|reflexivity]. cbn [negb andb]. unfold bind_value.
      rewrite (set_slice_spec d t (occurrences d rq) (occurrences d rq) Hok (fun e => e)). cbv zeta.
      destruct ((is_nil (occurrences d rq) || negb (d_allow_empty d) &&
                 match occurrences d rq with [] => true | [x] => is_nil x | _ :: _ :: _ => false end)
                && d_required d && no_default d); [reflexivity|].
      destruct (occurrences d rq) as [|x l]; [destruct (d_default d) as [[v|l|]|]; try reflexivity;
        destruct (forallb (fun v => sval_has_type v t) l); reflexivity|].
      destruct (items_value O d t (x :: l)); reflexivity.
    + cbn [andb]. unfold bind_value.
      rewrite (set_slice_spec d t (occurrences d rq) (split_by_format (last_or_empty (occurrences d rq)) (d_cf d)) Hok
                 (fun e => eq_trans (f_equal (fun o => split_by_format (last_or_empty o) (d_cf d)) e) eq_refl)).
      cbv zeta. change (List.last (occurrences d rq) []) with (last_or_empty (occurrences d rq)).
      destruct ((is_nil (occurrences d rq) || negb (d_allow_empty d) &&
                 match split_by_format (last_or_empty (occurrences d rq)) (d_cf d) with [] => true | [x] => is_nil x | _ :: _ :: _ => false end)
                && d_required d && no_default d); [reflexivity|].
      destruct (split_by_format (last_or_empty (occurrences d rq)) (d_cf d)) as [|x l];
        [destruct (d_default d) as [[v|l|]|]; try reflexivity;
         destruct (forallb (fun v => sval_has_type v t) l); reflexivity|].
      destruct (items_value O d t (x :: l)); reflexivity.
Qed.

End WithOracles.
