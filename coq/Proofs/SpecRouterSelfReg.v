(* SpecRouterSelfReg.v — the self-registration clause of simple_routes from syntactic conditions:
   for an empty or rooted base path and templates in rooted normal form, the template AddRoute
   recovers from the joined path (TrimPrefix of the cleaned base path, the root template repaired
   as in the fix of F-C01-4) is the template itself; so, when no two operations share method and
   template, HandlerFor finds the handler of the operation itself. *)
From V Require Import Bytes DencoSpec PathCleanLib PathCleanProofs SpecRouter SpecRouterSpec.

(* ---------- split / join ---------- *)
Lemma split_slash_app a : forall t, split_slash (a ++ SL :: t) = split_slash a ++ split_slash t.
Proof.
  induction a as [|c a IH]; intros t; [cbn [app split_slash]; now rewrite Nat.eqb_refl|].
  cbn [app split_slash]. destruct (Nat.eqb c SL); [now rewrite IH|]. rewrite IH.
  destruct (split_slash a) as [|s l] eqn:E; [exfalso; now apply (split_slash_nonempty a)|]. reflexivity.
Qed.

Lemma join_slash_cons2 s s' l : join_slash (s :: s' :: l) = s ++ SL :: join_slash (s' :: l).
Proof. reflexivity. Qed.

Lemma join_slash_app k : forall l, k <> [] -> l <> [] -> join_slash (k ++ l) = join_slash k ++ SL :: join_slash l.
Proof.
  induction k as [|s k IH]; intros l Hk Hl; [contradiction|]. destruct k as [|s' k'].
  - destruct l as [|t l']; [contradiction|]. reflexivity.
  - change ((s :: s' :: k') ++ l) with (s :: s' :: (k' ++ l)). rewrite !join_slash_cons2.
    change (s' :: k' ++ l) with ((s' :: k') ++ l). rewrite IH by (assumption || discriminate).
    now rewrite <- app_assoc.
Qed.

Lemma plain_seg_slash_free s : plain_seg s = true -> s <> [] /\ forall z, In z s -> z <> SL.
Proof.
  unfold plain_seg. intros H. repeat (apply andb_true_iff in H; destruct H as [H ?]).
  split; [destruct s; [discriminate|discriminate]|]. intros z Hz ->.
  match goal with Hm : negb (mem_byte SL s) = true |- _ => apply negb_true_iff in Hm; unfold mem_byte in Hm end.
  assert (existsb (Nat.eqb SL) s = true) by (apply existsb_exists; exists SL; split; [exact Hz|apply Nat.eqb_refl]).
  congruence.
Qed.

Lemma join_last l : l <> [] -> forallb plain_seg l = true -> exists x z, join_slash l = x ++ [z] /\ z <> SL.
Proof.
  induction l as [|s l IH]; intros Hne Hp; [contradiction|].
  cbn [forallb] in Hp. apply andb_true_iff in Hp. destruct Hp as [Hs Hl]. destruct l as [|s' l'].
  - destruct (plain_seg_slash_free s Hs) as [Hsne Hsf].
    destruct (exists_last Hsne) as (x & z & E). exists x, z. cbn [join_slash]. split; [exact E|].
    apply Hsf. rewrite E. apply in_or_app. right. left. reflexivity.
  - destruct (IH ltac:(discriminate) Hl) as (x & z & E & Hz). rewrite join_slash_cons2, E.
    exists (s ++ SL :: x), z. split; [now rewrite <- app_assoc|exact Hz].
Qed.

(* AddRoute's bp for a base path whose cleaned form is rooted_of k *)
Lemma trim_suffix_rooted k : forallb plain_seg k = true ->
  (if has_suffix [SL] (rooted_of k) then removelast (rooted_of k) else rooted_of k) =
  match k with [] => [] | _ => rooted_of k end.
Proof.
  intros Hp. destruct k as [|s k']; [reflexivity|].
  destruct (join_last (s :: k') ltac:(discriminate) Hp) as (x & z & E & Hz).
  unfold has_suffix, rooted_of. rewrite E. cbn [rev]. rewrite rev_app_distr. cbn [rev app has_prefix].
  apply Nat.eqb_neq in Hz. rewrite Nat.eqb_sym, Hz. reflexivity.
Qed.

Lemma skipn_app_exact {A} (a b : list A) : skipn (length a) (a ++ b) = b.
Proof. induction a; cbn; auto. Qed.

Lemma trim_prefix_app p q : trim_prefix p (p ++ q) = q.
Proof. unfold trim_prefix. now rewrite has_prefix_app, skipn_app_exact. Qed.

Lemma trim_prefix_self p : trim_prefix p p = [].
Proof. pose proof (trim_prefix_app p []) as H. now rewrite app_nil_r in H. Qed.

(* ---------- the joined path and the recovered template ---------- *)
(* the cleaned form of a rooted base path followed by a normal template *)
Lemma clean_base_template b tsegs : forallb plain_seg tsegs = true ->
  clean ((SL :: b) ++ SL :: rooted_of tsegs) = rooted_of (kept b ++ tsegs).
Proof.
  intros Hp. change ((SL :: b) ++ SL :: rooted_of tsegs) with (SL :: (b ++ SL :: rooted_of tsegs)).
  rewrite clean_rooted. unfold rooted_of at 2. f_equal. f_equal. unfold kept.
  rewrite split_slash_app. unfold rooted_of. change (SL :: join_slash tsegs) with ([] ++ SL :: join_slash tsegs).
  rewrite split_slash_app. cbn [split_slash]. rewrite !norm_rooted_app.
  cbn [norm_rooted is_empty orb].
  destruct tsegs as [|t ts].
  - cbn [join_slash split_slash norm_rooted is_empty orb]. now rewrite app_nil_r.
  - rewrite split_join by (discriminate || now apply plain_slash_free).
    rewrite (norm_rooted_id _ Hp). rewrite rev_app_distr, rev_involutive. reflexivity.
Qed.

Theorem template_recovered base tsegs : base = [] \/ (exists b, base = SL :: b) ->
  forallb plain_seg tsegs = true ->
  template_of base (path_join base (rooted_of tsegs)) = rooted_of tsegs.
Proof.
  intros Hb Hp. destruct Hb as [->|[b ->]].
  - (* empty base path *)
    unfold path_join. cbn [rooted_of]. rewrite (clean_normal_id tsegs Hp).
    unfold template_of, base_prefix, trim_prefix. reflexivity.
  - unfold path_join. rewrite (clean_base_template b tsegs Hp).
    unfold template_of, base_prefix. cbv zeta. rewrite clean_rooted.
    change (SL :: join_slash (kept b)) with (rooted_of (kept b)).
    match goal with |- context [trim_prefix ?x _] =>
      replace x with (match kept b with [] => [] | _ => rooted_of (kept b) end)
        by (symmetry; exact (trim_suffix_rooted (kept b) (kept_plain b))) end.
    destruct (kept b) as [|s k'] eqn:Ek.
    + cbn [app]. unfold trim_prefix. cbn [has_prefix length skipn]. reflexivity.
    + destruct tsegs as [|t ts].
      * rewrite app_nil_r. rewrite trim_prefix_self. reflexivity.
      * unfold rooted_of at 2 3. rewrite join_slash_app by discriminate.
        change (SL :: join_slash (s :: k') ++ SL :: join_slash (t :: ts))
          with (rooted_of (s :: k') ++ rooted_of (t :: ts)).
        rewrite trim_prefix_app. reflexivity.
Qed.

(* ---------- self-registration ---------- *)
(* no two operations share (upper-cased) method and template *)
Definition distinct_ops (routes : list route) : Prop :=
  forall r r', In r routes -> In r' routes ->
    upper (r_method r) = upper (r_method r') -> r_tpl r = r_tpl r' -> r_id r = r_id r'.

Definition normal_template (t : bytes) : Prop :=
  exists tsegs, t = rooted_of tsegs /\ forallb plain_seg tsegs = true.

Theorem self_registered_syntactic base routes r :
  base = [] \/ (exists b, base = SL :: b) -> distinct_ops routes -> In r routes ->
  normal_template (r_tpl r) -> self_registered base routes r = true.
Proof.
  intros Hb Hd Hin (tsegs & Ht & Hp). unfold self_registered, record_of.
  rewrite Ht, (template_recovered base tsegs Hb Hp), <- Ht. unfold handler_for.
  destruct (find (fun r0 => bytes_eqb (upper (r_method r0)) (upper (r_method r)) && bytes_eqb (r_tpl r0) (r_tpl r)) routes)
    as [h|] eqn:E.
  - apply find_some in E. destruct E as [Hh Hf]. apply andb_true_iff in Hf. destruct Hf as [H1 H2].
    apply bytes_eqb_eq in H1. apply bytes_eqb_eq in H2. apply Nat.eqb_eq. symmetry. now apply Hd.
  - exfalso. pose proof (find_none _ _ E r Hin) as Hn. cbv beta in Hn. now rewrite !bytes_eqb_refl in Hn.
Qed.
