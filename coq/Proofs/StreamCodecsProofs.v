(* StreamCodecsProofs.v — C15: the byte stream and text codecs over EVERY reader / writer script,
   every destination / source kind, every read-size policy. *)
From Coq Require Import Lia Arith Bool.
From V Require Import StreamCodecsSpec StreamIOProofs.

Lemma term_error_none : forall t, term_error t = None <-> t = EOF.
Proof. destruct t; cbn; split; congruence. Qed.

Lemma term_error_some : forall t, t <> EOF -> term_error t = Some t.
Proof. destruct t; cbn; congruence. Qed.

Lemma is_eof_true : forall t, is_eof t = true <-> t = EOF.
Proof. destruct t; cbn; split; congruence. Qed.

(* ---------- the consumers with the stream plumbing resolved (read_all_exact) ---------- *)
Lemma bytestream_consume_eq : forall bufm1 pol close_opt s closable d,
  bytestream_consume bufm1 pol close_opt (Some (s, closable)) d =
  let closes := closes_of close_opt closable in
  match d with
  | DNil => mkC (ORet (Some E_nil_data)) None closes
  | DReaderFrom pre => mkC (ORet (term_error (script_term s))) (Some (pre ++ script_bytes s)) closes
  | DWriter w =>
    match io_copy bufm1 s w with
    | CP w' e => mkC (ORet e) (Some (w_got w')) closes
    | CPOutOfFuel => mkC OOutOfFuel (Some (w_got w)) closes
    end
  | _ =>
    match term_error (script_term s) with
    | Some e => mkC (ORet (Some e)) (dk_initial d) closes
    | None => mkC (fst (bytestream_store d (script_bytes s))) (snd (bytestream_store d (script_bytes s))) closes
    end
  end.
Proof.
  intros bufm1 pol close_opt s closable d. unfold bytestream_consume.
  destruct d; try reflexivity; rewrite read_all_exact; cbv zeta;
    destruct (term_error (script_term s)); try reflexivity;
    match goal with |- context [bytestream_store ?d ?b] => destruct (bytestream_store d b); reflexivity end.
Qed.

Lemma text_consume_eq : forall pol s closable d,
  text_consume pol (Some (s, closable)) d =
  match term_error (script_term s) with
  | Some e => mkC (ORet (Some e)) (dk_initial d) 0
  | None =>
    match script_bytes s with
    | [] => mkC (ORet None) (dk_initial d) 0
    | b => mkC (fst (text_store d b)) (snd (text_store d b)) 0
    end
  end.
Proof.
  intros pol s closable d. unfold text_consume. rewrite read_all_exact.
  destruct (term_error (script_term s)); [destruct (script_bytes s); reflexivity|].
  destruct (script_bytes s) as [|b0 br]; [reflexivity|].
  destruct (text_store d (b0 :: br)); reflexivity.
Qed.

(* ---------- C15_consume_exact ---------- *)
Lemma bytestream_store_success : forall d b,
  fst (bytestream_store d b) = ORet None ->
  dk_supported ByteStream d = true /\ snd (bytestream_store d b) = Some (dk_prefix d ++ b).
Proof.
  intros d b. destruct d as [| pre | w | pre r | pre r | h | pre | pre | | | | | | ]; cbn;
    try discriminate; try (intros _; split; reflexivity).
  - destruct r as [e|]; [discriminate|]. intros _. split; reflexivity.
  - destruct h; cbn; try discriminate; intros _; split; reflexivity.
Qed.

Lemma text_store_success : forall d b,
  fst (text_store d b) = ORet None ->
  dk_supported Text d = true /\ snd (text_store d b) = Some (dk_prefix d ++ b).
Proof.
  intros d b. destruct d as [| pre | w | pre r | pre r | h | pre | pre | | | | | | ]; cbn;
    try discriminate; try (intros _; split; reflexivity).
  destruct r as [e|]; [discriminate|]. intros _. split; reflexivity.
Qed.

(* Success means: the script ended in io.EOF, the destination is of a supported kind, and it holds
   exactly the bytes of the script (after what a stream destination held before) — for every
   script, however it chunks, stalls, or couples data with its terminal. The text consumer with an
   empty input is the one exception (text_empty_input below). *)
Theorem consume_exact : forall cd bufm1 pol close_opt l closable d,
  let r := consume cd bufm1 pol close_opt (Some (Live l, closable)) d in
  c_out r = ORet None ->
  text_empty_exception cd (steps_bytes l) = false ->
  steps_term l = EOF /\ dk_supported cd d = true /\
  c_stored r = Some (dk_prefix d ++ steps_bytes l).
Proof.
  intros cd bufm1 pol close_opt l closable d. cbv zeta. destruct cd; cbn [consume].
  - (* byte stream *)
    intros H _. rewrite bytestream_consume_eq in *. cbv zeta in *. cbn [script_term script_bytes] in *.
    destruct d as [| pre | w | pre r | pre r | h | pre | pre | | | | | | ];
      try (destruct (term_error (steps_term l)) eqn:Ht; cbn [c_out c_stored] in *; [discriminate|];
           apply term_error_none in Ht; split; [exact Ht|]; apply bytestream_store_success; exact H).
    + discriminate.
    + cbn [c_out c_stored] in *. injection H as H. apply term_error_none in H. auto.
    + destruct (io_copy bufm1 (Live l) w) as [w' e|] eqn:Hc; cbn [c_out c_stored] in *; [|discriminate].
      injection H as ->. apply io_copy_success_exact in Hc. cbn [script_term script_bytes] in Hc.
      destruct Hc as (Hg & Ht). rewrite Hg. auto.
  - (* text *)
    intros H Hex. rewrite text_consume_eq in *. cbn [script_term script_bytes] in *.
    unfold text_empty_exception in Hex. cbn [codec_eqb andb] in Hex.
    destruct (term_error (steps_term l)) eqn:Ht; cbn [c_out c_stored] in *; [discriminate|].
    apply term_error_none in Ht. split; [exact Ht|].
    destruct (steps_bytes l) as [|b0 br]; [discriminate|]. cbn [c_out c_stored] in *.
    apply text_store_success. exact H.
Qed.

(* which destinations are filled from a buffer that is read completely first *)
Definition reads_first (cd : codec) (d : dkind) : bool :=
  match cd, d with
  | Text, _ => true
  | ByteStream, DNil | ByteStream, DWriter _ => false
  | ByteStream, _ => true
  end.

(* A script that ends in an error never yields success: the result is an error, and it is that very
   error whenever the codec reads before it looks at the destination (a Writer destination may see
   its own write error first, a nil destination is refused before reading). *)
Theorem consume_error_returned : forall cd bufm1 pol close_opt l closable d,
  let r := consume cd bufm1 pol close_opt (Some (Live l, closable)) d in
  steps_term l <> EOF ->
  (exists e, c_out r = ORet (Some e)) /\
  (reads_first cd d = true -> c_out r = ORet (Some (steps_term l))).
Proof.
  intros cd bufm1 pol close_opt l closable d. cbv zeta. intros Ht. destruct cd; cbn [consume].
  - rewrite bytestream_consume_eq. cbv zeta. cbn [script_term script_bytes].
    pose proof (term_error_some _ Ht) as Hte.
    destruct d as [| pre | w | pre r | pre r | h | pre | pre | | | | | | ];
      try (rewrite Hte; cbn [c_out]; split; [eexists; reflexivity|reflexivity]).
    + cbn. split; [eexists; reflexivity|discriminate].
    + destruct (io_copy bufm1 (Live l) w) as [w' e|] eqn:Hc; cbn [c_out].
      * split; [|cbn; discriminate].
        pose proof (io_copy_read_error_returned _ (Live l) _ _ _ Ht Hc) as Hne.
        destruct e as [e|]; [eexists; reflexivity|congruence].
      * exfalso. exact (io_copy_total _ _ _ Hc).
  - rewrite text_consume_eq. cbn [script_term]. rewrite (term_error_some _ Ht). cbn [c_out].
    split; [eexists; reflexivity|reflexivity].
Qed.

(* ---------- C15_text_empty_input ---------- *)
(* the documented exception: on an empty input the text consumer returns nil and leaves the
   destination as it was, whatever the destination is *)
Theorem text_empty_input : forall pol l closable d,
  steps_bytes l = [] -> steps_term l = EOF ->
  text_consume pol (Some (Live l, closable)) d = mkC (ORet None) (dk_initial d) 0.
Proof.
  intros pol l closable d Hb Ht. rewrite text_consume_eq. cbn [script_term script_bytes].
  rewrite Ht, Hb. reflexivity.
Qed.

(* for a fresh destination of a supported kind that is still exact: it holds the (empty) input *)
Corollary text_empty_input_fresh : forall pol l closable d,
  steps_bytes l = [] -> steps_term l = EOF ->
  dk_supported Text d = true -> dk_prepopulated d = false ->
  c_stored (text_consume pol (Some (Live l, closable)) d) = Some (steps_bytes l).
Proof.
  intros pol l closable d Hb Ht Hs Hp. rewrite text_empty_input by assumption. cbn [c_stored]. rewrite Hb.
  destruct d as [| pre | w | pre r | pre r | h | pre | pre | | | | | | ]; cbn in Hs; try discriminate;
    cbn in Hp |- *; destruct pre; try discriminate; reflexivity.
Qed.

(* ... and false for a pre-populated one (F-C15-2): success, stale content *)
Theorem text_empty_input_prepopulated_refuted : exists pol l closable d,
  steps_bytes l = [] /\ steps_term l = EOF /\ dk_supported Text d = true /\
  c_out (text_consume pol (Some (Live l, closable)) d) = ORet None /\
  c_stored (text_consume pol (Some (Live l, closable)) d) <> Some (steps_bytes l).
Proof.
  exists (fun _ => 0), [([], Some EOF)], false, (DPtrString [79; 76; 68]).
  vm_compute. repeat split; discriminate.
Qed.

(* ---------- C15_close_iff_option (consumer side) ---------- *)
Theorem consume_closes : forall cd bufm1 pol close_opt s closable d,
  c_closes (consume cd bufm1 pol close_opt (Some (s, closable)) d) = expected_closes cd close_opt closable.
Proof.
  intros cd bufm1 pol close_opt s closable d. destruct cd; cbn [consume expected_closes].
  - rewrite bytestream_consume_eq. cbv zeta.
    destruct d; try reflexivity;
      try (destruct (term_error (script_term s)); reflexivity).
    destruct (io_copy bufm1 s w); reflexivity.
  - rewrite text_consume_eq. destruct (term_error (script_term s)); [reflexivity|].
    destruct (script_bytes s); reflexivity.
Qed.

Theorem consume_nil_reader : forall cd bufm1 pol close_opt d,
  consume cd bufm1 pol close_opt None d = mkC (ORet (Some E_no_stream)) (dk_initial d) 0.
Proof. intros. destruct cd; reflexivity. Qed.

(* ---------- C15_total (consumer side) ---------- *)
Lemma bytestream_store_ret : forall d b, exists e, fst (bytestream_store d b) = ORet e.
Proof.
  intros d b. destruct d as [| pre | w | pre r | pre r | h | pre | pre | | | | | | ]; cbn;
    try (eexists; reflexivity). destruct h; eexists; reflexivity.
Qed.

Lemma text_store_ret : forall d b, exists e, fst (text_store d b) = ORet e.
Proof.
  intros d b. destruct d as [| pre | w | pre r | pre r | h | pre | pre | | | | | | ]; cbn;
    try (eexists; reflexivity). destruct r; eexists; reflexivity.
Qed.

(* every call returns: no panic and no fuel exhaustion, for every reader (nil included), every
   destination kind, every script *)
Theorem consume_total : forall cd bufm1 pol close_opt rd d,
  exists e, c_out (consume cd bufm1 pol close_opt rd d) = ORet e.
Proof.
  intros cd bufm1 pol close_opt rd d. destruct rd as [[s closable]|].
  2:{ rewrite consume_nil_reader. eexists; reflexivity. }
  destruct cd; cbn [consume].
  - rewrite bytestream_consume_eq. cbv zeta.
    destruct d as [| pre | w | pre r | pre r | h | pre | pre | | | | | | ];
      try (destruct (term_error (script_term s)); cbn [c_out]; [eexists; reflexivity|apply bytestream_store_ret]).
    + eexists; reflexivity.
    + eexists; reflexivity.
    + destruct (io_copy bufm1 s w) eqn:Hc; cbn [c_out]; [eexists; reflexivity|].
      exfalso. exact (io_copy_total _ _ _ Hc).
  - rewrite text_consume_eq. destruct (term_error (script_term s)); cbn [c_out]; [eexists; reflexivity|].
    destruct (script_bytes s); cbn [c_out]; [eexists; reflexivity|apply text_store_ret].
Qed.

(* ---------- producers ---------- *)
Lemma json_write_success : forall jo w wc pc,
  p_out (json_write jo w wc pc) = ORet None ->
  json_bytes jo = Some (fst jo) /\
  (wlawful_next (fst jo) w = true -> p_got (json_write jo w wc pc) = w_got w ++ fst jo).
Proof.
  intros [b oe] w wc pc. unfold json_write, json_bytes. cbn [fst snd].
  destruct oe as [e|]; cbn [p_out]; [discriminate|].
  unfold wrote. cbn [p_out p_got]. intros H. split; [reflexivity|]. intros Hl.
  destruct (direct_write b w) as [w' e] eqn:Hd. cbn [fst snd] in *. injection H as ->.
  exact (direct_write_lawful _ _ _ Hl Hd).
Qed.

Lemma wrote_direct_success : forall b w wc pc,
  p_out (wrote (direct_write b w) wc pc) = ORet None ->
  wlawful_next b w = true -> p_got (wrote (direct_write b w) wc pc) = w_got w ++ b.
Proof.
  intros b w wc pc H Hl. unfold wrote in *. cbn [p_out p_got] in *.
  destruct (direct_write b w) as [w' e] eqn:Hd. cbn [fst snd] in *. injection H as ->.
  exact (direct_write_lawful _ _ _ Hl Hd).
Qed.

(* the sources whose transfer checks the written count itself (io.Copy, bytes.Buffer.WriteTo) *)
Definition count_checked (cd : codec) (src : skind) : bool :=
  match cd, src with
  | ByteStream, SReader _ _ | ByteStream, SBuffer _ => true
  | _, _ => false
  end.

(* Success means: the source is of a supported kind and the sink received exactly its bytes, for
   every writer script; for the single-Write paths under the proviso that the writer does not
   report a short count with a nil error (the io.Writer contract), for io.Copy and
   Buffer.WriteTo unconditionally. *)
Theorem produce_exact : forall cd bufm1 close_opt w closable src jo,
  let r := produce cd bufm1 close_opt (Some (w, closable)) src jo in
  p_out r = ORet None ->
  exists b, src_bytes cd src jo = Some b /\
    (wlawful_next b w = true \/ count_checked cd src = true -> p_got r = w_got w ++ b).
Proof.
  intros cd bufm1 close_opt w closable src jo. cbv zeta.
  assert (Hor : forall (P : Prop) b0, (wlawful_next b0 w = true -> P) ->
                (wlawful_next b0 w = true \/ false = true -> P)).
  { intros P b0 HP [Hl|Hf]; [auto|discriminate]. }
  destruct cd; cbn [produce].
  - (* byte stream *)
    unfold bytestream_produce.
    destruct src as [| c | c | s pcl | c r | m | c | c | | c r | c | | ]; cbn [src_bytes count_checked].
    + discriminate.
    + (* SBuffer *)
      unfold wrote. cbn [p_out p_got]. intros H. exists c. split; [reflexivity|]. intros _.
      destruct (buffer_write_to c w) as [w' e] eqn:Hb. cbn [fst snd] in *. injection H as ->.
      exact (buffer_write_to_success _ _ _ Hb).
    + intros H. exists c. split; [reflexivity|]. apply Hor. apply wrote_direct_success. exact H.
    + (* SReader: io.Copy *)
      destruct (io_copy bufm1 s w) as [w' e|] eqn:Hc; cbn [p_out p_got]; [|discriminate].
      intros H. injection H as ->. apply io_copy_success_exact in Hc. destruct Hc as (Hg & Ht).
      rewrite Ht. cbn [is_eof]. exists (script_bytes s). split; [reflexivity|]. intros _. exact Hg.
    + destruct r as [e|]; cbn [p_out]; [discriminate|].
      intros H. exists c. split; [reflexivity|]. apply Hor. apply wrote_direct_success. exact H.
    + intros H. exists m. split; [reflexivity|]. apply Hor. apply wrote_direct_success. exact H.
    + intros H. exists c. split; [reflexivity|]. apply Hor. apply wrote_direct_success. exact H.
    + intros H. exists c. split; [reflexivity|]. apply Hor. apply wrote_direct_success. exact H.
    + intros H. destruct (json_write_success _ _ _ _ H) as (Hj & Hg). exists (fst jo). split; [exact Hj|]. apply Hor. exact Hg.
    + intros H. destruct (json_write_success _ _ _ _ H) as (Hj & Hg). exists (fst jo). split; [exact Hj|]. apply Hor. exact Hg.
    + intros H. destruct (json_write_success _ _ _ _ H) as (Hj & Hg). exists (fst jo). split; [exact Hj|]. apply Hor. exact Hg.
    + discriminate.
    + discriminate.
  - (* text *)
    unfold text_produce.
    destruct src as [| c | c | s pcl | c r | m | c | c | | c r | c | | ]; cbn [src_bytes count_checked].
    + discriminate.
    + intros H. exists c. split; [reflexivity|]. apply Hor. apply wrote_direct_success. exact H.
    + intros H. destruct (json_write_success _ _ _ _ H) as (Hj & Hg). exists (fst jo). split; [exact Hj|]. apply Hor. exact Hg.
    + intros H. destruct (json_write_success _ _ _ _ H) as (Hj & Hg). exists (fst jo). split; [exact Hj|]. apply Hor. exact Hg.
    + intros H. destruct (json_write_success _ _ _ _ H) as (Hj & Hg). exists (fst jo). split; [exact Hj|]. apply Hor. exact Hg.
    + intros H. exists m. split; [reflexivity|]. apply Hor. apply wrote_direct_success. exact H.
    + intros H. destruct (json_write_success _ _ _ _ H) as (Hj & Hg). exists (fst jo). split; [exact Hj|]. apply Hor. exact Hg.
    + intros H. exists c. split; [reflexivity|]. apply Hor. apply wrote_direct_success. exact H.
    + intros H. destruct (json_write_success _ _ _ _ H) as (Hj & Hg). exists (fst jo). split; [exact Hj|]. apply Hor. exact Hg.
    + destruct r as [e|]; cbn [p_out]; [discriminate|].
      intros H. exists c. split; [reflexivity|]. apply Hor. apply wrote_direct_success. exact H.
    + intros H. exists c. split; [reflexivity|]. apply Hor. apply wrote_direct_success. exact H.
    + discriminate.
    + discriminate.
Qed.

(* an error the writer reports on the single Write of a codec is the error returned *)
Theorem direct_write_error_returned : forall p w a e rest g,
  w = mkW ((a, Some e) :: rest) g -> snd (direct_write p w) = Some e.
Proof. intros p w a e rest g ->. reflexivity. Qed.

(* whatever happens, the sink only ever receives a prefix of the source bytes of a payload reader *)
Theorem produce_reader_prefix : forall bufm1 close_opt w closable s pcl jo,
  exists q, p_got (bytestream_produce bufm1 close_opt (Some (w, closable)) (SReader s pcl) jo) = w_got w ++ q /\
            is_prefix q (script_bytes s).
Proof.
  intros bufm1 close_opt w closable s pcl jo. unfold bytestream_produce.
  destruct (io_copy bufm1 s w) as [w' e|] eqn:Hc; cbn [p_got].
  - exact (io_copy_prefix _ _ _ _ _ Hc).
  - exfalso. exact (io_copy_total _ _ _ Hc).
Qed.

(* ---------- C15_close_iff_option (producer side) ---------- *)
Lemma json_write_closes : forall jo w wc pc,
  p_wcloses (json_write jo w wc pc) = wc /\ p_pcloses (json_write jo w wc pc) = pc.
Proof. intros [b [e|]] w wc pc; split; reflexivity. Qed.

Theorem produce_closes : forall cd bufm1 close_opt wr src jo,
  let r := produce cd bufm1 close_opt wr src jo in
  p_wcloses r = match wr with Some (_, closable) => expected_closes cd close_opt closable | None => 0 end /\
  p_pcloses r = expected_pcloses cd src.
Proof.
  intros cd bufm1 close_opt wr src jo. cbv zeta.
  destruct cd; cbn [produce expected_closes expected_pcloses].
  - unfold bytestream_produce. destruct wr as [[w closable]|]; [|split; reflexivity].
    destruct src as [| c | c | s pcl | c r | m | c | c | | c r | c | | ];
      try (split; reflexivity); try apply json_write_closes.
    + destruct (io_copy bufm1 s w); split; reflexivity.
    + destruct r; split; reflexivity.
  - unfold text_produce. destruct wr as [[w closable]|]; [|split; reflexivity].
    destruct src as [| c | c | s pcl | c r | m | c | c | | c r | c | | ];
      try (split; reflexivity); try apply json_write_closes.
    destruct r; split; reflexivity.
Qed.

(* ---------- C15_total (producer side) ---------- *)
Lemma json_write_ret : forall jo w wc pc, exists e, p_out (json_write jo w wc pc) = ORet e.
Proof. intros [b [e|]] w wc pc; eexists; reflexivity. Qed.

Theorem produce_total : forall cd bufm1 close_opt wr src jo,
  exists e, p_out (produce cd bufm1 close_opt wr src jo) = ORet e.
Proof.
  intros cd bufm1 close_opt wr src jo. destruct cd; cbn [produce].
  - unfold bytestream_produce. destruct wr as [[w closable]|]; [|eexists; reflexivity].
    destruct src as [| c | c | s pcl | c r | m | c | c | | c r | c | | ];
      try (eexists; reflexivity); try apply json_write_ret.
    + destruct (io_copy bufm1 s w) eqn:Hc; [eexists; reflexivity|].
      exfalso. exact (io_copy_total _ _ _ Hc).
    + destruct r; eexists; reflexivity.
  - unfold text_produce. destruct wr as [[w closable]|]; [|eexists; reflexivity].
    destruct src as [| c | c | s pcl | c r | m | c | c | | c r | c | | ];
      try (eexists; reflexivity); try apply json_write_ret.
    destruct r; eexists; reflexivity.
Qed.

(* unsupported, nil and typed-nil sources and destinations are answered with an error *)
Theorem produce_unsupported_is_error : forall cd bufm1 close_opt wr src jo,
  src_bytes cd src jo = None ->
  exists e, p_out (produce cd bufm1 close_opt wr src jo) = ORet (Some e).
Proof.
  intros cd bufm1 close_opt wr src jo Hs.
  destruct (produce_total cd bufm1 close_opt wr src jo) as [[e|] He]; [eexists; exact He|].
  destruct wr as [[w closable]|].
  - destruct (produce_exact _ _ _ _ _ _ _ He) as (b & Hb & _). congruence.
  - destruct cd; cbn in He; discriminate.
Qed.

Theorem consume_unsupported_is_error : forall cd bufm1 pol close_opt l closable d,
  dk_supported cd d = false -> text_empty_exception cd (steps_bytes l) = false ->
  exists e, c_out (consume cd bufm1 pol close_opt (Some (Live l, closable)) d) = ORet (Some e).
Proof.
  intros cd bufm1 pol close_opt l closable d Hs Hex.
  destruct (consume_total cd bufm1 pol close_opt (Some (Live l, closable)) d) as [[e|] He]; [eexists; exact He|].
  destruct (consume_exact _ _ _ _ _ _ _ He Hex) as (_ & Hsup & _). congruence.
Qed.

(* ---------- the model satisfies the very predicates the correspondence run evaluates ---------- *)
Lemma opt_bytes_eqb_refl : forall o, opt_bytes_eqb o o = true.
Proof. destruct o; cbn; [apply bytes_eqb_refl|reflexivity]. Qed.

(* consume_ok (StreamCodecsSpec) holds of the model's observable for every input, except in the
   situation of F-C15-2: text codec, empty input, supported destination that already holds something *)
Theorem consume_meets_predicate : forall cd bufm1 pol close_opt rd d e,
  let r := consume cd bufm1 pol close_opt (live rd) d in
  c_out r = ORet e ->
  (match rd with
   | Some (l, _) => text_empty_exception cd (steps_bytes l) && dk_supported cd d && dk_prepopulated d
   | None => false
   end) = false ->
  consume_ok cd close_opt rd d false e (c_stored r) (c_closes r) = true.
Proof.
  intros cd bufm1 pol close_opt rd d e. cbv zeta. intros He Hx.
  unfold consume_ok. cbn [negb andb].
  destruct rd as [[l closable]|]; cbn [live] in *.
  2:{ rewrite consume_nil_reader in *. cbn [c_out c_closes] in *. injection He as <-. reflexivity. }
  rewrite consume_closes, Nat.eqb_refl. cbn [andb].
  destruct e as [e|]; [reflexivity|].
  destruct (text_empty_exception cd (steps_bytes l)) eqn:Hex.
  - (* the text consumer on an empty input *)
    unfold text_empty_exception in Hex. apply andb_prop in Hex. destruct Hex as (Hcd & Hb).
    destruct cd; [discriminate|]. cbn [consume] in *.
    destruct (steps_bytes l) as [|b0 br] eqn:Hsb; [|discriminate].
    rewrite text_consume_eq in *. cbn [script_term script_bytes] in *. rewrite Hsb in *.
    destruct (term_error (steps_term l)) eqn:Ht; cbn [c_out c_stored] in *; [discriminate|].
    apply term_error_none in Ht. rewrite Ht. cbn [is_eof andb]. cbn [andb] in Hx.
    destruct (dk_supported Text d) eqn:Hs; cbn [andb] in Hx.
    + rewrite app_nil_r.
      destruct d as [| pre | w | pre r | pre r | h | pre | pre | | | | | | ]; cbn in Hs; try discriminate;
        cbn in Hx |- *; destruct pre; try discriminate; reflexivity.
    + apply opt_bytes_eqb_refl.
  - destruct (consume_exact _ _ _ _ _ _ _ He Hex) as (Ht & Hs & Hst).
    rewrite Ht, Hs, Hst. cbn [is_eof andb]. apply opt_bytes_eqb_refl.
Qed.

(* produce_ok holds of the model's observable for every input *)
Theorem produce_meets_predicate : forall cd bufm1 close_opt wr src jo e,
  let r := produce cd bufm1 close_opt wr src jo in
  p_out r = ORet e ->
  produce_ok cd close_opt wr src jo false e (p_got r) (p_wcloses r) (p_pcloses r) = true.
Proof.
  intros cd bufm1 close_opt wr src jo e. cbv zeta. intros He.
  unfold produce_ok. cbn [negb andb].
  destruct (produce_closes cd bufm1 close_opt wr src jo) as (Hw & Hp). rewrite Hw, Hp, Nat.eqb_refl. cbn [andb].
  destruct wr as [[w closable]|].
  2:{ destruct cd; cbn in He; injection He as <-; reflexivity. }
  rewrite Nat.eqb_refl. cbn [andb].
  destruct e as [e|]; [reflexivity|].
  destruct (produce_exact _ _ _ _ _ _ _ He) as (b & Hb & Hg). rewrite Hb.
  destruct (wlawful_next b w) eqn:Hl.
  - rewrite Hg by (left; reflexivity). rewrite bytes_eqb_refl. reflexivity.
  - apply orb_true_r.
Qed.

(* ---------- the two-sided statements of Properties_C15 ---------- *)
Theorem codecs_close_iff_option :
  (forall cd bufm1 pol close_opt s closable d,
     c_closes (consume cd bufm1 pol close_opt (Some (s, closable)) d) = expected_closes cd close_opt closable) /\
  (forall cd bufm1 close_opt wr src jo,
     let r := produce cd bufm1 close_opt wr src jo in
     p_wcloses r = match wr with Some (_, closable) => expected_closes cd close_opt closable | None => 0 end /\
     p_pcloses r = expected_pcloses cd src).
Proof. split; [exact consume_closes|exact produce_closes]. Qed.

Theorem codecs_total :
  (forall cd bufm1 pol close_opt rd d, exists e, c_out (consume cd bufm1 pol close_opt rd d) = ORet e) /\
  (forall cd bufm1 close_opt wr src jo, exists e, p_out (produce cd bufm1 close_opt wr src jo) = ORet e).
Proof. split; [exact consume_total|exact produce_total]. Qed.

(* ---------- number slots of the JSON / XML / YAML round trip ---------- *)

Lemma leaves_preserved_iff : forall want got, leaves_preserved want got = true <-> want = got.
Proof.
  unfold leaves_preserved.
  induction want as [|w want IH]; intros [|g got]; cbn [list_eqb]; split; intro H; try congruence.
  - apply andb_true_iff in H. destruct H as [Hh Ht].
    apply bytes_eqb_eq in Hh. apply IH in Ht. now subst.
  - inversion H; subst. apply andb_true_iff. split; [apply bytes_eqb_refl|now apply IH].
Qed.

Lemma number_slots_ok_exact : forall panicked failed want got,
  number_slots_ok panicked failed want got = true <->
  panicked = false /\ failed = false /\ want <> [] /\ got = want.
Proof.
  intros panicked failed want got. unfold number_slots_ok.
  rewrite !andb_true_iff, !negb_true_iff, leaves_preserved_iff.
  split.
  - intros [[[Hp Hf] Hn] He]. subst got. repeat split; try assumption.
    intro E. subst want. discriminate Hn.
  - intros [Hp [Hf [Hn He]]]. subst got. repeat split; try assumption.
    destruct want; [congruence|reflexivity].
Qed.

(* ---------- documents with drawn names: the predicate is the one of the number slots ---------- *)
Lemma doc_leaves_ok_exact : forall panicked failed want got,
  doc_leaves_ok panicked failed want got = true <->
  panicked = false /\ failed = false /\ want <> [] /\ got = want.
Proof. intros. unfold doc_leaves_ok. apply number_slots_ok_exact. Qed.

(* ---------- histories ---------- *)
(* what the predicate of a JSON / XML / YAML Produce inside a history accepts *)
Lemma doc_produce_ok_exact : forall wfail pre full panicked e got want back,
  doc_produce_ok wfail pre full panicked e got want back = true <->
  panicked = false /\
  match e with
  | None => wfail = false /\ got = pre ++ full /\ want <> [] /\ back = want
  | Some _ => wfail = true /\ exists r, pre ++ full = got ++ r
  end.
Proof.
  intros wfail pre full panicked e got want back. unfold doc_produce_ok.
  rewrite andb_true_iff, negb_true_iff.
  destruct e as [e|].
  - rewrite andb_true_iff, has_prefix_spec. tauto.
  - rewrite !andb_true_iff, !negb_true_iff, leaves_preserved_iff. split.
    + intros (Hp & ((Hw & Hg) & Hn) & Hl). apply bytes_eqb_eq in Hg. subst back.
      repeat split; try assumption. intro E. subst want. discriminate Hn.
    + intros (Hp & Hw & Hg & Hn & Hl). subst got back. repeat split; try assumption.
      * apply bytes_eqb_refl.
      * destruct want; [congruence|reflexivity].
Qed.

Lemma doc_consume_ok_exact : forall rfail panicked e want got,
  doc_consume_ok rfail panicked e want got = true <->
  panicked = false /\
  match e with
  | None => rfail = false /\ want <> [] /\ got = want
  | Some _ => rfail = true
  end.
Proof.
  intros rfail panicked e want got. unfold doc_consume_ok.
  rewrite andb_true_iff, negb_true_iff.
  destruct e as [e|]; [tauto|].
  rewrite !andb_true_iff, !negb_true_iff, leaves_preserved_iff. split.
  - intros (Hp & (Hr & Hn) & Hl). subst got. repeat split; try assumption.
    intro E. subst want. discriminate Hn.
  - intros (Hp & Hr & Hn & Hl). subst got. repeat split; try assumption.
    destruct want; [congruence|reflexivity].
Qed.

(* A history on one consumer value: as many answers as calls, the k-th answer is the answer of the
   k-th call alone (whatever came before it), and every answer satisfies the single-call predicate *)
Lemma consume_history_pointwise : forall cd bufm1 pol close_opt l,
  length (consume_history cd bufm1 pol close_opt l) = length l /\
  (forall k x, nth_error l k = Some x ->
     nth_error (consume_history cd bufm1 pol close_opt l) k =
       Some (consume cd bufm1 pol close_opt (live (fst x)) (snd x))) /\
  (forall k x e, nth_error l k = Some x ->
     let r := consume cd bufm1 pol close_opt (live (fst x)) (snd x) in
     c_out r = ORet e -> call_excepted cd x = false ->
     consume_ok cd close_opt (fst x) (snd x) false e (c_stored r) (c_closes r) = true).
Proof.
  intros cd bufm1 pol close_opt l. unfold consume_history. split; [apply map_length|]. split.
  - intros k x Hk. rewrite nth_error_map, Hk. reflexivity.
  - cbv zeta. intros k x e _ He Hx. apply consume_meets_predicate; [exact He|].
    unfold call_excepted in Hx. destruct (fst x) as [[s c]|]; exact Hx.
Qed.

Lemma produce_history_pointwise : forall cd bufm1 close_opt l,
  length (produce_history cd bufm1 close_opt l) = length l /\
  (forall k x, nth_error l k = Some x ->
     nth_error (produce_history cd bufm1 close_opt l) k =
       Some (produce cd bufm1 close_opt (fst (fst x)) (snd (fst x)) (snd x))) /\
  (forall k x e, nth_error l k = Some x ->
     let r := produce cd bufm1 close_opt (fst (fst x)) (snd (fst x)) (snd x) in
     p_out r = ORet e ->
     produce_ok cd close_opt (fst (fst x)) (snd (fst x)) (snd x) false e (p_got r) (p_wcloses r) (p_pcloses r) = true).
Proof.
  intros cd bufm1 close_opt l. unfold produce_history. split; [apply map_length|]. split.
  - intros k x Hk. rewrite nth_error_map, Hk. reflexivity.
  - cbv zeta. intros k x e _ He. apply produce_meets_predicate. exact He.
Qed.
