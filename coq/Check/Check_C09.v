(* Check_C09.v — case format and verdicts for the C09 correspondence run. *)
From V Require Export Bytes CaseLib ReqState ReqStateSpec.

Inductive case :=
| CSeq (st : static) (ops : list op) (panicked : bool) (steps : list (res * bool))
       (lookups authn authz binds : nat) (own_ok : bool)
| CMulti (sts : list static) (sched : list (nat * op)) (panicked : bool)
         (steps : list (list (res * bool))) (own_ok : bool)
| CConc (n : nat) (panicked : bool) (all_own : bool).

Definition check_case (c : case) : N :=
  match c with
  | CSeq st ops panicked steps lookups authn authz binds own_ok =>
    let s := run st ops state0 in
    let corr :=
      negb panicked &&
      list_eqb step_eqb (trace st ops state0) steps &&
      Nat.eqb (n_lookup (s_cnt s)) lookups && Nat.eqb (n_authn (s_cnt s)) authn &&
      Nat.eqb (n_authz (s_cnt s)) authz &&
      (* the consumer runs inside the binder: at most once per bind, never without one *)
      (binds <=? n_bind (s_cnt s)) in
    verdict (corr && own_ok) (negb panicked && own_ok && memo_ok ops steps lookups authn binds)
  | CMulti sts sched panicked steps own_ok =>
    (* every request behaves as if its calls had run alone (C09_noninterference), and only ever sees its own values *)
    let per_request :=
      map (fun i => match nth_error sts i, nth_error steps i with
                    | Some st, Some obs_i =>
                      (list_eqb step_eqb (trace st (ops_of i sched) state0) obs_i,
                       Nat.eqb (length (ops_of i sched)) (length obs_i) && reuse_ok (combine (ops_of i sched) obs_i))
                    | _, _ => (false, false)
                    end) (seq 0 (length sts)) in
    verdict (negb panicked && own_ok && forallb fst per_request)
            (negb panicked && own_ok && forallb snd per_request)
  | CConc n panicked all_own => verdict (negb panicked && all_own) (negb panicked && all_own)
  end.
