(* Check_C09.v — case format and verdicts for the C09 correspondence run. *)
From V Require Export Bytes CaseLib ReqState ReqStateSpec.

Inductive case :=
| CSeq (st : static) (ops : list op) (panicked : bool) (steps : list (res * bool))
       (lookups authn authz binds : nat)
| CConc (n : nat) (panicked : bool) (all_own : bool).

Definition check_case (c : case) : N :=
  match c with
  | CSeq st ops panicked steps lookups authn authz binds =>
    let s := run st ops state0 in
    let corr :=
      negb panicked &&
      list_eqb step_eqb (trace st ops state0) steps &&
      Nat.eqb (n_lookup (s_cnt s)) lookups && Nat.eqb (n_authn (s_cnt s)) authn &&
      Nat.eqb (n_authz (s_cnt s)) authz &&
      (* the consumer runs inside the binder: at most once per bind, never without one *)
      (binds <=? n_bind (s_cnt s)) in
    verdict corr (negb panicked && memo_ok ops steps lookups authn binds)
  | CConc n panicked all_own => verdict (negb panicked && all_own) (negb panicked && all_own)
  end.
