(* Check_C13.v — case format and per-case verdicts for the C13 correspondence run. *)
From V Require Export CaseLib ClientRespSpec.

Record robs := mkrobs {
  o_panicked : bool;
  o_outcome : nat;             (* 0 the reader ran; 1 parse error; 2 no-consumer error; 3 any other error *)
  o_tag : nat;                 (* tag of the consumer handed to the reader *)
  o_code : nat;
  o_status : bytes;
  o_body : bytes;              (* what the reader read from Body() *)
  o_msg : bytes;               (* the error text *)
  o_client : nat;              (* whose http client carried the request: 0 operation, 1 transport *)
  o_ctx : nat;                 (* whose context reached the round tripper: 0 operation, 1 transport, 2 neither *)
  o_returned : bool            (* Submit returned exactly what the reader returned *)
}.

(* one call of a sequence on one runtime; the reader keeps the response it was handed *)
Record seq_call := mkseq {
  s_parsed : option bytes;                     (* mime.ParseMediaType of the effective content type *)
  s_resp : response;                           (* what the server sent *)
  s_outcome : nat;                             (* 0 the reader ran, 1 parse error, 2 no consumer, 3 other *)
  s_tag : nat;
  s_first : nat * bytes * bytes * bytes;       (* code, status, X-Token, Content-Type as seen inside the reader *)
  s_later : nat * bytes * bytes * bytes        (* the same questions asked of the kept response after later calls *)
}.

Inductive case :=
| CResp (reg : registry) (default_mt : bytes)
        (parsed : option bytes)                 (* mime.ParseMediaType of the effective content type *)
        (quoted_header quoted_default : bytes)  (* strconv.Quote of the header value / of the default *)
        (r : response)
        (queries : list (bytes * bytes * list bytes))   (* canonical key, GetHeader answer, GetHeaders answer *)
        (op_client op_ctx rt_ctx : bool)
        (o : robs)
| CConc (goroutines calls : nat) (mismatches errors : nat)
        (stale : nat)                           (* kept responses that no longer answer for their own call when asked again later *)
| CRoute (op : option client_cfg) (rt : client_cfg) (slow : bool) (op_ctx rt_ctx : bool)
         (panicked : bool)
         (t : call_trace)                       (* what the stubs, jars and redirect policies recorded, and how the call ended *)
         (ctx : nat)                            (* whose context reached the round tripper *)
| CSeq (reg : registry) (default_mt : bytes) (calls : list seq_call)
| CCtx (op rt : option ctx_cfg)                 (* the operation's and the runtime's context: absent, or with deadline rank / cancelled beforehand *)
       (timeout : nat)                          (* the request timeout as a deadline rank; 0 none *)
       (action : nat)                           (* cancelled while the round tripper holds the request: 0 nothing, 1 the operation context, 2 the runtime context *)
       (panicked : bool)
       (s : ctx_seen).                          (* whose value and which deadline the round tripper saw, whether the request context ended, whether Submit failed *)

Definition origin_code (o : origin) : nat :=
  match o with FromOperation => 0 | FromTransport => 1 | Background => 2 end.

Definition header_ct (r : response) : option bytes :=
  match header_values (r_headers r) [67;111;110;116;101;110;116;45;84;121;112;101] with [] => None | v :: _ => Some v end.

Definition query_ok (r : response) (q : bytes * bytes * list bytes) : bool :=
  let '(k, one, all) := q in
  bytes_eqb (get_header r k) one && list_eqb bytes_eqb (get_headers r k) all.

Definition seq_corr (reg : registry) (d : bytes) (c : seq_call) : bool :=
  match submit_response reg d (s_parsed c) (s_resp c) with
  | Delivered tag _ _ _ =>
    Nat.eqb (s_outcome c) 0 && Nat.eqb (s_tag c) tag &&
    view_eqb (s_first c) (retained_view (s_resp c)) && view_eqb (s_later c) (retained_view (s_resp c))
  | Failed (ErrParse _) => Nat.eqb (s_outcome c) 1
  | Failed (ErrNoConsumer _) => Nat.eqb (s_outcome c) 2
  | Failed (UseConsumer _) => false
  end.

(* the property on the implementation's answers: the right consumer; what the reader sees is what was sent, and
   stays so for a kept response whatever calls follow *)
Definition sent_view (r : response) : nat * bytes * bytes * bytes :=
  (r_code r, r_status r, hd [] (header_values (r_headers r) x_token), hd [] (header_values (r_headers r) content_type)).

Definition seq_prop (reg : registry) (c : seq_call) : bool :=
  if Nat.eqb (s_outcome c) 0 then
    match s_parsed c with Some mt => right_consumer reg mt (s_tag c) | None => false end &&
    view_eqb (s_first c) (sent_view (s_resp c)) && view_eqb (s_later c) (sent_view (s_resp c))
  else negb (match s_parsed c with Some mt => servable reg mt | None => false end).

Definition check_case (c : case) : N :=
  match c with
  | CResp reg d parsed qh qd r queries op_client op_ctx rt_ctx o =>
    let ct := effective_ct d (header_ct r) in
    let quoted := match header_ct r with Some (_ :: _) => qh | _ => qd end in
    let routing :=
      Nat.eqb (o_client o) (origin_code (choose_client op_client)) &&
      Nat.eqb (o_ctx o) (origin_code (choose_context op_ctx rt_ctx)) in
    let corr :=
      negb (o_panicked o) && routing &&
      match submit_response reg d parsed r with
      | Delivered tag code st body =>
        Nat.eqb (o_outcome o) 0 && Nat.eqb (o_tag o) tag && Nat.eqb (o_code o) code &&
        bytes_eqb (o_status o) st && bytes_eqb (o_body o) body && forallb (query_ok r) queries && o_returned o
      | Failed (ErrParse _) => Nat.eqb (o_outcome o) 1 && is_infix quoted (o_msg o)
      | Failed (ErrNoConsumer _) => Nat.eqb (o_outcome o) 2 && is_infix quoted (o_msg o)
      | Failed (UseConsumer _) => false
      end in
    let prop :=
      negb (o_panicked o) && routing &&
      if Nat.eqb (o_outcome o) 0 then
        (* the right consumer, and the response unchanged *)
        match parsed with Some mt => right_consumer reg mt (o_tag o) | None => false end &&
        Nat.eqb (o_code o) (r_code r) && bytes_eqb (o_status o) (r_status r) && bytes_eqb (o_body o) (r_body r) &&
        forallb (query_ok r) queries && o_returned o
      else
        (* a failure: only when no consumer can be chosen, and it names the content type *)
        negb (match parsed with Some mt => servable reg mt | None => false end) && is_infix quoted (o_msg o)
    in verdict corr prop
  | CConc g k mismatches errors stale =>
    verdict true (Nat.eqb mismatches 0 && Nat.eqb errors 0 && Nat.eqb stale 0)
  | CRoute op rt slow op_ctx rt_ctx panicked t ctx =>
    let ctx_ok := Nat.eqb ctx (origin_code (choose_context op_ctx rt_ctx)) in
    verdict (negb panicked && ctx_ok && trace_eqb t (route_call op rt slow))
            (negb panicked && ctx_ok && right_client op rt slow t)
  | CSeq reg d calls =>
    verdict (forallb (seq_corr reg d) calls) (forallb (seq_prop reg) calls)
  | CCtx op rt timeout action panicked s =>
    verdict (negb panicked && seen_eqb s (submit_context op rt timeout action))
            (negb panicked && right_context op rt timeout action s)
  end.
