(* Check_C16.v — case format and per-case verdicts for the C16 correspondence run. *)
From V Require Export CaseLib Bytes CSVGlue CSVSpec.
From Coq Require Import ZArith Bool.

Definition ropts_eqb (a b : ropts) : bool :=
  Nat.eqb (r_comma a) (r_comma b) && Nat.eqb (r_comment a) (r_comment b) && Z.eqb (r_fpr a) (r_fpr b) &&
  Bool.eqb (r_lazy a) (r_lazy b) && Bool.eqb (r_trim a) (r_trim b) && Bool.eqb (r_reuse a) (r_reuse b).
Definition wopts_eqb (a b : wopts) : bool :=
  Nat.eqb (w_comma a) (w_comma b) && Bool.eqb (w_crlf a) (w_crlf b).

(* the oracle answers recorded by the harness: the real csv.Reader / csv.Writer on exactly these queries *)
Definition ptab := list (ropts * bytes * presult).
Definition rtab := list (wopts * list record * bytes).

(* a query the harness did not record is answered by a value no run produces, so that it shows as a difference *)
Definition miss : bytes := [255; 0; 255; 0].

Definition tab_parse (t : ptab) (ro : ropts) (text : bytes) : presult :=
  match find (fun e => ropts_eqb (fst (fst e)) ro && bytes_eqb (snd (fst e)) text) t with
  | Some e => snd e
  | None => mkP [] (Some miss)
  end.
Definition tab_render (t : rtab) (wo : wopts) (recs : list record) : bytes :=
  match find (fun e => wopts_eqb (fst (fst e)) wo && records_eqb (snd (fst e)) recs) t with
  | Some e => snd e
  | None => miss
  end.

Inductive case :=
| CCons (o : opts) (d : dest) (text : bytes) (pt : ptab) (rt : rtab)
        (obs : outcome) (untouched : bool) (rep : reparse)
| CProd (o : opts) (s : source) (pt : ptab) (rt : rtab) (obs : outcome) (rep : reparse)
| CPair (a b : case)
(* ONE consumer value and ONE producer value, built once with the options every call of the list carries, used for all
   the calls. imm = every call as observed right after it returned; fin = the same calls with every destination
   (record table, *[]byte, *string, sinks) re-read after the LAST call of the history returned *)
| CHist (imm fin : list case).

Fixpoint check_case (c : case) : N :=
  match c with
  | CCons o d text pt rt obs untouched rep =>
    let parse := tab_parse pt in
    let render := tab_render rt in
    verdict (outcome_eqb (consume parse render o d text) obs)
            (consume_ok parse render o d text obs untouched rep)
  | CProd o s pt rt obs rep =>
    let parse := tab_parse pt in
    let render := tab_render rt in
    verdict (outcome_eqb (produce parse render o s) obs)
            (produce_ok parse render o s obs rep)
  | CPair a b => N.lor (check_case a) (check_case b)
  | CHist imm fin =>
    N.lor ((fix go (l : list case) : N := match l with [] => 0%N | a :: r => N.lor (check_case a) (go r) end) imm)
          ((fix go (l : list case) : N := match l with [] => 0%N | a :: r => N.lor (check_case a) (go r) end) fin)
  end.
