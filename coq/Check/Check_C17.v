(* Check_C17.v — case format and per-case verdicts for the C17 correspondence run. *)
From V Require Export CaseLib PeekSpec.

Definition out_eqb (a b : out) : bool :=
  match a, b with
  | OHas x, OHas y => Bool.eqb x y
  | ORead c e, ORead d f => bytes_eqb c d && opt_eqb err_eqb e f
  | OClose e, OClose f => opt_eqb err_eqb e f
  | ONoBody, ONoBody => true
  | OPanic, OPanic => true
  | _, _ => false
  end.

(* one history on one request: configuration, the script of the underlying stream, the calls,
   the outputs observed on the real code, the number of Close calls the stream received *)
Inductive case :=
| CHist (cl : Z) (hdr : bool) (nilbody : bool) (cerr : option err) (steps : list rstep)
        (ops : list op) (outs : list out) (closes : nat)
(* the same, the body being a value of the standard library (the http.NoBody sentinel, a NopCloser over a bytes or
   strings reader) that stands for the script steps: its Close returns nil and the Close calls it receives cannot be
   counted, so the count is not an observable of these cases (the count the calls themselves demand is used) *)
| CHistU (cl : Z) (hdr : bool) (nilbody : bool) (steps : list rstep) (ops : list op) (outs : list out)
(* two requests with their own scripted streams, the calls interleaved (each tagged with its request: false the
   first, true the second), the outputs in the order of the calls, the Close calls each stream received *)
| CPair (cA : cfg) (stepsA : list rstep) (cB : cfg) (stepsB : list rstep)
        (ops : list op2) (outs : list out) (closesA closesB : nat).

Definition check_case (x : case) : N :=
  match x with
  | CHist cl hdr nilbody cerr steps ops outs closes =>
    let c := mkCfg cl hdr nilbody cerr in
    let '(mouts, s') := run c ops (init c steps) in
    verdict (list_eqb out_eqb mouts outs && Nat.eqb (s_closes s') closes)
            (no_panic outs && history_strict_ok c steps ops outs closes)
  | CHistU cl hdr nilbody steps ops outs =>
    let c := mkCfg cl hdr nilbody None in
    let '(mouts, _) := run c ops (init c steps) in
    verdict (list_eqb out_eqb mouts outs)
            (no_panic outs && history_strict_ok c steps ops outs (closes_expected c false false 0 ops))
  | CPair cA stepsA cB stepsB ops outs closesA closesB =>
    let '(mouts, (sA', sB')) := run2 cA cB ops (init cA stepsA) (init cB stepsB) in
    verdict (list_eqb out_eqb mouts outs && Nat.eqb (s_closes sA') closesA && Nat.eqb (s_closes sB') closesB)
            (no_panic outs && pair_strict_ok cA stepsA cB stepsB ops outs closesA closesB)
  end.
