(* Check_C01.v — case format and per-case verdicts for the C01 correspondence run. *)
From V Require Export CaseLib Bytes DencoSpec DencoTrie PathCleanLib PathUnescapeLib SpecRouter SpecRouterSpec.

(* what Router.Lookup answered: PathPattern, operation, Params in order *)
Inductive lobs := OFound (pat : bytes) (op : nat) (ps : list (bytes * bytes)) | ONone | OPanic.

(* one request against one router: method, URL.EscapedPath as net/http delivered it, the answer of
   Router.Lookup, the answer of Router.OtherMethods, and what the served handler did *)
Definition reqobs := (bytes * (bytes * (lobs * (list bytes * pobs))))%type.

Inductive case :=
(* one API description (base path, operations = method and template, numbered in order) and
   several requests *)
| CSpec (base : bytes) (ops : list (bytes * bytes)) (reqs : list reqobs)
| CClean (p out : bytes)
| CJoin (a b out : bytes)
| CUnesc (s : bytes) (out : option bytes).

Fixpoint mk_routes (i : nat) (ops : list (bytes * bytes)) : list route :=
  match ops with
  | [] => []
  | (m, t) :: r => mkRoute m t i :: mk_routes (S i) r
  end.

Definition params_eqb (a b : list (bytes * bytes)) : bool := list_eqb pair_eqb a b.
Definition params_seteq (a b : list (bytes * bytes)) : bool :=
  Nat.eqb (length a) (length b) && set_eqb pair_eqb a b.
Definition has_empty_value (ps : list (bytes * bytes)) : bool := existsb (fun p => is_empty (snd p)) ps.

Definition lookup_corr (o : lobs) (r : lkres) : bool :=
  match o, r with
  | OFound pat op ps, LFound pat' op' _ ps' => bytes_eqb pat pat' && Nat.eqb op op' && params_eqb ps ps'
  | ONone, LNone => true
  | OPanic, LPanic => true
  | _, _ => false
  end.

(* the served handler against the model of NewRouter. The binder, which refuses an empty value of a
   required path parameter with 422 before the operation handler is reached, is not part of this
   model: that answer is accepted exactly when the model binds an empty value. *)
Definition serve_corr (o : pobs) (r : outcome) : bool :=
  match o, r with
  | PRan h ps, Run h' ps' => Nat.eqb h h' && params_seteq ps ps' && negb (has_empty_value ps')
  | PStatus code allow, Run _ ps' => Nat.eqb code 422 && has_empty_value ps'
  | PStatus code allow, R405 a => Nat.eqb code 405 && set_eqb bytes_eqb allow a
  | PStatus code allow, R404 => Nat.eqb code 404 && match allow with [] => true | _ => false end
  | PPanicked, RPanic => true
  | PNotServed, _ => true
  | _, _ => false
  end.

Definition tables_wf (base : bytes) (routes : list route) : bool :=
  forallb (fun m => wf_patset (table base routes routes m)) (methods base routes).

Definition req_corr (base : bytes) (routes : list route) (q : reqobs) : bool :=
  let '(m, (p, (lo, (others, po)))) := q in
  lookup_corr lo (lookup base routes m p)
  && set_eqb bytes_eqb others (other_methods base routes m p)
  && serve_corr po (serve base routes m p).

Definition lobs_no_panic (o : lobs) : bool := match o with OPanic => false | _ => true end.
Definition pobs_no_panic (o : pobs) : bool := match o with PPanicked => false | _ => true end.

(* the property on one request: both the router answer and the served answer are the expected ones *)
Definition req_prop (base : bytes) (routes : list route) (q : reqobs) : bool :=
  let '(m, (p, (lo, (others, po)))) := q in
  spec_ok base routes m p po
  && match lo with
     | OFound _ op ps => spec_ok base routes m p (PRan op ps)
     | ONone => match candidates base routes (upper m) p with [] => true | _ => false end
     | OPanic => false
     end
  && set_eqb bytes_eqb others
       (filter (fun k => negb (bytes_eqb k (upper m))) (fitting_methods base routes p)).

Definition req_no_panic (q : reqobs) : bool :=
  let '(m, (p, (lo, (others, po)))) := q in lobs_no_panic lo && pobs_no_panic po.

Definition check_case (c : case) : N :=
  match c with
  | CSpec base ops reqs =>
    let routes := mk_routes 0 ops in
    if tables_wf base routes then
      verdict (forallb (req_corr base routes) reqs)
              (forallb req_no_panic reqs
               && (if spec_domain base routes then forallb (req_prop base routes) reqs else true))
    else
      (* two templates of one denco shape under one method, or a key Build rejects: Build errors are
         dropped by the router builder and the table content is unspecified; only the panic clause *)
      verdict true (forallb req_no_panic reqs)
  | CClean p out => verdict (bytes_eqb (clean p) out) (bytes_eqb (clean out) out)
  | CJoin a b out => verdict (bytes_eqb (path_join a b) out) true
  | CUnesc s out => verdict (opt_eqb bytes_eqb (path_unescape s) out) true
  end.
