(* Check_C04.v — case format and verdicts for the C04 correspondence run: what the caller set is what the
   handler got, and what the handler answered is what the caller's reader saw. The expected observable is
   the identity on the guarded domain (path values non-empty and not dot segments; the generator stays inside it),
   so correspondence and property predicate coincide here; the theorems in Props/Properties_C04.v say why. *)
From V Require Export Bytes CaseLib HeaderWire MultipartWire.

Definition kv_eqb (a b : bytes * list bytes) : bool :=
  bytes_eqb (fst a) (fst b) && list_eqb bytes_eqb (snd a) (snd b).

Inductive case :=
| CRound (panicked submit_failed ran : bool)
         (supplied received : list (bytes * list bytes))     (* sorted by parameter name *)
         (auth_ok : bool)
         (resp_sent : bytes * bytes) (seen_code : nat) (resp_seen : bytes * bytes)
         (in_guard : bool)
(* successive calls against ONE server whose templates overlap (prefix/{p1} and prefix/{p1}/{p2}): each call must reach
   its own operation with its own values, whatever was called before *)
| CRoundSeq (panicked : bool) (steps : list (bool * bool * list (bytes * list bytes) * list (bytes * list bytes)))
(* calls submitted at the same time, each against its own server (uploads in flight together): per call
   (failed, handler ran + credential + response intact, supplied, received); large files appear as digest + length *)
(* one header parameter: declared name, the value the caller set, the line found on the wire for it and the line after
   it, whether the call failed, whether the handler ran, the value the handler got (empty when absent) *)
| CHdrWire (name v rawline nextline : bytes) (failed ran : bool) (received : bytes)
| CRoundPar (calls : list (bool * bool * list (bytes * list bytes) * list (bytes * list bytes)))
(* one multipart request (form field f1, file up): the boundary parameter and the body as the server got them, the
   header texts by which the two parts are recognised, the two contents the caller supplied, whether the call failed,
   whether the handler ran, the two contents the handler got (empty when absent) *)
| CMultipart (boundary doc key_f1 key_up sup_f1 sup_file : bytes) (failed ran : bool) (recv_f1 recv_file : bytes)
(* the real multipart.Reader on a document the real multipart.Writer rendered from the supplied parts with the given
   boundary and that was then possibly damaged: the contents of the parts it returned, None = it reported an error *)
| CMpRead (panicked : bool) (boundary doc : bytes) (damaged : bool) (supplied : list (bytes * bytes))
          (real : option (list bytes)).

Definition check_case (c : case) : N :=
  match c with
  | CRound panicked submit_failed ran supplied received auth_ok resp_sent seen_code resp_seen in_guard =>
    let ok :=
      negb panicked && negb submit_failed && ran &&
      list_eqb kv_eqb supplied received && auth_ok &&
      Nat.eqb seen_code 201 &&
      bytes_eqb (fst resp_sent) (fst resp_seen) && bytes_eqb (snd resp_sent) (snd resp_seen) in
    if in_guard then verdict ok ok else 0%N
  | CRoundSeq panicked steps =>
    let ok := negb panicked &&
              forallb (fun st => match st with (failed, right_op, supplied, received) =>
                                   negb failed && right_op && list_eqb kv_eqb supplied received end) steps in
    verdict ok ok
  | CHdrWire name v rawline nextline failed ran received =>
    let k := canonical_name name in
    let corr :=
      bytes_eqb (hdr_write k v) rawline &&
      match read_header (rawline ++ nextline) with
      | HdrField key value rest =>
        bytes_eqb key k && bytes_eqb rest nextline && negb failed && ran && bytes_eqb value received
      | _ => failed && negb ran          (* the server refuses the request as malformed *)
      end in
    let prop := if hdr_name_ok name && hdr_value_ok v
                then negb failed && ran && bytes_eqb received v else true in
    verdict corr prop
  | CRoundPar calls =>
    let ok := forallb (fun st => match st with (failed, rest_ok, supplied, received) =>
                                   negb failed && rest_ok && list_eqb kv_eqb supplied received end) calls in
    verdict ok ok
  | CMultipart boundary doc key_f1 key_up sup_f1 sup_file failed ran recv_f1 recv_file =>
    let corr :=
      match mp_parse (length doc) boundary doc with
      | Some parts =>
        bytes_eqb doc (mp_render boundary parts) &&                         (* the writer side *)
        Nat.eqb (length parts) 2 && negb failed && ran &&
        opt_eqb bytes_eqb (part_content key_f1 parts) (Some recv_f1) &&     (* the reader side *)
        opt_eqb bytes_eqb (part_content key_up parts) (Some recv_file)
      | None => failed && negb ran
      end in
    let prop := if boundary_ok boundary && no_live_delim boundary sup_f1 && no_live_delim boundary sup_file
                then negb failed && ran && bytes_eqb recv_f1 sup_f1 && bytes_eqb recv_file sup_file else true in
    verdict corr prop
  | CMpRead panicked boundary doc damaged supplied real =>
    let corr :=
      negb panicked &&
      opt_eqb (list_eqb bytes_eqb) (option_map (map snd) (mp_parse (length doc) boundary doc)) real &&
      (damaged || bytes_eqb doc (mp_render boundary supplied)) in
    let prop := if negb damaged && boundary_ok boundary && forallb (part_okb_sharp boundary) supplied
                then opt_eqb (list_eqb bytes_eqb) real (Some (map snd supplied)) else true in
    verdict corr prop
  end.
