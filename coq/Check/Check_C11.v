(* Check_C11.v — case format and per-case verdicts for the C11 correspondence run. *)
From V Require Export CaseLib ClientBodySpec.

(* a part as read back from the wire: raw Content-Disposition text, its decoding by mime.ParseMediaType
   (name, filename), the Content-Type header when present, the content *)
Record wpart := mkw { w_disp : bytes; w_name : bytes; w_filename : option bytes; w_ctype : option bytes; w_data : bytes }.

Record obs := mkobs {
  o_panicked : bool;
  o_err : nat;                            (* 0 none, 1 the producer's own error, 2 any other error *)
  o_ct : option bytes;                    (* Content-Type header of the outgoing request *)
  o_ct_media : option bytes;              (* its media type according to mime.ParseMediaType *)
  o_sent_ok : bool;                       (* the body could be read to its end *)
  o_sent : bytes;                         (* the bytes read from the request body (left empty by the harness when
                                             they were decoded into o_parts: the raw multipart text is not compared) *)
  o_parts : option (list wpart);          (* the body decoded by mime/multipart with the header's boundary *)
  o_query : option (list (bytes * bytes)); (* the body decoded by url.ParseQuery, names sorted *)
  o_answers : list (option bytes)         (* what GetBody returned to the auth writer, call by call;
                                             None = byte for byte the bytes read from the request body *)
}.

(* Big bodies. A byte string of more than 100 kB (a payload or upload content of several MiB, the bytes sent, the data
   of a part, a GetBody answer, the producer's output) is not shipped: the harness puts its fingerprint in its place
   (a zero byte, the text big:LENGTH:, the 32 bytes of its SHA-256), consistently in the input (bi_payload, f_chunks as
   ONE chunk, bi_producer) and in the observation (o_sent, w_data, o_answers), and keys the sniffing table of such a
   file by the fingerprint (answer: what the real function says about the first 512 bytes of the real content). The model
   never looks into a content: it hands it on whole, so it runs on fingerprints as it runs on contents, and the
   predicates compare fingerprints (equal fingerprints are taken for equal strings). An answer identical to the bytes
   sent is None as before. *)
Inductive case :=
| CBody (i : body_in) (sniff_table : list (bytes * bytes)) (registered : bool) (auth : option nat) (o : obs)
| CEscape (s : bytes) (escaped : bytes) (base : bytes).

(* DetectContentType as a finite table recorded from the real function; a miss is visible *)
Definition oracle_miss : bytes := [63; 109; 105; 115; 115].
Fixpoint lookup_tab (t : list (bytes * bytes)) (k : bytes) : bytes :=
  match t with
  | [] => oracle_miss
  | (a, b) :: r => if bytes_eqb a k then b else lookup_tab r k
  end.

Definition part_matches (p : part) (w : wpart) : bool :=
  bytes_eqb (p_disp p) (w_disp w) && opt_eqb bytes_eqb (p_ctype p) (w_ctype w) && bytes_eqb (p_data p) (w_data w).

Definition view_of (w : wpart) : pview := mkview (w_name w) (w_filename w) (w_ctype w) (w_data w).

(* an observed answer, with None read as the given bytes *)
Definition same_as (sent : bytes) (a : option bytes) : option bytes :=
  match a with None => Some sent | Some b => Some b end.
Definition answer_matches (m : bytes) (a : option bytes) : bool := opt_eqb bytes_eqb (Some m) a.
(* stands for the text of a multipart document that was read back successfully *)
Definition token : bytes := [1].

Definition auth_count (a : option nat) : nat := match a with Some k => k | None => 0 end.

Definition corr_body (i : body_in) (tab : list (bytes * bytes)) (registered : bool) (auth : option nat) (o : obs) : bool :=
  if negb (producer_gate (bi_media i) registered) then negb (o_panicked o) && Nat.eqb (o_err o) 2
  else
  match build_body (lookup_tab tab) i with
  | OPanic => o_panicked o
  | OErr ENoProducer => negb (o_panicked o) && Nat.eqb (o_err o) 2
  | OErr EProduce => negb (o_panicked o) && Nat.eqb (o_err o) 1
  | OOk ct src d =>
    negb (o_panicked o) && Nat.eqb (o_err o) 0 && opt_eqb bytes_eqb ct (o_ct o) && o_sent_ok o &&
    match d with
    | DMultipart ps =>
      (* the document is compared part by part; its text is abstract: the machine runs on a token *)
      match o_parts o with Some ws => list_eqb part_matches ps ws | None => false end &&
      let '(answers, sent) := auth_run (auth_count auth) src token in
      list_eqb answer_matches answers (map (same_as token) (o_answers o)) && bytes_eqb sent token
    | _ =>
      let content := match d with DBytes b => b | _ => [] end in
      let '(answers, sent) := auth_run (auth_count auth) src content in
      list_eqb answer_matches answers (map (same_as (o_sent o)) (o_answers o)) && bytes_eqb sent (o_sent o)
    end
  end.

Definition prop_body (i : body_in) (tab : list (bytes * bytes)) (registered : bool) (o : obs) : bool :=
  negb (o_panicked o) &&
  if Nat.eqb (o_err o) 0 then
    o_sent_ok o && answers_are_sent (o_answers o) &&
    match kind_of i with
    | KNone => is_nil (o_sent o)
    | KValue => match bi_producer i with
                | Some (Some b) => bytes_eqb b (o_sent o) && opt_eqb bytes_eqb (Some (bi_media i)) (o_ct o)
                | _ => false                 (* nothing to send, yet no error *)
                end
    | KReader => match bi_payload i with
                 | PReader c | PReadCloser c | PBuffer c => bytes_eqb c (o_sent o) && opt_eqb bytes_eqb (Some (bi_media i)) (o_ct o)
                 | _ => false
                 end
    | KUrlencoded => match o_query o with
                     | Some q => list_eqb pair_eqb (form_pairs (bi_form i)) q
                     | None => false
                     end && opt_eqb bytes_eqb (Some (bi_media i)) (o_ct o)
    | KMultipart => match o_parts o with
                    | Some ws => same_views (expected_views (lookup_tab tab) (bi_form i) (bi_files i)) (map view_of ws)
                    | None => false
                    end && opt_eqb bytes_eqb (Some mt_multipart) (o_ct_media o)
    end
  else true.

Definition check_case (c : case) : N :=
  match c with
  | CBody i tab registered auth o => verdict (corr_body i tab registered auth o) (prop_body i tab registered o)
  | CEscape s escaped base =>
    (* escapeQuotes and filepath.Base against the model; the quoted text reads back as the original *)
    verdict (bytes_eqb (escape_quotes s) escaped && bytes_eqb (path_base s) base)
            (match scan_quoted (escaped ++ [34]) with Some (v, rest) => bytes_eqb v s && is_nil rest | None => false end)
  end.
