(* Check_C18.v — case format and per-case verdicts for the C18 correspondence run (exhaustive option lattice). *)
From V Require Export CaseLib TLSSpec.

(* an in-process TLS server of the harness: the CA that signed its certificate, the DNS names in it,
   the highest protocol version it accepts *)
Record server := mkSrv { s_ca : nat; s_names : list bytes; s_max_version : nat }.

(* one handshake attempted with the returned configuration (used the way http.Transport uses it: the dialled host
   name is the server name when the configuration has none): success, and the client certificates the server
   received, all of them, in wire order (leaf first; [] = none) *)
Inductive hsobs := HS (s : server) (ok : bool) (client_chain : list nat).

(* o: the options; load_ok/chain/marshal_ok/x509_ok/ca_read: what the standard library answers about the material of
   this case AT THE MOMENT OF THE CALL (recorded by the harness by asking it directly; chain = the CERTIFICATE blocks of
   the certificate file); res: what TLSClientAuth returned, projected;
   rest_zero: every other security-relevant field of the tls.Config is left at its zero value;
   sys: the content of the system pool of the harness process; dial: the host name dialled. *)
Inductive step :=
| CTLS (o : opts) (load_ok : bool) (chain : list nat) (marshal_ok x509_ok : bool) (ca_read : option (list nat))
       (res : result) (rest_zero : bool) (sys : list nat) (dial : bytes) (hs : list hsobs).

(* One: a single call. Hist: several calls in ONE process on the same file paths, the harness rewriting / replacing /
   removing the files between the calls; each step carries the oracle answers about the material of its moment. The
   list holds every call in order, followed by the re-inspection (after the last call) of every configuration an earlier
   call returned whose projection is no longer what it was. *)
Inductive case := One (s : step) | Hist (l : list step).

Definition config_eqb (a b : config) : bool :=
  Nat.eqb (c_min_version a) (c_min_version b) && Bool.eqb (c_insecure a) (c_insecure b) &&
  bytes_eqb (c_server_name a) (c_server_name b) && roots_eqb (c_roots a) (c_roots b) &&
  list_eqb pair_eqb (c_certs a) (c_certs b) && opt_nat_eqb (c_callback a) (c_callback b) &&
  Bool.eqb (c_tickets_disabled a) (c_tickets_disabled b) && opt_nat_eqb (c_cache a) (c_cache b).

(* which error is returned is not part of the property: any error matches any error *)
Definition result_eqb (a b : result) : bool :=
  match a, b with
  | Error _, Error _ => true
  | Config x, Config y => config_eqb x y
  | _, _ => false
  end.

Definition trusted (sys : list nat) (r : roots) (ca : nat) : bool :=
  match r with
  | RSystem => existsb (Nat.eqb ca) sys
  | RPool l => existsb (Nat.eqb ca) l
  end.

(* what crypto/tls does with a configuration, as far as the property is concerned *)
Definition hs_expected (sys : list nat) (dial : bytes) (c : config) (s : server) : bool :=
  (c_min_version c <=? s_max_version s) &&
  (c_insecure c ||
   (trusted sys (c_roots c) (s_ca s) &&
    existsb (bytes_eqb (if is_empty (c_server_name c) then dial else c_server_name c)) (s_names s))).

Definition hs_ok (sys : list nat) (dial : bytes) (c : config) (h : hsobs) : bool :=
  match h with
  | HS s ok cc =>
    Bool.eqb ok (hs_expected sys dial c s) &&
    (if ok then bytes_eqb cc (match c_certs c with (ch, _) :: _ => ch | [] => [] end) else true)
  end.

Definition hs_all (sys : list nat) (dial : bytes) (r : result) (hs : list hsobs) : bool :=
  match r with
  | Config c => forallb (hs_ok sys dial c) hs
  | Error _ => match hs with [] => true | _ => false end
  end.

Definition check_step (c : step) : N :=
  match c with
  | CTLS o load_ok chain marshal_ok x509_ok ca_read res rest_zero sys dial hs =>
    let e := {| load_pair_ok := fun _ _ => load_ok; marshal_ec_ok := fun _ => marshal_ok;
                x509_pair_ok := fun _ _ => x509_ok; file_chain := fun _ => chain; read_ca := fun _ => ca_read |} in
    let m := tls_client_auth e o in
    verdict (result_eqb res m && rest_zero && hs_all sys dial m hs)
            (c18_holds e o res && rest_zero && hs_all sys dial res hs)
  end.

(* a history is judged call by call: the model of every call is the single-call function on the material of that call
   (TLSConfig.tls_history is that map), so the verdict is the union of the verdicts of the steps *)
Definition check_case (c : case) : N :=
  match c with
  | One s => check_step s
  | Hist l => fold_right (fun s acc => N.lor (check_step s) acc) 0%N l
  end.
