(* Check_C05.v — case format and per-case verdicts for the C05 correspondence run. *)
From V Require Export CaseLib Bytes DencoSpec DencoTrie DencoDA.

(* what Router.Lookup answered *)
Inductive obs := OFound (v : nat) (ps : list (bytes * bytes)) | ONot | OPanic.

Inductive case :=
(* one Build and several lookups: records (key, value id) in the order given to Build, did Build
   return an error, the dumped BASE/CHECK cells and node table, lookups *)
| CTab (pats : list (bytes * nat)) (builderr : bool) (cells : list N) (nds : list (nat * list bytes))
       (ls : list (bytes * obs))
(* one Build and many lookups without the dumped arrays: the continuation chunks of a long path
   list (the array representation check is quadratic and is run once, on the tab case) and the
   bigger tables of the reserved-byte-after-a-pattern family *)
| CLook (pats : list (bytes * nat)) (builderr : bool) (ls : list (bytes * obs))
(* the same records built in two orders, the same paths looked up in both routers *)
| COrder (pats pats' : list (bytes * nat)) (ls : list (bytes * (obs * obs)))
(* denco.Mux: handlers (method, path, id), requests (method, URL.Path) -> handler chosen and params.
   A request may have been spelled on the wire as a request target with percent-escapes of the
   client's own (URL.RawPath set); the case carries the decoded URL.Path, the only thing the handler
   may route on. Likewise the tab, look and order cases may come from a router whose SizeHint option
   was set by the caller: it is a capacity hint and not a parameter of the model. *)
| CMux (hs : list (bytes * (bytes * nat))) (ls : list (bytes * (bytes * obs)))
(* a constant of the Go source the model mirrors *)
| CConst (model go : nat).

Definition params_eqb (a b : list (bytes * bytes)) : bool :=
  list_eqb (fun x y => bytes_eqb (fst x) (fst y) && bytes_eqb (snd x) (snd y)) a b.

Definition obs_eqb (o : obs) (r : lres nat) : bool :=
  match o, r with
  | OFound v ps, Found v' ps' => Nat.eqb v v' && params_eqb ps ps'
  | ONot, NotFound => true
  | _, _ => false
  end.

Definition obs_same (a b : obs) : bool :=
  match a, b with
  | OFound v ps, OFound v' ps' => Nat.eqb v v' && params_eqb ps ps'
  | ONot, ONot => true
  | _, _ => false
  end.

Definition obs_answer (o : obs) : option (nat * list (bytes * bytes)) :=
  match o with OFound v ps => Some (v, ps) | _ => None end.

Definition not_panic (o : obs) : bool := match o with OPanic => false | _ => true end.

(* the fuel of the array model: one above the parameter nesting depth of the model trie, as in
   da_lookup_refines_fuel *)
Definition fuel_for (pats : list (bytes * nat)) : nat := S (pdepth (model_trie pats)).

(* the domain test of the tab and look cases is wf_patset_sc = wf_patset (C05_check_shortcuts_wf) *)
(* per-table precomputation: check_case computes the static records, the model trie and the tokenised
   table once per case and uses the _pre variants of Model/DencoDA.v (equal to router_lookup,
   da_router_lookup and answer_ok: C05_check_shortcuts) *)
(* the property's predicate on one observed answer *)
Definition lookup_prop (pats : list (bytes * nat)) (l : bytes * obs) : bool :=
  not_panic (snd l) && answer_ok Nat.eqb pats (fst l) (obs_answer (snd l)).

Definition lookup_prop_pre (ents : list (shape * (nat * list bytes))) (l : bytes * obs) : bool :=
  not_panic (snd l) && answer_ok_pre Nat.eqb ents (fst l) (obs_answer (snd l)).

Definition check_case (c : case) : N :=
  match c with
  | CTab pats builderr cells nds ls =>
    if wf_patset_sc pats then
      let d := mkDA cells nds in
      let fu := fuel_for pats in
      let st := statics_of pats in
      let t := model_trie pats in
      let ents := entries_of pats in
      verdict
        (negb builderr
         && repr_ok Nat.eqb pats d
         && forallb (fun l => obs_eqb (snd l) (router_lookup_pre st t (fst l))
                              && obs_eqb (snd l) (da_router_lookup_pre fu st d (fst l))) ls)
        (negb builderr && forallb (lookup_prop_pre ents) ls)
    else
      (* outside the domain of the theorems (key with the termination byte or NUL, two keys of one
         shape, duplicate names): only the panic clause is evaluated, when Build accepted the table *)
      verdict true (builderr || forallb (fun l => not_panic (snd l)) ls)
  | CLook pats builderr ls =>
    if wf_patset_sc pats then
      let st := statics_of pats in
      let t := model_trie pats in
      let ents := entries_of pats in
      verdict
        (negb builderr && forallb (fun l => obs_eqb (snd l) (router_lookup_pre st t (fst l))) ls)
        (negb builderr && forallb (lookup_prop_pre ents) ls)
    else
      verdict true (builderr || forallb (fun l => not_panic (snd l)) ls)
  | COrder pats pats' ls =>
    verdict
      (forallb (fun l => obs_eqb (fst (snd l)) (router_lookup pats (fst l))
                         && obs_eqb (snd (snd l)) (router_lookup pats' (fst l))) ls)
      (forallb (fun l => obs_same (fst (snd l)) (snd (snd l))) ls)
  | CMux hs ls =>
    verdict
      (forallb (fun l =>
         let tbl := map snd (filter (fun h => bytes_eqb (fst h) (fst l)) hs) in
         obs_eqb (snd (snd l)) (router_lookup tbl (fst (snd l)))) ls)
      (forallb (fun l =>
         let tbl := map snd (filter (fun h => bytes_eqb (fst h) (fst l)) hs) in
         if wf_patset tbl then lookup_prop tbl (snd l) else not_panic (snd (snd l))) ls)
  | CConst m g => verdict (Nat.eqb m g) true
  end.
