(* Check_C19.v — case format and per-case verdicts for the C19 correspondence run. *)
From V Require Export CaseLib APIValidateSpec.

Inductive case :=
| CValidate (regs : list reg) (d : desc)
            (an_consumes an_produces an_schemes an_ops : list bytes)   (* the real analyzer's Required* / OperationMethodPaths, sorted *)
            (err : option failure)                                      (* API.Validate() *)
            (routed : list (nat * bool))                                (* validated: per declared operation, does the real router hold its route under base path + template *)
            (served : list (request * result * result))                 (* validated, simple: a history of requests on ONE handler; per request its result there and on a fresh handler *)
            (more : list (list reg * option failure * option failure)). (* later batches of registrations on the SAME API value, Validate() after each, and on a fresh value *)

(* does the model's route table hold the route of operation i *)
Definition expected_routed (a : api) (d : desc) (i : nat) : bool :=
  match nth_error (g_ops d) i with
  | None => false
  | Some o => route_added a d o
  end.

(* the implementation's result against the model's. For the two operations of a colliding pair (F-C19-2) the model does not
   say which record the router keeps: the one with the unclean template never runs its own handler, the other is unspecified *)
Definition result_agrees (d : desc) (rq : request) (model impl : result) : bool :=
  match nth_error (g_ops d) (rq_op rq) with
  | None => result_eqb impl model
  | Some o => if route_collides d o
              then own_template d o || negb (Nat.eqb (rs_outcome impl) 0)
              else result_eqb impl model
  end.

Definition check_case (c : case) : N :=
  match c with
  | CValidate regs d anc anp ans ano err routed served more =>
    let a := build_api regs in
    let m := validate a d in
    let analyzer_ok :=
      list_eqb bytes_eqb anc (sort_bytes (dedup (required_consumes d))) &&
      list_eqb bytes_eqb anp (sort_bytes (dedup (required_produces d))) &&
      list_eqb bytes_eqb ans (sort_bytes (dedup (required_schemes d))) &&
      list_eqb bytes_eqb ano (sort_bytes (dedup (required_ops d))) in
    let routed_corr := forallb (fun s => Bool.eqb (snd s) (expected_routed a d (fst s))) routed in
    (* every declared operation of a validated API was looked up, and has its route *)
    let routed_prop := match err with
                       | None => all_routed (length (g_ops d)) routed
                       | Some _ => true
                       end in
    (* the model keeps nothing between requests: every result, on the shared and on the fresh handler, is the single-request answer *)
    let served_corr := forallb (fun e => let '(rq, shared, fresh) := e in
                                         result_agrees d rq (serve_one a d rq) shared && result_agrees d rq (serve_one a d rq) fresh) served in
    (* a simple validated description: every declared operation was sent well-formed requests; each request fared on the
       shared handler as on a fresh one, and every well-formed one had its handler run and its response produced *)
    let served_prop := negb (simple_desc d) ||
                       match err with
                       | None => covers_ops a d served
                       | Some _ => true
                       end && forallb (entry_ok a d) served in
    let more_corr :=
      list_eqb (opt_eqb failure_eqb) (map (fun e => snd (fst e)) more) (validate_history a d (map (fun e => fst (fst e)) more)) &&
      list_eqb (opt_eqb failure_eqb) (map snd more) (validate_history a d (map (fun e => fst (fst e)) more)) in
    verdict (analyzer_ok && opt_eqb failure_eqb m err && routed_corr && served_corr && more_corr)
            (validate_prop a d err && routed_prop && served_prop && history_ok a d more)
  end.
