(* Check_C19.v — case format and per-case verdicts for the C19 correspondence run. *)
From V Require Export CaseLib APIValidateSpec.

Inductive case :=
| CValidate (regs : list reg) (d : desc)
            (an_consumes an_produces an_schemes an_ops : list bytes)   (* the real analyzer's Required* / OperationMethodPaths, sorted *)
            (err : option failure)                                      (* API.Validate() *)
            (routed : list (nat * bool))                                (* validated: per declared operation, does the real router hold its route under base path + template *)
            (served : list (nat * bytes * nat)).                        (* per exercised operation: index, content type sent, outcome *)

Definition failure_eqb (a b : failure) : bool :=
  Nat.eqb (f_section a) (f_section b) && list_eqb bytes_eqb (f_unspecified a) (f_unspecified b) &&
  list_eqb bytes_eqb (f_unregistered a) (f_unregistered b).

(* does the model's route table hold the route of operation i *)
Definition expected_routed (a : api) (d : desc) (i : nat) : bool :=
  match nth_error (g_ops d) i with
  | None => false
  | Some o => route_added a d o
  end.

(* what the model expects of exercising operation i with a body of content type ct ([] = no body) *)
Definition expected_outcome (a : api) (d : desc) (i : nat) (ct : bytes) : nat :=
  match nth_error (g_ops d) i with
  | None => 3
  | Some o =>
    if negb (route_added a d o) then 4 else
    match ct with
    | _ :: _ => if mem_bytes ct (a_consumers a) then
                  match exercise a d o with Panicked PNoProducer _ => 2 | Panicked _ _ => 3 | Responded _ => 0 end
                else 1
    | [] => match exercise a d o with Panicked PNoProducer _ => 2 | Panicked _ _ => 3 | Responded _ => 0 end
    end
  end.

Definition check_case (c : case) : N :=
  match c with
  | CValidate regs d anc anp ans ano err routed served =>
    let a := build_api regs in
    let m := validate a d in
    let analyzer_ok :=
      list_eqb bytes_eqb anc (sort_bytes (dedup (required_consumes d))) &&
      list_eqb bytes_eqb anp (sort_bytes (dedup (required_produces d))) &&
      list_eqb bytes_eqb ans (sort_bytes (dedup (required_schemes d))) &&
      list_eqb bytes_eqb ano (sort_bytes (dedup (required_ops d))) in
    let routed_corr := forallb (fun s => Bool.eqb (snd s) (expected_routed a d (fst s))) routed in
    (* every declared operation of a validated API was looked up, and has its route *)
    let routed_prop := match err with
                       | None => all_routed (length (g_ops d)) routed
                       | Some _ => true
                       end in
    let served_corr := forallb (fun s => let '(i, ct, k) := s in Nat.eqb k (expected_outcome a d i ct)) served in
    (* a simple validated description: every declared operation was sent a request, and the handler ran *)
    let served_prop := negb (simple_desc d) ||
                       match err with
                       | None => list_eqb Nat.eqb (map (fun s => fst (fst s)) served) (seq 0 (length (g_ops d)))
                       | Some _ => true
                       end && forallb (fun s => served_ok (snd s)) served in
    verdict (analyzer_ok && opt_eqb failure_eqb m err && routed_corr && served_corr)
            (validate_prop a d err && routed_prop && served_prop)
  end.
