(* Check_C08.v — case format and per-case verdicts for the C08 correspondence run. *)
From V Require Export CaseLib RespondSpec.

Inductive case :=
(* one request through the real API handler of a one-operation description *)
| CServe (d : bytes) (registered : list bytes) (declared : list bytes) (route_produces : list bytes) (codes : list nat)
         (lines : list bytes) (head : bool) (auth : auth_cfg) (dt : data) (tag : bytes)
         (ran : bool) (o : obs)
(* Context.Respond called directly *)
| CDirect (d : bytes) (registered : list bytes) (produces : list bytes) (rt : option route)
          (cached : option bytes) (lines : list bytes) (head : bool)
          (marker : bytes)                          (* security.FailedBasicAuth of the request, as observed *)
          (auth : option (bytes * basic_attempt))   (* the basic authenticator that examined the request first: configured realm, attempt *)
          (dt : data) (tag : bytes) (o : obs).


Definition check_case (c : case) : N :=
  match c with
  | CServe d registered declared rp codes lines head auth dt tag ran o =>
    match parse_accept lines with
    | Some specs =>
      let rt := mkroute rp true codes in
      let runs := auth_passes auth && acceptable specs rp in
      (* the route offers the declared produces in their declared order (that order breaks ties in negotiation) *)
      let order_ok := list_eqb bytes_eqb rp (route_produces_of d declared) in
      verdict (obs_agree (serve d registered rt specs head auth dt) tag o && Bool.eqb ran runs && order_ok)
              (serve_prop d registered rp codes specs head auth dt tag ran o && order_ok)
    | None => verdict false true
    end
  | CDirect d registered produces rt cached lines head marker auth dt tag o =>
    match parse_accept lines with
    | Some specs =>
      verdict (obs_agree (respond d registered produces rt cached specs head (model_marker auth) dt) tag o &&
               bytes_eqb marker (model_marker auth))
              (direct_auth_prop d registered produces rt cached specs head auth dt tag o)
    | None => verdict false true
    end
  end.
