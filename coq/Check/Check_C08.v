(* Check_C08.v — case format and per-case verdicts for the C08 correspondence run. *)
From V Require Export CaseLib RespondSpec.

(* one request of a history on one Context: the operation matched (declared produces, the route's produces and
   security alternatives in the order the route uses, declared codes), the request (Accept, HEAD, what it presents
   to each scheme - inside sec), the handler's result, and what was observed inside the history (ran, o) and of the
   same request answered by a fresh Context (fresh_ran, fresh); comparable = the fresh Context consults the schemes
   of each alternative in the same order (a Go map iteration decides that order per router) *)
Inductive hstep :=
| HStep (declared : list bytes) (route_produces : list bytes) (codes : list nat) (lines : list bytes) (head : bool)
        (sec : sec_cfg) (dt : data) (tag : bytes) (ran : bool) (o : obs)
        (comparable : bool) (fresh_ran : bool) (fresh : obs)
        (* the error responders assigned to the API before its Context was built / after that up to this request,
           and the responders called while this request was answered *)
        (rcfg : responder_cfg) (invoked : list nat).

Inductive case :=
(* one request through the real API handler of a one-operation description *)
| CServe (d : bytes) (registered : list bytes) (declared : list bytes) (route_produces : list bytes) (codes : list nat)
         (lines : list bytes) (head : bool) (auth : auth_cfg) (dt : data) (tag : bytes)
         (ran : bool) (o : obs)
         (rcfg : responder_cfg) (invoked : list nat)
(* Context.Respond called directly *)
| CDirect (d : bytes) (registered : list bytes) (produces : list bytes) (rt : option route)
          (cached : option bytes) (lines : list bytes) (head : bool)
          (marker : bytes)                          (* security.FailedBasicAuth of the request, as observed *)
          (auth : option (bytes * basic_attempt))   (* the basic authenticator that examined the request first: configured realm, attempt *)
          (dt : data) (tag : bytes) (o : obs)
          (rcfg : responder_cfg) (invoked : list nat)
(* several requests answered one after the other by ONE Context of a description with several operations *)
| CHist (d : bytes) (registered : list bytes) (steps : list hstep).

(* one step: (corresponds to the model of the single request, satisfies the property's predicate); both also
   demand that the answer inside the history is the answer of a fresh Context *)
Definition step_check (d : bytes) (registered : list bytes) (st : hstep) : bool * bool :=
  match st with
  | HStep declared rp codes lines head sec dt tag ran o comparable fresh_ran fresh rcfg invoked =>
    match parse_accept lines with
    | Some specs =>
      let q := mkhreq (mkroute rp true codes) specs head sec dt in
      let order_ok := list_eqb bytes_eqb rp (route_produces_of d declared) in
      let same := negb comparable || (obs_eqb o fresh && Bool.eqb ran fresh_ran) in
      let resp_ok := responder_ok rcfg invoked in
      (obs_agree (serve_req d registered q) tag o && Bool.eqb ran (req_runs q) && order_ok && same && resp_ok,
       req_prop d registered q tag ran o && order_ok && same && resp_ok)
    | None => (false, true)
    end
  end.


Definition check_case (c : case) : N :=
  match c with
  | CServe d registered declared rp codes lines head auth dt tag ran o rcfg invoked =>
    match parse_accept lines with
    | Some specs =>
      let rt := mkroute rp true codes in
      let runs := auth_passes auth && acceptable specs rp in
      (* the route offers the declared produces in their declared order (that order breaks ties in negotiation) *)
      let order_ok := list_eqb bytes_eqb rp (route_produces_of d declared) in
      (* every error went to the responder the API has when the request is served *)
      let resp_ok := responder_ok rcfg invoked in
      verdict (obs_agree (serve d registered rt specs head auth dt) tag o && Bool.eqb ran runs && order_ok && resp_ok)
              (serve_prop d registered rp codes specs head auth dt tag ran o && order_ok && resp_ok)
    | None => verdict false true
    end
  | CDirect d registered produces rt cached lines head marker auth dt tag o rcfg invoked =>
    match parse_accept lines with
    | Some specs =>
      verdict (obs_agree (respond d registered produces rt cached specs head (model_marker auth) dt) tag o &&
               bytes_eqb marker (model_marker auth) && responder_ok rcfg invoked)
              (direct_auth_prop d registered produces rt cached specs head auth dt tag o && responder_ok rcfg invoked)
    | None => verdict false true
    end
  | CHist d registered steps =>
    match steps with
    | [] => verdict false true
    | _ => let rs := map (step_check d registered) steps in
           verdict (forallb fst rs) (forallb snd rs)
    end
  end.
