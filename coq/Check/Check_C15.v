(* Check_C15.v — case format and per-case verdicts for the C15 correspondence run. *)
From V Require Export CaseLib StreamCodecsSpec.

(* io.Copy allocates 32 KiB; bytes.Buffer.ReadFrom offers at least MinRead = 512 bytes. read_all is
   proved independent of its policy; io_copy depends on the size only through the Write calls the
   sink sees, so the real size is used. *)
Definition copy_bufm1 : nat := Nat.pred (Nat.pow 2 15).
Definition read_pol (n : nat) : nat := 511.

Inductive case :=
(* Consume of the byte stream / text codec on a scripted reader *)
| CConsume (c : codec) (close_opt : bool) (rd : option (list rstep * bool)) (d : dkind)
           (panicked : bool) (e : option err) (stored : option bytes) (closes : nat)
(* Produce of the byte stream / text codec on a scripted writer; jo = what swag.WriteJSON answered *)
| CProduce (c : codec) (close_opt : bool) (wr : option (wstate * bool)) (src : skind)
           (jo : bytes * option err)
           (panicked : bool) (e : option err) (got : bytes) (wcloses pcloses : nat)
(* DiscardConsumer / DiscardProducer: nil, no Read, no Write, no Close *)
| CDiscard (panicked : bool) (e : option err) (reads writes closes : nat)
(* JSON / XML / YAML: producer then consumer on a supported value, compared in Go (differential
   only: the encoders are not modelled). fmt 0 json, 1 xml, 2 yaml; ok = equal and no error and the
   format-specific expectation (UseNumber keeps the digits, no HTML escaping) *)
| CRoundTrip (fmt : nat) (shape : nat) (panicked : bool) (ok : bool)
(* JSON / XML / YAML: a number placed at every number slot of one destination shape (interface
   slots reached through structs, slices, arrays, maps, pointers, named types; typed integer and
   float slots), produced, consumed into a fresh destination of the same type; want / got = the
   leaves of the two values as path = kind : exact decimal text (differential only) *)
| CNumSlots (fmt : nat) (panicked : bool) (failed : bool) (want got : list bytes).

Definition out_matches (o : outcome) (panicked : bool) (e : option err) : bool :=
  match o with
  | ORet e' => negb panicked && opt_err_eqb e e'
  | OPanic => panicked
  | OOutOfFuel => false
  end.

Definition check_case (c : case) : N :=
  match c with
  | CConsume cd close_opt rd d panicked e stored closes =>
    let m := consume cd copy_bufm1 read_pol close_opt (live rd) d in
    verdict (out_matches (c_out m) panicked e &&
             (panicked || opt_bytes_eqb stored (c_stored m)) &&
             Nat.eqb closes (c_closes m))
            (consume_ok cd close_opt rd d panicked e stored closes)
  | CProduce cd close_opt wr src jo panicked e got wcloses pcloses =>
    let m := produce cd copy_bufm1 close_opt wr src jo in
    verdict (out_matches (p_out m) panicked e &&
             (panicked || bytes_eqb got (p_got m)) &&
             Nat.eqb wcloses (p_wcloses m) && Nat.eqb pcloses (p_pcloses m))
            (produce_ok cd close_opt wr src jo panicked e got wcloses pcloses)
  | CDiscard panicked e reads writes closes =>
    let ok := negb panicked && negb (is_some e) && Nat.eqb reads 0 && Nat.eqb writes 0 && Nat.eqb closes 0 in
    verdict ok ok
  | CRoundTrip _ _ panicked ok => verdict true (negb panicked && ok)
  | CNumSlots _ panicked failed want got => verdict true (number_slots_ok panicked failed want got)
  end.
