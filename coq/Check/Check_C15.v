(* Check_C15.v — case format and per-case verdicts for the C15 correspondence run. *)
From V Require Export CaseLib StreamCodecsSpec.

(* io.Copy allocates 32 KiB; bytes.Buffer.ReadFrom offers at least MinRead = 512 bytes. read_all is
   proved independent of its policy; io_copy depends on the size only through the Write calls the
   sink sees, so the real size is used. *)
Definition copy_bufm1 : nat := Nat.pred (Nat.pow 2 15).
Definition read_pol (n : nat) : nat := 511.

(* one call of a codec value, as a history lists it *)
Inductive call :=
(* Consume of the byte stream / text codec on a scripted reader *)
| KConsume (c : codec) (close_opt : bool) (rd : option (list rstep * bool)) (d : dkind)
           (panicked : bool) (e : option err) (stored : option bytes) (closes : nat)
(* Produce of the byte stream / text codec on a scripted writer; jo = what swag.WriteJSON answered *)
| KProduce (c : codec) (close_opt : bool) (wr : option (wstate * bool)) (src : skind)
           (jo : bytes * option err)
           (panicked : bool) (e : option err) (got : bytes) (wcloses pcloses : nat)
(* JSON / XML / YAML Produce of a supported value into a scripted writer (accepting, or failing at
   an offset and from then on): fe / fgot = what the same call gave on a FRESH producer value *)
| KDocProd (fmt : nat) (wfail : bool) (pre full : bytes) (fe : option err) (fgot : bytes)
           (panicked : bool) (e : option err) (got : bytes) (want back : list bytes)
(* JSON / XML / YAML Consume of a produced document through a scripted reader (healthy, or failing
   inside the document): fe / fgot = the same call on a FRESH consumer value *)
| KDocCons (fmt : nat) (rfail : bool) (fe : option err) (fgot : list bytes)
           (panicked : bool) (e : option err) (want got : list bytes).

Inductive case :=
| CConsume (c : codec) (close_opt : bool) (rd : option (list rstep * bool)) (d : dkind)
           (panicked : bool) (e : option err) (stored : option bytes) (closes : nat)
| CProduce (c : codec) (close_opt : bool) (wr : option (wstate * bool)) (src : skind)
           (jo : bytes * option err)
           (panicked : bool) (e : option err) (got : bytes) (wcloses pcloses : nat)
(* DiscardConsumer / DiscardProducer: nil, no Read, no Write, no Close *)
| CDiscard (panicked : bool) (e : option err) (reads writes closes : nat)
(* JSON / XML / YAML: producer then consumer on a supported value, compared in Go (differential
   only: the encoders are not modelled). fmt 0 json, 1 xml, 2 yaml, 3 text, 4 byte stream (shape 4:
   values of 64 KiB and more, shape 5: values with a wire form and a display form); ok = equal and no error and the
   format-specific expectation (UseNumber keeps the digits, no HTML escaping) *)
| CRoundTrip (fmt : nat) (shape : nat) (panicked : bool) (ok : bool)
(* JSON / XML / YAML: a number placed at every number slot of one destination shape (interface
   slots reached through structs, slices, arrays, maps, pointers, named types; typed integer and
   float slots), produced, consumed into a fresh destination of the same type; want / got = the
   leaves of the two values as path = kind : exact decimal text (differential only) *)
| CNumSlots (fmt : nat) (panicked : bool) (failed : bool) (want got : list bytes)
(* JSON / XML / YAML: a document whose element / attribute / key names and texts are drawn from a
   pool, produced, consumed into a fresh destination of the same type; want / got = leaves *)
| CDocLeaves (fmt : nat) (panicked : bool) (failed : bool) (want got : list bytes)
(* ONE producer value and ONE consumer value used for all the calls of the list. imm = every call
   as observed right after it returned; fin = the same calls with every destination and sink
   re-read after the LAST call of the history returned *)
| CHist (imm fin : list call).

Definition out_matches (o : outcome) (panicked : bool) (e : option err) : bool :=
  match o with
  | ORet e' => negb panicked && opt_err_eqb e e'
  | OPanic => panicked
  | OOutOfFuel => false
  end.

Definition check_call (k : call) : N :=
  match k with
  | KConsume cd close_opt rd d panicked e stored closes =>
    let m := consume cd copy_bufm1 read_pol close_opt (live rd) d in
    verdict (out_matches (c_out m) panicked e &&
             (panicked || opt_bytes_eqb stored (c_stored m)) &&
             Nat.eqb closes (c_closes m))
            (consume_ok cd close_opt rd d panicked e stored closes)
  | KProduce cd close_opt wr src jo panicked e got wcloses pcloses =>
    let m := produce cd copy_bufm1 close_opt wr src jo in
    verdict (out_matches (p_out m) panicked e &&
             (panicked || bytes_eqb got (p_got m)) &&
             Nat.eqb wcloses (p_wcloses m) && Nat.eqb pcloses (p_pcloses m))
            (produce_ok cd close_opt wr src jo panicked e got wcloses pcloses)
  | KDocProd _ wfail pre full fe fgot panicked e got want back =>
    verdict (negb panicked && opt_err_eqb e fe && bytes_eqb got fgot)
            (doc_produce_ok wfail pre full panicked e got want back)
  | KDocCons _ rfail fe fgot panicked e want got =>
    verdict (negb panicked && opt_err_eqb e fe && list_eqb bytes_eqb got fgot)
            (doc_consume_ok rfail panicked e want got)
  end.

Fixpoint check_calls (l : list call) : N :=
  match l with
  | [] => 0%N
  | k :: r => N.lor (check_call k) (check_calls r)
  end.

Definition check_case (c : case) : N :=
  match c with
  | CConsume cd close_opt rd d panicked e stored closes =>
    check_call (KConsume cd close_opt rd d panicked e stored closes)
  | CProduce cd close_opt wr src jo panicked e got wcloses pcloses =>
    check_call (KProduce cd close_opt wr src jo panicked e got wcloses pcloses)
  | CDiscard panicked e reads writes closes =>
    let ok := negb panicked && negb (is_some e) && Nat.eqb reads 0 && Nat.eqb writes 0 && Nat.eqb closes 0 in
    verdict ok ok
  | CRoundTrip _ _ panicked ok => verdict true (negb panicked && ok)
  | CNumSlots _ panicked failed want got => verdict true (number_slots_ok panicked failed want got)
  | CDocLeaves _ panicked failed want got => verdict true (doc_leaves_ok panicked failed want got)
  | CHist imm fin => N.lor (check_calls imm) (check_calls fin)
  end.
