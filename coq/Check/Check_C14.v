(* Check_C14.v — case format and per-case verdicts for the C14 correspondence run. *)
From V Require Export CaseLib CredentialsSpec.

(* one request of a history: the operation's writer, the default writer configured when the request is built, what the
   parameters set; sent = the transport accepted the request; stable = the client-side request (headers, query), looked at
   again after all later requests have been built, is as it was when built *)
Record hist_step := mkstep {
  h_op : option writer; h_def : option writer;
  h_preh : list (bytes * bytes); h_preq : list (bytes * bytes);
  h_sent : bool; h_stable : bool;
  h_hdrs : obs_map; h_qry : obs_map
}.

Inductive case :=
(* client BasicAuth(u,p) -> wire -> server BasicAuthRealm(realm, cb); cberr: the callback fails;
   observed: applies, the callback's arguments, the realm marker, principal/error are the callback's *)
| CBasic (u p realm : bytes) (cberr : bool) (applies : bool) (args : option (bytes * bytes)) (marker : bytes) (pok : bool)
(* an arbitrary Authorization value through the wire into the basic authenticator *)
| CBasicRaw (auth : bytes) (applies : bool) (args : option (bytes * bytes))
| CApiKey (name : bytes) (in_query : bool) (v : bytes) (applies : bool) (tok : option bytes) (pok : bool)
(* bearer placements: full Authorization value, query token, form token, form content type *)
| CBearer (hdr qtok ftok : bytes) (formct : bool) (applies : bool) (tok : option bytes) (scopes_ok marker_ok pok : bool)
(* default authentication: operation writer present, default writer present, Authorization preset by the parameters;
   observed: the Authorization value the server receives. Operation writes Bearer OP, default writes Bearer DEF *)
| CDefault (op def : bool) (preset : bytes) (seen : bytes)
(* default authentication crossed with every kind of writer: the operation's writer, the transport-wide default writer
   (None = not configured), the header and query parameters set by the operation's parameters before the credentials
   are written; observed: every header that is not the transport's own and every query parameter the server receives *)
| CDefaultX (op def : option writer) (preh preq : list (bytes * bytes)) (hdrs qry : obs_map)
(* several requests built one after the other on ONE Runtime, DefaultAuthentication being reassigned between them *)
| CDefaultHist (steps : list hist_step)
(* a server authenticator of a declared kind (and key name) on a request that carries names and tokens in every place:
   headers (a Cookie header among them), query parameters, form fields (formct: the body is a form a server parses);
   observed: applies, what the callback received (token paired with an empty second component), principal/error are the callback's *)
| CCross (k : cred_kind) (name : bytes) (hdrs : list (bytes * bytes)) (qry form : list (bytes * list bytes)) (formct : bool)
         (applies : bool) (got : option (bytes * bytes)) (pok : bool).

Definition empty_req : request := mkReq [] [] false [].
Definition pair_eqb (a b : bytes * bytes) : bool := bytes_eqb (fst a) (fst b) && bytes_eqb (snd a) (snd b).
Definition is_some {A} (o : option A) : bool := match o with Some _ => true | None => false end.
Definition tok_OP : bytes := [79; 80].
Definition tok_DEF : bytes := [68; 69; 70].

Definition check_case (c : case) : N :=
  match c with
  | CBasic u p realm cberr applies args marker pok =>
    let m := basic_read (basic_write u p empty_req) in
    verdict (opt_eqb pair_eqb args m && Bool.eqb applies (is_some m)
             && bytes_eqb marker (basic_marker realm (is_some m) cberr))
            ((if mem_byte 58 u then true else opt_eqb pair_eqb args (Some (u, p)) && applies)
             && pok && bytes_eqb marker (if negb applies || cberr then realm_name realm else []))
  | CBasicRaw auth applies args =>
    let m := basic_read (set_header s_authorization auth empty_req) in
    verdict (opt_eqb pair_eqb args m && Bool.eqb applies (is_some m)) (Bool.eqb applies (is_some args))
  | CApiKey name in_query v applies tok pok =>
    let loc := if in_query then InQuery else InHeader in
    let m := apikey_read name loc (apikey_write name loc v empty_req) in
    verdict (opt_eqb bytes_eqb tok m && Bool.eqb applies (is_some m))
            (pok && Bool.eqb applies (is_some tok) &&
             match v with
             | [] => negb applies
             | _ => if in_query || header_safe v then opt_eqb bytes_eqb tok (Some v) else true
             end)
  | CBearer hdr qtok ftok formct applies tok scopes_ok marker_ok pok =>
    let q0 := set_header s_authorization hdr empty_req in
    let q := mkReq (r_headers q0) (match qtok with [] => [] | _ => [(s_access_token, [qtok])] end) formct
                   (match ftok with [] => [] | _ => [(s_access_token, [ftok])] end) in
    verdict (opt_eqb bytes_eqb tok (bearer_read q) && Bool.eqb applies (is_some (bearer_read q)))
            (opt_eqb bytes_eqb tok (bearer_expected (header_token q) qtok ftok formct)
             && Bool.eqb applies (is_some tok) && scopes_ok && marker_ok && pok)
  | CDefault op def preset seen =>
    let q := match preset with [] => empty_req | _ => set_header s_authorization preset empty_req end in
    let q' := effective_auth (if op then Some (bearer_write tok_OP) else None)
                             (if def then Some (bearer_write tok_DEF) else None) q in
    let want := if op then s_bearer ++ tok_OP
                else match preset with
                     | [] => if def then s_bearer ++ tok_DEF else []
                     | _ => trim_blanks preset      (* a header was set: the default credential stays away *)
                     end in
    verdict (bytes_eqb seen (get_header s_authorization q')) (bytes_eqb seen want)
  | CDefaultX op def preh preq hdrs qry =>
    let q0 := preset_request preh preq empty_req in
    verdict (wire_match hdrs qry (effective_cred op def q0))
            (wire_match hdrs qry (expected_request op def q0))
  | CDefaultHist steps =>
    let q0 s := preset_request (h_preh s) (h_preq s) empty_req in
    verdict (forallb (fun s => negb (h_sent s) ||
                               (h_stable s && wire_match (h_hdrs s) (h_qry s) (build_request (h_op s, h_def s, q0 s)))) steps)
            (forallb (fun s => negb (h_sent s) ||
                               (h_stable s && wire_match (h_hdrs s) (h_qry s) (expected_request (h_op s) (h_def s) (q0 s)))) steps)
  | CCross k name hdrs qry form formct applies got pok =>
    let q := mkReq (map (fun kv => (lower (fst kv), snd kv)) hdrs) qry formct form in
    let m := read_cred k name q in
    verdict (Bool.eqb applies (is_some m) && opt_eqb pair_eqb got m)
            (pok && from_declared_location k name q applies got)
  end.
