(* Check_C10.v — case format and per-case verdicts for the C10 correspondence run. *)
From V Require Export CaseLib ClientURLSpec.

(* what the implementation returned for one run of Runtime.CreateHttpRequest *)
Inductive iobs :=
| IErr
| IPanic
| IOk (epath : bytes) (q : qmap) (scheme host : bytes).

(* one operation of a history on one Runtime: outs = the distinct results inside the history,
   fresh = the distinct results of the same request built on a fresh Runtime *)
Inductive hstep :=
| HStep (pattern : bytes) (pps : list (bytes * bytes)) (qps : qmap) (os : list bytes) (outs fresh : list iobs).

Inductive case :=
(* the same inputs run several times (Go iterates the parameter map in a random order); outs = the distinct results *)
(* via_new: the base path went through client.New (else it was assigned to Runtime.BasePath directly) *)
| CUrl (via_new : bool) (base pattern : bytes) (pps : list (bytes * bytes)) (qps : qmap) (rs os : list bytes) (host : bytes)
       (outs : list iobs)
| CScheme (rs os : list bytes) (got : bytes)
(* library models: url.PathEscape, url.PathUnescape, (&url.URL{Path: v}).EscapedPath, validEncoded via RawPath *)
| CEsc (v pe : bytes) (un : option bytes) (ep : bytes)
| CJoin (a b j : bytes)
(* several operations built in sequence on ONE Runtime (host, base path, transport schemes fixed) *)
| CHist (via_new : bool) (base : bytes) (rs : list bytes) (host : bytes) (steps : list hstep).

Fixpoint insert_all {A} (x : A) (l : list A) : list (list A) :=
  match l with
  | [] => [[x]]
  | y :: r => (x :: l) :: map (cons y) (insert_all x r)
  end.
Fixpoint perms {A} (l : list A) : list (list A) :=
  match l with
  | [] => [[]]
  | x :: r => flat_map (insert_all x) (perms r)
  end.
Definition orders {A} (l : list A) : list (list A) :=
  if length l <=? 4 then perms l else [l; rev l].

Definition qmap_eq (a b : qmap) : bool :=
  forallb (fun k => list_eqb bytes_eqb (q_vals k a) (q_vals k b)) (map fst a ++ map fst b).

Definition out_eq (i : iobs) (o : outcome) : bool :=
  match i, o with
  | IErr, OutErr => true
  | IOk ep q sch h, OutOk ep' q' sch' h' =>
    bytes_eqb ep ep' && qmap_eq q q' && bytes_eqb sch sch' && bytes_eqb h h'
  | _, _ => false
  end.

Definition is_exotic (o : outcome) : bool := match o with OutExotic => true | _ => false end.

(* one request: (corresponds to the model for some map order, satisfies the property's predicates) *)
Definition url_check (base pattern : bytes) (pps : list (bytes * bytes)) (qps : qmap) (rs os : list bytes)
           (host : bytes) (outs : list iobs) : bool * bool :=
  let ps := set_all pps in
  let caller := set_all qps in
  let mouts := map (fun o => create_request base pattern o caller rs os host) (orders ps) in
  let corr :=
    if existsb is_exotic mouts then true
    else match outs with [] => false | _ => forallb (fun i => existsb (out_eq i) mouts) outs end in
  let prop :=
    match url_parse base, url_parse pattern with
    | PExotic, _ | _, PExotic => true
    | PErr, _ | _, PErr => match outs with [IErr] => true | _ => false end     (* malformed inputs are refused *)
    | POk bp _ bq, POk pp _ pq =>
      match outs with
      | [IOk ep q sch h] =>
        segments_ok (lex (path_join bp pp)) (reinstate_slash pp) ps ep
        && query_ok caller (parse_query pq) (parse_query bq) q
        && scheme_ok rs os sch && scheme_offered rs os sch && bytes_eqb h host
      | _ => false        (* an error, a panic, or a result that depends on the map order *)
      end
    end in
  (corr, prop).

Definition iobs_eqb (a b : iobs) : bool :=
  match a, b with
  | IErr, IErr | IPanic, IPanic => true
  | IOk ep q sch h, IOk ep' q' sch' h' =>
    bytes_eqb ep ep' && qmap_eq q q' && bytes_eqb sch sch' && bytes_eqb h h'
  | _, _ => false
  end.

(* one step of a history: the single-request check on what the history produced, and every result
   inside the history is a result of the same request on a fresh Runtime (nothing is carried over) *)
Definition step_check (base : bytes) (rs : list bytes) (host : bytes) (s : hstep) : bool * bool :=
  match s with
  | HStep pattern pps qps os outs fresh =>
    let '(corr, prop) := url_check base pattern pps qps rs os host outs in
    (corr, prop && forallb (fun i => existsb (iobs_eqb i) fresh) outs)
  end.

Definition check_case (c : case) : N :=
  match c with
  | CUrl via_new base pattern pps qps rs os host outs =>
    let '(corr, prop) := url_check (runtime_base via_new base) pattern pps qps rs os host outs in verdict corr prop
  | CHist via_new base rs host steps =>
    let rs' := map (step_check (runtime_base via_new base) rs host) steps in
    verdict (forallb fst rs') (forallb snd rs')
  | CScheme rs os got => verdict (bytes_eqb got (pick_scheme rs os)) (scheme_ok rs os got && scheme_offered rs os got)
  | CEsc v pe un ep =>
    verdict (bytes_eqb pe (path_escape v) && opt_eqb bytes_eqb un (path_unescape v)
             && match un with Some p => bytes_eqb ep (escaped_path p v) | None => true end)
            (opt_eqb bytes_eqb (path_unescape pe) (Some v) && forallb seg_safe pe)
  | CJoin a b j => verdict (bytes_eqb j (path_join a b)) true
  end.
