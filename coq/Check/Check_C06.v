(* Check_C06.v — case format and per-case verdicts for the C06 correspondence run.
   One case = a consumes list as declared + the API default + the consumers registered on the API, the route's
   Consumes and Consumers keys as built by the real AddRoute, one request (body presence signals, Content-Type header
   lines, the parser's answer for the value recorded by the harness independently of runtime.ContentType), and three
   observations: Context.BindValidRequest (t_), Context.BindAndValidate (u_), the untyped API handler (h_).
   *_cons = media type key of the instrumented consumer that actually decoded the body. *)
From V Require Export CaseLib GateSpec.

Definition subset_b (a b : list bytes) : bool := forallb (fun x => existsb (bytes_eqb x) b) a.
Definition same_set_b (a b : list bytes) : bool := subset_b a b && subset_b b a.
Definition opt_bytes_eqb (a b : option bytes) : bool := opt_eqb bytes_eqb a b.
Definition opt_nat_eqb (a b : option nat) : bool := opt_eqb Nat.eqb a b.
Definition res_eqb (a b : option nat * option bytes) : bool :=
  opt_nat_eqb (fst a) (fst b) && opt_bytes_eqb (snd a) (snd b).

Definition is_some_nat (o : option nat) : bool := match o with Some _ => true | None => false end.

(* one request of a history on one Context: the operation addressed (its consumes list as declared; the route's
   Consumes and Consumers keys as the Context hands them out at that moment), the request, the entry point
   (0 Context.BindValidRequest, 1 Context.BindAndValidate, 2 the untyped API handler), what was observed inside the
   history (status: None = no error, for the handler None = 200; csm = the consumer that decoded; ran = no refusal:
   the binder went through / the handler ran) and for the same request on a fresh Context (f_) *)
(* kind = what the operation addressed declares to read: 0 a body parameter, 1 no parameter, 2 only path / query /
   header parameters, 3 a formData parameter; form_st = for a formData operation, what net/http itself makes of the
   request as a form (None = a well-formed form of a form media type, else the status of the refusal) *)
Definition kind_of (n : nat) : opkind :=
  match n with 0 => KBody | 1 => KNone | 2 => KOther | _ => KForm end.

Inductive hstep :=
| HStep (declared consumes keys : list bytes) (cl_positive hdr nonempty hasbody_impl : bool)
        (lines : list bytes) (asked : bytes) (parse reparse : option bytes) (entry : nat)
        (kind : nat) (form_st : option nat)
        (status : option nat) (csm : option bytes) (ran : bool)
        (f_status : option nat) (f_cons : option bytes) (f_ran : bool)
        (acc_ok : bool).

Inductive case :=
| CGate (declared : list bytes) (default : bytes) (registered : list bytes) (consumes keys : list bytes)
        (cl_positive hdr nonempty hasbody_impl : bool)
        (lines : list bytes) (asked : bytes) (parse reparse : option bytes) (ct_impl : option bytes)
        (t_status : option nat) (t_cons : option bytes)
        (u_status : option nat) (u_cons : option bytes)
        (h_status : nat) (h_cons : option bytes) (h_ran : bool)
        (kind : nat) (form_st : option nat) (u_picked : option bytes)
        (* the request's Accept header can be satisfied by what the operation produces (or there is none): what
           middleware.NegotiateContentType answers to the harness itself *)
        (acc_ok : bool)
(* several requests answered one after the other by ONE Context of an API with several operations (same path under
   different methods, and other paths), each with its own consumes list *)
| CHist (default : bytes) (registered : list bytes) (steps : list hstep).

Definition step_check (default : bytes) (registered : list bytes) (st : hstep) : bool * bool :=
  match st with
  | HStep declared consumes keys cl_positive hdr nonempty hasbody_impl lines asked parse reparse entry
          kind form_st status csm ran f_status f_cons f_ran acc_ok =>
    let hb := has_body cl_positive hdr nonempty in
    let mconsumes := add_route_consumes declared default in
    let g := gate_req default registered (mkgreq declared hb parse reparse (Nat.eqb entry 0)) in
    (* BindValidRequest is given a binder that decodes through route.Consumer whatever the operation declares;
       the reflective entry points go on to the parameter stage of the operation *)
    let mo := if Nat.eqb entry 0 then typed_acc hb acc_ok g
              else reflective_acc (kind_of kind) form_st acc_ok g in
    (* the answer inside the history is the answer of a fresh Context *)
    let same := res_eqb (status, csm) (f_status, f_cons) && Bool.eqb ran f_ran in
    let corr :=
      same_set_b consumes mconsumes && same_set_b keys (route_consumers mconsumes registered) &&
      Bool.eqb hasbody_impl hb && bytes_eqb asked (content_type_input lines) &&
      match parse with Some _ => opt_bytes_eqb reparse parse | None => true end &&
      res_eqb (status, csm) mo && Bool.eqb ran (negb (is_some_nat (fst mo))) && same in
    let ex := expected_req default registered
                (mkgreq declared (cl_positive || (negb hdr && nonempty)) parse reparse (Nat.eqb entry 0)) in
    let prop :=
      gate_before_format acc_ok ex
        (if Nat.eqb entry 0 then res_eqb (status, csm) ex && Bool.eqb ran (negb (is_some_nat (fst ex)))
         else reflective_ok (kind_of kind) (is_some form_st) ex status csm ran) status csm ran && same in
    (corr, prop)
  end.

(* registered = media types a consumer is registered for on the API (harness input); consumes, keys = route.Consumes
   and the keys of route.Consumers as built by the real AddRoute; lines = the Content-Type header lines of the request;
   asked, parse = the value the harness itself handed to mime.ParseMediaType (first line, or the default when empty or
   absent) and the answer; ct_impl = what runtime.ContentType answered for the request's header *)
Definition check_case (c : case) : N :=
  match c with
  | CGate declared default registered consumes keys cl_positive hdr nonempty hasbody_impl lines asked parse reparse ct_impl
          t_status t_cons u_status u_cons h_status h_cons h_ran kind form_st u_picked acc_ok =>
    let hb := has_body cl_positive hdr nonempty in
    let mconsumes := add_route_consumes declared default in
    let mkeys := route_consumers mconsumes registered in
    let mt := typed_acc hb acc_ok (gate_typed hb parse reparse mconsumes mkeys) in
    let gu := gate_untyped hb parse reparse mconsumes mkeys in
    let mu := reflective_acc (kind_of kind) form_st acc_ok gu in
    let corr :=
      same_set_b consumes mconsumes &&
      same_set_b keys mkeys &&
      Bool.eqb hasbody_impl hb &&
      (* runtime.ContentType = the parser on the first header line as it stands (default when empty or absent) *)
      bytes_eqb asked (content_type_input lines) && opt_bytes_eqb ct_impl parse &&
      (* model assumption: parsing a parsed media type again gives it back *)
      match parse with Some _ => opt_bytes_eqb reparse parse | None => true end &&
      res_eqb (t_status, t_cons) mt &&
      res_eqb (u_status, u_cons) mu &&
      Nat.eqb h_status (match fst mu with Some c => c | None => 200 end) &&
      opt_bytes_eqb h_cons (snd mu) && Bool.eqb h_ran (negb (is_some_nat (fst mu))) &&
      (* the consumer BindAndValidate left in route.Consumer when it did not refuse: the one the gate stored *)
      (is_some_nat (fst mu) || opt_bytes_eqb u_picked (snd gu)) in
    (* the request carries a body: a positive length, or no length header and a readable byte.
       The expectation is computed from the inputs alone: declared list, API default, consumers registered on the
       API, and the independent parse of the header value *)
    let ex := expected_route (cl_positive || (negb hdr && nonempty)) parse declared default registered in
    let k := kind_of kind in
    let prop :=
      (* a request the gate refuses is answered with that refusal whatever its Accept header asks for; one the gate
         lets through may be answered 406 when no format is acceptable *)
      gate_before_format acc_ok ex (res_eqb (t_status, t_cons) ex) t_status t_cons false &&
      (* the reflective entry points: the gate's refusal whatever the operation declares to read; past the gate the
         consumer decodes only for a body parameter, and the two entry points picked the same consumer *)
      gate_before_format acc_ok ex (reflective_ok k (is_some form_st) ex u_status u_cons (negb (is_some_nat u_status)))
        u_status u_cons false &&
      gate_before_format acc_ok ex
        (reflective_ok k (is_some form_st) ex (if Nat.eqb h_status 200 then None else Some h_status) h_cons h_ran)
        (if Nat.eqb h_status 200 then None else Some h_status) h_cons h_ran &&
      (is_some_nat u_status || picked_ok ex u_picked) &&
      (* the API default is always added to the consumes list: an entry of the route's list names it *)
      (is_nilb default || listed_ci consumes default) in
    verdict corr prop
  | CHist default registered steps =>
    match steps with
    | [] => verdict false true
    | _ => let rs := map (step_check default registered) steps in
           verdict (forallb fst rs) (forallb snd rs)
    end
  end.
