(* Check_C06.v — case format and per-case verdicts for the C06 correspondence run.
   One case = a consumes list as declared + the API default, the route's Consumes and Consumers keys as built by the
   real AddRoute, one request (body presence signals, Content-Type header answered by the real parser), and three
   observations: Context.BindValidRequest (t_), Context.BindAndValidate (u_), the untyped API handler (h_).
   *_cons = media type key of the instrumented consumer that actually decoded the body. *)
From V Require Export CaseLib GateSpec.

Definition subset_b (a b : list bytes) : bool := forallb (fun x => existsb (bytes_eqb x) b) a.
Definition same_set_b (a b : list bytes) : bool := subset_b a b && subset_b b a.
Definition opt_bytes_eqb (a b : option bytes) : bool := opt_eqb bytes_eqb a b.
Definition opt_nat_eqb (a b : option nat) : bool := opt_eqb Nat.eqb a b.
Definition res_eqb (a b : option nat * option bytes) : bool :=
  opt_nat_eqb (fst a) (fst b) && opt_bytes_eqb (snd a) (snd b).

Definition is_some_nat (o : option nat) : bool := match o with Some _ => true | None => false end.

Inductive case :=
| CGate (declared : list bytes) (default : bytes) (consumes keys : list bytes)
        (cl_positive hdr nonempty hasbody_impl : bool)
        (parse reparse : option bytes)
        (t_status : option nat) (t_cons : option bytes)
        (u_status : option nat) (u_cons : option bytes)
        (h_status : nat) (h_cons : option bytes) (h_ran : bool).

Definition check_case (c : case) : N :=
  match c with
  | CGate declared default consumes keys cl_positive hdr nonempty hasbody_impl parse reparse
          t_status t_cons u_status u_cons h_status h_cons h_ran =>
    let hb := has_body cl_positive hdr nonempty in
    let mt := (first_status (gate_typed hb parse reparse consumes keys), decoding_consumer (gate_typed hb parse reparse consumes keys)) in
    let mu := (first_status (gate_untyped hb parse reparse consumes keys), decoding_consumer (gate_untyped hb parse reparse consumes keys)) in
    let corr :=
      same_set_b consumes (add_route_consumes declared default) &&
      Bool.eqb hasbody_impl hb &&
      (* model assumption: parsing a parsed media type again gives it back *)
      match parse with Some _ => opt_bytes_eqb reparse parse | None => true end &&
      res_eqb (t_status, t_cons) mt &&
      res_eqb (u_status, u_cons) mu &&
      Nat.eqb h_status (match fst mu with Some c => c | None => 200 end) &&
      opt_bytes_eqb h_cons (snd mu) && Bool.eqb h_ran (negb (is_some_nat (fst mu))) in
    (* the request carries a body: a positive length, or no length header and a readable byte *)
    let ex := expected (cl_positive || (negb hdr && nonempty)) parse consumes keys in
    let prop :=
      res_eqb (t_status, t_cons) ex && res_eqb (u_status, u_cons) ex &&
      Nat.eqb h_status (match fst ex with Some c => c | None => 200 end) &&
      opt_bytes_eqb h_cons (snd ex) && Bool.eqb h_ran (negb (is_some_nat (fst ex))) &&
      (* the API default is always admitted *)
      (is_nilb default || admitted consumes default) in
    verdict corr prop
  end.
