(* Check_C07.v — case format and per-case verdicts for the C07 correspondence run. *)
From V Require Export CaseLib NegotiateSpec.

(* a Go float64: m / 2^k, or not finite *)
Inductive gofloat := FNum (m : Z) (k : Z) | FInf | FNaN.

(* |f - num/den| <= 2^-50 *)
Definition float_near (f : gofloat) (num den : Z) : bool :=
  match f with
  | FNum m k => (Z.abs (m * den - num * 2 ^ k) * 2 ^ 50 <=? den * 2 ^ k)%Z
  | _ => false
  end.
Definition float_is_q (f : gofloat) (q : qv) : bool := float_near f (q_num q) (qd q).

(* f1 <= f2 on finite floats *)
Definition float_le (f1 f2 : gofloat) : bool :=
  match f1, f2 with
  | FNum m1 k1, FNum m2 k2 => (m1 * 2 ^ k2 <=? m2 * 2 ^ k1)%Z
  | _, _ => false
  end.

Inductive case :=
| COctet (c : nat) (t : nat)
| CQual (s : bytes) (f : gofloat) (rest : bytes)
| CQualPair (s1 s2 : bytes) (f1 f2 : gofloat)
| CParse (lines : list bytes) (panicked : bool) (out : list (bytes * gofloat))
         (intended : option (list (bytes * option bytes)))
| CNeg (lines : list bytes) (offers : list bytes) (default : bytes) (panicked : bool) (r : bytes)
| CEnc (lines : list bytes) (offers : list bytes) (panicked : bool) (r : bytes)
| CHandler (lines : list bytes) (route_offers : list bytes) (panicked : bool) (status : nat) (ran : bool)
| CHandlerSeq (declared route_offers : list bytes) (panicked : bool)
              (steps : list (list bytes * nat * bool * bytes)).   (* successive requests on ONE handler instance *)

Definition spec_matches (sp : spec) (o : bytes * gofloat) : bool :=
  bytes_eqb (sval sp) (fst o) && float_is_q (snd o) (sq sp).

(* a range the generator wrote: its q literal, when present, is one expectQuality accepts *)
Definition range_valid (g : bytes * option bytes) : bool :=
  match snd g with
  | None => true
  | Some lit => match q_literal lit with
                | Some _ => bytes_eqb (snd (expect_quality lit)) []   (* nothing trails the number *)
                | None => false
                end
  end.

(* |f - num/den| <= 2^-40 : the parsed quality is the number the literal denotes, up to the
   precision quality values are kept at *)
Definition float_near40 (f : gofloat) (num den : Z) : bool :=
  match f with
  | FNum m k => (Z.abs (m * den - num * 2 ^ k) * 2 ^ 40 <=? den * 2 ^ k)%Z
  | _ => false
  end.

Definition range_matches (g : bytes * option bytes) (o : bytes * gofloat) : bool :=
  bytes_eqb (fst g) (fst o) &&
  match snd g with
  | None => float_near40 (snd o) 1 1
  | Some lit => match q_literal lit with
                | Some (n, d) => float_near40 (snd o) n d
                | None => false
                end
  end.

(* Context.Respond negotiates over the route's produces with the API default (application/json for the untyped API) moved last *)
Definition JSON_MIME : bytes := [97;112;112;108;105;99;97;116;105;111;110;47;106;115;111;110].
Definition respond_offers (offers : list bytes) : list bytes :=
  filter (fun o => negb (bytes_eqb o JSON_MIME)) offers ++ [JSON_MIME].

(* the route's produces (router.go AddRoute, inDeclaredOrder): the operation's declared produces in their declared order,
   each once (first occurrence), then the API default unless it is there already up to letter case. The same definition
   as C08's route_produces_of, repeated here so that C07's files stay self-contained. *)
Fixpoint dedup_first (l : list bytes) : list bytes :=
  match l with
  | [] => []
  | x :: r => x :: filter (fun y => negb (bytes_eqb y x)) (dedup_first r)
  end.
Definition route_of (declared : list bytes) : list bytes :=
  let ps := dedup_first declared in
  if existsb (fun y => bytes_eqb (lower y) (lower JSON_MIME)) ps then ps else ps ++ [JSON_MIME].

(* one request through the API handler: (correspondence, property) *)
Definition handler_step (offers : list bytes) (lines : list bytes) (status : nat) (ran : bool) (ct : option bytes) : bool * bool :=
  match parse_accept lines with
  | Some specs =>
    let acceptable := match specs with [] => true | _ => match scored specs offers with [] => false | _ => true end end in
    let no_offers := match offers with [] => true | _ => false end in
    let expect406 := negb acceptable && negb no_offers in
    let chosen := negotiate_content_type specs offers [] in
    (* when served, the Content-Type is the offer negotiated among the produces list plus the default, last *)
    let ct_ok := match ct with
                 | Some t => if ran then (no_offers || bytes_eqb t (negotiate_content_type specs (respond_offers offers) [])) else true
                 | None => true
                 end in
    let ct_prop := match ct with
                   | Some t => if ran then (no_offers || lexmax_b specs (respond_offers offers) [] t) else true
                   | None => true
                   end in
    (Bool.eqb expect406 (bytes_eqb chosen [] && negb no_offers) &&
     Bool.eqb ran (negb expect406) && Bool.eqb (Nat.eqb status 406) expect406 && ct_ok,
     Bool.eqb ran (negb expect406) && Bool.eqb (Nat.eqb status 406) expect406 && ct_prop)
  | None => (false, true)
  end.

Definition check_case (c : case) : N :=
  match c with
  | COctet c t => verdict (Nat.eqb (octet_type c) t) true
  | CQual s f rest =>
    let '(q, rest') := expect_quality s in
    verdict (float_is_q f q && bytes_eqb rest rest')
            (match f with FNum _ _ => true | _ => false end)
  | CQualPair s1 s2 f1 f2 =>
    (* property clause: a literal denoting a smaller number never gets a larger quality *)
    let corr := float_is_q f1 (fst (expect_quality s1)) && float_is_q f2 (fst (expect_quality s2)) in
    let prop :=
      match q_literal s1, q_literal s2 with
      | Some (n1, d1), Some (n2, d2) =>
        if (n1 * d2 <=? n2 * d1)%Z then float_le f1 f2 else float_le f2 f1
      | _, _ => true
      end in
    verdict corr prop
  | CParse lines panicked out intended =>
    let prop :=
      negb panicked &&
      forallb (fun o => match snd o with FNum m _ => (0 <=? m)%Z | _ => false end) out &&
      match intended with
      | Some l => if forallb range_valid l then list_eqb range_matches l out else true
      | None => true
      end in
    match parse_accept lines with
    | Some specs => verdict (negb panicked && list_eqb spec_matches specs out) prop
    | None => verdict false prop
    end
  | CNeg lines offers default panicked r =>
    match parse_accept lines with
    | Some specs =>
      verdict (negb panicked && bytes_eqb r (negotiate_content_type specs offers default))
              (negb panicked && lexmax_b specs offers default r)
    | None => verdict false (negb panicked)
    end
  | CHandler lines offers panicked status ran =>
    (* through the API handler: nothing acceptable among the route's offers <-> 406 and the handler does not run *)
    match parse_accept lines with
    | Some specs =>
      let acceptable := match specs with [] => true | _ => match scored specs offers with [] => false | _ => true end end in
      let expect406 := negb acceptable && negb (match offers with [] => true | _ => false end) in
      verdict (negb panicked &&
               Bool.eqb expect406 (bytes_eqb (negotiate_content_type specs offers []) [] && negb (match offers with [] => true | _ => false end)) &&
               Bool.eqb ran (negb expect406) && Bool.eqb (Nat.eqb status 406) expect406)
              (negb panicked && Bool.eqb ran (negb expect406) && Bool.eqb (Nat.eqb status 406) expect406)
    | None => verdict false (negb panicked)
    end
  | CHandlerSeq declared offers panicked steps =>
    (* the handler is stateless across requests: every request of the history is answered as if it came alone;
       the offers of the route are the declared produces in declared order, the default last *)
    let rs := map (fun st => match st with (lines, status, ran, ct) => handler_step offers lines status ran (Some ct) end) steps in
    let order_ok := list_eqb bytes_eqb offers (route_of declared) in
    verdict (negb panicked && order_ok && forallb fst rs) (negb panicked && order_ok && forallb snd rs)
  | CEnc lines offers panicked r =>
    match parse_accept lines with
    | Some specs => verdict (negb panicked && bytes_eqb r (negotiate_content_encoding specs offers)) (negb panicked)
    | None => verdict false (negb panicked)
    end
  end.
