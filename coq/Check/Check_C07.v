(* Check_C07.v — case format and per-case verdicts for the C07 correspondence run. *)
From V Require Export CaseLib NegotiateSpec.

(* a Go float64: m / 2^k, or not finite *)
Inductive gofloat := FNum (m : Z) (k : Z) | FInf | FNaN.

(* |f - num/den| <= 2^-50 *)
Definition float_near (f : gofloat) (num den : Z) : bool :=
  match f with
  | FNum m k => (Z.abs (m * den - num * 2 ^ k) * 2 ^ 50 <=? den * 2 ^ k)%Z
  | _ => false
  end.
Definition float_is_q (f : gofloat) (q : qv) : bool := float_near f (q_num q) (qd q).

(* f1 <= f2 on finite floats *)
Definition float_le (f1 f2 : gofloat) : bool :=
  match f1, f2 with
  | FNum m1 k1, FNum m2 k2 => (m1 * 2 ^ k2 <=? m2 * 2 ^ k1)%Z
  | _, _ => false
  end.

Inductive case :=
| COctet (c : nat) (t : nat)
| CQual (s : bytes) (f : gofloat) (rest : bytes)
| CQualPair (s1 s2 : bytes) (f1 f2 : gofloat)
| CParse (lines : list bytes) (panicked : bool) (out : list (bytes * gofloat))
         (intended : option (list (bytes * option bytes)))
| CNeg (lines : list bytes) (offers : list bytes) (default : bytes) (panicked : bool) (r : bytes)
| CEnc (lines : list bytes) (offers : list bytes) (panicked : bool) (r : bytes)
| CHandler (lines : list bytes) (route_offers : list bytes) (panicked : bool) (status : nat) (ran : bool).

Definition spec_matches (sp : spec) (o : bytes * gofloat) : bool :=
  bytes_eqb (sval sp) (fst o) && float_is_q (snd o) (sq sp).

(* a range the generator wrote: its q literal, when present, is one expectQuality accepts *)
Definition range_valid (g : bytes * option bytes) : bool :=
  match snd g with
  | None => true
  | Some lit => match q_literal lit with
                | Some _ => bytes_eqb (snd (expect_quality lit)) []   (* nothing trails the number *)
                | None => false
                end
  end.

(* |f - num/den| <= 2^-40 : the parsed quality is the number the literal denotes, up to the
   precision quality values are kept at *)
Definition float_near40 (f : gofloat) (num den : Z) : bool :=
  match f with
  | FNum m k => (Z.abs (m * den - num * 2 ^ k) * 2 ^ 40 <=? den * 2 ^ k)%Z
  | _ => false
  end.

Definition range_matches (g : bytes * option bytes) (o : bytes * gofloat) : bool :=
  bytes_eqb (fst g) (fst o) &&
  match snd g with
  | None => float_near40 (snd o) 1 1
  | Some lit => match q_literal lit with
                | Some (n, d) => float_near40 (snd o) n d
                | None => false
                end
  end.

Definition check_case (c : case) : N :=
  match c with
  | COctet c t => verdict (Nat.eqb (octet_type c) t) true
  | CQual s f rest =>
    let '(q, rest') := expect_quality s in
    verdict (float_is_q f q && bytes_eqb rest rest')
            (match f with FNum _ _ => true | _ => false end)
  | CQualPair s1 s2 f1 f2 =>
    (* property clause: a literal denoting a smaller number never gets a larger quality *)
    let corr := float_is_q f1 (fst (expect_quality s1)) && float_is_q f2 (fst (expect_quality s2)) in
    let prop :=
      match q_literal s1, q_literal s2 with
      | Some (n1, d1), Some (n2, d2) =>
        if (n1 * d2 <=? n2 * d1)%Z then float_le f1 f2 else float_le f2 f1
      | _, _ => true
      end in
    verdict corr prop
  | CParse lines panicked out intended =>
    let prop :=
      negb panicked &&
      forallb (fun o => match snd o with FNum m _ => (0 <=? m)%Z | _ => false end) out &&
      match intended with
      | Some l => if forallb range_valid l then list_eqb range_matches l out else true
      | None => true
      end in
    match parse_accept lines with
    | Some specs => verdict (negb panicked && list_eqb spec_matches specs out) prop
    | None => verdict false prop
    end
  | CNeg lines offers default panicked r =>
    match parse_accept lines with
    | Some specs =>
      verdict (negb panicked && bytes_eqb r (negotiate_content_type specs offers default))
              (negb panicked && lexmax_b specs offers default r)
    | None => verdict false (negb panicked)
    end
  | CHandler lines offers panicked status ran =>
    (* through the API handler: nothing acceptable among the route's offers <-> 406 and the handler does not run *)
    match parse_accept lines with
    | Some specs =>
      let acceptable := match specs with [] => true | _ => match scored specs offers with [] => false | _ => true end end in
      let expect406 := negb acceptable && negb (match offers with [] => true | _ => false end) in
      verdict (negb panicked &&
               Bool.eqb expect406 (bytes_eqb (negotiate_content_type specs offers []) [] && negb (match offers with [] => true | _ => false end)) &&
               Bool.eqb ran (negb expect406) && Bool.eqb (Nat.eqb status 406) expect406)
              (negb panicked && Bool.eqb ran (negb expect406) && Bool.eqb (Nat.eqb status 406) expect406)
    | None => verdict false (negb panicked)
    end
  | CEnc lines offers panicked r =>
    match parse_accept lines with
    | Some specs => verdict (negb panicked && bytes_eqb r (negotiate_content_encoding specs offers)) (negb panicked)
    | None => verdict false (negb panicked)
    end
  end.
