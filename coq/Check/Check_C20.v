(* Check_C20.v — case format and per-case verdicts for the C20 correspondence run. *)
From V Require Export CaseLib Docs.

Definition ctype_eqb (a b : ctype) : bool :=
  match a, b with CTJson, CTJson | CTHtml, CTHtml | CTPlain, CTPlain => true | _, _ => false end.

(* what the real handler did: 200 with content type and body | next called exactly once (same: with the very same
   *http.Request, path and method untouched, nothing written by the middleware) | 404 | anything else *)
Inductive obs := OServe (ct : ctype) (body : bytes) | ONext (same : bool) | O404 (ct : ctype) | OOther.
Inductive api_obs := OASpec | OAUI | OARouter | OAOther.

(* history cases: what one request got. HOServe carries the whole body *)
Inductive hobs := HOServe (ct : ctype) (body : bytes) | HOSpec | HONext (same : bool) | HO404 (ct : ctype) | HORouter | HOOther.

Inductive case :=
| CClean (p r : bytes)                               (* path.Clean(p) = r *)
| CJoin (elems : list bytes) (r : bytes)             (* path.Join(elems...) = r *)
| CSplit (p d f : bytes)                             (* path.Split(p) = d, f *)
| CSpec (base : bytes) (opath odoc : option bytes) (b : bytes) (has_next : bool) (req : bytes) (o : obs)
  (* a UI middleware. The page itself is not shipped: skel = its markup-significant bytes, base_skel = those of the page
     the same middleware renders for harmless option values; ref = the spec URL found in the page (character references /
     JavaScript escapes undone); ref_path = the URL path the server sees when a browser on that page requests ref (None: it is
     not something that can be fetched over http), want_path = the same for the configured SpecURL itself *)
| CUI (f : flavour) (opts : ui_opts) (has_next : bool) (req : bytes) (o : obs) (skel base_skel : bytes) (ref : option bytes)
      (ref_path want_path : option bytes)
  (* an API handler flavour. abs: SpecURL is absent, an absolute path or an http(s) URL; ref, ref_path, want_path: as above, for
     the page served at the UI path; ref_serves: that request, sent to the same handler, returns the spec; page: skel and
     base_skel of that page *)
| CAPI (f : flavour) (a : api_in) (req : bytes) (o : api_obs) (abs : bool) (ref : option bytes) (ref_path want_path : option bytes)
       (ref_serves : bool) (page : option (bytes * bytes))
  (* 2-4 middlewares / API handlers built in one process (member pages: what each serves when built ALONE, fetched by the
     harness right after building it alone), chained (UI middlewares, each the next handler of the one before; requests go
     to the head) or side by side (a request goes to member number target), and only THEN requested *)
| CHist (chained has_next : bool) (ms : list member) (reqs : list (nat * bytes * hobs)).

Definition obs_matches (ui : bool) (m : outcome) (o : obs) : bool :=
  match m, o with
  | Serve ct body, OServe ct' body' => ctype_eqb ct ct' && (ui || bytes_eqb body body')
  | Next, ONext same => same
  | R404 ct, O404 ct' => ctype_eqb ct ct'
  | _, _ => false
  end.

(* the property on one observation, phrased on the configured document path pth *)
Definition prop_handler (ui : bool) (pth : bytes) (ct : ctype) (body : bytes) (ct404 : ctype) (has_next : bool) (req : bytes) (o : obs) : bool :=
  if bytes_eqb (clean req) pth then
    match o with OServe ct' body' => ctype_eqb ct ct' && (ui || bytes_eqb body body') | _ => false end
  else if has_next then match o with ONext same => same | _ => false end
  else match o with O404 _ => true | _ => false end.

Definition api_obs_eqb (m : api_outcome) (o : api_obs) : bool :=
  match m, o with ASpec, OASpec | AUI, OAUI | ARouter, OARouter => true | _, _ => false end.

(* the page hands on the configured spec URL: literally when it is made of URL-safe bytes; in any case the request a
   browser makes for the reference has the path of the request it would make for the spec URL itself. Up to cleaning:
   whether an encoded dot segment is resolved by the client or left to the server is not the page's business. *)
Definition ref_faithful (spec_url r : bytes) (ref_path want_path : option bytes) : bool :=
  (negb (url_safe spec_url) || bytes_eqb r spec_url) &&
  match want_path with
  | Some w => match ref_path with Some p => bytes_eqb (clean p) (clean w) | None => false end
  | None => true
  end.

Definition hobs_matches (m : houtcome) (o : hobs) : bool :=
  match m, o with
  | HServe ct body, HOServe ct' body' => ctype_eqb ct ct' && bytes_eqb body body'
  | HSpec, HOSpec => true
  | HNext, HONext same => same
  | H404 ct, HO404 ct' => ctype_eqb ct ct'
  | HRouter, HORouter => true
  | _, _ => false
  end.

Definition obs_of_hobs (o : hobs) : obs :=
  match o with HOServe ct b => OServe ct b | HONext s => ONext s | HO404 ct => O404 ct | _ => OOther end.

(* the property on one request of a history, phrased on the configured paths: the page served is the member's own *)
Definition hist_prop (chained has_next : bool) (ms : list member) (r : nat * bytes * hobs) : bool :=
  let '(k, req, o) := r in
  if chained then
    match find (fun m => bytes_eqb (clean req) (member_path m)) ms with
    | Some m => match o with HOServe ct b => ctype_eqb ct CTHtml && bytes_eqb b (member_page m) | _ => false end
    | None => if has_next then match o with HONext same => same | _ => false end
              else match o with HO404 _ => true | _ => false end
    end
  else
    match nth_error ms k with
    | Some (MUI f o' page) => prop_handler false (ui_path f o') CTHtml page CTPlain has_next req (obs_of_hobs o)
    | Some (MAPI f a page) =>
      match o with
      | HOSpec => bytes_eqb (clean req) (api_spec_path a)
      | HOServe ct b => bytes_eqb (clean req) (ui_path f (api_ui_opts a)) && ctype_eqb ct CTHtml && bytes_eqb b page
      | HORouter => negb (bytes_eqb (clean req) (api_spec_path a)) && negb (bytes_eqb (clean req) (ui_path f (api_ui_opts a)))
      | _ => false
      end
    | None => false
    end.

Definition hist_corr (chained has_next : bool) (ms : list member) (r : nat * bytes * hobs) : bool :=
  let '(k, req, o) := r in
  if chained then forallb is_ui_member ms && hobs_matches (chain_handler ms has_next req) o
  else match nth_error ms k with Some m => hobs_matches (member_handler m has_next req) o | None => false end.

Definition check_case (c : case) : N :=
  match c with
  | CClean p r => verdict (bytes_eqb (clean p) r) true
  | CJoin elems r => verdict (bytes_eqb (path_join elems) r) true
  | CSplit p d f => let '(d', f') := path_split p in verdict (bytes_eqb d d' && bytes_eqb f f') true
  | CSpec base opath odoc b has_next req o =>
    verdict (obs_matches false (spec_handler base opath odoc b has_next req) o)
            (prop_handler false (spec_doc_path base opath odoc) CTJson b CTJson has_next req o)
  | CUI f opts has_next req o skel base_skel ref ref_path want_path =>
    let served := match o with OServe _ _ => true | _ => false end in
    let escaped := negb served || bytes_eqb skel base_skel in
    verdict (obs_matches true (serve_ui f opts [] has_next req) o && escaped &&
             match ref with Some r => ref_faithful (u_spec_url (ensure_defaults opts)) r ref_path want_path | None => true end)
            (prop_handler true (ui_path f opts) CTHtml [] CTPlain has_next req o && escaped)
  | CAPI f a req o abs ref ref_path want_path ref_serves page =>
    (* no page can be fetched when the UI path coincides with the spec path (the Spec middleware comes first) *)
    let ui_shadowed := match api_handler f a (ui_path f (api_ui_opts a)) with AUI => false | _ => true end in
    let escaped := match page with Some (skel, base_skel) => bytes_eqb skel base_skel | None => true end in
    verdict (api_obs_eqb (api_handler f a req) o && escaped &&
             Bool.eqb ui_shadowed (match page with Some _ => false | None => true end) &&
             match ref with
             | Some r => ref_faithful (api_spec_ref a) r ref_path want_path && negb ui_shadowed &&
                         (* the oracle url.Parse(SpecURL).Path is, up to cleaning, the path a browser ends up requesting *)
                         (negb (abs && rooted (a_url_path a)) ||
                          match want_path with Some w => bytes_eqb (clean w) (clean (a_url_path a)) | None => false end) &&
                         Bool.eqb ref_serves (match ref_path with
                                              | Some p => match api_handler f a p with ASpec => true | _ => false end
                                              | None => false end)
             | None => ui_shadowed
             end)
            (* UI and spec URL agree whenever the location is absolute; option values stay inert in the page; only the two
               document paths are intercepted *)
            (match ref with Some _ => negb abs || ref_serves | None => true end && escaped &&
             match o with
             | OASpec => bytes_eqb (clean req) (api_spec_path a)
             | OAUI => bytes_eqb (clean req) (ui_path f (api_ui_opts a))
             | OARouter => negb (bytes_eqb (clean req) (api_spec_path a)) && negb (bytes_eqb (clean req) (ui_path f (api_ui_opts a)))
             | OAOther => false
             end)
  | CHist chained has_next ms reqs =>
    verdict (forallb (hist_corr chained has_next ms) reqs) (forallb (hist_prop chained has_next ms) reqs)
  end.
