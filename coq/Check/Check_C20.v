(* Check_C20.v — case format and per-case verdicts for the C20 correspondence run. *)
From V Require Export CaseLib Docs.

Definition ctype_eqb (a b : ctype) : bool :=
  match a, b with CTJson, CTJson | CTHtml, CTHtml | CTPlain, CTPlain => true | _, _ => false end.

(* what the real handler did: 200 with content type and body | next called exactly once (same: with the very same
   *http.Request, path and method untouched, nothing written by the middleware) | 404 | anything else *)
Inductive obs := OServe (ct : ctype) (body : bytes) | ONext (same : bool) | O404 (ct : ctype) | OOther.
Inductive api_obs := OASpec | OAUI | OARouter | OAOther.

Inductive case :=
| CClean (p r : bytes)                               (* path.Clean(p) = r *)
| CJoin (elems : list bytes) (r : bytes)             (* path.Join(elems...) = r *)
| CSplit (p d f : bytes)                             (* path.Split(p) = d, f *)
| CSpec (base : bytes) (opath odoc : option bytes) (b : bytes) (has_next : bool) (req : bytes) (o : obs)
  (* a UI middleware. The page itself is not shipped: skel = its markup-significant bytes, base_skel = those of the page
     the same middleware renders for harmless option values; ref = the spec URL found in the page (default templates,
     URL-safe spec URLs only) *)
| CUI (f : flavour) (opts : ui_opts) (has_next : bool) (req : bytes) (o : obs) (skel base_skel : bytes) (ref : option bytes)
  (* an API handler flavour. abs: SpecURL is an absolute URL or an absolute path; ref: the spec URL found in the page served
     at the UI path; ref_path: url.Parse(ref).Path; ref_serves: requesting ref_path from the same handler returns the spec *)
| CAPI (f : flavour) (a : api_in) (req : bytes) (o : api_obs) (abs : bool) (ref : option bytes) (ref_path : bytes) (ref_serves : bool).

Definition obs_matches (ui : bool) (m : outcome) (o : obs) : bool :=
  match m, o with
  | Serve ct body, OServe ct' body' => ctype_eqb ct ct' && (ui || bytes_eqb body body')
  | Next, ONext same => same
  | R404 ct, O404 ct' => ctype_eqb ct ct'
  | _, _ => false
  end.

(* the property on one observation, phrased on the configured document path pth *)
Definition prop_handler (ui : bool) (pth : bytes) (ct : ctype) (body : bytes) (ct404 : ctype) (has_next : bool) (req : bytes) (o : obs) : bool :=
  if bytes_eqb (clean req) pth then
    match o with OServe ct' body' => ctype_eqb ct ct' && (ui || bytes_eqb body body') | _ => false end
  else if has_next then match o with ONext same => same | _ => false end
  else match o with O404 _ => true | _ => false end.

Definition api_obs_eqb (m : api_outcome) (o : api_obs) : bool :=
  match m, o with ASpec, OASpec | AUI, OAUI | ARouter, OARouter => true | _, _ => false end.

Definition check_case (c : case) : N :=
  match c with
  | CClean p r => verdict (bytes_eqb (clean p) r) true
  | CJoin elems r => verdict (bytes_eqb (path_join elems) r) true
  | CSplit p d f => let '(d', f') := path_split p in verdict (bytes_eqb d d' && bytes_eqb f f') true
  | CSpec base opath odoc b has_next req o =>
    verdict (obs_matches false (spec_handler base opath odoc b has_next req) o)
            (prop_handler false (spec_doc_path base opath odoc) CTJson b CTJson has_next req o)
  | CUI f opts has_next req o skel base_skel ref =>
    let served := match o with OServe _ _ => true | _ => false end in
    let escaped := negb served || bytes_eqb skel base_skel in
    verdict (obs_matches true (serve_ui f opts [] has_next req) o && escaped &&
             match ref with Some r => bytes_eqb r (u_spec_url (ensure_defaults opts)) | None => true end)
            (prop_handler true (ui_path f opts) CTHtml [] CTPlain has_next req o && escaped)
  | CAPI f a req o abs ref ref_path ref_serves =>
    (* no page can be fetched when the UI path coincides with the spec path (the Spec middleware comes first) *)
    let ui_shadowed := match api_handler f a (ui_path f (api_ui_opts a)) with AUI => false | _ => true end in
    verdict (api_obs_eqb (api_handler f a req) o &&
             match ref with
             | Some r => bytes_eqb r (api_spec_ref a) && negb ui_shadowed &&
                         Bool.eqb ref_serves (match api_handler f a ref_path with ASpec => true | _ => false end)
             | None => ui_shadowed
             end)
            (* UI and spec URL agree whenever the location is absolute; only the two document paths are intercepted *)
            (match ref with Some _ => negb abs || ref_serves | None => true end &&
             match o with
             | OASpec => bytes_eqb (clean req) (api_spec_path a)
             | OAUI => bytes_eqb (clean req) (ui_path f (api_ui_opts a))
             | OARouter => negb (bytes_eqb (clean req) (api_spec_path a)) && negb (bytes_eqb (clean req) (ui_path f (api_ui_opts a)))
             | OAOther => false
             end)
  end.
