(* Check_C12.v — case format and per-case verdicts for the C12 correspondence run. *)
From V Require Export CaseLib Lifecycle.

(* Reads with their results logged: (bytes returned, 0 nil / 1 EOF / 2 error) *)
Definition rres_code (r : rres) : nat := match r with RNil => 0 | REof => 1 | RErr => 2 end.
Fixpoint d_reads_log (d : drc) (sizes : list nat) : list (nat * nat) * drc :=
  match sizes with
  | [] => ([], d)
  | k :: r => let '(n, res, d') := d_read d k in
              let '(log, d'') := d_reads_log d' r in ((n, rres_code res) :: log, d'')
  end.

Definition pair_nat_eqb (a b : nat * nat) : bool := Nat.eqb (fst a) (fst b) && Nat.eqb (snd a) (snd b).
(* byte counts of the implementation are binary numbers (bodies of MiB); the model counts in units *)
Definition pair_Nnat_eqb (a b : N * nat) : bool := N.eqb (fst a) (fst b) && Nat.eqb (snd a) (snd b).
Definition in_bytes (unit : N) (n : nat) : N := (N.of_nat n * unit)%N.

Record callobs := mkco {
  co_ok : bool;                   (* Submit returned a result and no error *)
  co_file_closes : list nat;      (* Close count of every upload source, after settling *)
  co_goroutine_gone : bool;       (* no goroutine started by the call is left (polled with a generous bound) *)
  co_resp_opened : nat;           (* response bodies handed out by the transport *)
  co_resp_closes : nat;           (* Close calls on them *)
  co_resp_left : N;               (* bytes left unread in the response body at Close (binary: the body may hold MiB) *)
  co_req_body_closed : bool;      (* the transport stub closed the request body (its contract) *)
  co_in_time : bool               (* the call returned before its effective deadline plus slack *)
}.

(* when the call is timed: the caller's deadline (if any) and the request timeout, relative to the start of the
   call, and how long Submit took (all in nanoseconds: a timeout may be that small); timed = the transport or the response body stalls until
   the context ends, so that the call has to be ended by its effective deadline *)
(* tm_client: the Timeout of the http.Client in use (0: none). It is no part of the bound: it comes on top of the
   request timeout and the caller's deadline and can only end the call earlier (C12_client_timeout_only_shortens);
   the call has to be back by the deadline of the request timeout and the context whatever the client's own timer. *)
Record timing := mktm { tm_timed : bool; tm_parent : option Z; tm_timeout : Z; tm_client : Z; tm_elapsed : Z }.
Definition slack_ns : Z := 2000000000%Z.
Definition in_time (t : timing) : bool :=
  if tm_timed t then
    match must_return_by (tm_parent t) 0 (tm_timeout t) with
    | Some m => (tm_elapsed t <=? m + slack_ns)%Z
    | None => false             (* a stalled exchange without any deadline: not generated *)
    end
  else true.

(* one exchange of a history against a real server: the size of the response body, whether the response reader read it
   to its end, and what was observed of the body the transport handed out: bytes taken off the connection through it,
   whether its end was seen, Close calls; whether Submit succeeded *)
Record xobs := mkxo { xo_size : N; xo_reader_ends : bool; xo_taken : N; xo_ended : bool; xo_closes : nat; xo_ok : bool }.

Inductive case :=
(* CDrain: segments and Read sizes in units of unit bytes (segment i holds S (segs i) units, C12_drain_any_unit);
   the observed byte counts (log, unread) in bytes *)
| CDrain (unit : N) (segs : list nat) (fin : final) (sizes : list nat)
         (log : list (N * nat)) (closes : nat) (unread : N) (ended : bool)
(* CCall: files = per upload source what each of its Reads reports (nil / io.EOF / io.ErrUnexpectedEOF / any other error
   value; sticky), compiled into the goroutine's program by Lifecycle.lower_fx all_fixed *)
| CCall (nvalues : nat) (files : list srcfile) (sc : scenario) (keepalive : bool) (o : callobs) (t : timing)
(* CReuse: sequential calls on ONE Runtime against a real loopback server through a real http.Transport; conns =
   the connections the server saw *)
| CReuse (keepalive : bool) (calls : list xobs) (conns : nat)
| CDeadline (parent : option Z) (timeout : Z) (client : Z) (observed : option Z) (duration : Z).

(* some upload source fails: its first Read that does not return nil reports something else than io.EOF *)
Definition has_failing (files : list srcfile) : bool := existsb src_fails files.

(* the whole request body is consumed before the outcome is decided *)
Definition body_consumed (sc : scenario) : bool :=
  match sc_auth sc with
  | AOk true | AFail true => true
  | _ => sc_debug sc || match sc_transport sc with TRespond None _ => true | _ => false end
  end.

Definition zle (a b : Z) : bool := (a <=? b)%Z.

Definition check_case (c : case) : N :=
  match c with
  | CDrain unit segs fin sizes log closes unread ended =>
    let '(mlog, d) := d_reads_log (d_init segs fin) sizes in
    let corr :=
      list_eqb pair_Nnat_eqb (map (fun e => (in_bytes unit (fst e), snd e)) mlog) log &&
      match d_close 31 d with
      | Some d' => Nat.eqb (u_closes (d_u d')) closes && N.eqb (in_bytes unit (seg_bytes (u_segs (d_u d')))) unread &&
                   Bool.eqb (u_finished (d_u d')) ended
      | None => false
      end in
    (* closed exactly once; the end was reached, by the caller or by the drain; nothing is left, however much
       was still unread when Close was called *)
    verdict corr (Nat.eqb closes 1 && ended && N.eqb unread 0)
  | CCall nvalues files sc keepalive o t =>
    let m := call all_fixed (compile all_fixed nvalues (map (lower_fx all_fixed) files)) sc in
    let nfiles := length files in
    let expect_closes := if c_started m then w_file_closes (c_w m) + c_builder_closes m else c_builder_closes m in
    let corr :=
      Bool.eqb (co_ok o) (match c_result m with ROk => true | RFail => false end) &&
      forallb (Nat.eqb expect_closes) (co_file_closes o) && Nat.eqb (length (co_file_closes o)) nfiles &&
      Bool.eqb (co_goroutine_gone o) (negb (c_started m) || w_done (c_w m)) &&
      Nat.eqb (co_resp_opened o) (c_resp_opened m) && Nat.eqb (co_resp_closes o) (c_resp_closes m) in
    let prop :=
      forallb (Nat.eqb 1) (co_file_closes o) && co_goroutine_gone o &&
      (* a response body that was obtained is closed, exactly once - with Debug on too, the dump of the response
         failing or going through (no case is excused since the repair of F-C12-5; the model, all_fixed, says 1
         wherever a response was obtained: C12_response_closed_exactly_once) *)
      Nat.eqb (co_resp_closes o) (co_resp_opened o) &&
      (if keepalive then N.eqb (co_resp_left o) 0 else true) &&
      (if has_failing files && body_consumed sc && negb (sc_param_err sc) then negb (co_ok o) else true) &&
      co_in_time o && in_time t in
    verdict corr prop
  | CReuse keepalive calls conns =>
    let corr1 (c : xobs) :=
      let m := after_exchange keepalive (xo_reader_ends c) in
      xo_ok c && Bool.eqb (xo_ended c) (x_ended m) && Nat.eqb (xo_closes c) (x_closes m) &&
      (if x_ended m then N.eqb (xo_taken c) (xo_size c) else N.leb (xo_taken c) (xo_size c)) in
    let corr := forallb corr1 calls &&
                Nat.eqb conns (conns_of_history submit_epilogue keepalive (map xo_reader_ends calls)) in
    (* every response body closed exactly once; with connection reuse enabled its end was reached before (every byte of
       it was taken off the connection) and the calls shared one connection *)
    let prop1 (c : xobs) :=
      xo_ok c && Nat.eqb (xo_closes c) 1 &&
      (if keepalive then xo_ended c && N.eqb (xo_taken c) (xo_size c) else true) in
    let prop := forallb prop1 calls &&
                (if keepalive then match calls with [] => true | _ => Nat.eqb conns 1 end else true) in
    verdict corr prop
  | CDeadline parent timeout client observed duration =>
    (* the deadline seen by the transport lies between the effective deadline computed at the start of the
       call and the one computed at its end (times relative to the start); a Timeout of the http.Client in use
       counts from the moment the client is handed the request, which lies in between as well *)
    let lo := effective_deadline_with_client parent 0 timeout client in
    let hi := effective_deadline_with_client parent duration timeout client in
    let ok := match observed, lo, hi with
              | None, None, None => true
              | Some d, Some l, Some h => zle l d && zle d h
              | _, _, _ => false
              end in
    verdict ok ok
  end.
