(* Check_C12.v — case format and per-case verdicts for the C12 correspondence run. *)
From V Require Export CaseLib Lifecycle.

(* Reads with their results logged: (bytes returned, 0 nil / 1 EOF / 2 error) *)
Definition rres_code (r : rres) : nat := match r with RNil => 0 | REof => 1 | RErr => 2 end.
Fixpoint d_reads_log (d : drc) (sizes : list nat) : list (nat * nat) * drc :=
  match sizes with
  | [] => ([], d)
  | k :: r => let '(n, res, d') := d_read d k in
              let '(log, d'') := d_reads_log d' r in ((n, rres_code res) :: log, d'')
  end.

Definition pair_nat_eqb (a b : nat * nat) : bool := Nat.eqb (fst a) (fst b) && Nat.eqb (snd a) (snd b).
(* byte counts of the implementation are binary numbers (bodies of MiB); the model counts in units *)
Definition pair_Nnat_eqb (a b : N * nat) : bool := N.eqb (fst a) (fst b) && Nat.eqb (snd a) (snd b).
Definition in_bytes (unit : N) (n : nat) : N := (N.of_nat n * unit)%N.

Record callobs := mkco {
  co_ok : bool;                   (* Submit returned a result and no error *)
  co_file_closes : list nat;      (* Close count of every upload source, after settling *)
  co_goroutine_gone : bool;       (* no goroutine started by the call is left (polled with a generous bound) *)
  co_resp_opened : nat;           (* response bodies handed out by the transport *)
  co_resp_closes : nat;           (* Close calls on them *)
  co_resp_left : N;               (* bytes left unread in the response body at Close (binary: the body may hold MiB) *)
  co_req_body_closed : bool;      (* the transport stub closed the request body (its contract) *)
  co_in_time : bool               (* the call returned before its effective deadline plus slack *)
}.

(* when the call is timed: the caller's deadline (if any) and the request timeout, relative to the start of the
   call, and how long Submit took (all in nanoseconds: a timeout may be that small); timed = the transport or the response body stalls until
   the context ends, so that the call has to be ended by its effective deadline *)
(* tm_client: the Timeout of the http.Client in use (0: none). It is no part of the bound: it comes on top of the
   request timeout and the caller's deadline and can only end the call earlier (C12_client_timeout_only_shortens);
   the call has to be back by the deadline of the request timeout and the context whatever the client's own timer. *)
Record timing := mktm { tm_timed : bool; tm_parent : option Z; tm_timeout : Z; tm_client : Z; tm_elapsed : Z }.
Definition slack_ns : Z := 2000000000%Z.
Definition in_time (t : timing) : bool :=
  if tm_timed t then
    match must_return_by (tm_parent t) 0 (tm_timeout t) with
    | Some m => (tm_elapsed t <=? m + slack_ns)%Z
    | None => false             (* a stalled exchange without any deadline: not generated *)
    end
  else true.

Inductive case :=
(* CDrain: segments and Read sizes in units of unit bytes (segment i holds S (segs i) units, C12_drain_any_unit);
   the observed byte counts (log, unread) in bytes *)
| CDrain (unit : N) (segs : list nat) (fin : final) (sizes : list nat)
         (log : list (N * nat)) (closes : nat) (unread : N) (ended : bool)
| CCall (nvalues : nat) (files : list fileprog) (sc : scenario) (keepalive : bool) (o : callobs) (t : timing)
| CDeadline (parent : option Z) (timeout : Z) (client : Z) (observed : option Z) (duration : Z).

Definition has_failing (files : list fileprog) : bool :=
  existsb (fun f => (negb (fp_declared f) && negb (fp_sniff_ok f)) || existsb negb (fp_chunks f)) files.

(* the whole request body is consumed before the outcome is decided *)
Definition body_consumed (sc : scenario) : bool :=
  match sc_auth sc with
  | AOk true | AFail true => true
  | _ => sc_debug sc || match sc_transport sc with TRespond None _ => true | _ => false end
  end.

Definition zle (a b : Z) : bool := (a <=? b)%Z.

Definition check_case (c : case) : N :=
  match c with
  | CDrain unit segs fin sizes log closes unread ended =>
    let '(mlog, d) := d_reads_log (d_init segs fin) sizes in
    let corr :=
      list_eqb pair_Nnat_eqb (map (fun e => (in_bytes unit (fst e), snd e)) mlog) log &&
      match d_close 31 d with
      | Some d' => Nat.eqb (u_closes (d_u d')) closes && N.eqb (in_bytes unit (seg_bytes (u_segs (d_u d')))) unread &&
                   Bool.eqb (u_finished (d_u d')) ended
      | None => false
      end in
    (* closed exactly once; the end was reached, by the caller or by the drain; nothing is left, however much
       was still unread when Close was called *)
    verdict corr (Nat.eqb closes 1 && ended && N.eqb unread 0)
  | CCall nvalues files sc keepalive o t =>
    let m := call all_fixed (compile all_fixed nvalues files) sc in
    let nfiles := length files in
    let expect_closes := if c_started m then w_file_closes (c_w m) + c_builder_closes m else c_builder_closes m in
    let corr :=
      Bool.eqb (co_ok o) (match c_result m with ROk => true | RFail => false end) &&
      forallb (Nat.eqb expect_closes) (co_file_closes o) && Nat.eqb (length (co_file_closes o)) nfiles &&
      Bool.eqb (co_goroutine_gone o) (negb (c_started m) || w_done (c_w m)) &&
      Nat.eqb (co_resp_opened o) (c_resp_opened m) && Nat.eqb (co_resp_closes o) (c_resp_closes m) in
    let prop :=
      forallb (Nat.eqb 1) (co_file_closes o) && co_goroutine_gone o &&
      (* a response body that was obtained is closed, exactly once - with Debug on too, the dump of the response
         failing or going through (no case is excused since the repair of F-C12-5; the model, all_fixed, says 1
         wherever a response was obtained: C12_response_closed_exactly_once) *)
      Nat.eqb (co_resp_closes o) (co_resp_opened o) &&
      (if keepalive then N.eqb (co_resp_left o) 0 else true) &&
      (if has_failing files && body_consumed sc && negb (sc_param_err sc) then negb (co_ok o) else true) &&
      co_in_time o && in_time t in
    verdict corr prop
  | CDeadline parent timeout client observed duration =>
    (* the deadline seen by the transport lies between the effective deadline computed at the start of the
       call and the one computed at its end (times relative to the start); a Timeout of the http.Client in use
       counts from the moment the client is handed the request, which lies in between as well *)
    let lo := effective_deadline_with_client parent 0 timeout client in
    let hi := effective_deadline_with_client parent duration timeout client in
    let ok := match observed, lo, hi with
              | None, None, None => true
              | Some d, Some l, Some h => zle l d && zle d h
              | _, _, _ => false
              end in
    verdict ok ok
  end.
