(* Check_C02.v — case format and per-case verdicts for the C02 correspondence run.
   One case = one requirement structure (with the scheme orders the implementation really used), one
   per-scheme outcome table, one authorizer behaviour, one request (parameters valid or not, some response format
   acceptable to its Accept header or none), and three
   observations of the real code on it:
     d_*  RouteAuthenticators.Authenticate called directly,
     b_*  Context.Authorize (the entry point of generated servers): result + principal/scopes left in the request context,
     a_tr the untyped API handler (newSecureAPI around bind + handle) serving the request.
   A history case (CHist) is 2-5 requests on ONE api instance whose schemes are checked by the library's own
   security.* authenticators over a table-driven callback; every request is compared with the single-request model
   (= what a fresh instance answers, which is observed too).
   Each observation carries the trace of instrumented calls (authenticators, authorizer, consumer, handler, response). *)
From V Require Export CaseLib SecuritySpec.

Definition oracle_of (outs : list (nat * outcome)) : oracle :=
  fun s _ => match find (fun x => Nat.eqb (fst x) s) outs with Some (_, o) => o | None => NA end.

(* the authorizer refuses exactly the listed principals, with the listed error *)
Definition authorizer_of (az : option (list (option principal * err))) : authorizer :=
  match az with
  | None => None
  | Some l => Some (fun p => match find (fun x => opt_eqb Nat.eqb (fst x) p) l with Some (_, e) => Some e | None => None end)
  end.

Definition nats_eqb (a b : list nat) : bool := list_eqb Nat.eqb a b.
Definition opt_nat_eqb (a b : option nat) : bool := opt_eqb Nat.eqb a b.

Definition event_eqb (a b : event) : bool :=
  match a, b with
  | AuthCalled s sc, AuthCalled s' sc' => Nat.eqb s s' && nats_eqb sc sc'
  | AuthorizerCalled p, AuthorizerCalled p' => opt_nat_eqb p p'
  | Bind, Bind => true
  | Handle p sc, Handle p' sc' => opt_nat_eqb p p' && nats_eqb sc sc'
  | Respond c m, Respond c' m' => Nat.eqb c c' && Nat.eqb m m'
  | Panicked, Panicked => true
  | _, _ => false
  end.
Definition trace_eqb (a b : list event) : bool := list_eqb event_eqb a b.

Definition authz_eqb (a b : authz) : bool :=
  match a, b with
  (* scopes as a set: allScopes is computed once, in the analyzer's own iteration order *)
  | Granted p sc, Granted p' sc' => opt_nat_eqb p p' && same_set sc sc'
  | Refused e, Refused e' => err_eqb e e'
  | AuthPanic, AuthPanic => true
  | _, _ => false
  end.

(* the untyped operation handler cannot read the request: its Handle event carries no principal *)
Definition erase (ev : event) : event := match ev with Handle _ _ => Handle None [] | _ => ev end.

(* position of the alternative left in MatchedRoute.Authenticator *)
Fixpoint alt_eqb (a b : alt) : bool :=
  match a, b with
  | Anon, Anon => true
  | Reqs l, Reqs l' => list_eqb (fun s s' => Nat.eqb (sname s) (sname s') && nats_eqb (sscopes s) (sscopes s') && Bool.eqb (sreg s) (sreg s')) l l'
  | _, _ => false
  end.

(* HEAD requests: errors.ServeError writes no body, so the message of a refusal is not observable. The model's
   response is compared without its message, and the predicate is evaluated with the expected message filled in
   (it then constrains the status only). *)
Definition head_view (head : bool) (ev : event) : event :=
  match ev with Respond c m => if head then Respond c 0 else ev | _ => ev end.
Definition restore_msg (head : bool) (out : oracle) (alts : list alt) (az : authorizer) (tr : list event) : list event :=
  if head then
    match expected_refusal out alts az tr with
    | Some (Some e) => map (fun ev => match ev with Respond c _ => if 400 <=? c then Respond c (msg_of e) else ev | _ => ev end) tr
    | _ => tr
    end
  else tr.

(* one request of a history: which operation, the credentials the request carries per scheme, parameters valid,
   some response format acceptable to the request (its Accept header against the produces of the operation),
   observed through Context.Authorize (via = true) or the untyped handler, HEAD or not; what the shared instance
   answered and what a fresh instance answers to the same single request *)
Record hcall := mk_hcall { hc_op : nat; hc_creds : list (nat * nat); hc_bind : bool; hc_fmt : bool; hc_via : bool; hc_head : bool;
                           hc_tr : list event; hc_res : authz; hc_ftr : list event; hc_fres : authz }.

(* error values of the harness's validation callbacks: unknown credential / insufficient scope, per scheme *)
Definition h_unk (s : nat) : err := if Nat.eqb s 3 then EPlain 43 else EStatus 401 (40 + s).
Definition h_insuf (s : nat) : err := EStatus 403 (50 + s).

Inductive case :=
| CSec (alts : list alt) (outs : list (nat * outcome)) (az : option (list (option principal * err))) (bind_ok fmt_ok head : bool)
       (d_tr : list event) (d_applies : bool) (d_usr : option principal) (d_err : option err) (d_route : option nat)
       (b_tr : list event) (b_res : authz)
       (a_tr : list event)
| CHist (ops : list (list alt)) (scoped : list nat) (grants : list grant) (az : option (list (option principal * err)))
        (calls : list hcall).

Definition hist_call_check (ops : list (list alt)) (scoped : list nat) (grants : list grant) (azf : authorizer)
           (c : hcall) : bool * bool :=
  let alts := nth (hc_op c) ops [] in
  let out := cred_oracle (fun s => existsb (Nat.eqb s) scoped) h_unk h_insuf grants (hc_creds c) in
  if hc_via c then
    let '(bt, bres) := authorize out alts azf in
    (trace_eqb (hc_tr c) bt && authz_eqb (hc_res c) bres && trace_eqb (hc_ftr c) bt && authz_eqb (hc_fres c) bres,
     authorize_ok out alts azf (hc_tr c) (hc_res c) && authorize_ok out alts azf (hc_ftr c) (hc_fres c))
  else
    let at_ := map (head_view (hc_head c)) (map erase (secure_handler_fmt out alts azf (hc_bind c) (hc_fmt c))) in
    (trace_eqb (hc_tr c) at_ && trace_eqb (hc_ftr c) at_,
     sec_ok_fmt out alts azf (hc_bind c) (hc_fmt c) false (restore_msg (hc_head c) out alts azf (hc_tr c)) &&
     sec_ok_fmt out alts azf (hc_bind c) (hc_fmt c) false (restore_msg (hc_head c) out alts azf (hc_ftr c))).

Definition check_case (c : case) : N :=
  match c with
  | CSec alts outs az bind_ok fmt_ok head d_tr d_applies d_usr d_err d_route b_tr b_res a_tr =>
    let out := oracle_of outs in
    let azf := authorizer_of az in
    let '(mt, mres) := auth_alts out alts in
    let '(bt, bres) := authorize out alts azf in
    let at_ := map (head_view head) (map erase (secure_handler_fmt out alts azf bind_ok fmt_ok)) in
    let granted := d_applies && negb (is_some d_err) in
    let corr :=
      (* direct *)
      trace_eqb d_tr mt && Bool.eqb d_applies (o_applies mres) && opt_nat_eqb d_usr (o_usr mres) &&
      opt_eqb err_eqb d_err (o_err mres) &&
      (if granted then match d_route, o_route mres with
                       | Some i, Some a => match nth_error alts i with Some a' => alt_eqb a a' | None => false end
                       | _, _ => false
                       end
       else true) &&
      (* Context.Authorize; with no requirement it answers (nil, nil, nil) without looking *)
      (if is_nil alts then is_nil b_tr else trace_eqb b_tr bt && authz_eqb b_res bres) &&
      (* full handler *)
      trace_eqb a_tr at_ in
    let prop :=
      authenticate_ok out alts d_tr d_applies d_usr d_err &&
      authorize_ok out alts azf b_tr b_res &&
      sec_ok_fmt out alts azf bind_ok fmt_ok false (restore_msg head out alts azf a_tr) in
    verdict corr prop
  | CHist ops scoped grants az calls =>
    let azf := authorizer_of az in
    let rs := map (hist_call_check ops scoped grants azf) calls in
    verdict (forallb fst rs) (forallb snd rs)
  end.
