(* Check_C02.v — case format and per-case verdicts for the C02 correspondence run.
   One case = one requirement structure (with the scheme orders the implementation really used), one
   per-scheme outcome table, one authorizer behaviour, one request (parameters valid or not), and three
   observations of the real code on it:
     d_*  RouteAuthenticators.Authenticate called directly,
     b_*  Context.Authorize (the entry point of generated servers): result + principal/scopes left in the request context,
     a_tr the untyped API handler (newSecureAPI around bind + handle) serving the request.
   Each observation carries the trace of instrumented calls (authenticators, authorizer, consumer, handler, response). *)
From V Require Export CaseLib SecuritySpec.

Definition oracle_of (outs : list (nat * outcome)) : oracle :=
  fun s _ => match find (fun x => Nat.eqb (fst x) s) outs with Some (_, o) => o | None => NA end.

(* the authorizer refuses exactly the listed principals, with the listed error *)
Definition authorizer_of (az : option (list (option principal * err))) : authorizer :=
  match az with
  | None => None
  | Some l => Some (fun p => match find (fun x => opt_eqb Nat.eqb (fst x) p) l with Some (_, e) => Some e | None => None end)
  end.

Definition nats_eqb (a b : list nat) : bool := list_eqb Nat.eqb a b.
Definition opt_nat_eqb (a b : option nat) : bool := opt_eqb Nat.eqb a b.

Definition event_eqb (a b : event) : bool :=
  match a, b with
  | AuthCalled s sc, AuthCalled s' sc' => Nat.eqb s s' && nats_eqb sc sc'
  | AuthorizerCalled p, AuthorizerCalled p' => opt_nat_eqb p p'
  | Bind, Bind => true
  | Handle p sc, Handle p' sc' => opt_nat_eqb p p' && nats_eqb sc sc'
  | Respond c m, Respond c' m' => Nat.eqb c c' && Nat.eqb m m'
  | Panicked, Panicked => true
  | _, _ => false
  end.
Definition trace_eqb (a b : list event) : bool := list_eqb event_eqb a b.

Definition authz_eqb (a b : authz) : bool :=
  match a, b with
  (* scopes as a set: allScopes is computed once, in the analyzer's own iteration order *)
  | Granted p sc, Granted p' sc' => opt_nat_eqb p p' && same_set sc sc'
  | Refused e, Refused e' => err_eqb e e'
  | AuthPanic, AuthPanic => true
  | _, _ => false
  end.

(* the untyped operation handler cannot read the request: its Handle event carries no principal *)
Definition erase (ev : event) : event := match ev with Handle _ _ => Handle None [] | _ => ev end.

(* position of the alternative left in MatchedRoute.Authenticator *)
Fixpoint alt_eqb (a b : alt) : bool :=
  match a, b with
  | Anon, Anon => true
  | Reqs l, Reqs l' => list_eqb (fun s s' => Nat.eqb (sname s) (sname s') && nats_eqb (sscopes s) (sscopes s') && Bool.eqb (sreg s) (sreg s')) l l'
  | _, _ => false
  end.

Inductive case :=
| CSec (alts : list alt) (outs : list (nat * outcome)) (az : option (list (option principal * err))) (bind_ok : bool)
       (d_tr : list event) (d_applies : bool) (d_usr : option principal) (d_err : option err) (d_route : option nat)
       (b_tr : list event) (b_res : authz)
       (a_tr : list event).

Definition check_case (c : case) : N :=
  match c with
  | CSec alts outs az bind_ok d_tr d_applies d_usr d_err d_route b_tr b_res a_tr =>
    let out := oracle_of outs in
    let azf := authorizer_of az in
    let '(mt, mres) := auth_alts out alts in
    let '(bt, bres) := authorize out alts azf in
    let at_ := map erase (secure_handler out alts azf bind_ok) in
    let granted := d_applies && negb (is_some d_err) in
    let corr :=
      (* direct *)
      trace_eqb d_tr mt && Bool.eqb d_applies (o_applies mres) && opt_nat_eqb d_usr (o_usr mres) &&
      opt_eqb err_eqb d_err (o_err mres) &&
      (if granted then match d_route, o_route mres with
                       | Some i, Some a => match nth_error alts i with Some a' => alt_eqb a a' | None => false end
                       | _, _ => false
                       end
       else true) &&
      (* Context.Authorize; with no requirement it answers (nil, nil, nil) without looking *)
      (if is_nil alts then is_nil b_tr else trace_eqb b_tr bt && authz_eqb b_res bres) &&
      (* full handler *)
      trace_eqb a_tr at_ in
    let prop :=
      authenticate_ok out alts d_tr d_applies d_usr d_err &&
      authorize_ok out alts azf b_tr b_res &&
      sec_ok out alts azf bind_ok false a_tr in
    verdict corr prop
  end.
