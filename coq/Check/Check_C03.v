(* Check_C03.v -- case format and per-case verdicts for the C03 correspondence run. *)
From V Require Export CaseLib BinderSpec BinderFile.
Local Open Scope nat_scope.

(* what the harness saw: the value (with its dynamic Go type) the handler received for the parameter;
   or an error answer (status, error code in the JSON body, whether the message names the parameter);
   or a recovered panic; or something the value language cannot express *)
Inductive obs :=
| OBound (v : gval)
| OErr (status code : nat) (names : bool)
| OPanic
| OOther.

(* one declared parameter of a multi-parameter case: its declaration, its oracle tables, the verdict of its
   validator, and the value the handler received under its name (None: handler did not run / not expressible) *)
Inductive mparam :=
| MP (d : decl) (regs : list bytes) (fmts : list (bytes * bytes * option bytes))
     (floats : list (bytes * option (Z * bool * Z))) (valid : option nat) (got : option gval).

Inductive case :=
| CMulti (ps : list mparam) (rq : request)   (* one operation declaring ps, one request *)
         (ran panicked : bool) (status : nat)
         (named : list bytes)                (* the declared names that the error returned by Bind names *)
| CBind (d : decl) (rq : request)
        (regs : list bytes)                              (* registered formats among those the declaration uses *)
        (fmts : list (bytes * bytes * option bytes))     (* (format, text) -> UnmarshalText rendering, None = error *)
        (floats : list (bytes * option (Z * bool * Z)))  (* text -> ParseFloat answer *)
        (valid : option nat)                             (* validate.ParamValidator on the bound value: first error code *)
        (ran : bool) (o : obs)
| CFile (required : bool) (name : bytes) (rq : freq)   (* one parameter of type file, one form body *)
        (ran panicked : bool) (status code : nat) (names : bool)
        (got : option (bytes * bytes))      (* file name and content the handler received; None: no file *)
| CCanon (sent stored : bytes)              (* http.CanonicalHeaderKey *)
| CInt (txt : bytes) (r : option Z)         (* strconv.ParseInt(txt, 10, 64) as the binder calls it *)
| CSplit (data cf : bytes) (r : list bytes) (* swag.SplitByFormat *)
| CRead (ps : pairs) (k cf : bytes) (single : bytes) (coll : list bytes).  (* runtime.ReadSingleValue / ReadCollectionValue *)

Definition lookup_fmt (tbl : list (bytes * bytes * option bytes)) (f txt : bytes) : option (option bytes) :=
  match List.find (fun e => bytes_eqb (fst (fst e)) f && bytes_eqb (snd (fst e)) txt) tbl with
  | Some e => Some (snd e)
  | None => None
  end.
Definition lookup_float (tbl : list (bytes * option (Z * bool * Z))) (txt : bytes) : option (option (Z * bool * Z)) :=
  match List.find (fun e => bytes_eqb (fst e) txt) tbl with
  | Some e => Some (snd e)
  | None => None
  end.

Definition mk_oracles regs fmts floats : oracles :=
  {| o_registered := fun f => existsb (bytes_eqb f) regs;
     o_format := fun f txt => match lookup_fmt fmts f txt with Some r => r | None => None end;
     o_float := fun txt => match lookup_float floats txt with Some r => r | None => None end |}.

(* every text the model or the specification can put to an oracle has an entry *)
Definition oracle_complete (O : oracles) (d : decl) (rq : request) fmts floats : bool :=
  let occ := occurrences d rq in
  let needed := [] :: occ ++ match d_kind d with
                               | KArray => flat_map (fun v => split_by_format v (d_cf d)) occ
                               | _ => []
                               end in
  match gtype_for O d with
  | Some (GScalar (SFmt f)) | Some (GSlice (SFmt f)) =>
    forallb (fun t => match lookup_fmt fmts f t with Some _ => true | None => false end) needed
  | Some (GScalar SF32) | Some (GScalar SF64) | Some (GSlice SF32) | Some (GSlice SF64) =>
    forallb (fun t => is_nil t || match lookup_float floats t with Some _ => true | None => false end) needed
  | _ => true
  end.

Definition outcome_matches (m : outcome) (ran : bool) (o : obs) : bool :=
  match m, o with
  | Bound v, OBound v' => gval_eqb v v' && ran
  | R422 n c, OErr st c' names => Nat.eqb st 422 && Nat.eqb c c' && names && negb ran
  | Panic _, OPanic => true
  | Unspec, _ => true
  | _, _ => false
  end.

Definition z_range64 (z : Z) : bool := in_int_range 64 z.

(* Multi-parameter requests. judge p = the single-parameter outcome of p for this request (with p's own oracle
   tables). All accepted: the handler runs (200) and receives every value; otherwise 422, the handler does not
   run and the names named by the composite error are exactly those of the parameters rejected one by one. *)
Definition mp_decl (p : mparam) : decl := match p with MP d _ _ _ _ _ => d end.
Definition mp_valid (p : mparam) : option nat := match p with MP _ _ _ _ v _ => v end.
Definition mp_got (p : mparam) : option gval := match p with MP _ _ _ _ _ g => g end.
Definition mp_oracles (p : mparam) : oracles := match p with MP _ regs fmts floats _ _ => mk_oracles regs fmts floats end.
Definition mp_complete (rq : request) (p : mparam) : bool :=
  match p with MP d regs fmts floats _ _ => oracle_complete (mk_oracles regs fmts floats) d rq fmts floats end.

Definition multi_expect (judge : mparam -> outcome) (ps : list mparam) (ran panicked : bool) (status : nat)
           (named : list bytes) : bool :=
  let js := map (fun p => (p, judge p)) ps in
  negb panicked &&
  forallb (fun pj => match snd pj with Bound _ | R422 _ _ => true | _ => false end) js &&
  match map (fun pj => d_name (mp_decl (fst pj))) (filter (fun pj => rejected (snd pj)) js) with
  | [] => ran && Nat.eqb status 200 && is_nil named &&
          forallb (fun pj => match snd pj, mp_got (fst pj) with
                             | Bound v, Some v' => gval_eqb v v'
                             | _, _ => false
                             end) js
  | rej => negb ran && Nat.eqb status 422 && same_names rej named
  end.

Definition check_case (c : case) : N :=
  match c with
  | CMulti ps rq ran panicked status named =>
    let pre := request_wf rq && forallb (mp_complete rq) ps in
    verdict (pre && multi_expect (fun p => bind_param (mp_oracles p) (mp_decl p) rq (mp_valid p)) ps ran panicked status named)
            (multi_expect (fun p => spec_outcome (mp_oracles p) (mp_decl p) rq (mp_valid p)) ps ran panicked status named)
  | CBind d rq regs fmts floats valid ran o =>
    let O := mk_oracles regs fmts floats in
    let pre := request_wf rq && oracle_complete O d rq fmts floats in
    (* the property: the observable is what the specification demands, and never a panic
       (also where the specification has no opinion: an ill-typed default consulted) *)
    verdict (pre && outcome_matches (bind_param O d rq valid) ran o)
            (outcome_matches (spec_outcome O d rq valid) ran o && negb (match o with OPanic => true | _ => false end))
  | CFile required name rq ran panicked status code names got =>
    verdict (negb panicked &&
             match bind_file required name rq, got with
             | FGot f d, Some (f', d') => ran && Nat.eqb status 200 && bytes_eqb f f' && bytes_eqb d d'
             | FNone, None => ran && Nat.eqb status 200
             | FRefused st, None => negb ran && Nat.eqb status st && Nat.eqb code st && names
             | _, _ => false
             end)
            (negb panicked && file_expect required name rq ran status names got)
  | CCanon sent stored => verdict (bytes_eqb (canon_key sent) stored) true
  | CInt txt r =>
    verdict (opt_eqb Z.eqb (parse_int_dec txt) r)
            (opt_eqb Z.eqb (match dec_denotes txt with
                            | Some z => if z_range64 z then Some z else None
                            | None => None
                            end) r)
  | CSplit data cf r => verdict (list_eqb bytes_eqb (split_by_format data cf) r) true
  | CRead ps k cf single coll =>
    verdict (bytes_eqb (read_single_value k ps) single && list_eqb bytes_eqb (read_collection_value k ps cf) coll) true
  end.
