(* Check_C03.v -- case format and per-case verdicts for the C03 correspondence run. *)
From V Require Export CaseLib BinderSpec.
Local Open Scope nat_scope.

(* what the harness saw: the value (with its dynamic Go type) the handler received for the parameter;
   or an error answer (status, error code in the JSON body, whether the message names the parameter);
   or a recovered panic; or something the value language cannot express *)
Inductive obs :=
| OBound (v : gval)
| OErr (status code : nat) (names : bool)
| OPanic
| OOther.

Inductive case :=
| CBind (d : decl) (rq : request)
        (regs : list bytes)                              (* registered formats among those the declaration uses *)
        (fmts : list (bytes * bytes * option bytes))     (* (format, text) -> UnmarshalText rendering, None = error *)
        (floats : list (bytes * option (Z * bool * Z)))  (* text -> ParseFloat answer *)
        (valid : option nat)                             (* validate.ParamValidator on the bound value: first error code *)
        (ran : bool) (o : obs)
| CCanon (sent stored : bytes)              (* http.CanonicalHeaderKey *)
| CInt (txt : bytes) (r : option Z)         (* strconv.ParseInt(txt, 10, 64) as the binder calls it *)
| CSplit (data cf : bytes) (r : list bytes) (* swag.SplitByFormat *)
| CRead (ps : pairs) (k cf : bytes) (single : bytes) (coll : list bytes).  (* runtime.ReadSingleValue / ReadCollectionValue *)

Definition lookup_fmt (tbl : list (bytes * bytes * option bytes)) (f txt : bytes) : option (option bytes) :=
  match List.find (fun e => bytes_eqb (fst (fst e)) f && bytes_eqb (snd (fst e)) txt) tbl with
  | Some e => Some (snd e)
  | None => None
  end.
Definition lookup_float (tbl : list (bytes * option (Z * bool * Z))) (txt : bytes) : option (option (Z * bool * Z)) :=
  match List.find (fun e => bytes_eqb (fst e) txt) tbl with
  | Some e => Some (snd e)
  | None => None
  end.

Definition mk_oracles regs fmts floats : oracles :=
  {| o_registered := fun f => existsb (bytes_eqb f) regs;
     o_format := fun f txt => match lookup_fmt fmts f txt with Some r => r | None => None end;
     o_float := fun txt => match lookup_float floats txt with Some r => r | None => None end |}.

(* every text the model or the specification can put to an oracle has an entry *)
Definition oracle_complete (O : oracles) (d : decl) (rq : request) fmts floats : bool :=
  let occ := occurrences d rq in
  let needed := [] :: occ ++ match d_kind d with
                               | KArray => flat_map (fun v => split_by_format v (d_cf d)) occ
                               | _ => []
                               end in
  match gtype_for O d with
  | Some (GScalar (SFmt f)) | Some (GSlice (SFmt f)) =>
    forallb (fun t => match lookup_fmt fmts f t with Some _ => true | None => false end) needed
  | Some (GScalar SF32) | Some (GScalar SF64) | Some (GSlice SF32) | Some (GSlice SF64) =>
    forallb (fun t => is_nil t || match lookup_float floats t with Some _ => true | None => false end) needed
  | _ => true
  end.

Definition outcome_matches (m : outcome) (ran : bool) (o : obs) : bool :=
  match m, o with
  | Bound v, OBound v' => gval_eqb v v' && ran
  | R422 n c, OErr st c' names => Nat.eqb st 422 && Nat.eqb c c' && names && negb ran
  | Panic _, OPanic => true
  | Unspec, _ => true
  | _, _ => false
  end.

Definition z_range64 (z : Z) : bool := in_int_range 64 z.

Definition check_case (c : case) : N :=
  match c with
  | CBind d rq regs fmts floats valid ran o =>
    let O := mk_oracles regs fmts floats in
    let pre := request_wf rq && oracle_complete O d rq fmts floats in
    (* the property: the observable is what the specification demands, and never a panic
       (also where the specification has no opinion: an ill-typed default consulted) *)
    verdict (pre && outcome_matches (bind_param O d rq valid) ran o)
            (outcome_matches (spec_outcome O d rq valid) ran o && negb (match o with OPanic => true | _ => false end))
  | CCanon sent stored => verdict (bytes_eqb (canon_key sent) stored) true
  | CInt txt r =>
    verdict (opt_eqb Z.eqb (parse_int_dec txt) r)
            (opt_eqb Z.eqb (match dec_denotes txt with
                            | Some z => if z_range64 z then Some z else None
                            | None => None
                            end) r)
  | CSplit data cf r => verdict (list_eqb bytes_eqb (split_by_format data cf) r) true
  | CRead ps k cf single coll =>
    verdict (bytes_eqb (read_single_value k ps) single && list_eqb bytes_eqb (read_collection_value k ps cf) coll) true
  end.
