(* PathUnescapeLib.v — net/url.PathUnescape over byte strings (used by C01). Definitions only.
   Every percent sign must be followed by two hexadecimal digits, otherwise the whole call fails
   (EscapeError); a valid triple stands for the byte it names; every other byte (the plus sign
   included) stands for itself. *)
From V Require Import Bytes.

Definition PCT : byte := 37.

Definition is_hex (c : byte) : bool :=
  ((48 <=? c) && (c <=? 57)) || ((97 <=? c) && (c <=? 102)) || ((65 <=? c) && (c <=? 70)).

Definition unhex (c : byte) : nat :=
  if (48 <=? c) && (c <=? 57) then c - 48
  else if (97 <=? c) && (c <=? 102) then c - 97 + 10
  else if (65 <=? c) && (c <=? 70) then c - 65 + 10
  else 0.

Fixpoint path_unescape (s : bytes) : option bytes :=
  match s with
  | [] => Some []
  | c :: r =>
    if Nat.eqb c PCT then
      match r with
      | h1 :: h2 :: r' =>
        if is_hex h1 && is_hex h2 then
          match path_unescape r' with
          | Some o => Some ((unhex h1 * 16 + unhex h2) :: o)
          | None => None
          end
        else None
      | _ => None
      end
    else
      match path_unescape r with
      | Some o => Some (c :: o)
      | None => None
      end
  end.

(* what defaultRouter.Lookup does with a captured text: the raw text is kept when unescaping fails *)
Definition unescape_or_raw (s : bytes) : bytes :=
  match path_unescape s with Some o => o | None => s end.

(* url.PathEscape restricted to what the statements need: the escaped form of one byte *)
Definition hexdigit (n : nat) : byte := if n <? 10 then 48 + n else 55 + n.
Definition pct_triple (c : byte) : bytes := [PCT; hexdigit (c / 16); hexdigit (c mod 16)].
