(* PathCleanD.v — Go's path.Clean, path.Join and path.Split on byte strings, with the lemmas other models need.
   Self-contained (depends on Bytes.v only).

   Clean is modelled on segments (strings.Split on the slash) with a stack, which is what the byte-level
   lazybuf algorithm of the Go library computes:
     rooted    : empty and dot segments are dropped, dot-dot pops (and is dropped at the root);
     unrooted  : the same, but a dot-dot that cannot pop is kept as a leading dot-dot; the empty result is a dot.
   The model is tied to the real path.Clean/Join/Split by the C20 correspondence run (case kinds clean, join, split). *)
From V Require Export Bytes.

Definition slash : nat := 47.
Definition dot : nat := 46.

Definition is_nil (s : bytes) : bool := match s with [] => true | _ => false end.
Definition is_dot (s : bytes) : bool := bytes_eqb s [dot].
Definition is_dotdot (s : bytes) : bool := bytes_eqb s [dot; dot].
Definition noslash (s : bytes) : bool := forallb (fun c => negb (Nat.eqb c slash)) s.

(* strings.Split(s, slash): never the empty list *)
Fixpoint segments (s : bytes) : list bytes :=
  match s with
  | [] => [[]]
  | x :: r =>
    if Nat.eqb x slash then [] :: segments r
    else match segments r with
         | h :: t => (x :: h) :: t
         | [] => [[x]]
         end
  end.

(* strings.Join(l, slash) *)
Fixpoint join_slash (l : list bytes) : bytes :=
  match l with
  | [] => []
  | s :: r => match r with [] => s | _ => s ++ slash :: join_slash r end
  end.

(* the stack is kept reversed *)
Fixpoint clean_rooted (stk : list bytes) (segs : list bytes) : list bytes :=
  match segs with
  | [] => stk
  | s :: r =>
    if is_nil s || is_dot s then clean_rooted stk r
    else if is_dotdot s then clean_rooted (tl stk) r
    else clean_rooted (s :: stk) r
  end.

(* unrooted: number of leading dot-dot segments already emitted, and the stack above them *)
Fixpoint clean_rel (dd : nat) (stk : list bytes) (segs : list bytes) : nat * list bytes :=
  match segs with
  | [] => (dd, stk)
  | s :: r =>
    if is_nil s || is_dot s then clean_rel dd stk r
    else if is_dotdot s then
      match stk with
      | [] => clean_rel (S dd) [] r
      | _ :: t => clean_rel dd t r
      end
    else clean_rel dd (s :: stk) r
  end.

Definition clean (p : bytes) : bytes :=
  match p with
  | [] => [dot]
  | c :: r =>
    if Nat.eqb c slash then slash :: join_slash (rev (clean_rooted [] (segments r)))
    else
      let '(dd, stk) := clean_rel 0 [] (segments p) in
      match repeat [dot; dot] dd ++ rev stk with
      | [] => [dot]
      | l => join_slash l
      end
  end.

(* path.Join: the non-empty elements joined by slashes, cleaned; the empty string when there is none *)
Definition path_join (elems : list bytes) : bytes :=
  match filter (fun e => negb (is_nil e)) elems with
  | [] => []
  | l => clean (join_slash l)
  end.

(* path.Split: everything up to and including the last slash, and the rest *)
Fixpoint path_split (p : bytes) : bytes * bytes :=
  match p with
  | [] => ([], [])
  | c :: r =>
    let '(d, f) := path_split r in
    if Nat.eqb c slash then (c :: d, f)
    else match d with
         | [] => ([], c :: f)
         | _ => (c :: d, f)
         end
  end.

Definition rooted (p : bytes) : bool := match p with c :: _ => Nat.eqb c slash | [] => false end.

(* a segment of a cleaned rooted path: not empty, not dot, not dot-dot, no slash inside *)
Definition good_seg (s : bytes) : bool :=
  negb (is_nil s) && negb (is_dot s) && negb (is_dotdot s) && noslash s.

(* ------------------------------------------------------------------------------------------------ *)
(* segments / join_slash *)

Lemma segments_nonempty s : segments s <> [].
Proof.
  induction s as [|x r IH]; cbn [segments]; [discriminate|].
  destruct (Nat.eqb x slash); [discriminate|]. destruct (segments r); discriminate.
Qed.

Lemma segments_noslash_id s : noslash s = true -> segments s = [s].
Proof.
  induction s as [|x r IH]; cbn [segments noslash forallb]; [reflexivity|].
  intros H. apply andb_true_iff in H as [Hx Hr]. apply negb_true_iff in Hx. rewrite Hx.
  fold (noslash r) in Hr. now rewrite (IH Hr).
Qed.

Lemma segments_app s r : noslash s = true -> segments (s ++ slash :: r) = s :: segments r.
Proof.
  induction s as [|x s IH]; cbn [app segments noslash forallb]; intros H.
  - now rewrite Nat.eqb_refl.
  - apply andb_true_iff in H as [Hx Hs]. apply negb_true_iff in Hx. rewrite Hx.
    fold (noslash s) in Hs. now rewrite (IH Hs).
Qed.

(* strings.Split distributes over a separator *)
Lemma segments_app_gen a b : segments (a ++ slash :: b) = segments a ++ segments b.
Proof.
  induction a as [|x a IH]; cbn [app segments].
  - now rewrite Nat.eqb_refl.
  - destruct (Nat.eqb x slash) eqn:Hx.
    + now rewrite IH.
    + rewrite IH. destruct (segments a) as [|h t] eqn:Ha; [now destruct (segments_nonempty a)|]. reflexivity.
Qed.

Lemma segments_all_noslash s : Forall (fun x => noslash x = true) (segments s).
Proof.
  induction s as [|x r IH]; cbn [segments].
  - constructor; [reflexivity | constructor].
  - destruct (Nat.eqb x slash) eqn:Hx.
    + constructor; [reflexivity | exact IH].
    + destruct (segments r) as [|h t]; [constructor; [|constructor]|].
      * cbn. now rewrite Hx.
      * inversion IH as [|? ? Hh Ht]; subst. constructor; [|exact Ht]. cbn [noslash forallb]. rewrite Hx. exact Hh.
Qed.

Lemma segments_join l : l <> [] -> Forall (fun x => noslash x = true) l -> segments (join_slash l) = l.
Proof.
  induction l as [|s r IH]; [congruence|]. intros _ H. inversion H as [|? ? Hs Hr]; subst.
  cbn [join_slash]. destruct r as [|s' r'].
  - now apply segments_noslash_id.
  - rewrite segments_app by exact Hs. f_equal. apply IH; [discriminate | exact Hr].
Qed.

Lemma join_segments s : join_slash (segments s) = s.
Proof.
  induction s as [|x r IH]; [reflexivity|]. cbn [segments].
  destruct (Nat.eqb x slash) eqn:Hx.
  - apply Nat.eqb_eq in Hx; subst x. cbn [join_slash].
    destruct (segments r) as [|h t] eqn:Hr; [now destruct (segments_nonempty r)|].
    cbn [app]. now rewrite IH.
  - destruct (segments r) as [|h t] eqn:Hr; [now destruct (segments_nonempty r)|].
    cbn [join_slash] in *. destruct t; cbn [app]; now rewrite IH.
Qed.

(* ------------------------------------------------------------------------------------------------ *)
(* good segments *)

Lemma good_seg_inv s : good_seg s = true ->
  is_nil s = false /\ is_dot s = false /\ is_dotdot s = false /\ noslash s = true.
Proof.
  unfold good_seg. rewrite !andb_true_iff, !negb_true_iff. tauto.
Qed.

Lemma clean_rooted_good stk segs :
  Forall (fun x => noslash x = true) segs -> Forall (fun x => good_seg x = true) stk ->
  Forall (fun x => good_seg x = true) (clean_rooted stk segs).
Proof.
  revert stk; induction segs as [|s r IH]; intros stk Hn Hg; cbn [clean_rooted]; [exact Hg|].
  inversion Hn as [|? ? Hs Hr]; subst.
  destruct (is_nil s || is_dot s) eqn:E1; [now apply IH|].
  destruct (is_dotdot s) eqn:E2.
  - apply IH; [exact Hr|]. destruct stk; cbn [tl]; [constructor | now inversion Hg].
  - apply IH; [exact Hr|]. constructor; [|exact Hg].
    apply orb_false_iff in E1 as [E1a E1b]. unfold good_seg. now rewrite E1a, E1b, E2, Hs.
Qed.

(* cleaning an already clean list of segments pushes them all *)
Lemma clean_rooted_id stk l :
  Forall (fun x => good_seg x = true) l -> clean_rooted stk l = rev l ++ stk.
Proof.
  revert stk; induction l as [|s r IH]; intros stk H; cbn [clean_rooted rev app]; [reflexivity|].
  inversion H as [|? ? Hs Hr]; subst. apply good_seg_inv in Hs as (E1 & E2 & E3 & _).
  rewrite E1, E2, E3. cbn [orb]. rewrite (IH _ Hr), <- app_assoc. reflexivity.
Qed.

Lemma clean_rel_id dd stk l :
  Forall (fun x => good_seg x = true) l -> clean_rel dd stk l = (dd, rev l ++ stk).
Proof.
  revert stk; induction l as [|s r IH]; intros stk H; cbn [clean_rel rev app]; [reflexivity|].
  inversion H as [|? ? Hs Hr]; subst. apply good_seg_inv in Hs as (E1 & E2 & E3 & _).
  rewrite E1, E2, E3. cbn [orb]. rewrite (IH _ Hr), <- app_assoc. reflexivity.
Qed.

Lemma clean_rel_good dd stk segs :
  Forall (fun x => noslash x = true) segs -> Forall (fun x => good_seg x = true) stk ->
  Forall (fun x => good_seg x = true) (snd (clean_rel dd stk segs)).
Proof.
  revert dd stk; induction segs as [|s r IH]; intros dd stk Hn Hg; cbn [clean_rel]; [exact Hg|].
  inversion Hn as [|? ? Hs Hr]; subst.
  destruct (is_nil s || is_dot s) eqn:E1; [now apply IH|].
  destruct (is_dotdot s) eqn:E2.
  - destruct stk as [|x t]; [apply IH; [exact Hr | constructor]|].
    apply IH; [exact Hr | now inversion Hg].
  - apply IH; [exact Hr|]. constructor; [|exact Hg].
    apply orb_false_iff in E1 as [E1a E1b]. unfold good_seg. now rewrite E1a, E1b, E2, Hs.
Qed.

(* dot-dot segments at the front of an unrooted path stay *)
Lemma clean_rel_dotdots n dd l : clean_rel dd [] (repeat [dot; dot] n ++ l) = clean_rel (n + dd) [] l.
Proof.
  revert dd; induction n as [|n IH]; intros dd; cbn [repeat app]; [reflexivity|].
  cbn [clean_rel]. replace (is_nil [dot; dot] || is_dot [dot; dot]) with false by reflexivity.
  replace (is_dotdot [dot; dot]) with true by reflexivity. rewrite IH. f_equal. lia.
Qed.

(* ------------------------------------------------------------------------------------------------ *)
(* the shape of a cleaned path *)

Lemma Forall_rev {A} (P : A -> Prop) l : Forall P l -> Forall P (rev l).
Proof. intros H. apply Forall_forall. intros x Hx. apply in_rev in Hx. revert x Hx. now apply Forall_forall. Qed.

(* a rooted input yields the slash followed by good segments joined by slashes *)
Theorem clean_rooted_shape p : rooted p = true ->
  exists segs, clean p = slash :: join_slash segs /\ Forall (fun x => good_seg x = true) segs.
Proof.
  destruct p as [|c r]; [discriminate|]. cbn [rooted]. intros Hc. unfold clean. rewrite Hc.
  exists (rev (clean_rooted [] (segments r))). split; [reflexivity|].
  apply Forall_rev. apply clean_rooted_good; [apply segments_all_noslash | constructor].
Qed.

Lemma good_seg_nonempty_last s : good_seg s = true -> s <> [] /\ last s 0 <> slash.
Proof.
  intros H. apply good_seg_inv in H as (E1 & _ & _ & E4). split; [destruct s; [discriminate | discriminate]|].
  clear E1. induction s as [|x s IH]; cbn [last]; [discriminate|].
  cbn [noslash forallb] in E4. apply andb_true_iff in E4 as [Hx Hs]. fold (noslash s) in Hs.
  destruct s as [|y s']; [|now apply IH].
  apply negb_true_iff, Nat.eqb_neq in Hx. exact Hx.
Qed.

Lemma last_app_cons {A} (a : list A) x b d : last (a ++ x :: b) d = last (x :: b) d.
Proof.
  induction a as [|y a IH]; [reflexivity|]. cbn [app]. destruct (a ++ x :: b) as [|z l] eqn:E.
  - destruct a; discriminate.
  - change (last (y :: z :: l) d) with (last (z :: l) d). exact IH.
Qed.

Lemma join_slash_last l : l <> [] -> Forall (fun x => good_seg x = true) l -> last (join_slash l) 0 <> slash.
Proof.
  induction l as [|s r IH]; [congruence|]. intros _ H. inversion H as [|? ? Hs Hr]; subst.
  cbn [join_slash]. destruct r as [|s' r'].
  - now apply good_seg_nonempty_last.
  - rewrite last_app_cons. cbn [last].
    destruct (join_slash (s' :: r')) eqn:E.
    + exfalso. cbn [join_slash] in E. inversion Hr as [|? ? Hs' _]; subst.
      apply good_seg_nonempty_last in Hs' as [Hne _]. destruct r'; [congruence | destruct s'; [congruence | discriminate]].
    + apply IH; [discriminate | exact Hr].
Qed.

(* no trailing slash except for the root *)
Theorem clean_no_trailing_slash p : rooted p = true -> clean p = [slash] \/ last (clean p) 0 <> slash.
Proof.
  intros Hr. destruct (clean_rooted_shape p Hr) as [segs [-> Hg]].
  destruct segs as [|s r]; [now left|]. right.
  change (slash :: join_slash (s :: r)) with ([] ++ slash :: join_slash (s :: r)).
  assert (Hne : join_slash (s :: r) <> []).
  { cbn [join_slash]. inversion Hg as [|? ? Hs _]; subst. apply good_seg_nonempty_last in Hs as [Hne _].
    destruct r; [exact Hne | destruct s; [congruence | discriminate]]. }
  cbn [app last]. destruct (join_slash (s :: r)) eqn:E; [congruence|]. rewrite <- E.
  apply join_slash_last; [discriminate | exact Hg].
Qed.

Theorem clean_rooted_is_rooted p : rooted p = true -> rooted (clean p) = true.
Proof. intros Hr. destruct (clean_rooted_shape p Hr) as [segs [-> _]]. reflexivity. Qed.

(* ------------------------------------------------------------------------------------------------ *)
(* idempotence *)

Lemma good_all_noslash l : Forall (fun x => good_seg x = true) l -> Forall (fun x => noslash x = true) l.
Proof. intros H. eapply Forall_impl; [|exact H]. intros s Hs. now apply good_seg_inv in Hs. Qed.

Lemma clean_of_good_rooted segs : Forall (fun x => good_seg x = true) segs ->
  clean (slash :: join_slash segs) = slash :: join_slash segs.
Proof.
  intros Hg. unfold clean. rewrite Nat.eqb_refl. f_equal. f_equal.
  destruct segs as [|s r]; [reflexivity|].
  rewrite segments_join; [|discriminate | now apply good_all_noslash].
  rewrite clean_rooted_id by exact Hg. rewrite app_nil_r. apply rev_involutive.
Qed.

Lemma dotdot_good_or n l :
  Forall (fun x => good_seg x = true) l ->
  Forall (fun x => noslash x = true) (repeat [dot; dot] n ++ l).
Proof.
  intros H. apply Forall_app. split; [|now apply good_all_noslash].
  apply Forall_forall. intros x Hx. apply repeat_spec in Hx. subst. reflexivity.
Qed.

Lemma join_slash_head_noslash l c r :
  l <> [] -> Forall (fun x => noslash x = true) l -> hd [] l <> [] -> join_slash l = c :: r -> Nat.eqb c slash = false.
Proof.
  destruct l as [|s t]; [congruence|]. intros _ H Hne E. inversion H as [|? ? Hs _]; subst. cbn [hd] in Hne.
  destruct s as [|x s']; [congruence|]. cbn [noslash forallb] in Hs. apply andb_true_iff in Hs as [Hx _].
  apply negb_true_iff in Hx. cbn [join_slash] in E. destruct t; cbn [app] in E; inversion E; subst; exact Hx.
Qed.

Theorem clean_idem p : clean (clean p) = clean p.
Proof.
  destruct p as [|c r]; [reflexivity|].
  destruct (Nat.eqb c slash) eqn:Hc.
  - destruct (clean_rooted_shape (c :: r)) as [segs [-> Hg]]; [exact Hc|]. now apply clean_of_good_rooted.
  - assert (H : exists dd l, Forall (fun x => good_seg x = true) l /\
                 clean (c :: r) = match repeat [dot; dot] dd ++ l with [] => [dot] | l' => join_slash l' end).
    { unfold clean. rewrite Hc.
      destruct (clean_rel 0 [] (segments (c :: r))) as [dd stk] eqn:E.
      exists dd, (rev stk). split; [|reflexivity].
      apply Forall_rev. pose proof (clean_rel_good 0 [] (segments (c :: r)) (segments_all_noslash _) (Forall_nil _)) as H.
      now rewrite E in H. }
    destruct H as (dd & l & Hg & ->).
    destruct (repeat [dot; dot] dd ++ l) as [|s t] eqn:El; [reflexivity|].
    assert (Hns : Forall (fun x => noslash x = true) (s :: t)) by (rewrite <- El; now apply dotdot_good_or).
    assert (Hhd : s <> []).
    { destruct dd as [|dd]; cbn [repeat app] in El.
      - subst l. inversion Hg as [|? ? Hs _]; subst. now apply good_seg_nonempty_last in Hs as [Hne _].
      - inversion El; subst. discriminate. }
    destruct (join_slash (s :: t)) as [|c' r'] eqn:Ej.
    { exfalso. destruct t; cbn in Ej; [exact (Hhd Ej) | destruct s; [now apply Hhd | discriminate]]. }
    assert (Hc' : Nat.eqb c' slash = false).
    { eapply join_slash_head_noslash; [| exact Hns | exact Hhd | exact Ej]. discriminate. }
    unfold clean. rewrite Hc'. rewrite <- Ej.
    rewrite segments_join; [|discriminate | exact Hns]. rewrite <- El.
    rewrite clean_rel_dotdots, clean_rel_id by exact Hg. rewrite app_nil_r, rev_involutive, Nat.add_0_r.
    rewrite El. reflexivity.
Qed.

(* ------------------------------------------------------------------------------------------------ *)
(* empty segments do not matter: doubling a slash, or a trailing slash *)

Lemma clean_rooted_app stk a b : clean_rooted stk (a ++ b) = clean_rooted (clean_rooted stk a) b.
Proof.
  revert stk; induction a as [|s r IH]; intros stk; cbn [app clean_rooted]; [reflexivity|].
  destruct (is_nil s || is_dot s); [apply IH|]. destruct (is_dotdot s); apply IH.
Qed.

(* a and b are the parts before and after a slash of a rooted path (without its leading slash) *)
Lemma clean_double_slash a b :
  clean (slash :: a ++ slash :: slash :: b) = clean (slash :: a ++ slash :: b).
Proof.
  unfold clean. rewrite Nat.eqb_refl. do 3 f_equal.
  rewrite !segments_app_gen. change (segments (slash :: b)) with ([] :: segments b).
  rewrite !clean_rooted_app. reflexivity.
Qed.

Lemma clean_trailing_slash a : clean (slash :: a ++ [slash]) = clean (slash :: a).
Proof.
  unfold clean. rewrite Nat.eqb_refl. do 3 f_equal.
  rewrite segments_app_gen. rewrite clean_rooted_app. reflexivity.
Qed.

(* ------------------------------------------------------------------------------------------------ *)
(* path.Split *)

Lemma path_split_app p : fst (path_split p) ++ snd (path_split p) = p.
Proof.
  induction p as [|c r IH]; [reflexivity|]. cbn [path_split].
  destruct (path_split r) as [d f]. cbn [fst snd] in IH.
  destruct (Nat.eqb c slash); [cbn; now rewrite IH|].
  destruct d; cbn in *; now rewrite IH.
Qed.

Lemma path_split_file_noslash p : noslash (snd (path_split p)) = true.
Proof.
  induction p as [|c r IH]; [reflexivity|]. cbn [path_split].
  destruct (path_split r) as [d f]. cbn [snd] in IH.
  destruct (Nat.eqb c slash) eqn:Hc; [exact IH|].
  destruct d; cbn [snd]; [|exact IH]. cbn [noslash forallb]. rewrite Hc. exact IH.
Qed.

Lemma path_split_dir p : fst (path_split p) = [] \/ exists d, fst (path_split p) = d ++ [slash].
Proof.
  induction p as [|c r IH]; [now left|]. cbn [path_split].
  destruct (path_split r) as [d f]. cbn [fst] in IH.
  destruct (Nat.eqb c slash) eqn:Hc.
  - right. apply Nat.eqb_eq in Hc; subst c. destruct IH as [-> | [d' ->]]; [now exists [] | now exists (slash :: d')].
  - destruct d as [|x d'] eqn:Ed; [now left|]. right.
    destruct IH as [IH | [d'' IH]]; [discriminate|]. exists (c :: d''). cbn [fst]. now rewrite IH.
Qed.

(* examples (also a smoke test of the definitions against the documented behaviour of the Go functions) *)
Example clean_ex1 : clean [47;97;47;47;98;47;46;47;99;47;46;46;47] = [47;97;47;98]. Proof. reflexivity. Qed.   (* /a//b/./c/../ -> /a/b *)
Example clean_ex2 : clean [47;46;46;47;46;46] = [47]. Proof. reflexivity. Qed.                                    (* /../.. -> / *)
Example clean_ex3 : clean [97;47;46;46;47;46;46;47;98] = [46;46;47;98]. Proof. reflexivity. Qed.                  (* a/../../b -> ../b *)
Example clean_ex4 : clean [46;47] = [46]. Proof. reflexivity. Qed.                                                (* ./ -> . *)
Example join_ex1 : path_join [[47]; []; [97;46;106]] = [47;97;46;106]. Proof. reflexivity. Qed.                   (* Join(/, , a.j) -> /a.j *)
Example join_ex2 : path_join [[]; []] = []. Proof. reflexivity. Qed.
Example split_ex1 : path_split [47;97;47;98] = ([47;97;47], [98]). Proof. reflexivity. Qed.
Example split_ex2 : path_split [97;98] = ([], [97;98]). Proof. reflexivity. Qed.
