(* Base64Std.v — model of encoding/base64 StdEncoding (padded, non-strict decoding of text without
   line breaks), with the round trip for all byte strings. *)
From V Require Import Bytes.
From Coq Require Import ZArith Lia ZifyNat.
Ltac Zify.zify_post_hook ::= Z.div_mod_to_equations.

(* digit value -> character: A-Z a-z 0-9 + / *)
Definition b64_ix (n : nat) : nat :=
  if n <? 26 then 65 + n
  else if n <? 52 then 97 + (n - 26)
  else if n <? 62 then 48 + (n - 52)
  else if n =? 62 then 43 else 47.

(* character -> digit value *)
Definition b64_unix (c : nat) : option nat :=
  if (65 <=? c) && (c <=? 90) then Some (c - 65)
  else if (97 <=? c) && (c <=? 122) then Some (c - 97 + 26)
  else if (48 <=? c) && (c <=? 57) then Some (c - 48 + 52)
  else if c =? 43 then Some 62
  else if c =? 47 then Some 63
  else None.

Fixpoint b64_encode (s : bytes) : bytes :=
  match s with
  | [] => []
  | a :: r1 =>
    match r1 with
    | [] => [b64_ix (a / 4); b64_ix ((a mod 4) * 16); 61; 61]
    | b :: r2 =>
      match r2 with
      | [] => [b64_ix (a / 4); b64_ix ((a mod 4) * 16 + b / 16); b64_ix ((b mod 16) * 4); 61]
      | c :: r => b64_ix (a / 4) :: b64_ix ((a mod 4) * 16 + b / 16) :: b64_ix ((b mod 16) * 4 + c / 64)
                  :: b64_ix (c mod 64) :: b64_encode r
      end
    end
  end.

(* DecodeString: None = CorruptInputError. Groups of four; padding only in the last group; the unused
   low bits of the last digit are ignored (the default, non-strict, decoder) *)
Fixpoint b64_decode (s : bytes) : option bytes :=
  match s with
  | [] => Some []
  | c1 :: c2 :: c3 :: c4 :: r =>
    match b64_unix c1, b64_unix c2 with
    | Some d1, Some d2 =>
      if c3 =? 61 then
        (if c4 =? 61 then match r with [] => Some [d1 * 4 + d2 / 16] | _ => None end else None)
      else
        match b64_unix c3 with
        | None => None
        | Some d3 =>
          if c4 =? 61 then
            match r with [] => Some [d1 * 4 + d2 / 16; (d2 mod 16) * 16 + d3 / 4] | _ => None end
          else
            match b64_unix c4 with
            | None => None
            | Some d4 =>
              match b64_decode r with
              | Some t => Some ((d1 * 4 + d2 / 16) :: ((d2 mod 16) * 16 + d3 / 4) :: ((d3 mod 4) * 64 + d4) :: t)
              | None => None
              end
            end
        end
    | _, _ => None
    end
  | _ => None
  end.

Definition digit_ok (n : nat) : bool :=
  opt_eqb Nat.eqb (b64_unix (b64_ix n)) (Some n) && negb (b64_ix n =? 61) && (b64_ix n <? 128) && (32 <? b64_ix n).

Lemma digit_ok_all : forall n, n < 64 -> digit_ok n = true.
Proof.
  intros n Hn. assert (H : forallb digit_ok (seq 0 64) = true) by (vm_compute; reflexivity).
  rewrite forallb_forall in H. apply H. apply in_seq. lia.
Qed.

Lemma digit_parts n : n < 64 -> b64_unix (b64_ix n) = Some n /\ (b64_ix n =? 61) = false.
Proof.
  intros Hn. pose proof (digit_ok_all n Hn) as H. unfold digit_ok in H.
  apply andb_true_iff in H as [H _]. apply andb_true_iff in H as [H _].
  apply andb_true_iff in H as [H1 H2]. split.
  - destruct (b64_unix (b64_ix n)) as [m|]; cbn [opt_eqb] in H1; [|discriminate].
    apply Nat.eqb_eq in H1. now subst.
  - now apply negb_true_iff.
Qed.

Lemma b64_step (P : list nat -> Prop) :
  P [] -> (forall a, P [a]) -> (forall a b, P [a; b]) ->
  (forall a b c r, P r -> P (a :: b :: c :: r)) -> forall s : list nat, P s.
Proof.
  intros H0 H1 H2 H3.
  fix IH 1. intros [|a [|b [|c r]]]; [exact H0 | apply H1 | apply H2 | apply H3; apply IH].
Qed.

Theorem b64_roundtrip : forall s, Forall (fun c => c < 256) s -> b64_decode (b64_encode s) = Some s.
Proof.
  induction s as [| a | a b | a b c r IH] using b64_step; intros Hs.
  - reflexivity.
  - inversion Hs as [|? ? Ha _]; subst.
    cbn [b64_encode b64_decode].
    destruct (digit_parts (a / 4)) as [E1 _]; [lia|].
    destruct (digit_parts ((a mod 4) * 16)) as [E2 _]; [lia|].
    rewrite E1, E2. cbn [Nat.eqb]. f_equal. f_equal. lia.
  - inversion Hs as [|? ? Ha Hs']; subst. inversion Hs' as [|? ? Hb _]; subst.
    cbn [b64_encode b64_decode].
    destruct (digit_parts (a / 4)) as [E1 _]; [lia|].
    destruct (digit_parts ((a mod 4) * 16 + b / 16)) as [E2 _]; [lia|].
    destruct (digit_parts ((b mod 16) * 4)) as [E3 N3]; [lia|].
    rewrite E1, E2, N3, E3. cbn [Nat.eqb]. f_equal. f_equal; [lia|]. f_equal. lia.
  - inversion Hs as [|? ? Ha Hs1]; subst. inversion Hs1 as [|? ? Hb Hs2]; subst. inversion Hs2 as [|? ? Hc Hr]; subst.
    cbn [b64_encode b64_decode].
    destruct (digit_parts (a / 4)) as [E1 _]; [lia|].
    destruct (digit_parts ((a mod 4) * 16 + b / 16)) as [E2 _]; [lia|].
    destruct (digit_parts ((b mod 16) * 4 + c / 64)) as [E3 N3]; [lia|].
    destruct (digit_parts (c mod 64)) as [E4 N4]; [lia|].
    rewrite E1, E2, N3, E3, N4, E4, (IH Hr).
    f_equal. f_equal; [lia|]. f_equal; [lia|]. f_equal. lia.
Qed.

(* the encoding uses printable ASCII only (it survives a header line unchanged) *)
Lemma b64_encode_printable : forall s, Forall (fun c => c < 256) s ->
  Forall (fun c => 32 < c /\ c < 128) (b64_encode s).
Proof.
  assert (D : forall n, n < 64 -> 32 < b64_ix n /\ b64_ix n < 128).
  { intros n Hn. pose proof (digit_ok_all n Hn) as H. unfold digit_ok in H.
    apply andb_true_iff in H as [H H4]. apply andb_true_iff in H as [_ H3].
    apply Nat.ltb_lt in H3, H4. lia. }
  induction s as [| a | a b | a b c r IH] using b64_step; intros Hs.
  - constructor.
  - inversion Hs as [|? ? Ha _]; subst. cbn [b64_encode].
    constructor; [apply D; lia|]. constructor; [apply D; lia|].
    constructor; [lia|]. constructor; [lia|]. constructor.
  - inversion Hs as [|? ? Ha Hs']; subst. inversion Hs' as [|? ? Hb _]; subst. cbn [b64_encode].
    constructor; [apply D; lia|]. constructor; [apply D; lia|]. constructor; [apply D; lia|].
    constructor; [lia|]. constructor.
  - inversion Hs as [|? ? Ha Hs1]; subst. inversion Hs1 as [|? ? Hb Hs2]; subst. inversion Hs2 as [|? ? Hc Hr]; subst.
    cbn [b64_encode]. repeat (constructor; [apply D; lia|]). now apply IH.
Qed.
