(* Bytes.v — byte strings as lists of naturals (values < 256 when it matters). *)
From Coq Require Export List Arith Bool ZArith NArith Lia.
Export ListNotations.

Definition byte := nat.
Definition bytes := list byte.

Fixpoint bytes_eqb (a b : bytes) : bool :=
  match a, b with
  | [], [] => true
  | x :: a', y :: b' => Nat.eqb x y && bytes_eqb a' b'
  | _, _ => false
  end.

Fixpoint has_prefix (p s : bytes) : bool :=
  match p, s with
  | [], _ => true
  | x :: p', y :: s' => Nat.eqb x y && has_prefix p' s'
  | _ :: _, [] => false
  end.

Definition has_suffix (p s : bytes) : bool := has_prefix (rev p) (rev s).

(* longest prefix whose bytes satisfy f, and the rest *)
Fixpoint span (f : byte -> bool) (s : bytes) : bytes * bytes :=
  match s with
  | [] => ([], [])
  | c :: r => if f c then let '(a, b) := span f r in (c :: a, b) else ([], s)
  end.

Fixpoint drop_while (f : byte -> bool) (s : bytes) : bytes :=
  match s with
  | [] => []
  | c :: r => if f c then drop_while f r else s
  end.

Definition mem_byte (c : byte) (l : bytes) : bool := existsb (Nat.eqb c) l.

Definition opt_eqb {A} (f : A -> A -> bool) (a b : option A) : bool :=
  match a, b with
  | Some x, Some y => f x y
  | None, None => true
  | _, _ => false
  end.

Fixpoint list_eqb {A B} (f : A -> B -> bool) (a : list A) (b : list B) : bool :=
  match a, b with
  | [], [] => true
  | x :: a', y :: b' => f x y && list_eqb f a' b'
  | _, _ => false
  end.

Definition to_lower (c : byte) : byte := if (65 <=? c) && (c <=? 90) then c + 32 else c.
Definition to_upper (c : byte) : byte := if (97 <=? c) && (c <=? 122) then c - 32 else c.
Definition lower (s : bytes) : bytes := map to_lower s.
Definition upper (s : bytes) : bytes := map to_upper s.

(* ---- basic facts ---- *)
Lemma bytes_eqb_refl a : bytes_eqb a a = true.
Proof. induction a as [|x a IH]; simpl; [reflexivity|]. now rewrite Nat.eqb_refl, IH. Qed.

Lemma bytes_eqb_eq a b : bytes_eqb a b = true <-> a = b.
Proof.
  revert b; induction a as [|x a IH]; intros [|y b]; simpl; split; intro H;
    try reflexivity; try discriminate.
  - apply andb_true_iff in H as [H1 H2]. apply Nat.eqb_eq in H1. apply IH in H2. now subst.
  - inversion H; subst. now rewrite Nat.eqb_refl, bytes_eqb_refl.
Qed.

Lemma bytes_eqb_neq a b : bytes_eqb a b = false <-> a <> b.
Proof.
  split; intro H.
  - intro E. apply bytes_eqb_eq in E. congruence.
  - destruct (bytes_eqb a b) eqn:E; [|reflexivity]. apply bytes_eqb_eq in E. contradiction.
Qed.

Lemma has_prefix_app p s : has_prefix p (p ++ s) = true.
Proof. induction p as [|x p IH]; simpl; [reflexivity|]. now rewrite Nat.eqb_refl. Qed.

Lemma has_prefix_spec p s : has_prefix p s = true <-> exists r, s = p ++ r.
Proof.
  revert s; induction p as [|x p IH]; intros s; simpl.
  - split; [intros _; now exists s | reflexivity].
  - destruct s as [|y s]; [split; [discriminate | intros [r Hr]; discriminate]|].
    rewrite andb_true_iff, Nat.eqb_eq, IH. split.
    + intros [-> [r ->]]. now exists r.
    + intros [r Hr]. inversion Hr; subst. split; [reflexivity | now exists r].
Qed.

Lemma span_app f s : fst (span f s) ++ snd (span f s) = s.
Proof.
  induction s as [|c r IH]; simpl; [reflexivity|].
  destruct (f c); [|reflexivity]. destruct (span f r) as [a b]; simpl in *. now rewrite IH.
Qed.

Lemma span_fst_all f s : forallb f (fst (span f s)) = true.
Proof.
  induction s as [|c r IH]; simpl; [reflexivity|].
  destruct (f c) eqn:E; [|reflexivity]. destruct (span f r) as [a b]; simpl in *. now rewrite E, IH.
Qed.

Lemma span_snd_head f s c r : snd (span f s) = c :: r -> f c = false.
Proof.
  induction s as [|x s IH]; simpl; [discriminate|].
  destruct (f x) eqn:E.
  - destruct (span f s) as [a b]; simpl in *. exact IH.
  - simpl. intros H; inversion H; subst. exact E.
Qed.

Lemma drop_while_span f s : drop_while f s = snd (span f s).
Proof.
  induction s as [|c r IH]; simpl; [reflexivity|].
  destruct (f c); [|reflexivity]. destruct (span f r) as [a b]; simpl in *. exact IH.
Qed.

Lemma drop_while_length f s : length (drop_while f s) <= length s.
Proof. induction s as [|c r IH]; simpl; [lia|]. destruct (f c); simpl; lia. Qed.
