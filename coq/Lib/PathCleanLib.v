(* PathCleanLib.v — Go's path.Clean and path.Join over byte strings (used by C01).
   Definitions only; the lemmas are in Proofs/PathCleanProofs.v.
   path.Clean is purely lexical. It is modelled over the '/'-separated segments of its input:
   empty segments and single-dot segments are dropped, a double-dot segment removes the segment
   before it (for a rooted path: nothing when none is left; for a relative path: it is kept when
   nothing is left to remove), the result is the remaining segments joined by '/', with the
   leading '/' of a rooted input, and a single dot when nothing remains of a relative input. *)
From V Require Import Bytes.

Definition SL : byte := 47.
Definition DOT : byte := 46.

Definition cons_head (c : byte) (l : list bytes) : list bytes :=
  match l with
  | s :: t => (c :: s) :: t
  | [] => [[c]]
  end.

(* strings.Split(p, "/"): always at least one segment *)
Fixpoint split_slash (p : bytes) : list bytes :=
  match p with
  | [] => [[]]
  | c :: r => if Nat.eqb c SL then [] :: split_slash r else cons_head c (split_slash r)
  end.

(* strings.Join(l, "/") *)
Fixpoint join_slash (l : list bytes) : bytes :=
  match l with
  | [] => []
  | s :: r => match r with [] => s | _ => s ++ SL :: join_slash r end
  end.

Definition is_empty (s : bytes) : bool := match s with [] => true | _ => false end.
Definition is_dot (s : bytes) : bool := bytes_eqb s [DOT].
Definition is_dotdot (s : bytes) : bool := bytes_eqb s [DOT; DOT].

(* rooted input: st is the stack of kept segments, last kept first *)
Fixpoint norm_rooted (st : list bytes) (segs : list bytes) : list bytes :=
  match segs with
  | [] => st
  | s :: r =>
    if is_empty s || is_dot s then norm_rooted st r
    else if is_dotdot s then norm_rooted (tl st) r
    else norm_rooted (s :: st) r
  end.

(* relative input: ups counts the leading double-dot segments that cannot be removed *)
Fixpoint norm_rel (ups : nat) (st : list bytes) (segs : list bytes) : nat * list bytes :=
  match segs with
  | [] => (ups, st)
  | s :: r =>
    if is_empty s || is_dot s then norm_rel ups st r
    else if is_dotdot s then
      match st with
      | [] => norm_rel (S ups) [] r
      | _ :: st' => norm_rel ups st' r
      end
    else norm_rel ups (s :: st) r
  end.

Definition clean (p : bytes) : bytes :=
  match p with
  | [] => [DOT]
  | c :: r =>
    if Nat.eqb c SL then SL :: join_slash (rev (norm_rooted [] (split_slash r)))
    else
      let '(ups, st) := norm_rel 0 [] (split_slash p) in
      match repeat [DOT; DOT] ups ++ rev st with
      | [] => [DOT]
      | l => join_slash l
      end
  end.

(* path.Join(a, b) *)
Definition path_join (a b : bytes) : bytes :=
  match a, b with
  | [], [] => []
  | [], _ => clean b
  | _, _ => clean (a ++ SL :: b)
  end.

(* a rooted path in normal form: "/" or "/s1/s2/.../sn" with every si non-empty, slash-free and
   neither a single nor a double dot *)
Definition plain_seg (s : bytes) : bool :=
  negb (is_empty s) && negb (is_dot s) && negb (is_dotdot s) && negb (mem_byte SL s).

Definition rooted_normal (p : bytes) : bool :=
  match p with
  | [] => false
  | c :: r => Nat.eqb c SL && (is_empty r || forallb plain_seg (split_slash r))
  end.
