(* StreamIO.v — the standard-library stream plumbing the built-in codecs (C15) call, over the
   scripted readers and writers of StreamScripts.v. Definitions only (proofs: Proofs/StreamIOProofs.v).

     read_all    = bytes.Buffer.ReadFrom : Read until a terminal, io.EOF becomes nil
     io_copy     = io.Copy, generic loop (the scripted reader is not a WriterTo, the scripted
                   writer not a ReaderFrom, so the two shortcuts of io.copyBuffer do not apply)
     buffer_write_to = bytes.Buffer.WriteTo : one Write of everything, short count => ErrShortWrite
     direct_write    = a single writer.Write(p) whose count is dropped (the codecs do exactly that)

   Read sizes. bytes.Buffer.ReadFrom offers the reader the free capacity of its buffer, which
   depends on the growth history; io.Copy offers 32 KiB. Both are parameters here (a size policy
   pol : bytes read so far -> offered size minus one, so that at least one byte is always offered;
   bufsz-1 for io.Copy); StreamIOProofs.v proves that the result of read_all does not depend on the
   policy at all and that the result of io_copy does not depend on it as far as the sink accepts. *)
From V Require Export StreamScripts.

(* ---------- fuel: an upper bound on the number of Read calls before the terminal ---------- *)
Fixpoint steps_fuel (l : list rstep) : nat :=
  match l with
  | [] => 1
  | (c, _) :: r => S (length c) + steps_fuel r
  end.
Definition script_fuel (s : rstate) : nat :=
  match s with Live l => steps_fuel l | Dead _ => 1 end.

(* ---------- bytes.Buffer.ReadFrom ---------- *)
Inductive ra_result :=
| RA (b : bytes) (e : option err)   (* bytes appended to the buffer, returned error (nil for io.EOF) *)
| RAOutOfFuel.

Fixpoint read_all_fuel (pol : nat -> nat) (fuel : nat) (s : rstate) (acc : bytes) : ra_result :=
  match fuel with
  | O => RAOutOfFuel
  | S f =>
    let '((c, ot), s') := sread (S (pol (length acc))) s in
    let acc' := acc ++ c in
    match ot with
    | Some EOF => RA acc' None
    | Some e => RA acc' (Some e)
    | None => read_all_fuel pol f s' acc'
    end
  end.

Definition read_all (pol : nat -> nat) (s : rstate) : ra_result :=
  read_all_fuel pol (script_fuel s) s [].

(* what ReadFrom returns for a script whose terminal is t *)
Definition term_error (t : err) : option err :=
  match t with EOF => None | e => Some e end.

(* ---------- io.Copy ---------- *)
Inductive cp_result :=
| CP (w : wstate) (e : option err)
| CPOutOfFuel.

(* nw < 0 || nr < nw cannot happen with a scripted writer: swrite reports min(accept, len p) *)
Fixpoint io_copy_fuel (bufm1 : nat) (fuel : nat) (s : rstate) (w : wstate) : cp_result :=
  match fuel with
  | O => CPOutOfFuel
  | S f =>
    let '((c, ot), s') := sread (S bufm1) s in
    match c with
    | [] =>
      match ot with
      | Some t => CP w (term_error t)
      | None => io_copy_fuel bufm1 f s' w
      end
    | _ :: _ =>
      let '((nw, ew), w') := swrite c w in
      match ew with
      | Some e => CP w' (Some e)
      | None =>
        if negb (Nat.eqb nw (length c)) then CP w' (Some EShortWrite)
        else match ot with
             | Some t => CP w' (term_error t)
             | None => io_copy_fuel bufm1 f s' w'
             end
      end
    end
  end.

Definition io_copy (bufm1 : nat) (s : rstate) (w : wstate) : cp_result :=
  io_copy_fuel bufm1 (script_fuel s) s w.

(* ---------- single writes ---------- *)
(* _, err := w.Write(p) *)
Definition direct_write (p : bytes) (w : wstate) : wstate * option err :=
  let '((_, ew), w') := swrite p w in (w', ew).

(* bytes.Buffer.WriteTo *)
Definition buffer_write_to (content : bytes) (w : wstate) : wstate * option err :=
  match content with
  | [] => (w, None)
  | _ :: _ =>
    let '((m, ew), w') := swrite content w in
    match ew with
    | Some e => (w', Some e)
    | None => if negb (Nat.eqb m (length content)) then (w', Some EShortWrite) else (w', None)
    end
  end.

(* a writer honours the io.Writer contract for p when it does not report a short count together
   with a nil error on its next call *)
Definition wlawful_next (p : bytes) (w : wstate) : bool :=
  match w_steps w with
  | [] => true
  | (a, None) :: _ => length p <=? a
  | (_, Some _) :: _ => true
  end.

(* no step of the writer script fails or accepts fewer than n bytes *)
Definition wstep_ok (n : nat) (st : wstep) : bool :=
  match st with (a, None) => n <=? a | (_, Some _) => false end.
Definition waccepts_all (n : nat) (w : wstate) : bool := forallb (wstep_ok n) (w_steps w).
