(* Decimal.v -- base-10 integer literals: strconv.ParseInt(s, 10, 64) modelled exactly (C03).
   Definitions only; the proofs are in Proofs/DecimalProofs.v. *)
From V Require Export Bytes.
From Coq Require Import String Ascii.
Local Open Scope Z_scope.

(* byte string of a Coq string literal (constants only) *)
Definition bytes_of_string (s : string) : bytes := List.map nat_of_ascii (list_ascii_of_string s).

Definition is_nil {A} (l : list A) : bool := match l with [] => true | _ => false end.

Definition is_digit (c : byte) : bool := (48 <=? c)%nat && (c <=? 57)%nat.
Definition digit_val (c : byte) : Z := Z.of_nat c - 48.

(* the digit loop of strconv.ParseUint(s, 10, 64): n = n*10 + d, any other byte is a syntax error.
   The uint64 overflow cut-offs of the Go loop are equivalent to a test of the final value. *)
Fixpoint digits_acc (acc : Z) (s : bytes) : option Z :=
  match s with
  | [] => Some acc
  | c :: r => if is_digit c then digits_acc (acc * 10 + digit_val c) r else None
  end.

(* strconv.ParseUint(s, 10, 64); None = syntax error or out of range *)
Definition parse_uint_dec (s : bytes) : option Z :=
  if is_nil s then None
  else match digits_acc 0 s with
       | Some v => if v <? 2 ^ 64 then Some v else None
       | None => None
       end.

(* strconv.ParseInt(s, 10, 64): optional sign, ParseUint of the rest, cut-off 2^63 *)
Definition parse_int_dec (s : bytes) : option Z :=
  match s with
  | [] => None
  | c :: r =>
    let neg := Nat.eqb c 45 in
    let body := if Nat.eqb c 43 || Nat.eqb c 45 then r else s in
    match parse_uint_dec body with
    | None => None
    | Some un =>
      if negb neg && (2 ^ 63 <=? un) then None
      else if neg && (2 ^ 63 <? un) then None
      else Some (if neg then - un else un)
    end
  end.

(* reflect.Value.OverflowInt for a target of w bits (w = 8, 16, 32, 64) *)
Definition in_int_range (w : nat) (z : Z) : bool :=
  (- 2 ^ (Z.of_nat w - 1) <=? z) && (z <? 2 ^ (Z.of_nat w - 1)).

(* ---- the vocabulary of the property: what a base-10 literal denotes ---- *)

(* a non-empty digit string and its value, built digit by digit from the left *)
Inductive digits_val : bytes -> Z -> Prop :=
| dv_one d : is_digit d = true -> digits_val [d] (digit_val d)
| dv_snoc ds v d : digits_val ds v -> is_digit d = true -> digits_val (ds ++ [d]) (10 * v + digit_val d).

(* optional sign, at least one digit, nothing else *)
Inductive dec_literal : bytes -> Z -> Prop :=
| lit_plain ds v : digits_val ds v -> dec_literal ds v
| lit_plus ds v : digits_val ds v -> dec_literal (43%nat :: ds) v
| lit_minus ds v : digits_val ds v -> dec_literal (45%nat :: ds) (- v).

(* executable form used by the case checker: value of a digit string, least significant first *)
Fixpoint digits_value_lsf (s : bytes) : Z :=
  match s with
  | [] => 0
  | c :: r => digit_val c + 10 * digits_value_lsf r
  end.

Definition dec_denotes (txt : bytes) : option Z :=
  let neg := match txt with c :: _ => Nat.eqb c 45 | [] => false end in
  let ds := match txt with c :: r => if Nat.eqb c 45 || Nat.eqb c 43 then r else txt | [] => [] end in
  if is_nil ds || negb (forallb is_digit ds) then None
  else Some (if neg then - digits_value_lsf (rev ds) else digits_value_lsf (rev ds)).
