(* UrlEscape.v — model of net/url percent-escaping (Go 1.23): shouldEscape for the path, path-segment and
   query-component modes, escape, unescape, validEncoded; with the per-byte facts (by reflection over the
   256 byte values) and the round-trip / alphabet lemmas used by C10 and C14. *)
From V Require Import Bytes.

(* ---------- byte classes ---------- *)
Definition is_alnum (c : nat) : bool :=
  ((97 <=? c) && (c <=? 122)) || ((65 <=? c) && (c <=? 90)) || ((48 <=? c) && (c <=? 57)).
(* - _ . ~ *)
Definition is_mark (c : nat) : bool := (c =? 45) || (c =? 95) || (c =? 46) || (c =? 126).
(* $ & + , / : ; = ? @ *)
Definition is_reserved (c : nat) : bool :=
  (c =? 36) || (c =? 38) || (c =? 43) || (c =? 44) || (c =? 47) || (c =? 58) || (c =? 59) || (c =? 61) || (c =? 63) || (c =? 64).

Inductive emode := MPath | MSeg | MQuery.

(* url.shouldEscape for encodePath / encodePathSegment / encodeQueryComponent *)
Definition should_escape (m : emode) (c : nat) : bool :=
  if is_alnum c then false
  else if is_mark c then false
  else if is_reserved c then
    match m with
    | MPath => c =? 63
    | MSeg => (c =? 47) || (c =? 59) || (c =? 44) || (c =? 63)
    | MQuery => true
    end
  else true.

(* upper-case hex digit of n < 16 *)
Definition hexdig (n : nat) : nat := if n <? 10 then 48 + n else 55 + n.

Definition ishex (c : nat) : bool :=
  ((48 <=? c) && (c <=? 57)) || ((97 <=? c) && (c <=? 102)) || ((65 <=? c) && (c <=? 70)).
Definition unhex (c : nat) : nat :=
  if (48 <=? c) && (c <=? 57) then c - 48
  else if (97 <=? c) && (c <=? 102) then c - 97 + 10
  else if (65 <=? c) && (c <=? 70) then c - 65 + 10
  else 0.

Definition pct (c : nat) : bytes := [37; hexdig (c / 16); hexdig (c mod 16)].

(* url.escape: byte by byte (space becomes + only in query-component mode) *)
Definition escape1 (m : emode) (c : nat) : bytes :=
  if should_escape m c then
    match m with
    | MQuery => if c =? 32 then [43] else pct c
    | _ => pct c
    end
  else [c].
Definition escape (m : emode) (s : bytes) : bytes := flat_map (escape1 m) s.

Definition path_escape (s : bytes) : bytes := escape MSeg s.      (* url.PathEscape *)
Definition query_escape (s : bytes) : bytes := escape MQuery s.   (* url.QueryEscape *)

(* url.unescape for the path modes (plus = false) and the query-component mode (plus = true):
   None = EscapeError (a percent sign not followed by two hex digits) *)
Fixpoint unescape (plus : bool) (s : bytes) : option bytes :=
  match s with
  | [] => Some []
  | c :: r =>
    if c =? 37 then
      match r with
      | h1 :: h2 :: r' =>
        if ishex h1 && ishex h2
        then match unescape plus r' with
             | Some t => Some ((unhex h1 * 16 + unhex h2) :: t)
             | None => None
             end
        else None
      | _ => None
      end
    else match unescape plus r with
         | Some t => Some ((if plus && (c =? 43) then 32 else c) :: t)
         | None => None
         end
  end.
Definition path_unescape := unescape false.
Definition query_unescape := unescape true.

(* url.validEncoded(s, encodePath), per byte: ! $ & ' ( ) * + , ; = : @ [ ] % or a byte that
   shouldEscape leaves alone *)
Definition valid_encoded_byte (c : nat) : bool :=
  (c =? 33) || (c =? 36) || (c =? 38) || (c =? 39) || (c =? 40) || (c =? 41) || (c =? 42) || (c =? 43) ||
  (c =? 44) || (c =? 59) || (c =? 61) || (c =? 58) || (c =? 64) || (c =? 91) || (c =? 93) || (c =? 37) ||
  negb (should_escape MPath c).
Definition valid_encoded (s : bytes) : bool := forallb valid_encoded_byte s.

Definition wf_bytes (s : bytes) : Prop := Forall (fun c => c < 256) s.
Definition wf_bytesb (s : bytes) : bool := forallb (fun c => c <? 256) s.

Lemma wf_bytesb_spec s : wf_bytesb s = true <-> wf_bytes s.
Proof.
  unfold wf_bytesb, wf_bytes. rewrite forallb_forall, Forall_forall.
  split; intros H x Hx; specialize (H x Hx); [now apply Nat.ltb_lt | now apply Nat.ltb_lt].
Qed.

(* ---------- reflection over the 256 byte values ---------- *)
Lemma all_bytes (P : nat -> bool) :
  forallb P (seq 0 256) = true -> forall c, c < 256 -> P c = true.
Proof.
  intros H c Hc. rewrite forallb_forall in H. apply H. apply in_seq. lia.
Qed.

(* the bytes a value may contribute to a path: never a separator, query or fragment mark, brace *)
Definition seg_safe (b : nat) : bool :=
  negb ((b =? 47) || (b =? 63) || (b =? 35) || (b =? 123) || (b =? 125)).

Definition esc_seg_ok (c : nat) : bool :=
  (if should_escape MSeg c
   then ishex (hexdig (c / 16)) && ishex (hexdig (c mod 16)) &&
        (unhex (hexdig (c / 16)) * 16 + unhex (hexdig (c mod 16)) =? c)
   else negb (c =? 37))
  && forallb seg_safe (escape1 MSeg c)
  && forallb valid_encoded_byte (escape1 MSeg c)
  && forallb (fun b => b <? 256) (escape1 MSeg c).

Lemma esc_seg_ok_all : forall c, c < 256 -> esc_seg_ok c = true.
Proof. apply all_bytes. vm_compute. reflexivity. Qed.

(* ---------- round trip of PathEscape / PathUnescape ---------- *)
Lemma unescape_escape1_seg c r : c < 256 ->
  path_unescape (escape1 MSeg c ++ r) =
  match path_unescape r with Some t => Some (c :: t) | None => None end.
Proof.
  intros Hc. pose proof (esc_seg_ok_all c Hc) as H. unfold esc_seg_ok in H.
  repeat (apply andb_true_iff in H; destruct H as [H ?]).
  unfold escape1, path_unescape in *. destruct (should_escape MSeg c) eqn:E.
  - repeat (apply andb_true_iff in H; destruct H as [H ?]).
    apply Nat.eqb_eq in H3.
    cbn [pct app unescape]. change (37 =? 37) with true. cbv iota.
    rewrite H, H4. cbn [andb]. rewrite H3. reflexivity.
  - cbn [app unescape]. apply negb_true_iff in H. rewrite H. cbn [andb]. reflexivity.
Qed.

Theorem path_unescape_escape v : wf_bytes v -> path_unescape (path_escape v) = Some v.
Proof.
  unfold path_escape, escape. induction 1 as [|c v Hc Hv IH]; [reflexivity|].
  cbn [flat_map]. rewrite unescape_escape1_seg by exact Hc. now rewrite IH.
Qed.

(* ---------- alphabet of an escaped value ---------- *)
Lemma forallb_flat_map {A B} (P : B -> bool) (f : A -> list B) l :
  forallb P (flat_map f l) = forallb (fun x => forallb P (f x)) l.
Proof.
  induction l as [|x l IH]; [reflexivity|]. cbn [flat_map forallb]. now rewrite forallb_app, IH.
Qed.

Lemma forallb_bytes (P : nat -> bool) v :
  (forall c, c < 256 -> P c = true) -> wf_bytes v -> forallb P v = true.
Proof.
  intros HP Hv. apply forallb_forall. intros c Hc. apply HP.
  unfold wf_bytes in Hv. rewrite Forall_forall in Hv. now apply Hv.
Qed.

Lemma esc_seg_parts c : c < 256 ->
  forallb seg_safe (escape1 MSeg c) = true /\ forallb valid_encoded_byte (escape1 MSeg c) = true /\
  forallb (fun b => b <? 256) (escape1 MSeg c) = true.
Proof.
  intros Hc. pose proof (esc_seg_ok_all c Hc) as H. unfold esc_seg_ok in H.
  repeat (apply andb_true_iff in H; destruct H as [H ?]). auto.
Qed.

Theorem path_escape_safe v : wf_bytes v -> forallb seg_safe (path_escape v) = true.
Proof.
  intros Hv. unfold path_escape, escape. rewrite forallb_flat_map.
  apply forallb_bytes; [|exact Hv]. intros c Hc. apply (esc_seg_parts c Hc).
Qed.

Theorem path_escape_valid_encoded v : wf_bytes v -> valid_encoded (path_escape v) = true.
Proof.
  intros Hv. unfold valid_encoded, path_escape, escape. rewrite forallb_flat_map.
  apply forallb_bytes; [|exact Hv]. intros c Hc. apply (esc_seg_parts c Hc).
Qed.

Theorem path_escape_wf v : wf_bytes v -> wf_bytes (path_escape v).
Proof.
  intros Hv. apply wf_bytesb_spec. unfold wf_bytesb, path_escape, escape. rewrite forallb_flat_map.
  apply forallb_bytes; [|exact Hv]. intros c Hc. apply (esc_seg_parts c Hc).
Qed.

Lemma seg_safe_no (b : nat) : seg_safe b = true -> b <> 47 /\ b <> 63 /\ b <> 35 /\ b <> 123 /\ b <> 125.
Proof.
  unfold seg_safe. rewrite negb_true_iff. intros H.
  repeat (apply orb_false_iff in H; destruct H as [H ?]).
  repeat split; intro E; subst; discriminate.
Qed.

(* an escaped value never contains / ? # { } *)
Corollary path_escape_no_special v b : wf_bytes v -> In b (path_escape v) ->
  b <> 47 /\ b <> 63 /\ b <> 35 /\ b <> 123 /\ b <> 125.
Proof.
  intros Hv Hb. pose proof (path_escape_safe v Hv) as H. rewrite forallb_forall in H.
  apply seg_safe_no. now apply H.
Qed.

(* PathEscape is injective on byte strings *)
Corollary path_escape_inj v w : wf_bytes v -> wf_bytes w -> path_escape v = path_escape w -> v = w.
Proof.
  intros Hv Hw E. pose proof (path_unescape_escape v Hv) as A. rewrite E, path_unescape_escape in A by exact Hw.
  now inversion A.
Qed.

(* ---------- unescape over concatenation ---------- *)
Lemma unescape_app plus : forall a a' b, unescape plus a = Some a' ->
  unescape plus (a ++ b) = match unescape plus b with Some t => Some (a' ++ t) | None => None end.
Proof.
  intros a. remember (length a) as n eqn:Hn. revert a Hn.
  induction n as [n IH] using lt_wf_ind. intros a Hn a' b H.
  destruct a as [|c r].
  - cbn in H. inversion H; subst. cbn. now destruct (unescape plus b).
  - cbn [unescape] in H. cbn [app unescape]. destruct (c =? 37) eqn:E37.
    + destruct r as [|h1 [|h2 r']]; try discriminate.
      cbn [app]. destruct (ishex h1 && ishex h2); [|discriminate].
      destruct (unescape plus r') as [t|] eqn:Er; [|discriminate].
      inversion H; subst a'. cbn [length] in Hn.
      rewrite (IH (length r') ltac:(lia) r' eq_refl t b Er).
      now destruct (unescape plus b).
    + destruct (unescape plus r) as [t|] eqn:Er; [|discriminate].
      inversion H; subst a'. cbn [length] in Hn.
      rewrite (IH (length r) ltac:(lia) r eq_refl t b Er).
      now destruct (unescape plus b).
Qed.

(* bytes without a percent sign (and, in query mode, without +) decode to themselves *)
Lemma unescape_plain s : forallb (fun c => negb (c =? 37)) s = true -> path_unescape s = Some s.
Proof.
  unfold path_unescape. induction s as [|c r IH]; [reflexivity|].
  cbn [forallb unescape]. rewrite andb_true_iff, negb_true_iff. intros [H1 H2].
  rewrite H1, (IH H2). reflexivity.
Qed.

(* ---------- examples ---------- *)
(* x/y {n}?#%  ->  x%2Fy%20%7Bn%7D%3F%23%25 *)
Example path_escape_ex :
  path_escape [120;47;121;32;123;110;125;63;35;37] =
  [120;37;50;70;121;37;50;48;37;55;66;110;37;55;68;37;51;70;37;50;51;37;50;53].
Proof. vm_compute. reflexivity. Qed.
