(* CaseLib.v — helpers for the in-Coq correspondence runs (Check/Check_Cxx.v + generated case files). *)
From Coq Require Export List NArith.
Export ListNotations.

(* verdict of one case: bit 0 = model and implementation observables differ,
   bit 1 = the property predicate fails on the implementation's observable *)
Definition verdict (corr_ok prop_ok : bool) : N :=
  ((if corr_ok then 0 else 1) + (if prop_ok then 0 else 2))%N.

Fixpoint bad_cases {A} (f : A -> N) (l : list (N * A)) : list (N * N) :=
  match l with
  | [] => []
  | (i, c) :: r => let v := f c in if N.eqb v 0 then bad_cases f r else (i, v) :: bad_cases f r
  end.

(* Compact byte-string literals for generated case files: [len; w1; w2; ...]%uint63 where each
   word packs 7 bytes, least significant first. (Unary nat literals cost ~1 ms per byte to
   type-check; primitive integers are constant-size terms.) Used only by the case files. *)
From Coq Require Import Uint63 ZArith.

Fixpoint unpack7 (k : nat) (v : int) : list nat :=
  match k with
  | O => []
  | S k' => Z.to_nat (Uint63.to_Z (Uint63.land v 255)) :: unpack7 k' (Uint63.lsr v 8)
  end.

Definition bs (l : list int) : list nat :=
  match l with
  | [] => []
  | n :: r => firstn (Z.to_nat (Uint63.to_Z n)) (flat_map (unpack7 7) r)
  end.

(* small non-negative integers (counts, lengths, indices) as nat / N / Z from a primitive literal *)
Definition nat_of_int (i : int) : nat := Z.to_nat (Uint63.to_Z i).
Definition N_of_int (i : int) : N := Z.to_N (Uint63.to_Z i).
Definition Z_of_int (i : int) : Z := Uint63.to_Z i.
