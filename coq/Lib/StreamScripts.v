(* StreamScripts.v — scripted readers and writers (shared by C15, C17). Definitions only.

   A reader script says what every Read call of an io.Reader returns: a list of steps
   (chunk, optional terminal). One Read call with a destination of k bytes takes the current
   step: if the chunk fits it is delivered whole, together with the terminal if the step has
   one (data+EOF, data+error); otherwise the first k bytes are delivered without error and the
   rest of the chunk stays current. An empty chunk without terminal is a zero-length read
   (0, nil). Once a terminal has been returned it is sticky: every later Read returns
   (0, that terminal). A script that runs out of steps returns (0, EOF).

   A writer script says what every Write call of an io.Writer does: (accept, optional error):
   it stores the first min(accept, len p) bytes and returns that count with the error. A script
   that runs out of steps accepts everything. *)
From V Require Export Bytes.

(* error values as the harness classifies them *)
Inductive err :=
| EOF                 (* io.EOF *)
| EScript (n : nat)   (* an error value injected by a script, identified by number *)
| ENoProgress         (* io.ErrNoProgress *)
| EUnexpectedEOF      (* io.ErrUnexpectedEOF *)
| EShortWrite         (* io.ErrShortWrite *)
| EClosed             (* errors.New reader already closed, and similar state errors *)
| EOther (n : nat).   (* any other error, classified by the harness of the property *)

Definition err_eqb (a b : err) : bool :=
  match a, b with
  | EOF, EOF => true
  | EScript n, EScript m => Nat.eqb n m
  | ENoProgress, ENoProgress => true
  | EUnexpectedEOF, EUnexpectedEOF => true
  | EShortWrite, EShortWrite => true
  | EClosed, EClosed => true
  | EOther n, EOther m => Nat.eqb n m
  | _, _ => false
  end.

(* ---------- readers ---------- *)
Definition rstep := (bytes * option err)%type.

Inductive rstate :=
| Live (steps : list rstep)
| Dead (t : err).

(* one Read call with a destination of k bytes: (delivered bytes, returned error), next state *)
Definition sread (k : nat) (s : rstate) : (bytes * option err) * rstate :=
  match s with
  | Dead t => (([], Some t), Dead t)
  | Live [] => (([], Some EOF), Dead EOF)
  | Live ((c, ot) :: r) =>
    if length c <=? k
    then ((c, ot), match ot with Some t => Dead t | None => Live r end)
    else ((firstn k c, None), Live ((skipn k c, ot) :: r))
  end.

(* the byte sequence a script stands for: the chunks up to and including the first step that
   carries a terminal *)
Fixpoint steps_bytes (l : list rstep) : bytes :=
  match l with
  | [] => []
  | (c, None) :: r => c ++ steps_bytes r
  | (c, Some _) :: _ => c
  end.

(* ... and its terminal condition *)
Fixpoint steps_term (l : list rstep) : err :=
  match l with
  | [] => EOF
  | (_, Some t) :: _ => t
  | (_, None) :: r => steps_term r
  end.

Definition script_bytes (s : rstate) : bytes :=
  match s with Live l => steps_bytes l | Dead _ => [] end.
Definition script_term (s : rstate) : err :=
  match s with Live l => steps_term l | Dead t => t end.

(* longest run of consecutive zero-length reads (empty chunk, no terminal) the script can make
   before its terminal *)
Fixpoint steps_stall (run : nat) (l : list rstep) : nat :=
  match l with
  | [] => run
  | (c, ot) :: r =>
    match c, ot with
    | [], None => steps_stall (S run) r
    | _, Some _ => run
    | _, None => Nat.max run (steps_stall 0 r)
    end
  end.
Definition script_stall (s : rstate) : nat :=
  match s with Live l => steps_stall 0 l | Dead _ => 0 end.

(* ---------- writers ---------- *)
Definition wstep := (nat * option err)%type.

Record wstate := mkW { w_steps : list wstep; w_got : bytes }.

(* one Write call with p: (count reported, error), next state *)
Definition swrite (p : bytes) (w : wstate) : (nat * option err) * wstate :=
  match w_steps w with
  | [] => ((length p, None), mkW [] (w_got w ++ p))
  | (a, oe) :: r =>
    let n := Nat.min a (length p) in
    ((n, oe), mkW r (w_got w ++ firstn n p))
  end.
