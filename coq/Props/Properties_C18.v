(* Properties_C18.v — C18: TLS client options never weaken verification or drop identity silently.
   Theorems only; each is closed by `exact` of a lemma from Proofs/TLSProofs.v. Every statement is for every
   option value (all twelve fields of the option record, independently) and every answer of the standard library
   about the material (env). *)
From V Require Import TLSSpec TLSProofs.

(* never below TLS 1.2 *)
Theorem C18_min_tls12 : forall e o c, tls_client_auth e o = Config c -> c_min_version c = tls12.
Proof. exact min_tls12. Qed.
Print Assumptions C18_min_tls12.

(* verification is skipped only when that was asked for and no server name is given *)
Theorem C18_insecure_only_if_asked_and_no_name : forall e o c, tls_client_auth e o = Config c ->
  (c_insecure c = true <-> o_insecure o = true /\ o_server_name o = []).
Proof. exact insecure_iff. Qed.
Print Assumptions C18_insecure_only_if_asked_and_no_name.

(* the system pool exactly when no root was supplied; otherwise exactly the effective roots of the documented
   precedence (loaded CA + pool, else CA file + pool, else pool), and never a root the caller did not hand over *)
Theorem C18_roots : forall e o c, tls_client_auth e o = Config c ->
  (c_roots c = RSystem <-> no_roots_supplied o) /\
  (forall l, c_roots c = RPool l ->
     forall x, (In x l <-> effective_root e o x) /\ (In x l -> supplied_root e o x)).
Proof. exact roots_exact. Qed.
Print Assumptions C18_roots.

(* server name, verification callback and session settings are carried unchanged *)
Theorem C18_passthrough : forall e o c, tls_client_auth e o = Config c ->
  c_server_name c = o_server_name o /\ c_callback c = o_callback o /\
  c_tickets_disabled c = o_tickets_disabled o /\ c_cache c = o_cache o.
Proof. exact passthrough. Qed.
Print Assumptions C18_passthrough.

(* exactly the supplied client certificate with the supplied key (and then the pair is usable); none when no
   certificate was supplied (a key alone requests no identity) *)
Theorem C18_cert_exact : forall e o c, tls_client_auth e o = Config c ->
  match supplied_identity e o with
  | None => c_certs c = []
  | Some (ce, ko) => exists k, ko = Some k /\ c_certs c = [(ce, k)] /\ usable e o = true
  end.
Proof. exact cert_exact. Qed.
Print Assumptions C18_cert_exact.

(* a certificate FILE may hold a chain (leaf, then intermediates): every certificate block of the file is presented,
   in file order, nothing dropped and nothing added; a loaded certificate is presented alone *)
Theorem C18_chain_complete : forall e o c cf, tls_client_auth e o = Config c -> o_cert_file o = Some cf ->
  exists kf, o_key_file o = Some kf /\ c_certs c = [(file_chain e cf, kf)].
Proof. exact chain_complete. Qed.
Print Assumptions C18_chain_complete.

Theorem C18_loaded_single : forall e o c lc, tls_client_auth e o = Config c -> o_cert_file o = None -> o_loaded_cert o = Some lc ->
  exists kind k, o_loaded_key o = Some (kind, k) /\ c_certs c = [([lc], k)].
Proof. exact loaded_single. Qed.
Print Assumptions C18_loaded_single.

(* a certificate was supplied and the material is unusable (no key of the same form, unsupported key type,
   unmarshalable key, pair rejected, unreadable file): an error, never a configuration *)
Theorem C18_bad_material_is_error : forall e o, supplied_identity e o <> None -> usable e o = false ->
  exists err, tls_client_auth e o = Error err /\ (err = ECert \/ err = EKey).
Proof. exact bad_material_is_error. Qed.
Print Assumptions C18_bad_material_is_error.

(* errors arise from nothing else: unusable requested identity, or the consulted CA file cannot be read *)
Theorem C18_error_iff : forall e o,
  (exists err, tls_client_auth e o = Error err) <->
  ((supplied_identity e o <> None /\ usable e o = false) \/ ca_file_unreadable e o = true).
Proof. exact error_iff. Qed.
Print Assumptions C18_error_iff.

(* the boolean predicate the correspondence run evaluates on the real configuration holds of the model, and
   it implies the clauses above for whatever configuration it is evaluated on *)
Theorem C18_predicate_holds : forall e o, c18_holds e o (tls_client_auth e o) = true.
Proof. exact predicate_holds. Qed.
Print Assumptions C18_predicate_holds.

Theorem C18_predicate_sound : forall e o c, c18_holds e o (Config c) = true ->
  tls12 <= c_min_version c /\
  (c_insecure c = true <-> o_insecure o = true /\ o_server_name o = []) /\
  (c_roots c = RSystem <-> no_roots_supplied o) /\
  (forall l, c_roots c = RPool l -> forall x, In x l <-> effective_root e o x) /\
  c_server_name c = o_server_name o /\ c_callback c = o_callback o /\
  c_tickets_disabled c = o_tickets_disabled o /\ c_cache c = o_cache o /\
  match supplied_identity e o with
  | None => c_certs c = []
  | Some (ce, ko) => exists k, ko = Some k /\ c_certs c = [(ce, k)] /\ usable e o = true
  end.
Proof. exact predicate_sound. Qed.
Print Assumptions C18_predicate_sound.

(* several calls in one process, the material behind the same paths possibly changed, replaced by invalid material or
   removed between them: the n-th answer is the single call on the material of that moment, whatever was called
   before; hence every clause above holds of every call of a history *)
Theorem C18_history_no_memory : forall h n e o,
  nth_error h n = Some (e, o) -> nth_error (tls_history h) n = Some (tls_client_auth e o).
Proof. exact history_nth. Qed.
Print Assumptions C18_history_no_memory.

Theorem C18_history_holds : forall h, c18_history_holds h (tls_history h) = true.
Proof. exact history_holds. Qed.
Print Assumptions C18_history_holds.

Theorem C18_history_predicate_sound : forall h rs, c18_history_holds h rs = true ->
  length rs = length h /\
  forall n e o r, nth_error h n = Some (e, o) -> nth_error rs n = Some r -> c18_holds e o r = true.
Proof. exact history_holds_inv. Qed.
Print Assumptions C18_history_predicate_sound.
