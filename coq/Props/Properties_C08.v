(* Properties_C08.v — C08: responses carry the declared status, the negotiated type and that type's encoding.
   Theorems only; each is closed by `exact` of a lemma from Proofs/RespondProofs.v.
   Vocabulary: Model/Respond.v (respond = Context.Respond, serve = the handler pipeline of one operation),
   Model/RespondSpec.v (the property predicates also evaluated on the implementation by the check). *)
From V Require Import RespondSpec NegotiateProofs RespondProofs.

(* the declared success status is a declared 2xx code, the smallest one, and it is unique *)
Theorem C08_success_code_is_smallest_declared_2xx : forall codes s, success_code codes = Some s ->
  In s codes /\ is_2xx s = true /\ forall c, In c codes -> is_2xx c = true -> s <= c.
Proof. exact success_code_some. Qed.
Print Assumptions C08_success_code_is_smallest_declared_2xx.

(* a plain value is answered with the declared success status (or Respond panics for lack of any producer) *)
Theorem C08_status_declared : forall d registered produces rt cached specs head marker s,
  rt_has_op rt = true -> success_code (rt_codes rt) = Some s ->
  respond d registered produces (Some rt) cached specs head marker DValue
    = Panicked PNoProducer (the_format d produces cached specs) \/
  exists r, respond d registered produces (Some rt) cached specs head marker DValue = Responded r /\
            o_status r = s /\ o_error r = None /\ is_declared_success (rt_codes rt) s = true.
Proof. exact respond_status_declared. Qed.
Print Assumptions C08_status_declared.

(* an operation declaring no 2xx response (default only) has no success status: 500 to the error responder *)
Theorem C08_default_only_is_500 : forall d registered produces rt cached specs head marker,
  rt_has_op rt = true -> has_declared_success (rt_codes rt) = false ->
  exists r, respond d registered produces (Some rt) cached specs head marker DValue = Responded r /\
            o_error r = Some 500 /\ o_producer r = None.
Proof. exact respond_no_success. Qed.
Print Assumptions C08_default_only_is_500.

(* the Content-Type is the format: the one stored in the request, else the negotiated one; JSON for an
   error when that is empty *)
Theorem C08_content_type_is_format : forall d registered produces rt cached specs head marker dt r,
  respond d registered produces rt cached specs head marker dt = Responded r ->
  match dt with
  | DError _ => o_ctype r = json_if_empty (the_format d produces cached specs)
  | _ => o_ctype r = the_format d produces cached specs
  end.
Proof. exact respond_ctype. Qed.
Print Assumptions C08_content_type_is_format.

(* ... and the negotiated format is the media type C07 demands for the offers (produces without the API
   default, then the API default), for every order of the produces list *)
Theorem C08_content_type_negotiated : forall specs d produces, Forall spec_ok specs ->
  negotiated specs (respond_offers d produces) (the_format d produces None specs) = true.
Proof. intros specs d produces H. exact (response_format_negotiated specs (respond_offers d produces) H). Qed.
Print Assumptions C08_content_type_negotiated.

(* the body is written by the producer registered for the negotiated type with its parameters dropped *)
Theorem C08_body_by_that_producer : forall d registered produces rt cached specs marker s,
  rt_has_op rt = true -> success_code (rt_codes rt) = Some s -> s <> 204 ->
  let key := normalize_offer (the_format d produces cached specs) in
  mem_bytes key registered = true -> mem_bytes key (map normalize_offer (rt_produces rt)) = true ->
  exists r, respond d registered produces (Some rt) cached specs false marker DValue = Responded r /\
            o_producer r = Some key /\ o_ctype r = the_format d produces cached specs /\ o_status r = s.
Proof. exact respond_body_by_that_producer. Qed.
Print Assumptions C08_body_by_that_producer.

(* whatever producer writes a body is a registered one *)
Theorem C08_producer_is_registered : forall d registered produces rt cached specs head marker dt r p,
  respond d registered produces rt cached specs head marker dt = Responded r ->
  o_producer r = Some p -> mem_bytes p registered = true.
Proof. exact respond_producer_registered. Qed.
Print Assumptions C08_producer_is_registered.

(* no body for HEAD requests or 204 responses *)
Theorem C08_no_body_head_204 : forall d registered produces rt cached specs head marker r,
  respond d registered produces rt cached specs head marker DValue = Responded r ->
  head = true \/ o_status r = 204 -> o_producer r = None.
Proof. exact respond_no_body_head_204. Qed.
Print Assumptions C08_no_body_head_204.

(* a result that writes itself is handed that same producer *)
Theorem C08_responder_same_producer : forall d registered produces rt cached specs head marker code,
  let key := normalize_offer (the_format d produces cached specs) in
  mem_bytes key registered = true -> mem_bytes key (map normalize_offer (rt_produces rt)) = true ->
  exists r, respond d registered produces (Some rt) cached specs head marker (DResponder code) = Responded r /\
            o_handed r = Some key /\ o_producer r = Some key /\ o_ctype r = the_format d produces cached specs /\
            o_status r = errorresp_status code.
Proof. exact respond_responder_same_producer. Qed.
Print Assumptions C08_responder_same_producer.

(* an error is shown to the error responder, no producer runs, JSON content type if nothing was negotiated,
   and a realm marker becomes a Basic challenge naming it *)
Theorem C08_error_branch : forall d registered produces rt cached specs head marker code,
  exists r, respond d registered produces rt cached specs head marker (DError code) = Responded r /\
            o_error r = Some code /\ o_producer r = None /\ o_handed r = None /\
            o_ctype r = json_if_empty (the_format d produces cached specs) /\
            o_www r = match marker with [] => None | _ => Some (BASIC_REALM ++ go_quote marker) end.
Proof. exact respond_error_branch. Qed.
Print Assumptions C08_error_branch.

(* a failed basic-auth attempt - no credentials, refused credentials, an Authorization header that yields no
   credentials, an Authorization header of another scheme - carries the challenge naming the configured realm
   (API when none); the error shown is the authentication function's own when it was consulted, else 401 *)
Theorem C08_basic_challenge : forall d registered rt specs head realm attempt code result,
  attempt <> GoodCreds ->
  exists r, serve d registered rt specs head (Basic realm attempt code) result = Responded r /\
            o_www r = Some (challenge (effective_realm realm)) /\
            o_error r = Some (match attempt with BadCreds => code | _ => 401 end) /\ o_producer r = None.
Proof. exact serve_basic_refused. Qed.
Print Assumptions C08_basic_challenge.

(* the realm marker the authenticator leaves: the effective realm after every failed attempt, nothing otherwise *)
Theorem C08_failed_attempt_marker : forall realm a,
  a <> GoodCreds -> basic_marker realm a = effective_realm realm /\ basic_marker realm a <> [].
Proof. exact failed_attempt_marker. Qed.
Print Assumptions C08_failed_attempt_marker.

(* an Authorization header without usable basic credentials is answered exactly as a missing one *)
Theorem C08_unusable_authorization_as_no_credentials : forall d registered rt specs head realm attempt code result,
  attempt_has_credentials attempt = false ->
  serve d registered rt specs head (Basic realm attempt code) result =
  serve d registered rt specs head (Basic realm NoCreds code) result.
Proof. exact serve_unusable_authorization_as_no_credentials. Qed.
Print Assumptions C08_unusable_authorization_as_no_credentials.

(* an error answered by Respond after a failed attempt carries the challenge *)
Theorem C08_challenge_after_failed_attempt : forall d registered produces rt cached specs head realm a code,
  a <> GoodCreds ->
  exists r, respond d registered produces rt cached specs head (model_marker (Some (realm, a))) (DError code) = Responded r /\
            o_www r = Some (challenge (effective_realm realm)) /\ o_error r = Some code /\ o_producer r = None.
Proof. exact respond_after_failed_attempt. Qed.
Print Assumptions C08_challenge_after_failed_attempt.

Theorem C08_challenge_text : forall realm, Forall (fun c => c <> DQ /\ c <> BSL) realm ->
  challenge realm = BASIC_REALM ++ DQ :: realm ++ [DQ].
Proof. exact challenge_plain. Qed.
Print Assumptions C08_challenge_text.

Theorem C08_no_challenge_when_accepted : forall d registered rt specs head realm code result r,
  serve d registered rt specs head (Basic realm GoodCreds code) result = Responded r -> o_www r = None.
Proof. exact serve_basic_accepted_no_challenge. Qed.
Print Assumptions C08_no_challenge_when_accepted.

(* the whole property at once, in the very predicate the check evaluates on the implementation:
   Respond called with any arguments ... *)
Theorem C08_respond_meets_property : forall d registered produces rt cached specs head marker dt tag,
  Forall spec_ok specs -> cached_ok cached = true ->
  direct_prop d registered produces rt cached specs head marker dt tag
              (obs_of (respond d registered produces rt cached specs head marker dt) tag) = true.
Proof. exact direct_meets_property. Qed.
Print Assumptions C08_respond_meets_property.

(* ... Respond called after a basic authenticator examined the request (the check's direct cases) ... *)
Theorem C08_respond_after_authenticator_meets_property : forall d registered produces rt cached specs head auth dt tag,
  Forall spec_ok specs -> cached_ok cached = true ->
  direct_auth_prop d registered produces rt cached specs head auth dt tag
              (obs_of (respond d registered produces rt cached specs head (model_marker auth) dt) tag) = true.
Proof. exact direct_auth_meets_property. Qed.
Print Assumptions C08_respond_after_authenticator_meets_property.

(* ... and a request through the pipeline of an operation (security, validation, handler), for every
   route order of the produces list and every Accept header *)
Theorem C08_serve_meets_property : forall d registered rp codes lines head auth dt tag,
  mem_bytes [] registered = false -> ~ In [] rp -> (In d rp \/ normalize_offer d = d) ->
  exists specs, parse_accept lines = Some specs /\
    serve_prop d registered rp codes specs head auth dt tag (auth_passes auth && acceptable specs rp)
               (obs_of (serve d registered (mkroute rp true codes) specs head auth dt) tag) = true.
Proof. exact serve_meets_property_any_header. Qed.
Print Assumptions C08_serve_meets_property.

(* ---- security requirements with several alternatives and several schemes per alternative ---- *)
(* the pipeline behind any requirement: an admitted request goes on to validation and the handler, a refused one is
   answered with the last error met (401 when none); the realm marker every later error answer turns into a challenge
   is there exactly when the basic scheme was consulted in an examined alternative and did not accept - wherever the
   basic scheme stands among the alternatives and inside its alternative, whatever is examined afterwards *)
Theorem C08_security_alternatives : forall d registered rt specs head s result,
  serve_sec d registered rt specs head s result =
  if sec_admitted s
  then serve_validated d registered rt specs head (sec_challenge_realm s) result
  else serve_respond d registered rt specs head None (sec_challenge_realm s) (DError (sec_refusal_code s)).
Proof. exact serve_sec_eq. Qed.
Print Assumptions C08_security_alternatives.

Theorem C08_challenge_wherever_basic_stands : forall d registered rt specs head s result,
  sec_admitted s = false ->
  existsb (basic_consulted_in s) (examined s (sec_alts s)) = true -> sec_attempt s <> GoodCreds ->
  exists r, serve_sec d registered rt specs head s result = Responded r /\
            o_www r = Some (challenge (effective_realm (sec_realm s))) /\
            o_error r = Some (sec_refusal_code s) /\ o_producer r = None.
Proof. exact sec_refused_challenge. Qed.
Print Assumptions C08_challenge_wherever_basic_stands.

Theorem C08_no_challenge_without_failed_attempt : forall d registered rt specs head s result r,
  sec_challenge_realm s = [] ->
  serve_sec d registered rt specs head s result = Responded r -> o_www r = None.
Proof. exact sec_no_attempt_no_challenge. Qed.
Print Assumptions C08_no_challenge_without_failed_attempt.

(* the requirement with the basic scheme as its only alternative (and no requirement) are the earlier cases *)
Theorem C08_single_basic_requirement : forall d registered rt specs head a result,
  serve_sec d registered rt specs head (sec_of_auth a) result = serve d registered rt specs head a result.
Proof. exact serve_sec_single_basic. Qed.
Print Assumptions C08_single_basic_requirement.

(* the property predicate of the check, for every requirement *)
Theorem C08_serve_sec_meets_property : forall d registered rp codes specs head s dt tag,
  Forall spec_ok specs -> mem_bytes [] registered = false -> ~ In [] rp -> (In d rp \/ normalize_offer d = d) ->
  sec_prop d registered rp codes specs head s dt tag (sec_admitted s && acceptable specs rp)
           (obs_of (serve_sec d registered (mkroute rp true codes) specs head s dt) tag) = true.
Proof. exact serve_sec_meets_property. Qed.
Print Assumptions C08_serve_sec_meets_property.

(* ---- several requests answered by one Context: every answer is the answer of the single request,
   whatever was answered before ---- *)
Theorem C08_history_stateless : forall d registered qs n q,
  nth_error qs n = Some q -> nth_error (serve_history d registered qs) n = Some (serve_req d registered q).
Proof. exact history_stateless. Qed.
Print Assumptions C08_history_stateless.

Theorem C08_history_prefix_irrelevant : forall d registered pre pre' q,
  nth_error (serve_history d registered (pre ++ [q])) (length pre) =
  nth_error (serve_history d registered (pre' ++ [q])) (length pre').
Proof. exact history_prefix_irrelevant. Qed.
Print Assumptions C08_history_prefix_irrelevant.

Theorem C08_history_meets_property : forall d registered qs tags,
  mem_bytes [] registered = false -> Forall (hreq_ok d) qs -> length tags = length qs ->
  Forall2 (fun qt o => req_prop d registered (fst qt) (snd qt) (req_runs (fst qt)) (obs_of o (snd qt)) = true)
          (combine qs tags) (serve_history d registered qs).
Proof. exact history_meets_property. Qed.
Print Assumptions C08_history_meets_property.

(* ---- the error responder invoked is the one the API has when the request is served: the last one assigned,
   whether it was assigned before or after the Context / handler was built from the API ---- *)
Theorem C08_error_responder_construction_point_irrelevant : forall a b c,
  responder_in_force (mkrcfg (a ++ b) c) = responder_in_force (mkrcfg a (b ++ c)).
Proof. exact responder_construction_point_irrelevant. Qed.
Print Assumptions C08_error_responder_construction_point_irrelevant.

Theorem C08_error_responder_assigned_later_wins : forall before after r,
  responder_in_force (mkrcfg before (after ++ [r])) = r.
Proof. exact responder_assigned_later_wins. Qed.
Print Assumptions C08_error_responder_assigned_later_wins.
