(* Properties_C03.v -- C03: declared non-body parameters are bound to exactly the value their text denotes, or 422.
   Theorems only; each is closed by exact of a lemma from Proofs/. *)
From V Require Import BinderSpec.
