(* Properties_C03.v -- C03: declared non-body parameters are bound to exactly the value their text denotes,
   or 422 naming the parameter; binding never panics.
   Theorems only; each is closed by exact of a lemma from Proofs/. bind_param is the model of the Go binder
   (Model/Binder.v, tied to the code by the correspondence run); O ranges over every behaviour of the
   library oracles (format registry, UnmarshalText of registered formats, strconv.ParseFloat); valid is the
   verdict of the validate library on the bound value (None = accepted). *)
From V Require Import Bytes Decimal Binder BinderSpec DecimalProofs BinderProofs BinderClauses BinderMulti BinderFile BinderFileProofs.
From Coq Require Import Permutation.
Local Open Scope nat_scope.

(* strconv.ParseInt(s, 10, 64), as the binder calls it, accepts exactly the base-10 literals (optional sign,
   at least one digit, nothing else) that denote an int64, and returns the integer they denote *)
Theorem C03_parse_int_is_literal : forall s z,
  parse_int_dec s = Some z <-> dec_literal s z /\ (- 2 ^ 63 <= z < 2 ^ 63)%Z.
Proof. exact parse_int_dec_iff. Qed.
Print Assumptions C03_parse_int_is_literal.

(* an integer parameter (any location) whose last occurrence is the non-empty text txt is bound to intw(z)
   exactly when txt is a base-10 literal denoting z and -2^(w-1) <= z < 2^(w-1); every other text is answered
   422 (invalid type) naming the parameter; nothing else is ever bound *)
Theorem C03_int_exact : forall O d rq w txt,
  request_wf rq = true -> gtype_for O d = Some (GScalar (SInt w)) ->
  last_or_empty (occurrences d rq) = txt -> txt <> [] ->
  (forall z, bind_param O d rq None = Bound (VScalar (VInt w z)) <-> dec_literal txt z /\ int_range w z) /\
  (forall valid, (~ exists z, dec_literal txt z /\ int_range w z) ->
                 bind_param O d rq valid = R422 (d_name d) code_invalid_type) /\
  (forall valid v, bind_param O d rq valid = Bound v ->
                   exists z, v = VScalar (VInt w z) /\ dec_literal txt z /\ int_range w z).
Proof. exact int_exact. Qed.
Print Assumptions C03_int_exact.

(* the width is the one the declared format names: int8, int16, int32; int64, any other format or none = 64 *)
Theorem C03_int_width : forall O d w, gtype_for O d = Some (GScalar (SInt w)) ->
  d_kind d = KInteger /\
  w = (if bytes_eqb (d_format d) s_int8 then 8
       else if bytes_eqb (d_format d) s_int16 then 16
       else if bytes_eqb (d_format d) s_int32 then 32 else 64).
Proof. exact int_width. Qed.
Print Assumptions C03_int_width.

(* scalars: the outcome depends on the request only through the last text sent for the name and on whether
   any was sent; in particular a later occurrence overrides all earlier ones *)
Theorem C03_scalar_last_wins : forall O d rq rq' valid t,
  request_wf rq = true -> request_wf rq' = true -> gtype_for O d = Some (GScalar t) ->
  last_or_empty (occurrences d rq) = last_or_empty (occurrences d rq') ->
  is_nil (occurrences d rq) = is_nil (occurrences d rq') ->
  bind_param O d rq valid = bind_param O d rq' valid.
Proof. exact scalar_last_wins. Qed.
Print Assumptions C03_scalar_last_wins.

Theorem C03_query_last_occurrence_wins : forall O d t rq pre post v valid,
  request_wf rq = true -> d_in d = LQuery -> gtype_for O d = Some (GScalar t) ->
  has_key (d_name d) post = false ->
  bind_param O d (with_query rq (pre ++ (d_name d, v) :: post)) valid =
  bind_param O d (with_query rq [(d_name d, v)]) valid.
Proof. exact query_last_occurrence_wins. Qed.
Print Assumptions C03_query_last_occurrence_wins.

Theorem C03_form_last_occurrence_wins : forall O d t rq pre post v valid,
  request_wf rq = true -> d_in d = LForm -> gtype_for O d = Some (GScalar t) ->
  has_key (d_name d) post = false ->
  bind_param O d (with_form rq (pre ++ (d_name d, v) :: post)) valid =
  bind_param O d (with_form rq [(d_name d, v)]) valid.
Proof. exact form_last_occurrence_wins. Qed.
Print Assumptions C03_form_last_occurrence_wins.

(* arrays: the items are every occurrence (multi) or the pieces of the last occurrence (csv/ssv/tsv/pipes:
   split at the separator, trimmed, empty pieces dropped); the handler receives exactly the values the items
   denote, in order, in a slice of the declared item type; anything else is not bound *)
Theorem C03_array_items : forall O d rq t vs,
  request_wf rq = true -> gtype_for O d = Some (GSlice t) ->
  array_items d (occurrences d rq) <> [] ->
  (bind_param O d rq None = Bound (VSlice t vs) <->
   (bytes_eqb (d_cf d) s_multi && negb (allows_multi d)) = false /\
   Forall2 (fun x v => item_value O d t x = Ok v) (array_items d (occurrences d rq)) vs /\
   (array_items d (occurrences d rq) = [[]] -> d_allow_empty d = false -> d_required d = true -> d_default d <> None)).
Proof. exact array_items_bound. Qed.
Print Assumptions C03_array_items.

(* multi outside query and formData is answered 422 naming the parameter *)
Theorem C03_array_multi_elsewhere_422 : forall O d rq valid t,
  request_wf rq = true -> gtype_for O d = Some (GSlice t) ->
  bytes_eqb (d_cf d) s_multi = true -> allows_multi d = false ->
  bind_param O d rq valid = R422 (d_name d) code_invalid_type.
Proof. exact array_multi_outside_query_form. Qed.
Print Assumptions C03_array_multi_elsewhere_422.

(* the split: joined by the separator the pieces give the text back, no piece contains the separator, and
   that determines the pieces; items are the trimmed non-empty pieces *)
Theorem C03_split_joins_back : forall sep s, join_sep sep (split_raw sep s) = s.
Proof. exact split_raw_join. Qed.
Print Assumptions C03_split_joins_back.
Theorem C03_split_no_separator_inside : forall sep s, Forall (fun it => ~ In sep it) (split_raw sep s).
Proof. exact split_raw_no_sep. Qed.
Print Assumptions C03_split_no_separator_inside.
Theorem C03_split_unique : forall sep l, l <> [] -> Forall (fun it => ~ In sep it) l -> split_raw sep (join_sep sep l) = l.
Proof. exact split_raw_unique. Qed.
Print Assumptions C03_split_unique.
Theorem C03_split_items_trimmed : forall data cf it, In it (split_by_format data cf) ->
  it <> [] /\ exists piece, In piece (split_raw (sep_of cf) data) /\ it = trim_space piece.
Proof. exact split_items_trimmed. Qed.
Print Assumptions C03_split_items_trimmed.

(* the declared default is bound when the parameter is absent or its (last) text is empty *)
Theorem C03_default_absent_or_empty : forall O d rq t v,
  request_wf rq = true -> gtype_for O d = Some (GScalar t) ->
  d_default d = Some (DScalar v) -> sval_has_type v t = true ->
  last_or_empty (occurrences d rq) = [] ->
  bind_param O d rq None = Bound (VScalar v).
Proof. exact default_scalar. Qed.
Print Assumptions C03_default_absent_or_empty.

Theorem C03_default_array_no_items : forall O d rq t l,
  request_wf rq = true -> gtype_for O d = Some (GSlice t) ->
  d_default d = Some (DSlice l) -> forallb (fun v => sval_has_type v t) l = true ->
  (bytes_eqb (d_cf d) s_multi && negb (allows_multi d)) = false ->
  array_items d (occurrences d rq) = [] ->
  bind_param O d rq None = Bound (VSlice t l).
Proof. exact default_array. Qed.
Print Assumptions C03_default_array_no_items.

(* a required parameter without default that is absent, or empty while empty values are not allowed: 422
   (required) naming the parameter *)
Theorem C03_required : forall O d rq valid t,
  request_wf rq = true -> gtype_for O d = Some (GScalar t) ->
  d_required d = true -> d_default d = None ->
  (occurrences d rq = [] \/ (d_allow_empty d = false /\ last_or_empty (occurrences d rq) = [])) ->
  bind_param O d rq valid = R422 (d_name d) code_required.
Proof. exact required_scalar. Qed.
Print Assumptions C03_required.

Theorem C03_required_array : forall O d rq valid t,
  request_wf rq = true -> gtype_for O d = Some (GSlice t) ->
  d_required d = true -> d_default d = None ->
  (bytes_eqb (d_cf d) s_multi && negb (allows_multi d)) = false ->
  (occurrences d rq = [] \/
   (d_allow_empty d = false /\ (array_items d (occurrences d rq) = [] \/ array_items d (occurrences d rq) = [[]]))) ->
  bind_param O d rq valid = R422 (d_name d) code_required.
Proof. exact required_array. Qed.
Print Assumptions C03_required_array.

(* a failing declared validation: the handler does not run (the outcome is never Bound), the answer is the
   422 of the validation naming the parameter; a text that does not bind is answered by the binder first *)
Theorem C03_validation_422 : forall O d rq c v, bind_param O d rq (Some c) <> Bound v.
Proof. exact validation_422. Qed.
Print Assumptions C03_validation_422.
Theorem C03_validation_outcome : forall O d rq c v,
  bind_param O d rq None = Bound v -> bind_param O d rq (Some c) = R422 (d_name d) c.
Proof. exact validation_outcome. Qed.
Print Assumptions C03_validation_outcome.

(* header parameters are found under every spelling of the declared name: the values the binder reads are
   those of the header lines whose name equals the declared name up to ASCII case *)
Theorem C03_header_ci : forall d rq, request_wf rq = true -> d_in d = LHeader ->
  fst (fst (source_get_ok d rq)) =
  List.map snd (List.filter (fun p => eq_fold (fst p) (d_name d)) (r_header rq)).
Proof. exact header_ci. Qed.
Print Assumptions C03_header_ci.
Theorem C03_canonical_key_ci : forall n1 n2,
  forallb is_token_byte n1 = true -> eq_fold n1 n2 = true -> canon_key n1 = canon_key n2.
Proof. exact canon_key_ci. Qed.
Print Assumptions C03_canonical_key_ci.

(* a parameter is looked up in its declared location only: two requests that agree on that location (query
   string, header lines, route parameters, or the fields of the form body) have the same outcome whatever the
   other locations carry -- a same-named key in the query string never overrides, replaces or stands in for a
   formData field, nor a body field, header line or path segment for a query parameter, and so on. Holds of
   the model of the code and of the specification, for every request (no well-formedness needed) *)
Theorem C03_only_declared_location : forall O d rq rq' valid,
  own_source d rq = own_source d rq' ->
  bind_param O d rq valid = bind_param O d rq' valid /\
  spec_outcome O d rq valid = spec_outcome O d rq' valid.
Proof. exact only_declared_location. Qed.
Print Assumptions C03_only_declared_location.

(* for every declaration of the modelled language (the four primitive types with any format, arrays of them
   with any collection format, default conforming to the type), every request, every answer of the oracles:
   bound, or 422 naming the parameter. Never a panic. *)
Theorem C03_total : forall O d rq valid, decl_wf O d = true ->
  (exists v, bind_param O d rq valid = Bound v) \/ (exists c, bind_param O d rq valid = R422 (d_name d) c).
Proof. exact bind_total. Qed.
Print Assumptions C03_total.

(* the model of the code equals the specification written in the property's vocabulary
   (BinderSpec.spec_outcome: occurrences by the rule of the location, denotation of a text, clauses) *)
Theorem C03_model_meets_spec : forall O d rq valid, request_wf rq = true -> gtype_for O d <> None ->
  bind_param O d rq valid = spec_outcome O d rq valid.
Proof. exact bind_param_meets_spec. Qed.
Print Assumptions C03_model_meets_spec.

(* several parameters of one request (the loop of UntypedRequestBinder.Bind, Binder.bind_request; ps = the declared
   parameters in the order the Go map hands them out, each with the verdict of its validator): the composite 422
   error names exactly the parameters that are rejected when judged one by one -- by a failing declared validation
   as well as by a type or required error, whatever happened to the parameters visited before -- and when none is
   rejected the handler runs *)
Theorem C03_every_rejected_parameter_named : forall O ps rq,
  (forall p, In p ps -> decl_wf O (fst p) = true) ->
  (rejected_names (fun d valid => bind_param O d rq valid) ps = [] /\
   exists vs, bind_request O ps rq = AllBound vs) \/
  (rejected_names (fun d valid => bind_param O d rq valid) ps <> [] /\
   bind_request O ps rq = Rejected (rejected_names (fun d valid => bind_param O d rq valid) ps)).
Proof. exact every_rejected_parameter_named. Qed.
Print Assumptions C03_every_rejected_parameter_named.

(* ... and that set of names is the same for every iteration order of the map *)
Theorem C03_rejected_names_any_order : forall judge ps ps', Permutation ps ps' ->
  forall n, In n (rejected_names judge ps) <-> In n (rejected_names judge ps').
Proof. exact rejected_names_any_order. Qed.
Print Assumptions C03_rejected_names_any_order.

(* type file (in: formData): the model of the file branch equals the specification (the file carried = the first
   part of a multipart body with the declared name and a file name) *)
Theorem C03_file_model_meets_spec : forall required name rq,
  bind_file required name rq = spec_file required name rq.
Proof. exact file_model_meets_spec. Qed.
Print Assumptions C03_file_model_meets_spec.

(* a required file the request does not carry is refused (the handler does not run), in particular on every
   urlencoded form body *)
Theorem C03_file_required_missing_refused : forall name rq,
  carried_file name rq = None ->
  bind_file true name rq = FRefused parse_error_status.
Proof. exact file_required_missing_refused. Qed.
Print Assumptions C03_file_required_missing_refused.

Theorem C03_file_required_urlencoded_refused : forall name parts,
  bind_file true name (FReq FUrlencoded parts) = FRefused parse_error_status.
Proof. exact file_required_urlencoded_refused. Qed.
Print Assumptions C03_file_required_urlencoded_refused.

Theorem C03_file_carried_is_received : forall required name rq f d,
  carried_file name rq = Some (f, d) ->
  bind_file required name rq = FGot f d.
Proof. exact file_carried_is_received. Qed.
Print Assumptions C03_file_carried_is_received.
