(* Properties_C19.v — C19: API validation passes exactly when registrations match the description.
   Theorems only; each is closed by `exact` of a lemma from Proofs/APIValidateProofs.v.
   Vocabulary: Model/APIValidate.v (validate, verify, build_api, the analyzer's required sets),
   Model/APIValidateSpec.v (coincide, validate_prop, reports, simple_desc). *)
From V Require Import APIValidateSpec APIValidateProofs.

(* validation succeeds exactly when the registered consumers, producers, operations and authenticators
   coincide with the required ones and the declared security definitions with the used ones *)
Theorem C19_valid_iff : forall a d, validate a d = None <-> coincide a d = true.
Proof. exact validate_none_iff. Qed.
Print Assumptions C19_valid_iff.

Theorem C19_coincide_means : forall a d, coincide a d = true <->
  (forall x, In x (a_consumers a) <-> In x (required_consumes d)) /\
  (forall x, In x (a_producers a) <-> In x (required_produces d)) /\
  (forall x, In x (a_ops a) <-> In x (required_ops d)) /\
  (forall x, In x (a_auths a) <-> In x (required_schemes d)) /\
  (forall x, In x (g_defs d) <-> In x (required_schemes d)).
Proof. exact coincide_iff. Qed.
Print Assumptions C19_coincide_means.

(* otherwise it reports the first failing category with exactly the superfluous and the missing names, each
   list sorted (the predicate validate_prop is the one the check evaluates on API.Validate's answer) *)
Theorem C19_reports_first_failing_category : forall a d, validate_prop a d (validate a d) = true.
Proof. exact validate_meets_prop. Qed.
Print Assumptions C19_reports_first_failing_category.

Theorem C19_failure_lists_exact : forall k regs exps f, verify k regs exps = Some f ->
  f_section f = k /\
  (forall x, In x (f_unspecified f) <-> In x regs /\ ~ In x exps) /\
  (forall x, In x (f_unregistered f) <-> In x exps /\ ~ In x regs).
Proof.
  intros k regs exps f H. apply verify_some in H. destruct H as [S [U R]]. split; [exact S|].
  rewrite U, R. split; intros x; [apply in_unspecified | apply in_unregistered].
Qed.
Print Assumptions C19_failure_lists_exact.

(* Go map iteration order and repeated registrations do not matter (equality of the reported lists as lists: not proved) *)
Theorem C19_order_insensitive_partial : forall k regs exps regs' exps',
  (forall x, In x regs <-> In x regs') -> (forall x, In x exps <-> In x exps') ->
  match verify k regs exps, verify k regs' exps' with
  | None, None => True
  | Some f, Some f' => f_section f = f_section f' /\
                       (forall x, In x (f_unspecified f) <-> In x (f_unspecified f')) /\
                       (forall x, In x (f_unregistered f) <-> In x (f_unregistered f'))
  | _, _ => False
  end.
Proof. exact verify_order_insensitive_partial. Qed.
Print Assumptions C19_order_insensitive_partial.

Theorem C19_register_normalises : forall a mt m p,
  In (lower mt) (a_consumers (apply_reg a (RConsumer mt))) /\
  In (lower mt) (a_producers (apply_reg a (RProducer mt))) /\
  In (upper m ++ SP :: p) (a_ops (apply_reg a (ROperation m p))).
Proof. exact register_normalises. Qed.
Print Assumptions C19_register_normalises.

(* a validated API has, for every declared operation, the handler, a consumer for every admitted media type,
   a producer for every offered media type, and an authenticator and a definition for every scheme of every
   requirement: the lookups of AddRoute and of request time cannot miss *)
Theorem C19_validated_serves : forall a d o, validate a d = None -> In o (g_ops d) ->
  In (op_key (op_method o) (op_path o)) (a_ops a) /\
  (forall ct, In ct (effective_consumes d o) -> In ct (a_consumers a)) /\
  (forall p, In p (effective_produces d o) -> In p (a_producers a)) /\
  (forall alt s, In alt (effective_security d o) -> In s alt -> In s (a_auths a) /\ In s (g_defs d)).
Proof. exact validated_lookups. Qed.
Print Assumptions C19_validated_serves.

(* ... in particular the producer lookup of Respond (C08) succeeds for every parameter-free offer *)
Theorem C19_validated_producer_for_every_offer : forall a d o p, validate a d = None -> In o (g_ops d) ->
  In p (effective_produces d o) -> normalize_offer p = p ->
  route_or_default (a_producers a) (a_default a) (route_of a d o) (normalize_offer p) = Some p.
Proof. exact validated_producer_for_every_offer. Qed.
Print Assumptions C19_validated_producer_for_every_offer.

(* the guard "the operation offers something" is needed: a validated API without produces and without the
   JSON defaults panics when served (F-C19-1) *)
Theorem C19_validated_serves_needs_produces_refuted :
  exists regs d o, validate (build_api regs) d = None /\ In o (g_ops d) /\ simple_desc d = true /\
                   exercise (build_api regs) d o = Panicked PNoProducer [].
Proof. exact validated_serves_needs_produces_refuted. Qed.
Print Assumptions C19_validated_serves_needs_produces_refuted.

(* the route table (DefaultRouter / AddRoute): under a well-formed base path (absent or rooted; any spelling: trailing
   slash, dots, doubled slashes) a well-formed template (rooted, normal form; any segment bytes: dots, dashes, tildes,
   segments equal to the base path) is recovered from path.Join(basePath, template) exactly ... *)
Theorem C19_route_template_recovered : forall d o, wf_base (g_base d) = true -> wf_template (op_path o) = true ->
  route_template d o = op_path o.
Proof. exact route_template_recovered. Qed.
Print Assumptions C19_route_template_recovered.

(* ... so every declared operation of a validated API gets its route: the handler lookup of AddRoute cannot miss *)
Theorem C19_validated_routes : forall a d o, validate a d = None -> In o (g_ops d) ->
  wf_base (g_base d) = true -> wf_template (op_path o) = true -> route_added a d o = true.
Proof. exact validated_routes. Qed.
Print Assumptions C19_validated_routes.

(* the guard on the template is needed: a template with a trailing slash validates and is never routed (F-C19-2) *)
Theorem C19_validated_routes_needs_normal_template_refuted :
  exists regs d o, validate (build_api regs) d = None /\ In o (g_ops d) /\ wf_base (g_base d) = true /\
                   wf_template (op_path o) = false /\ route_added (build_api regs) d o = false.
Proof. exact validated_routes_needs_normal_template_refuted. Qed.
Print Assumptions C19_validated_routes_needs_normal_template_refuted.

(* ---- state carried across calls ----
   Validate keeps nothing between calls on one API value: after any batches of registrations the k-th answer is the one a
   fresh value gives when handed every registration made so far (the check runs the same history on the real API value
   and on fresh ones) ... *)
Theorem C19_validate_history_fresh : forall d steps a k r,
  nth_error (validate_history a d steps) k = Some r ->
  r = validate (fold_left apply_reg (concat (firstn (S k) steps)) a) d.
Proof. exact validate_history_fresh. Qed.
Print Assumptions C19_validate_history_fresh.

(* ... and every answer of the history is what the property demands of the registrations as they then stand (history_ok is
   the predicate the check evaluates on the answers of API.Validate) *)
Theorem C19_validate_history_meets_prop : forall d steps a, history_ok a d (model_more a d steps) = true.
Proof. exact model_history_ok. Qed.
Print Assumptions C19_validate_history_meets_prop.

(* a handler keeps nothing between requests: a history of requests is answered request by request *)
Theorem C19_serve_history_is_map : forall a d rqs, serve_history a d rqs = map (serve_one a d) rqs.
Proof. exact serve_history_is_map. Qed.
Print Assumptions C19_serve_history_is_map.

(* a well-formed request (credentials covering one alternative requirement, a body in an admitted media type in any
   letter case with or without parameters, an Accept header absent or acceptable) to a declared operation of a validated
   API over a simple description is never turned away for lack of a consumer (1), a route or handler (4), an admitted
   content type (5), an authenticator (7) *)
Theorem C19_validated_wf_request : forall regs d o rq,
  validate (build_api regs) d = None -> In o (g_ops d) -> simple_desc d = true ->
  wf_base (g_base d) = true -> wf_template (op_path o) = true ->
  wf_request (build_api regs) d o rq = true ->
  let k := rs_outcome (serve_request (build_api regs) d o rq) in k <> 1 /\ k <> 4 /\ k <> 5 /\ k <> 7.
Proof. exact validated_wf_request. Qed.
Print Assumptions C19_validated_wf_request.

(* ... more precisely: its handler runs and the response is written with status 200 by some producer, or Respond finds
   no producer for the negotiated format (excluded for every offered format by C19_validated_producer_for_every_offer;
   the remaining case, nothing offered and no default, is F-C19-1) *)
Theorem C19_validated_wf_request_served : forall regs d o rq,
  validate (build_api regs) d = None -> In o (g_ops d) -> simple_desc d = true ->
  wf_base (g_base d) = true -> wf_template (op_path o) = true ->
  wf_request (build_api regs) d o rq = true ->
  (exists ct p, serve_request (build_api regs) d o rq = mkres 0 ct p) \/
  serve_request (build_api regs) d o rq = res_fail 2.
Proof. exact validated_wf_request_served. Qed.
Print Assumptions C19_validated_wf_request_served.

(* a declared HEAD operation of a validated API, whatever the spelling its handler was registered under: a well-formed
   request runs the handler and is answered with status and headers only; no producer is needed *)
Theorem C19_validated_head_served : forall regs d o rq,
  validate (build_api regs) d = None -> In o (g_ops d) -> simple_desc d = true ->
  wf_base (g_base d) = true -> wf_template (op_path o) = true ->
  wf_request (build_api regs) d o rq = true -> is_head o = true ->
  exists ct, serve_request (build_api regs) d o rq = mkres 0 ct [].
Proof. exact validated_head_served. Qed.
Print Assumptions C19_validated_head_served.
