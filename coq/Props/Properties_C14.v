(* Properties_C14.v — C14: credentials written by the client are exactly those the server checks.
   Theorems only; each is closed by `exact` of a lemma from Proofs/CredentialsProofs.v or Lib/Base64Std.v. *)
From V Require Import Bytes Base64Std Credentials CredentialsSpec CredentialsProofs.

(* base64 StdEncoding: decoding inverts encoding on every byte string *)
Theorem b64_roundtrip : forall s, Forall (fun c => c < 256) s -> b64_decode (b64_encode s) = Some s.
Proof. exact Base64Std.b64_roundtrip. Qed.
Print Assumptions b64_roundtrip.

(* user without a colon, any password: the server's basic authenticator reads exactly (u, p) *)
Theorem C14_basic_roundtrip : forall u p q,
  Forall (fun c => c < 256) u -> Forall (fun c => c < 256) p -> ~ In 58 u ->
  basic_read (basic_write u p q) = Some (u, p).
Proof. exact basic_roundtrip. Qed.
Print Assumptions C14_basic_roundtrip.

Theorem C14_apikey_roundtrip : forall name loc v q, v <> [] ->
  (loc = InHeader -> header_safe v = true) ->
  apikey_read name loc (apikey_write name loc v q) = Some v.
Proof. exact apikey_roundtrip. Qed.
Print Assumptions C14_apikey_roundtrip.

Theorem C14_apikey_empty_not_applicable : forall name loc q,
  apikey_read name loc (apikey_write name loc [] q) = None.
Proof. exact apikey_empty_not_applicable. Qed.
Print Assumptions C14_apikey_empty_not_applicable.

Theorem C14_bearer_roundtrip : forall tok q, tok <> [] -> header_safe tok = true ->
  bearer_read (bearer_write tok q) = Some tok.
Proof. exact bearer_roundtrip. Qed.
Print Assumptions C14_bearer_roundtrip.

(* Authorization header, else the access_token query parameter, else the form body *)
Theorem C14_bearer_precedence : forall q,
  bearer_read q = bearer_expected (header_token q) (get_query s_access_token q) (form_token q) (r_form_ct q).
Proof. exact bearer_precedence. Qed.
Print Assumptions C14_bearer_precedence.

(* for every reader and callback: not applicable exactly when nothing is read ... *)
Theorem C14_not_applicable_iff_absent : forall (Cred Principal Err : Type) read cb q,
  fst (fst (authenticate Cred Principal Err read cb q)) = false <-> read q = None.
Proof. exact not_applicable_iff_absent. Qed.
Print Assumptions C14_not_applicable_iff_absent.

(* ... and otherwise principal and error are the callback's, called once with what was read *)
Theorem C14_principal_is_callbacks : forall (Cred Principal Err : Type) read cb q p e,
  authenticate Cred Principal Err read cb q = (true, p, e) ->
  exists c, read q = Some c /\ cb c = (p, e) /\ callback_args Cred read q = [c].
Proof. exact principal_is_callbacks. Qed.
Print Assumptions C14_principal_is_callbacks.

Theorem C14_default_auth_rule : forall op default q,
  effective_auth op default q =
  match op with
  | Some w => w q
  | None => match default, raw_header s_authorization q with
            | Some d, [] => d q
            | _, _ => q
            end
  end.
Proof. exact default_auth_rule. Qed.
Print Assumptions C14_default_auth_rule.

Theorem C14_realm_marker : forall configured applies failed,
  basic_marker configured applies failed =
  if negb applies || failed then (match configured with [] => [65; 80; 73] | _ => configured end) else [].
Proof. exact realm_marker. Qed.
Print Assumptions C14_realm_marker.

(* ---- the default credential against every kind of operation writer (writers as data: basic, bearer,
   API key in header or query, pass-through, composition) ---- *)

(* the modelled wrapper = the property's rule: own credential, and the default only when the operation has no writer
   and no Authorization header is set *)
Theorem C14_default_only_when : forall op default q,
  effective_cred op default q = expected_request op default q.
Proof. exact effective_cred_expected. Qed.
Print Assumptions C14_default_only_when.

(* an operation with a writer of its own never gets the default credential, whatever that writer writes *)
Theorem C14_own_credential_excludes_default : forall w default q,
  effective_cred (Some w) default q = write_cred w q.
Proof. exact own_credential_excludes_default. Qed.
Print Assumptions C14_own_credential_excludes_default.

Theorem C14_preset_authorization_excludes_default : forall default q,
  raw_header s_authorization q <> [] -> effective_cred None default q = q.
Proof. exact preset_authorization_excludes_default. Qed.
Print Assumptions C14_preset_authorization_excludes_default.

(* a writer that is not an Authorization writer leaves the Authorization header alone ... *)
Theorem C14_non_authorization_writer_frame : forall w q,
  writes_authorization w = false ->
  raw_header s_authorization (write_cred w q) = raw_header s_authorization q.
Proof. exact non_authorization_writer_frame. Qed.
Print Assumptions C14_non_authorization_writer_frame.

(* ... hence the default credential is not a fallback for such an operation: no Authorization header appears *)
Theorem C14_default_not_a_fallback : forall w d q,
  writes_authorization w = false -> raw_header s_authorization q = [] ->
  raw_header s_authorization (effective_cred (Some w) (Some d) q) = [].
Proof. exact default_not_a_fallback. Qed.
Print Assumptions C14_default_not_a_fallback.

(* a composition writes its members in order on the same request *)
Theorem C14_compose_sequence : forall a r q,
  write_cred (WCompose (a :: r)) q = write_cred (WCompose r) (write_cred a q).
Proof. exact compose_sequence. Qed.
Print Assumptions C14_compose_sequence.

(* ---- several requests on one transport, the default credential replaced between them ---- *)

(* every request of a history is built as if it were the only one *)
Theorem C14_each_request_on_its_own : forall h1 s h2,
  nth_error (build_all (h1 ++ s :: h2)) (length h1) = Some (build_request s).
Proof. exact build_all_pointwise. Qed.
Print Assumptions C14_each_request_on_its_own.

(* ... hence it carries the default credential configured at the time it is built (and only under the rule above),
   whatever was configured, and used, before *)
Theorem C14_default_is_the_current_one : forall h1 op default q0 h2,
  nth_error (build_all (h1 ++ (op, default, q0) :: h2)) (length h1) = Some (expected_request op default q0).
Proof. exact build_all_current. Qed.
Print Assumptions C14_default_is_the_current_one.

(* ---- a credential is taken from the place its scheme declares, and from nowhere else ---- *)

(* each authenticator reads what it would read of the request reduced to its declared location: the Authorization header
   (basic), the header or the query parameter of the key's name (API key), the Authorization header / access_token in the
   query / access_token in a form body (bearer); other headers, cookies, query parameters and form fields play no part *)
Theorem C14_declared_location_only : forall k name q,
  read_cred k name q = read_cred k name (declared_part k name q).
Proof. exact declared_location_only. Qed.
Print Assumptions C14_declared_location_only.

(* ... hence two requests that agree on the declared location yield the same credential or the same not-applicable *)
Theorem C14_same_declared_same_credential : forall k name q q',
  declared_part k name q = declared_part k name q' -> read_cred k name q = read_cred k name q'.
Proof. exact same_declared_same_credential. Qed.
Print Assumptions C14_same_declared_same_credential.

(* the predicate evaluated on the real authenticators accepts the model's answer *)
Theorem C14_declared_location_accepts_model : forall k name q,
  from_declared_location k name q (has_cred (read_cred k name q)) (read_cred k name q) = true.
Proof. exact declared_location_accepts_model. Qed.
Print Assumptions C14_declared_location_accepts_model.
