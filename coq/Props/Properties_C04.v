(* Properties_C04.v — C04: client and server agree: what the caller sets is what the handler gets.
   Theorems only. They compose the models of the client (C10: url.PathEscape / QueryEscape, Lib/UrlEscape.v) and of the
   server (C01/C05: cleaning, trie routing, unescaping of captured texts, Model/SpecRouter*.v).
   Header parameters: the line net/http writes and net/textproto reads (Model/HeaderWire.v) round-trips name and value.
   Multipart documents: the framing mime/multipart writes and reads (Model/MultipartWire.v) round-trips every list of parts
   whose contents hold no live delimiter, and that proviso is exact.
   PARTIAL: the meaning of part headers, body codecs and the response path are tied by the correspondence run
   (real client -> wire -> real middleware -> response reader) only. *)
From V Require Import Bytes PathCleanLib SpecRouter SpecRouterSpec SpecRouterSegs SpecRouterSegDispatch RoundTrip RoundTripProofs.
From V Require UrlEscape PathUnescapeLib.
From V Require Import HeaderWire HeaderWireProofs.

(* PATH VALUES. For every API description whose templates are simple (every placeholder a whole segment), every
   operation r of it, every method spelling m that is r's method up to case, and every tuple of values that are byte
   strings, not empty and not dot segments: the request path the client builds (placeholders replaced by the
   percent-escaped values) is routed by the server to r's handler, which receives exactly the supplied values by
   name — whatever reserved bytes they contain (slash, percent, colon, star, hash, question mark, braces, space,
   non-ASCII). The one proviso is spelled out: no other operation under the same method is preferred for those
   very segments, i.e. the value does not coincide with a literal sibling segment (the router prefers literals). *)
Theorem C04_path_roundtrip : forall base routes ts_of,
  simple_view base routes ts_of -> plain_routes base routes = true ->
  forall r m vals p,
  In r routes -> under m r ->
  forallb value_ok vals = true ->
  client_path (ts_of r) vals = Some p ->
  (forall segs, inst (ts_of r) vals = Some segs ->
     forall r', In r' routes -> under m r' -> seg_match (ts_of r') segs <> None ->
       tshape (ts_of r') = tshape (ts_of r) \/ seg_pref_b (ts_of r) (ts_of r') = true) ->
  serve base routes m p = Run (r_id r) (combine (tpl_names (ts_of r)) vals).
Proof. exact path_roundtrip. Qed.
Print Assumptions C04_path_roundtrip.

(* the pieces the round trip rests on *)
Theorem C04_escaped_value_is_one_plain_segment : forall v, value_ok v = true ->
  plain_seg (UrlEscape.path_escape v) = true.
Proof. exact escape_plain_seg. Qed.
Print Assumptions C04_escaped_value_is_one_plain_segment.

Theorem C04_server_unescape_inverts_client_escape : forall v, UrlEscape.wf_bytes v ->
  PathUnescapeLib.unescape_or_raw (UrlEscape.path_escape v) = v.
Proof. exact unescape_or_raw_escape. Qed.
Print Assumptions C04_server_unescape_inverts_client_escape.

Theorem C04_client_path_is_already_clean : forall segs, forallb plain_seg segs = true ->
  clean (render_path segs) = render_path segs.
Proof. exact clean_render_path. Qed.
Print Assumptions C04_client_path_is_already_clean.

(* the two models of url.PathUnescape used by C01 and C10 are one function *)
Theorem C04_unescape_models_agree : forall s, PathUnescapeLib.path_unescape s = UrlEscape.path_unescape s.
Proof. exact unescape_agree. Qed.
Print Assumptions C04_unescape_models_agree.

(* QUERY AND FORM VALUES. url.QueryUnescape inverts url.QueryEscape on every byte string, and an escaped value
   contains none of the bytes that delimit pairs (ampersand, equals, semicolon), start a fragment or query, or a space *)
Theorem C04_query_value_roundtrip : forall v, UrlEscape.wf_bytes v ->
  UrlEscape.query_unescape (UrlEscape.query_escape v) = Some v.
Proof. exact query_unescape_escape. Qed.
Print Assumptions C04_query_value_roundtrip.

Theorem C04_query_value_cannot_split_a_pair : forall v, UrlEscape.wf_bytes v ->
  forallb query_safe (UrlEscape.query_escape v) = true.
Proof. exact query_escape_safe. Qed.
Print Assumptions C04_query_value_cannot_split_a_pair.

(* REPEATED QUERY AND FORM VALUES. The client's encoding of a value map (C11's model of url.Values.Encode: names sorted,
   every pair escaped) is decoded by the server's parser (C10's model of url.ParseQuery) into exactly the same map: every
   name gets back its values, all of them, in the order they were set; a name without values vanishes. For every map with
   pairwise distinct names, any bytes in names and values (ampersand, equals sign, semicolon, plus, percent, space, non-ASCII). *)
From V Require Import FormRoundTrip.
From V Require ClientURL ClientBody.
Theorem C04_form_values_roundtrip : forall fs k, Forall wf_field fs -> NoDup (map fst fs) ->
  ClientURL.q_get k (ClientURL.parse_query (ClientBody.form_encode fs)) =
  match find (fun f => bytes_eqb k (fst f)) fs with
  | Some f => match snd f with [] => None | vs => Some vs end
  | None => None
  end.
Proof. exact form_roundtrip. Qed.
Print Assumptions C04_form_values_roundtrip.

(* the two models of url.QueryEscape used by C11 and C10 are one function on bytes *)
Theorem C04_query_escape_models_agree : forall s, UrlEscape.wf_bytes s ->
  ClientBody.cb_query_escape s = UrlEscape.query_escape s.
Proof. exact query_escape_agree. Qed.
Print Assumptions C04_query_escape_models_agree.

(* HEADER VALUES. For every declared header name made of token bytes and every value without control bytes other than
   HTAB and without white space at its ends: the line the client side writes under the canonical name, followed by
   anything that does not start with a space or tab (the next field, the blank line), is read by the server side as
   exactly that canonical name -- the key the binder looks up -- and exactly that value, leaving exactly what followed. *)
Theorem C04_header_value_roundtrip : forall n v rest,
  hdr_name_ok n = true -> hdr_value_ok v = true -> no_ows_head rest = true ->
  read_header (hdr_write (canonical_name n) v ++ rest) = HdrField (canonical_name n) v rest.
Proof. exact header_param_roundtrip. Qed.
Print Assumptions C04_header_value_roundtrip.

(* what does not survive, and how it changes: CR and LF become spaces, white space at the ends is stripped, nothing else *)
Theorem C04_header_value_normalised : forall k v rest,
  hdr_name_ok k = true -> forallb value_byte (map nl_to_space v) = true -> no_ows_head rest = true ->
  read_header (hdr_write k v ++ rest) = HdrField (canon_go true k) (trim (map nl_to_space v)) rest.
Proof. exact header_value_normalised. Qed.
Print Assumptions C04_header_value_normalised.

Theorem C04_header_name_canonical_idem : forall k, canonical_name (canonical_name k) = canonical_name k.
Proof. exact canonical_name_idem. Qed.
Print Assumptions C04_header_name_canonical_idem.

(* MULTIPART DOCUMENTS (form fields and file uploads). Model/MultipartWire.v: the document mime/multipart.Writer emits
   and the parts mime/multipart.Reader finds in it (standard-library code: modelled, tied by the run's CMultipart and
   CMpRead cases). For every boundary the Writer accepts and every list of parts -- any number, header blocks made of
   complete lines the reader accepts, contents of ANY bytes and ANY length -- provided no content, seen after the line
   end of the blank line before it, contains line end + two dashes + the boundary: reading the rendered document gives
   back exactly those parts. The fuel is the length of the document, so out-of-fuel is excluded by the statement. *)
From V Require Import MultipartWire MultipartWireProofs.
Theorem C04_multipart_roundtrip : forall b parts,
  boundary_ok b = true -> Forall (part_ok b) parts ->
  mp_parse (length (mp_render b parts)) b (mp_render b parts) = Some parts.
Proof. exact multipart_roundtrip. Qed.
Print Assumptions C04_multipart_roundtrip.

(* the sharp form: only a LIVE delimiter in a content matters -- one followed by a blank, tab, CR, LF or two dashes, or
   standing at the very end of the content; a delimiter followed by any other byte is content for the reader too *)
Theorem C04_multipart_roundtrip_sharp : forall b parts,
  boundary_ok b = true -> Forall (part_ok_sharp b) parts ->
  mp_parse (length (mp_render b parts)) b (mp_render b parts) = Some parts.
Proof. exact multipart_roundtrip_sharp. Qed.
Print Assumptions C04_multipart_roundtrip_sharp.

(* and the sharp proviso is EXACT: a first part whose content holds a live delimiter never comes back as written,
   whatever the fuel, whatever follows *)
Theorem C04_multipart_live_delimiter_breaks : forall b h c ps fuel,
  boundary_ok b = true -> hdr_ok h = true -> no_live_delim b c = false ->
  mp_parse fuel b (mp_render b ((h, c) :: ps)) <> Some ((h, c) :: ps).
Proof. exact multipart_live_delimiter_breaks. Qed.
Print Assumptions C04_multipart_live_delimiter_breaks.

(* the hypotheses are met by the header blocks client/request.go writes and by contents with CR, LF, dashes and the
   delimiter cut short by one byte *)
Theorem C04_multipart_hypotheses_met :
  boundary_ok ex_boundary = true /\ forallb (part_okb ex_boundary) ex_parts = true.
Proof. exact ex_hypotheses_hold. Qed.
Print Assumptions C04_multipart_hypotheses_met.

(* the proviso is necessary, first half: a content holding the delimiter followed by a line end is cut there and what
   follows it is read as a further part (one part written, two read) *)
Theorem C04_multipart_roundtrip_without_proviso_refuted :
  exists b h c, boundary_ok b = true /\ hdr_ok h = true /\ hdr_valid h = true /\
    mp_parse (length (mp_render b [(h, c)])) b (mp_render b [(h, c)]) =
    Some [(h, ex_kept); (h, ex_injected)].
Proof. exact multipart_roundtrip_without_proviso_refuted. Qed.
Print Assumptions C04_multipart_roundtrip_without_proviso_refuted.

(* second half: a content that does not contain the delimiter but STARTS with two dashes + the boundary is read as
   empty (the line end of the blank line before it completes the delimiter) *)
Theorem C04_multipart_roundtrip_delimiter_at_start_refuted :
  exists b h c, boundary_ok b = true /\ hdr_ok h = true /\ hdr_valid h = true /\
    contains (crlf ++ dash_boundary b) c = false /\
    mp_parse (length (mp_render b [(h, c)])) b (mp_render b [(h, c)]) =
    Some [(h, []); (ex_injected_hdr, ex_tail)].
Proof. exact multipart_roundtrip_delimiter_at_start_refuted. Qed.
Print Assumptions C04_multipart_roundtrip_delimiter_at_start_refuted.
