From V Require Import Bytes.
Theorem C04_placeholder : True. Proof. exact I. Qed.
Print Assumptions C04_placeholder.
