(* Properties_C17.v — C17: probing a request for a body never loses, reorders or fabricates body
   bytes. Theorems only; each is closed by `exact` of a lemma from Proofs/PeekProofs.v.

   Vocabulary (Model/Peek.v, Model/PeekSpec.v, Lib/StreamScripts.v):
   c : cfg          the request (ContentLength, Content-Length header present, Body == nil,
                    what the stream's Close returns)
   steps            the script of the underlying stream: what each of its Read calls returns
                    (any chunk sizes, zero-length reads, data+EOF, an error after any byte)
   ops              any sequence of HasBody / Read k / Close calls on the request
   run c ops (init c steps) = (outputs of the calls, final state) on the model of request.go. *)
From V Require Import PeekSpec PeekProofs.

(* Every history is one the property allows (PeekSpec.hist_ok is the whole property as one
   executable judgement; the clauses below are read off it one by one). *)
Theorem C17_history_ok : forall c steps ops,
  history_ok c steps ops (fst (run c ops (init c steps))) (s_closes (snd (run c ops (init c steps)))) = true.
Proof. exact history_ok_run. Qed.
Print Assumptions C17_history_ok.

(* For every stream, every request and EVERY sequence of HasBody, Read k (k = 0 included) and
   Close calls: the bytes returned by the reads made before the body is closed are, concatenated
   in order, a prefix of the original byte sequence (nothing lost before it, reordered or
   fabricated), and a read returns a terminal condition only when every original byte has been
   returned, and then it is the original one. *)
Theorem C17_stream_preserved : forall c steps ops,
  delivers (if c_nil c then [] else steps_bytes steps) (init_term c steps)
           (reads_before_close false c ops (fst (run c ops (init c steps)))) = true.
Proof. exact stream_preserved. Qed.
Print Assumptions C17_stream_preserved.

(* The body yields exactly the original byte sequence followed by the original terminal
   condition: after ANY history without Close (probes and reads of any sizes in any order), reading
   on with any non-empty destination until a terminal condition comes back returns exactly the
   bytes not yet returned, and then the original terminal condition (fuel: one read per byte and
   per zero-length read of the stream suffices). *)
Theorem C17_drain_exact : forall c steps ops k fuel,
  c_nil c = false -> existsb is_close ops = false -> 0 < k ->
  length (steps_bytes steps) + empties steps < fuel ->
  let outs := fst (run c ops (init c steps)) in
  let s := snd (run c ops (init c steps)) in
  read_bytes (reads_before_close false c ops outs) ++ fst (drain fuel k s) = steps_bytes steps /\
  snd (drain fuel k s) = Some (steps_term steps).
Proof. exact drain_all. Qed.
Print Assumptions C17_drain_exact.

(* ... and the wrappers add no empty reads of their own: a Read with room for a byte returns
   (0, nil) only when the underlying stream itself made a zero-length read. With
   C17_stream_preserved: reading on yields every original byte and then the terminal condition. *)
Theorem C17_no_spurious_empty_read : forall c steps ops k s',
  let s := snd (run c ops (init c steps)) in
  0 < k -> do_read k s = (ORead [] None, s') -> lead_r (s_r s) = S (lead_r (s_r s')).
Proof. exact read_progress. Qed.
Print Assumptions C17_no_spurious_empty_read.

(* The answer on a fresh request: true exactly when a positive length is declared or, no length
   being declared, at least one byte can be read (streams that make 100 consecutive zero-length
   reads excepted: bufio gives up on them). *)
Theorem C17_answer : forall c steps,
  stall_ok max_empty_reads steps = true ->
  fst (has_body c (init c steps)) =
  OHas (if (0 <? c_cl c)%Z then true else if c_hdr c then false
        else negb (is_nil (if c_nil c then [] else steps_bytes steps))).
Proof. exact answer_fresh. Qed.
Print Assumptions C17_answer.
(* (At any later point of a history the answer is PeekSpec.expected_answer on the bytes not yet
   returned: that is part of C17_history_ok.) *)

(* Asking again gives the same answer, after any history. *)
Theorem C17_idempotent : forall c steps ops,
  stall_ok max_empty_reads steps = true ->
  let s := snd (run c ops (init c steps)) in
  fst (has_body c (snd (has_body c s))) = fst (has_body c s).
Proof. exact idempotent. Qed.
Print Assumptions C17_idempotent.

(* Close calls reaching the underlying stream: those the caller makes on the original stream
   itself, plus exactly one for the replaced body however often it is closed or probed again. *)
Theorem C17_close_once : forall c steps ops,
  s_closes (snd (run c ops (init c steps))) = closes_expected c false false 0 ops.
Proof. exact close_once. Qed.
Print Assumptions C17_close_once.

Theorem C17_close_once_after_probe : forall c steps ops,
  probing c = true -> c_nil c = false ->
  s_closes (snd (run c (OpHas :: ops) (init c steps))) = if existsb is_close ops then 1 else 0.
Proof. exact close_once_probed. Qed.
Print Assumptions C17_close_once_after_probe.

(* Reads after the replaced body was closed return no data, and an error unless nothing was
   asked for (a zero-length read may return 0, nil). *)
Theorem C17_read_after_close_fails : forall c steps ops,
  forallb fails (reads_after_close c false false ops (fst (run c ops (init c steps)))) = true.
Proof. exact read_after_close_fails. Qed.
Print Assumptions C17_read_after_close_fails.

(* No history panics (nil body included; true of the tree after the fix of F-C17-1). *)
Theorem C17_total : forall c steps ops, no_panic (fst (run c ops (init c steps))) = true.
Proof. exact total. Qed.
Print Assumptions C17_total.

(* ---- two requests in flight, calls interleaved in any order (a caller may keep r.Body of one request and use
   it - read it, close it again - after the other request has been probed) ---- *)

(* what one request observes does not depend on what is done to the other: its outputs and final state are those of
   its own calls run alone *)
Theorem C17_requests_independent : forall cA cB ops sA sB,
  outs_of false ops (fst (run2 cA cB ops sA sB)) = fst (run cA (calls_of false ops) sA) /\
  fst (snd (run2 cA cB ops sA sB)) = snd (run cA (calls_of false ops) sA) /\
  outs_of true ops (fst (run2 cA cB ops sA sB)) = fst (run cB (calls_of true ops) sB) /\
  snd (snd (run2 cA cB ops sA sB)) = snd (run cB (calls_of true ops) sB).
Proof. exact run2_alone. Qed.
Print Assumptions C17_requests_independent.

(* hence every interleaved history satisfies the judgement the correspondence run evaluates on the implementation:
   for each request the bytes, terminal condition, answers, failing reads after close and the single Close are its own *)
Theorem C17_interleaved_history_ok : forall cA stepsA cB stepsB ops,
  let r := run2 cA cB ops (init cA stepsA) (init cB stepsB) in
  pair_ok cA stepsA cB stepsB ops (fst r) (s_closes (fst (snd r))) (s_closes (snd (snd r))) = true.
Proof. exact pair_ok_run2. Qed.
Print Assumptions C17_interleaved_history_ok.

(* ---- reads on the closed wrapper itself: any buffer size, 0 included ---- *)

(* As long as the body the caller holds is the wrapper Close was called on (no probing HasBody has wrapped it again
   since), every Read - also a zero-length one, also after the body was read to its end - returns no data and a failure: an
   error other than io.EOF (PeekSpec.is_failure; a clean end of stream would make the closed body look complete and empty). *)
Theorem C17_read_on_closed_body_fails : forall c steps ops,
  closed_reads_fail c false false ops (fst (run c ops (init c steps))) = true.
Proof. exact closed_reads_fail_run. Qed.
Print Assumptions C17_read_on_closed_body_fails.

(* the judgements the correspondence run evaluates on the implementation (master statement and strict reading together)
   hold of every history and of every interleaved history of the model *)
Theorem C17_history_strict_ok : forall c steps ops,
  history_strict_ok c steps ops (fst (run c ops (init c steps))) (s_closes (snd (run c ops (init c steps)))) = true.
Proof. exact history_strict_ok_run. Qed.
Print Assumptions C17_history_strict_ok.

Theorem C17_interleaved_history_strict_ok : forall cA stepsA cB stepsB ops,
  let r := run2 cA cB ops (init cA stepsA) (init cB stepsB) in
  pair_strict_ok cA stepsA cB stepsB ops (fst r) (s_closes (fst (snd r))) (s_closes (snd (snd r))) = true.
Proof. exact pair_strict_ok_run2. Qed.
Print Assumptions C17_interleaved_history_strict_ok.
