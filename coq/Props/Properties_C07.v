(* Properties_C07.v — C07: Accept negotiation picks the best acceptable offer and only an offer.
   Theorems only; each is closed by `exact` of a lemma from Proofs/. *)
From V Require Import NegotiateSpec NegotiateProofs AcceptParseProofs.

(* the chosen type is one of the offers, or the stated default *)
Theorem C07_result_is_offer_or_default : forall specs offers d,
  negotiate_content_type specs offers d = d \/ In (negotiate_content_type specs offers d) offers.
Proof. exact negotiate_offer_or_default. Qed.
Print Assumptions C07_result_is_offer_or_default.

(* the chosen type is the offer matched by the acceptable range of highest quality, ties broken by the
   more specific range and then by offer order (NegotiateSpec.lexmax_b); the default when nothing is
   acceptable; the first offer without an Accept header *)
Theorem C07_lexmax : forall specs offers d, Forall spec_ok specs ->
  lexmax_b specs offers d (negotiate_content_type specs offers d) = true.
Proof. exact negotiate_lexmax. Qed.
Print Assumptions C07_lexmax.

Theorem C07_no_accept_first_offer : forall o os d, negotiate_content_type [] (o :: os) d = o.
Proof. reflexivity. Qed.
Print Assumptions C07_no_accept_first_offer.

(* ranges of quality 0 never select an offer: alone they yield the default, among others they are ignored *)
Theorem C07_q0_never : forall specs offers d, specs <> [] ->
  Forall (fun sp => q_is0 (sq sp) = true) specs -> negotiate_content_type specs offers d = d.
Proof. exact negotiate_all_q0. Qed.
Print Assumptions C07_q0_never.

Theorem C07_q0_ignored : forall pre post sp0 offers d, q_is0 (sq sp0) = true -> pre ++ post <> [] ->
  negotiate_content_type (pre ++ sp0 :: post) offers d = negotiate_content_type (pre ++ post) offers d.
Proof. exact negotiate_q0_ignored. Qed.
Print Assumptions C07_q0_ignored.

(* no header value exhausts the parser (arbitrary bytes, any number of lines), and every range it
   yields has a well-formed non-negative quality — the hypothesis of C07_lexmax *)
Theorem C07_parse_total : forall lines, exists specs, parse_accept lines = Some specs /\ Forall spec_ok specs.
Proof. exact parse_accept_total. Qed.
Print Assumptions C07_parse_total.

Theorem C07_negotiate_any_header : forall lines offers d,
  exists specs, parse_accept lines = Some specs /\
    lexmax_b specs offers d (negotiate_content_type specs offers d) = true.
Proof. exact negotiate_parsed_lexmax. Qed.
Print Assumptions C07_negotiate_any_header.

(* a range whose q-value denotes a smaller number never outranks one denoting a larger number:
   for any two literals (any number of digits), literal order implies quality order *)
From V Require Import QualityProofs.
Theorem C07_quality_monotone : forall s1 s2 n1 d1 n2 d2,
  q_literal s1 = Some (n1, d1) -> q_literal s2 = Some (n2, d2) ->
  (n1 * d2 <= n2 * d1)%Z ->
  q_lt (fst (expect_quality s2)) (fst (expect_quality s1)) = false.
Proof. exact quality_monotone. Qed.
Print Assumptions C07_quality_monotone.

(* the quality is the literal's value truncated to 15 fractional digits: never above it, less than 10^-15 below *)
Theorem C07_quality_value : forall s n d, q_literal s = Some (n, d) ->
  let q := fst (expect_quality s) in
  (0 < qd q /\ q_num q * d <= n * qd q /\ (n * qd q - q_num q * d) * P10 15 < d * qd q)%Z.
Proof. exact quality_truncates. Qed.
Print Assumptions C07_quality_value.

(* the float gap, mechanised with Flocq (Proofs/QualityFloat.v): Go computes the float64
   q + float64(n)/float64(d) (fl_q: binary64, round to nearest even, every operation rounded) and
   negotiate.go / ParseAccept compare those float64 values; the model compares the exact rationals.
   On every value expectQuality can return (q_wf, established by C07_float_wf_parsed, and the
   constants -1 and 1) the comparisons agree.  These theorems rest on the standard-library axioms
   of the classical real numbers (listed by Print Assumptions). *)
From Coq Require Import Reals.
From V Require Import QualityFloat.
Theorem C07_float_wf_parsed : forall s, q_wf (fst (expect_quality s)) = true.
Proof. exact expect_quality_wf. Qed.
Print Assumptions C07_float_wf_parsed.

Theorem C07_float_order_agrees : forall a b, q_wf a = true -> q_wf b = true ->
  (q_lt a b = true <-> (fl_q a < fl_q b)%R).
Proof. exact float_order_agrees. Qed.
Print Assumptions C07_float_order_agrees.

Theorem C07_float_eq_agrees : forall a b, q_wf a = true -> q_wf b = true ->
  (q_eq a b = true <-> fl_q a = fl_q b).
Proof. exact float_eq_agrees. Qed.
Print Assumptions C07_float_eq_agrees.

Theorem C07_float_zero_agrees : forall a, q_wf a = true ->
  (q_is0 a = true <-> fl_q a = 0%R).
Proof. exact float_zero_agrees. Qed.
Print Assumptions C07_float_zero_agrees.

Theorem C07_float_neg_agrees : forall a, q_wf a = true ->
  (q_isneg a = true <-> (fl_q a < 0)%R).
Proof. exact float_neg_agrees. Qed.
Print Assumptions C07_float_neg_agrees.
