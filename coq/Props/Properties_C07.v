From V Require Import NegotiateSpec.
Theorem C07_no_accept_first_offer : forall o os d, negotiate_content_type [] (o :: os) d = o.
Proof. reflexivity. Qed.
Print Assumptions C07_no_accept_first_offer.
