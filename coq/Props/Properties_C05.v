(* Properties_C05.v — C05: trie router core (middleware/denco): lookups are sound, complete, total and
   order-independent. Theorems only; each is closed by `exact` of a lemma from Proofs/. *)
From Coq Require Import Permutation.
From V Require Import Bytes DencoSpec DencoTrie DencoDA DencoTrieProofs DencoSpecProofs DencoDAProofs.

(* the trie built from any list of (shape, value) records answers with the best match: the records
   have wildcard-last shapes, pairwise distinct *)
Theorem build_best : forall (V : Type) (pats : list (shape * V)) p,
  Forall (fun e => wild_last (fst e)) pats -> NoDup (map fst pats) ->
  match tlookup (build pats) p with
  | Some (v, vs) => exists s, In (s, v) pats /\ smatch s p = Some vs /\
                      forall e', In e' pats -> smatch (fst e') p <> None -> e' = (s, v) \/ pref s (fst e')
  | None => forall e, In e pats -> ~ smatch (fst e) p <> None
  end.
Proof. exact @DencoTrieProofs.build_best. Qed.
Print Assumptions build_best.

(* the model of Router.Lookup (static map, then the trie of the parameterised keys, then naming)
   answers with the best match of the whole table and never panics *)
Theorem C05_best_match : forall (V : Type) (pats : list (bytes * V)) p, wf_patset pats = true ->
  match router_lookup pats p with
  | Found v ps => exists s ns vs, is_best (entries_of pats) p s v ns vs /\
                                  length ns = length vs /\ ps = combine ns vs
  | NotFound => forall e, In e (entries_of pats) -> smatch (fst e) p = None
  | Panic => False
  | OutOfFuel => False
  end.
Proof. exact @router_best. Qed.
Print Assumptions C05_best_match.

(* sound: a reported match carries the value of a pattern of the table that the path instantiates *)
Theorem C05_sound : forall (V : Type) (pats : list (bytes * V)) p v ps, wf_patset pats = true ->
  router_lookup pats p = Found v ps ->
  exists k, In (k, v) pats /\ subst (shape_of k) (map snd ps) = Some p.
Proof. exact @router_sound. Qed.
Print Assumptions C05_sound.

(* parameters: one per placeholder, in pattern order, with the pattern's names, carrying exactly the
   texts whose substitution into the pattern gives the path; single-segment texts hold no '/' *)
Theorem C05_params : forall (V : Type) (pats : list (bytes * V)) p v ps, wf_patset pats = true ->
  router_lookup pats p = Found v ps ->
  exists k, In (k, v) pats /\
    map fst ps = names_of k /\ length ps = placeholders (shape_of k) /\
    subst (shape_of k) (map snd ps) = Some p /\ par_texts_ok (shape_of k) (map snd ps) = true.
Proof. exact @router_sound_params. Qed.
Print Assumptions C05_params.

(* complete: a path that instantiates some pattern with non-empty texts ('/'-free for the
   single-segment parameters) is found *)
Theorem C05_complete : forall (V : Type) (pats : list (bytes * V)) p k v vs, wf_patset pats = true ->
  In (k, v) pats -> subst (shape_of k) vs = Some p -> par_texts_ok (shape_of k) vs = true ->
  forallb nonempty vs = true ->
  exists v' ps', router_lookup pats p = Found v' ps'.
Proof. exact @router_complete. Qed.
Print Assumptions C05_complete.

(* a path equal to a parameter-free pattern returns that pattern's value *)
Theorem C05_static_exact : forall (V : Type) (pats : list (bytes * V)) k v, wf_patset pats = true ->
  In (k, v) pats -> is_param_key k = false -> router_lookup pats k = Found v [].
Proof. exact @router_static_exact. Qed.
Print Assumptions C05_static_exact.

(* ... and by no other path: when the reported pattern is parameter-free (is_param_key false - it may
   well hold ':' or '*' inside a segment, only "/:", "/*" and "=:" open a placeholder) the path is
   that pattern, byte for byte, and no parameter is reported *)
Theorem C05_static_only_itself : forall (V : Type) (pats : list (bytes * V)) p v ps, wf_patset pats = true ->
  router_lookup pats p = Found v ps ->
  exists k, In (k, v) pats /\ map fst ps = names_of k /\ subst (shape_of k) (map snd ps) = Some p /\
    (is_param_key k = false -> p = k /\ ps = []).
Proof. exact @router_static_only_itself. Qed.
Print Assumptions C05_static_only_itself.

(* where a literal and a parameter both lead to a match the literal wins (and the single-segment
   parameter wins against the wildcard): the reported pattern is preferred to every other matching one *)
Theorem C05_literal_wins : forall (V : Type) (pats : list (bytes * V)) p v ps, wf_patset pats = true ->
  router_lookup pats p = Found v ps ->
  exists k, In (k, v) pats /\ smatch (shape_of k) p <> None /\
    forall k' v', In (k', v') pats -> smatch (shape_of k') p <> None ->
                  (k', v') = (k, v) \/ pref (shape_of k) (shape_of k').
Proof. exact @router_literal_wins. Qed.
Print Assumptions C05_literal_wins.

(* the answer does not depend on the order in which the records were supplied to Build *)
Theorem C05_order_independent : forall (V : Type) (pats pats' : list (bytes * V)) p, wf_patset pats = true ->
  Permutation pats pats' -> router_lookup pats p = router_lookup pats' p.
Proof. exact @router_order_independent. Qed.
Print Assumptions C05_order_independent.

(* ---------- the real data structure ---------- *)
(* the executable checker run on every dumped array establishes the representation relation *)
Theorem repr_check_sound : forall (V : Type) (veqb : V -> V -> bool),
  (forall a b, veqb a b = true -> a = b) ->
  forall (d : da V) t idx, repr_check veqb d t idx = true -> Repr d t idx.
Proof. exact @DencoDAProofs.repr_check_sound. Qed.
Print Assumptions repr_check_sound.

(* under the representation relation one activation of doubleArray.lookup (greedy walk, then LIFO
   backtracking, recursive call with fuel >= parameter nesting depth) computes tlookup - or falls back
   to the older backtracking entries when the subtrie has no match *)
Theorem da_run_refines : forall (V : Type) (d : da V) t f idx, Repr d t idx -> pdepth t <= f ->
  forall p stack vals,
    result d (run d (lookup f d) p idx stack vals) (tlookup t p) vals (backtrack d (lookup f d) stack vals).
Proof. exact @run_refines. Qed.
Print Assumptions da_run_refines.

(* Router.Lookup on an array accepted by the checker = Router.Lookup on the trie, for all paths *)
Theorem da_lookup_refines : forall (V : Type) (veqb : V -> V -> bool),
  (forall a b, veqb a b = true -> a = b) ->
  forall (pats : list (bytes * V)) (d : da V), repr_ok veqb pats d = true ->
  exists f, forall p, da_router_lookup f pats d p = router_lookup pats p.
Proof. exact @DencoDAProofs.da_lookup_refines. Qed.
Print Assumptions da_lookup_refines.

(* ... with any fuel above the parameter nesting depth of the trie (the fuel the correspondence run uses) *)
Theorem da_lookup_refines_fuel : forall (V : Type) (veqb : V -> V -> bool),
  (forall a b, veqb a b = true -> a = b) ->
  forall (pats : list (bytes * V)) (d : da V) f, repr_ok veqb pats d = true -> pdepth (model_trie pats) < f ->
  forall p, da_router_lookup f pats d p = router_lookup pats p.
Proof. exact @DencoDAProofs.da_lookup_refines_fuel. Qed.
Print Assumptions da_lookup_refines_fuel.

(* total: on an array accepted by the checker no path - arbitrary bytes, the reserved ones included -
   makes lookup panic (every slice access of the model is checked) or run out of fuel, and the answer
   is the best match. The hypothesis repr_ok is established per instance by the correspondence run on
   the arrays dumped from the real Build (translation validation), not proved for Build in general. *)
Theorem C05_total_given_repr : forall (V : Type) (veqb : V -> V -> bool),
  (forall a b, veqb a b = true -> a = b) ->
  forall (pats : list (bytes * V)) (d : da V), wf_patset pats = true -> repr_ok veqb pats d = true ->
  exists f, forall p,
    da_router_lookup f pats d p <> Panic /\ da_router_lookup f pats d p <> OutOfFuel /\
    da_router_lookup f pats d p = router_lookup pats p.
Proof. exact @da_total_given_repr. Qed.
Print Assumptions C05_total_given_repr.

(* the model of Router.Lookup at trie level is total as well *)
Theorem C05_model_total : forall (V : Type) (pats : list (bytes * V)) p, wf_patset pats = true ->
  router_lookup pats p <> Panic /\ router_lookup pats p <> OutOfFuel.
Proof. exact @router_total. Qed.
Print Assumptions C05_model_total.

(* the correspondence run evaluates, per case, variants of router_lookup / da_router_lookup / answer_ok
   that take the static records, the model trie and the tokenised table as arguments (computed once per
   table instead of once per path; the conjunction of answer_ok evaluated lazily): they are the definitions
   used in the theorems above *)
Theorem C05_check_shortcuts : forall (V : Type) (veqb : V -> V -> bool) (pats : list (bytes * V)) p f (d : da V) ans,
  router_lookup_pre (statics_of pats) (model_trie pats) p = router_lookup pats p /\
  da_router_lookup_pre f (statics_of pats) d p = da_router_lookup f pats d p /\
  answer_ok_pre veqb (entries_of pats) p ans = answer_ok veqb pats p ans.
Proof. exact @check_shortcuts. Qed.
Print Assumptions C05_check_shortcuts.

(* ... and the domain test of the check (wf_patset with its conjunctions evaluated left to right, so that two
   shapes are compared up to their first difference only: a table of a thousand keys is affordable) is wf_patset *)
Theorem C05_check_shortcuts_wf : forall (V : Type) (pats : list (bytes * V)), wf_patset_sc pats = wf_patset pats.
Proof. exact @wf_patset_sc_eq. Qed.
Print Assumptions C05_check_shortcuts_wf.

(* non-vacuity: the table of the design note is in the domain, and its lookups are as expected *)
Definition ex_table : list (bytes * nat) :=
  [ ([47;97;47;58;105;100], 0);                       (* /a/:id *)
    ([47;97;47;58;105;100;47;98], 1);                 (* /a/:id/b *)
    ([47;120;47;42;119], 2);                          (* /x/ *w *)
    ([47;115], 3) ].                                  (* /s *)
Theorem C05_example_in_domain :
  wf_patset ex_table = true /\
  router_lookup ex_table [47;97;47;58] = Found 0 [([105;100], [58])] /\       (* /a/: binds id to the text : *)
  router_lookup ex_table [47;97;47;55;47;98] = Found 1 [([105;100], [55])] /\
  router_lookup ex_table [47;120;47;49;47;50] = Found 2 [([119], [49;47;50])] /\
  router_lookup ex_table [47;115] = Found 3 [] /\
  router_lookup ex_table [47;97;47] = NotFound.
Proof. vm_compute. repeat split. Qed.
Print Assumptions C05_example_in_domain.

(* ... and the arrays the real Build produced for it (dumped through the verif hook) are accepted by
   the checker, so the hypotheses of C05_total_given_repr are satisfiable *)
Definition ex_da : da nat := mkDA
  [0; 46080; 100399; 44129; 64815; 37946; 1059; 0; 0; 0; 107567; 48226; 2083; 0; 0; 0; 0; 0; 0; 0; 0; 0;
   0; 0; 0; 0; 53368; 55855; 3114]%N
  [(0, []); (0, [[105;100]]); (1, [[105;100]]); (2, [[119]])].
Theorem C05_example_repr : repr_ok Nat.eqb ex_table ex_da = true.
Proof. vm_compute. reflexivity. Qed.
Print Assumptions C05_example_repr.

(* non-vacuity for reserved bytes inside a segment: /v1/op:list and /g/a*b are parameter-free keys (the
   ':' and '*' follow neither '/' nor '='), matched by themselves only; in /v1/op:list/:id, which is
   parameterised, the same ':' opens a parameter named list, as in Build. The same table is part of the
   enumerated cases of the correspondence run. *)
Definition ex_table_mid : list (bytes * nat) :=
  [ ([47;118;49;47;111;112;58;108;105;115;116], 0);        (* /v1/op:list *)
    ([47;118;49;47;111;112;47;58;105;100], 1);                 (* /v1/op/:id *)
    ([47;103;47;97;42;98], 2);                          (* /g/a*b *)
    ([47;118;49;47;111;112;58;108;105;115;116;47;58;105;100], 3) ]. (* /v1/op:list/:id *)
Theorem C05_example_midsegment :
  wf_patset ex_table_mid = true /\
  is_param_key [47;118;49;47;111;112;58;108;105;115;116] = false /\ is_param_key [47;103;47;97;42;98] = false /\
  router_lookup ex_table_mid [47;118;49;47;111;112;58;108;105;115;116] = Found 0 [] /\
  router_lookup ex_table_mid [47;103;47;97;42;98] = Found 2 [] /\
  router_lookup ex_table_mid [47;118;49;47;111;112;88;89;90] = NotFound /\      (* /v1/opXYZ *)
  router_lookup ex_table_mid [47;103;47;97;47;98;47;99] = NotFound /\      (* /g/a/b/c *)
  router_lookup ex_table_mid [47;103;47;97;120;98] = NotFound /\      (* /g/axb *)
  router_lookup ex_table_mid [47;118;49;47;111;112;47;55] = Found 1 [([105;100], [55])] /\    (* /v1/op/7 *)
  router_lookup ex_table_mid [47;118;49;47;111;112;88;47;55] = Found 3 [([108;105;115;116], [88]); ([105;100], [55])].   (* /v1/opX/7 *)
Proof. vm_compute. repeat split. Qed.
Print Assumptions C05_example_midsegment.
