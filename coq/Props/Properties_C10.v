(* Properties_C10.v — C10: client URLs: escaped substitution, preserved shape, stated query precedence.
   Theorems only; each is closed by `exact` of a lemma from Proofs/ClientURLProofs.v or Lib/UrlEscape.v.
   Vocabulary: ClientURLSpec.v (items = literal bytes and placeholders of the joined pattern, render,
   inst_sub / inst_raw = simultaneous substitution, segments_ok, query_want, scheme_ok). *)
From V Require Import Bytes UrlEscape ClientURL ClientURLSpec ClientURLProofs.
From Coq Require Import Permutation.

(* url.PathUnescape inverts url.PathEscape on every byte string *)
Theorem C10_value_recoverable : forall v, wf_bytes v -> path_unescape (path_escape v) = Some v.
Proof. exact path_unescape_escape. Qed.
Print Assumptions C10_value_recoverable.

(* an escaped value contains no separator, query mark, fragment mark or brace *)
Theorem C10_no_injection : forall v b, wf_bytes v -> In b (path_escape v) ->
  b <> 47 /\ b <> 63 /\ b <> 35 /\ b <> 123 /\ b <> 125.
Proof. exact path_escape_no_special. Qed.
Print Assumptions C10_no_injection.

(* the ReplaceAll loop over the parameter map is the simultaneous substitution: every placeholder
   becomes the escaped value of its name, a value is never looked at again *)
Theorem C10_no_resubstitution : forall ps items,
  items_ok items = true -> Forall key_ok (map fst ps) -> Forall wf_bytes (map snd ps) ->
  subst ps (render items) = flat_map (inst_sub ps) items.
Proof. exact subst_items. Qed.
Print Assumptions C10_no_resubstitution.

(* the result does not depend on the order in which Go iterates the parameter map *)
Theorem C10_order_independent : forall ps ps' items,
  items_ok items = true -> Forall key_ok (map fst ps) -> Forall wf_bytes (map snd ps) ->
  NoDup (map fst ps) -> Permutation ps ps' ->
  subst ps (render items) = subst ps' (render items).
Proof. exact subst_order_independent. Qed.
Print Assumptions C10_order_independent.

(* ... and the hypothesis items_ok (no stray braces in the pattern) cannot be dropped *)
Theorem C10_order_refuted_with_stray_braces : exists ps ps' p,
  Permutation ps ps' /\ NoDup (map fst ps) /\ Forall key_ok (map fst ps) /\ Forall wf_bytes (map snd ps) /\
  subst ps p <> subst ps' p.
Proof. exact order_refuted_with_stray_braces. Qed.
Print Assumptions C10_order_refuted_with_stray_braces.

(* the path handed to the URL parser has exactly the joined pattern's segments (plus the empty last one
   of a reinstated trailing slash), each decoding to the pattern segment with the raw values in place of
   the placeholders, and contains no query or fragment mark *)
Theorem C10_segments_preserved : forall bp pp ps items,
  path_join bp pp = render items ->
  forallb item_strict items = true -> Forall key_ok (map fst ps) -> Forall wf_bytes (map snd ps) ->
  segments_ok items (reinstate_slash pp) ps (build_path bp pp ps) = true.
Proof. exact segments_ok_build. Qed.
Print Assumptions C10_segments_preserved.

Theorem C10_trailing_slash : forall bp pp ps,
  reinstate_slash pp = true -> exists u, build_path bp pp ps = u ++ [47].
Proof. exact build_path_trailing_slash. Qed.
Print Assumptions C10_trailing_slash.

(* url.Parse / EscapedPath return the built path unchanged whenever they accept it *)
Theorem C10_escaped_path_is_built_path : forall s p raw q, wf_bytes s ->
  url_parse (escape_invalid s) = POk p raw q -> escaped_path p raw = escape_invalid s /\ q = [].
Proof. exact built_path_escaped. Qed.
Print Assumptions C10_escaped_path_is_built_path.

(* the whole: a request the model builds from a well-formed pattern has the pattern's segments, the
   merged query, the picked scheme and the configured host *)
Theorem C10_request : forall base pattern ps caller rs os host bp br bq pp pr pq items ep q sch h,
  url_parse base = POk bp br bq -> url_parse pattern = POk pp pr pq ->
  path_join bp pp = render items ->
  forallb item_strict items = true -> Forall key_ok (map fst ps) -> Forall wf_bytes (map snd ps) ->
  create_request base pattern ps caller rs os host = OutOk ep q sch h ->
  segments_ok items (reinstate_slash pp) ps ep = true /\
  q = client_query caller (merge_static (parse_query bq) (parse_query pq)) /\
  sch = pick_scheme rs os /\ h = host.
Proof. exact create_request_ok. Qed.
Print Assumptions C10_request.

(* every text reads as items that render back to it (so the hypothesis path_join = render items is
   met by items := lex (path_join bp pp)) *)
Theorem C10_lex_render : forall s, render (lex s) = s.
Proof. exact render_lex. Qed.
Print Assumptions C10_lex_render.

(* per name: the caller's values, else the pattern's, else the base path's *)
Theorem C10_query_precedence : forall caller bq pq k,
  q_vals k (client_query caller (merge_static (parse_query bq) (parse_query pq))) =
  query_want caller (parse_query pq) (parse_query bq) k.
Proof. exact query_precedence_parsed. Qed.
Print Assumptions C10_query_precedence.

(* https whenever it is among the schemes of the list that decides *)
Theorem C10_https_preferred : forall rs os,
  (In sch_https rs -> pick_scheme rs os = sch_https) /\
  (In sch_https os -> pick_scheme [] os = sch_https) /\
  scheme_ok rs os (pick_scheme rs os) = true.
Proof. exact https_preferred. Qed.
Print Assumptions C10_https_preferred.

(* the chosen scheme is one offered for this request (transport's or operation's list) or the default http *)
Theorem C10_scheme_offered : forall rs os, scheme_offered rs os (pick_scheme rs os) = true.
Proof. exact pick_scheme_offered. Qed.
Print Assumptions C10_scheme_offered.

(* several operations built on one Runtime: the n-th request is what the operation alone gives,
   whatever was built before it *)
Theorem C10_history_stateless : forall base rs host steps n pattern ps caller os,
  nth_error steps n = Some (pattern, ps, caller, os) ->
  nth_error (create_history base rs host steps) n = Some (create_request base pattern ps caller rs os host).
Proof. exact history_stateless. Qed.
Print Assumptions C10_history_stateless.

Theorem C10_history_prefix_irrelevant : forall base rs host pre pre' s,
  nth_error (create_history base rs host (pre ++ [s])) (length pre) =
  nth_error (create_history base rs host (pre' ++ [s])) (length pre').
Proof. exact history_prefix_irrelevant. Qed.
Print Assumptions C10_history_prefix_irrelevant.

(* client.New hands the base path on as written, with a slash put in front when it has none: nothing of
   its path part or of its query string is rewritten *)
Theorem C10_new_base_path_verbatim : forall b,
  (has_prefix [47] b = true /\ new_base_path b = b) \/
  (has_prefix [47] b = false /\ new_base_path b = 47 :: b).
Proof. exact new_base_path_text. Qed.
Print Assumptions C10_new_base_path_verbatim.

(* ... in particular the text behind the first question mark (the static query) is the caller's own *)
Theorem C10_new_base_path_keeps_query : forall b, snd (cut 63 (new_base_path b)) = snd (cut 63 b).
Proof. exact new_base_path_keeps_query. Qed.
Print Assumptions C10_new_base_path_keeps_query.
