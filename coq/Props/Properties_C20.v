(* Properties_C20.v — C20: spec and docs middlewares intercept only their own path; UI and spec URL agree.
   Theorems only; each is closed by `exact` of a lemma from Proofs/DocsProofs.v (path lemmas: Lib/PathCleanD.v). *)
From V Require Import Docs DocsProofs.

(* a request is answered iff its cleaned path equals the configured document path — Spec, for every base path,
   WithSpecPath and WithSpecDocument value; every UI flavour, for every option record *)
Theorem C20_intercept_iff :
  (forall base opath odoc b hn req,
     (exists ct b', spec_handler base opath odoc b hn req = Serve ct b') <-> clean req = spec_doc_path base opath odoc) /\
  (forall f o page hn req,
     (exists ct b', serve_ui f o page hn req = Serve ct b') <-> clean req = ui_path f o).
Proof. exact (conj spec_intercept_iff ui_intercept_iff). Qed.
Print Assumptions C20_intercept_iff.

(* ... with the exact spec bytes as JSON, resp. the page as HTML *)
Theorem C20_exact_bytes_json : forall base opath odoc b hn req ct b',
  spec_handler base opath odoc b hn req = Serve ct b' -> ct = CTJson /\ b' = b.
Proof. exact spec_exact_bytes_json. Qed.
Print Assumptions C20_exact_bytes_json.

Theorem C20_exact_page_html : forall f o page hn req ct b',
  serve_ui f o page hn req = Serve ct b' -> ct = CTHtml /\ b' = page.
Proof. exact ui_exact_page. Qed.
Print Assumptions C20_exact_page_html.

(* every other request goes to the next handler (the outcome Next carries no modified request: it is the same one) *)
Theorem C20_passthrough_unmodified :
  (forall base opath odoc b req, clean req <> spec_doc_path base opath odoc -> spec_handler base opath odoc b true req = Next) /\
  (forall f o page req, clean req <> ui_path f o -> serve_ui f o page true req = Next).
Proof. exact passthrough_unmodified. Qed.
Print Assumptions C20_passthrough_unmodified.

Theorem C20_404_without_next :
  (forall base opath odoc b req, clean req <> spec_doc_path base opath odoc -> spec_handler base opath odoc b false req = R404 CTJson) /\
  (forall f o page req, clean req <> ui_path f o -> serve_ui f o page false req = R404 CTPlain).
Proof. exact not_found_without_next. Qed.
Print Assumptions C20_404_without_next.

(* whatever the option values, the markup-significant bytes of the page are those of the template text, provided the
   template engine's escaper never emits one (html/template: trusted, not modelled). True for any template, hence for
   custom ones. The OAuth2 callback page satisfies the hypothesis only since the fix of F-C20-1 (html/template instead
   of text/template); C20_identity_escaper_injects is the statement about the old engine. *)
Theorem C20_options_escaped : forall esc val t i,
  (forall j s, skeleton (esc j s) = []) -> skeleton (render esc val i t) = skeleton (literals t).
Proof. exact options_escaped. Qed.
Print Assumptions C20_options_escaped.

(* the flavour-specific options (RedocURL, RapiDocURL, SwaggerURL, preset, styles, favicons) are page content only: whatever
   their values, the same requests are intercepted and answered with the page; C20_options_escaped covers their printing *)
Theorem C20_assets_only_reach_the_page : forall f o l page hn req,
  ui_path f (with_assets o l) = ui_path f o /\ serve_ui f (with_assets o l) page hn req = serve_ui f o page hn req.
Proof. exact assets_only_reach_the_page. Qed.
Print Assumptions C20_assets_only_reach_the_page.

Theorem C20_identity_escaper_injects :
  exists val t, skeleton (render (fun _ s => s) val 0 t) <> skeleton (literals t).
Proof. exact identity_escaper_injects. Qed.
Print Assumptions C20_identity_escaper_injects.

(* API handler flavours: when the path component of SpecURL is absolute and names a document, requesting it returns the
   spec; with no SpecURL option the page references /swagger.json, which is served. *)
Theorem C20_ui_references_served_spec : forall f a,
  rooted (a_url_path a) = true -> snd (path_split (a_url_path a)) <> [] ->
  api_spec_path a = clean (a_url_path a) /\ api_handler f a (a_url_path a) = ASpec.
Proof. exact (fun f a Hr Hf => conj (api_spec_path_clean a Hr Hf) (ui_references_served_spec f a Hr Hf)). Qed.
Print Assumptions C20_ui_references_served_spec.

(* the request a browser makes for the reference has the URL path up to cleaning (dot segments resolved, percent-encoding
   undone by the server: the run checks that on every page): it is answered with the spec *)
Theorem C20_reference_request_served : forall f a req,
  rooted (a_url_path a) = true -> snd (path_split (a_url_path a)) <> [] ->
  clean req = clean (a_url_path a) -> api_handler f a req = ASpec.
Proof. exact reference_request_served. Qed.
Print Assumptions C20_reference_request_served.

Theorem C20_default_spec_url_served : forall f a,
  a_o_spec_url a = None -> a_url_path a = [] ->
  api_spec_ref a = default_spec_url /\ api_handler f a default_spec_url = ASpec.
Proof. exact default_spec_url_served. Qed.
Print Assumptions C20_default_spec_url_served.

(* the document-name hypothesis is needed: SpecURL = /spec/dir/ is served at /spec/dir/swagger.json (F-C20-2, open) *)
Theorem C20_ui_references_served_spec_refuted_without_document :
  exists f a, rooted (a_url_path a) = true /\ a_o_spec_url a = Some (a_url_path a) /\
              api_handler f a (a_url_path a) <> ASpec /\ api_spec_path a = spec_dir ++ swagger_json.
Proof. exact ui_references_served_spec_needs_document. Qed.
Print Assumptions C20_ui_references_served_spec_refuted_without_document.

(* a request reaches the router iff its cleaned path is neither of the two document paths *)
Theorem C20_operations_reachable : forall f a req,
  api_handler f a req = ARouter <-> (clean req <> api_spec_path a /\ clean req <> ui_path f (api_ui_opts a)).
Proof. exact operations_reachable. Qed.
Print Assumptions C20_operations_reachable.

(* path.Clean facts used above and exported for other properties (Lib/PathCleanD.v) *)
Theorem C20_clean_idem : forall p, clean (clean p) = clean p.
Proof. exact clean_idem. Qed.
Print Assumptions C20_clean_idem.

Theorem C20_clean_rooted_shape : forall p, rooted p = true ->
  (exists segs, clean p = slash :: join_slash segs /\ Forall (fun x => good_seg x = true) segs) /\
  (clean p = [slash] \/ last (clean p) 0 <> slash).
Proof. exact (fun p H => conj (clean_rooted_shape p H) (clean_no_trailing_slash p H)). Qed.
Print Assumptions C20_clean_rooted_shape.

(* several middlewares built in one process, then requested (state carried across builds). A chain of UI middlewares, each
   the next handler of the one before: the answer is the page, AS BUILT ALONE, of the first member configured on the
   cleaned request path; otherwise the request reaches the handler behind the chain (404 without one) *)
Theorem C20_chain_first_match : forall ms hn req, forallb is_ui_member ms = true ->
  chain_handler ms hn req =
  match find (fun m => bytes_eqb (clean req) (member_path m)) ms with
  | Some m => HServe CTHtml (member_page m)
  | None => if hn then HNext else H404 CTPlain
  end.
Proof. exact chain_first_match. Qed.
Print Assumptions C20_chain_first_match.

(* side by side: a member requested on its own path serves its own page, whatever else was built; under an API handler the
   page is served exactly when the single API handler serves its UI *)
Theorem C20_member_serves_own_page :
  (forall m hn, is_ui_member m = true -> clean (member_path m) = member_path m ->
     member_handler m hn (member_path m) = HServe CTHtml (member_page m)) /\
  (forall f a page req, member_handler (MAPI f a page) true req = HServe CTHtml page <-> api_handler f a req = AUI).
Proof. exact (conj member_page_served api_member_page). Qed.
Print Assumptions C20_member_serves_own_page.
