(* Properties_C02.v — C02: security requirements are an OR of ANDs; nothing runs unless one is satisfied.
   Theorems only; each is closed by `exact` of a lemma from Proofs/SecurityProofs.v.
   secure_handler out alts az bind_ok is the event trace of one request through newSecureAPI + bind + handler for:
   out  = what each scheme's authenticator answers (any function), alts = the requirement alternatives with their
   schemes IN EVALUATION ORDER (any lists, so every statement holds for every order), az = the authorizer (if any). *)
From Coq Require Import Permutation.
From V Require Import SecuritySpec SecurityProofs.

(* The handler runs, reading principal p and scopes sc, only if (p = Some q) some alternative is fully satisfied -
   non-empty, every scheme registered and accepting with a non-nil principal - q is a principal of one of its
   schemes, sc is the set of its scopes and the authorizer accepts q; or (p = None) the anonymous alternative is
   declared, no scheme that was asked rejected, no declared alternative all of whose schemes found credentials had
   one of them rejected (whether or not that scheme was reached), and the authorizer accepts. *)
Theorem C02_runs_only_if_satisfied : forall out alts az bind_ok p sc,
  alts <> [] -> In (Handle p sc) (secure_handler out alts az bind_ok) ->
  justified out alts az (secure_handler out alts az bind_ok) p sc.
Proof. exact handler_runs_only_if_satisfied. Qed.
Print Assumptions C02_runs_only_if_satisfied.

(* the principal is the one yielded by the scheme of the admitting alternative that was evaluated last *)
Theorem C02_principal_from_satisfied : forall out alts t res q,
  auth_alts out alts = (t, res) -> o_usr res = Some q -> o_err res = None ->
  exists l, In (Reqs l) alts /\ o_route res = Some (Reqs l) /\ last_scheme_yields out l q.
Proof. exact principal_is_last_scheme's. Qed.
Print Assumptions C02_principal_from_satisfied.

(* neither parameter binding nor the handler runs for a request that no alternative admits; no nil dereference *)
Theorem C02_nothing_after_refusal : forall out alts az bind_ok,
  alts <> [] ->
  let tr := secure_handler out alts az bind_ok in
  (In Bind tr \/ (exists p sc, In (Handle p sc) tr) -> admissible_prop out alts az tr) /\ ~ In Panicked tr.
Proof. exact nothing_runs_unless_admissible. Qed.
Print Assumptions C02_nothing_after_refusal.

(* every other request ends in the response carrying the error of the scheme that rejected last, 401 when no
   asked scheme rejected AND no alternative that applied was rejected, or the authorizer's error (403 unless it
   carries its own status; consulted for the nil principal only when nothing was rejected) *)
Theorem C02_refused_otherwise : forall out alts az bind_ok,
  alts <> [] ->
  let tr := secure_handler out alts az bind_ok in
  ~ In Bind tr ->
  (forall p sc, ~ In (Handle p sc) tr) /\ exists c m, last tr Bind = Respond c m /\ refusal out alts az tr c m.
Proof. exact refused_otherwise. Qed.
Print Assumptions C02_refused_otherwise.

(* for EVERY evaluation order of the schemes inside each alternative: a running handler is justified by the declared structure *)
Theorem C02_every_order : forall out alts alts' az bind_ok p sc,
  Forall2 alt_perm alts alts' -> alts <> [] ->
  In (Handle p sc) (secure_handler out alts' az bind_ok) ->
  justified out alts az (secure_handler out alts' az bind_ok) p sc.
Proof. exact justified_in_every_order. Qed.
Print Assumptions C02_every_order.

(* the property predicate holds of every model trace (strict form: Handle events are justified with their principal and
   scopes; the check evaluates the non-strict form on the untyped handler's trace, where the principal is not observable,
   and the strict justification on the result of Context.Authorize through authorize_ok below) *)
Theorem C02_model_satisfies_checked_predicate : forall out alts az bind_ok,
  sec_ok out alts az bind_ok true (secure_handler out alts az bind_ok) = true.
Proof. exact secure_handler_satisfies_property. Qed.
Print Assumptions C02_model_satisfies_checked_predicate.

(* the same for Context.Authorize (entry point of generated servers) and RouteAuthenticators.Authenticate *)
Theorem C02_authorize_satisfies_checked_predicate : forall out alts az,
  authorize_ok out alts az (fst (authorize out alts az)) (snd (authorize out alts az)) = true.
Proof. exact authorize_satisfies_property. Qed.
Print Assumptions C02_authorize_satisfies_checked_predicate.

Theorem C02_authenticate_satisfies_checked_predicate : forall out alts,
  let '(t, res) := auth_alts out alts in
  authenticate_ok out alts t (o_applies res) (o_usr res) (o_err res) = true.
Proof. exact authenticate_satisfies_property. Qed.
Print Assumptions C02_authenticate_satisfies_checked_predicate.

(* a request that is let through with valid parameters does reach the handler *)
Theorem C02_admitted_runs : forall out alts az,
  alts <> [] -> let tr := secure_handler out alts az true in In Bind tr -> exists p sc, In (Handle p sc) tr.
Proof. exact admitted_runs. Qed.
Print Assumptions C02_admitted_runs.

(* with no anonymous alternative and no authorizer the handler runs exactly when some alternative is fully satisfied,
   hence the verdict is the same for every evaluation order of the schemes *)
Theorem C02_runs_iff_some_satisfied : forall out alts,
  alts <> [] -> allows_anon alts = false ->
  ran (secure_handler out alts None true) = some_satisfied out alts.
Proof. exact runs_iff_some_satisfied. Qed.
Print Assumptions C02_runs_iff_some_satisfied.

Theorem C02_verdict_order_independent : forall out alts alts',
  Forall2 alt_perm alts alts' -> alts <> [] -> allows_anon alts = false ->
  ran (secure_handler out alts None true) = ran (secure_handler out alts' None true).
Proof. exact verdict_order_independent. Qed.
Print Assumptions C02_verdict_order_independent.

(* the anonymous alternative admits only when no scheme rejected credentials that were presented: stated over the
   DECLARED structure and for every evaluation order - a scheme that was not reached counts *)
Theorem C02_anonymous_only_if_nothing_rejected : forall out alts alts' az bind_ok sc,
  Forall2 alt_perm alts alts' -> alts <> [] ->
  In (Handle None sc) (secure_handler out alts' az bind_ok) -> none_rejected_declared out alts.
Proof. exact anonymous_only_if_nothing_rejected. Qed.
Print Assumptions C02_anonymous_only_if_nothing_rejected.

(* the library's authenticators over a table-driven callback accept only what the table grants to this scheme
   for the scopes of this operation *)
Theorem C02_scheme_accepts_only_granted : forall scoped unk insuf grants creds s sc p,
  cred_oracle scoped unk insuf grants creds s sc = Acc p ->
  exists tok g, In (s, tok) creds /\ In g grants /\ g_scheme g = s /\ g_token g = tok /\ g_princ g = p /\
                (scoped s = true -> forall x, In x sc -> In x (g_scopes g)).
Proof. exact cred_oracle_accepts_only_granted. Qed.
Print Assumptions C02_scheme_accepts_only_granted.

(* several requests on one api instance: each is answered from its own credentials alone (the model of a history
   is the single-request model mapped over it) and satisfies the property *)
Theorem C02_history_pointwise : forall oracle_for ops az calls,
  length (history oracle_for ops az calls) = length calls /\
  forall i c, nth_error calls i = Some c ->
    exists tr, nth_error (history oracle_for ops az calls) i = Some tr /\
               tr = secure_handler (oracle_for (hq_creds c)) (nth (hq_op c) ops []) az (hq_bind c) /\
               sec_ok (oracle_for (hq_creds c)) (nth (hq_op c) ops []) az (hq_bind c) true tr = true.
Proof. exact history_pointwise. Qed.
Print Assumptions C02_history_pointwise.

(* a request that is refused (no parameter binding in its trace) is refused identically whatever its Accept header
   admits, and the predicate evaluated by the check on such a request is the property itself: the 406 of the
   response-format validation is open to requests that were let through only *)
Theorem C02_refusal_whatever_accept : forall out alts az bind_ok fmt_ok,
  existsb is_bind (secure_handler out alts az bind_ok) = false ->
  secure_handler_fmt out alts az bind_ok fmt_ok = secure_handler out alts az bind_ok /\
  sec_ok_fmt out alts az bind_ok fmt_ok true (secure_handler_fmt out alts az bind_ok fmt_ok) =
  sec_ok out alts az bind_ok true (secure_handler out alts az bind_ok).
Proof. exact refusal_whatever_accept. Qed.
Print Assumptions C02_refusal_whatever_accept.
