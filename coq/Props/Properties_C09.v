(* Properties_C09.v — C09: per-request state is private under concurrency; stage results are reused.
   Theorems only. The model (Model/ReqState.v) keeps each request's cached stage results in that request's
   own value by construction; that the Go code does so, and is free of data races, is tied by the
   correspondence run (sequential histories + concurrent runs under the race detector), not proved. *)
From V Require Import ReqState ReqStateSpec ReqStateProofs.

(* HISTORIES. For every request (static facts) and every finite sequence of accessor calls threading the returned
   request value, what is observed satisfies the property's predicate memo_ok: a stage that succeeded returns the
   same value and the same request value on every later call (Authorize: until ResetAuth); the binder, hence the
   body, runs at most once; an authenticator that yielded a principal is consulted at most once per reset;
   the route is looked up at most once once it matched. *)
Theorem C09_memo : forall st ops,
  let s := run st ops state0 in
  memo_ok ops (trace st ops state0) (n_lookup (s_cnt s)) (n_authn (s_cnt s)) (n_bind (s_cnt s)) = true.
Proof. exact trace_memo_ok. Qed.
Print Assumptions C09_memo.

Theorem C09_body_consumed_at_most_once : forall st ops, n_bind (s_cnt (run st ops state0)) <= 1.
Proof. exact bind_once. Qed.
Print Assumptions C09_body_consumed_at_most_once.

(* per stage, from ANY state in which the result is cached: it stays cached with the same value and the
   underlying effect never runs again *)
Theorem C09_route_not_recomputed : forall st v ops s, c_route (s_req s) = Some v ->
  c_route (s_req (run st ops s)) = Some v /\ n_lookup (s_cnt (run st ops s)) = n_lookup (s_cnt s).
Proof. exact route_memo. Qed.
Print Assumptions C09_route_not_recomputed.

Theorem C09_content_type_not_recomputed : forall st v ops s, c_ct (s_req s) = Some v ->
  c_ct (s_req (run st ops s)) = Some v /\ n_ctparse (s_cnt (run st ops s)) = n_ctparse (s_cnt s).
Proof. exact ct_memo. Qed.
Print Assumptions C09_content_type_not_recomputed.

Theorem C09_format_not_recomputed : forall st v ops s, c_fmt (s_req s) = Some v ->
  c_fmt (s_req (run st ops s)) = Some v /\ n_negotiate (s_cnt (run st ops s)) = n_negotiate (s_cnt s).
Proof. exact fmt_memo. Qed.
Print Assumptions C09_format_not_recomputed.

Theorem C09_binding_not_recomputed : forall st e ops s, c_bound (s_req s) = Some e ->
  c_bound (s_req (run st ops s)) = Some e /\ n_bind (s_cnt (run st ops s)) = n_bind (s_cnt s).
Proof. exact bound_memo. Qed.
Print Assumptions C09_binding_not_recomputed.

Theorem C09_principal_not_recomputed : forall st ops s, c_principal (s_req s) = true -> count_op is_reset ops = 0 ->
  c_principal (s_req (run st ops s)) = true /\
  n_authn (s_cnt (run st ops s)) = n_authn (s_cnt s) /\ n_authz (s_cnt (run st ops s)) = n_authz (s_cnt s).
Proof. exact principal_memo. Qed.
Print Assumptions C09_principal_not_recomputed.

(* SCHEDULES. For every interleaving of the accessor calls of any number of requests, each request ends in the state
   it reaches when its own calls run alone. (Model-level statement: per-request state is private by construction.) *)
Theorem C09_noninterference : forall sts sched ss i st s,
  nth_error sts i = Some st -> nth_error ss i = Some s ->
  nth_error (run_many sts sched ss) i = Some (run st (ops_of i sched) s).
Proof. exact noninterference. Qed.
Print Assumptions C09_noninterference.
