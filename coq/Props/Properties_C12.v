(* Properties_C12.v — C12: client calls terminate, release what they hold, surface faults.
   Theorems only; each is closed by `exact` of a lemma from Proofs/.
   PARTIAL by nature (see DESIGN 6/C12 and notes/C12.md): these are theorems about the protocol model
   (Model/Lifecycle.v). Wall-clock facts (returns no later than the deadline), the Go scheduler (no goroutine
   remains) and sockets are tied by fault-injection runs only. The transport is assumed to honour the
   http.RoundTripper contract: it closes the request body, also on errors. *)
From V Require Import Lifecycle LifecycleProofs.

(* ---- the drained body ---- *)
(* for any underlying body (segments, then EOF / EOF with the last data / an error), any sequence of Read
   sizes (0 included) followed by Close, and any drain buffer size: the underlying body is closed exactly
   once and its end has been reached (seen by the caller, else read to by Close) *)
Theorem C12_drain : forall segs fin sizes b,
  exists d', d_close b (d_reads (d_init segs fin) sizes) = Some d' /\
             u_closes (d_u d') = 1 /\ u_finished (d_u d') = true.
Proof. exact drain_close. Qed.
Print Assumptions C12_drain.

Theorem C12_drain_no_read_after_end : forall b d,
  d_seen d = true -> d_close b d = Some (mkd (uclose (d_u d)) true).
Proof. exact close_after_end_reads_nothing. Qed.
Print Assumptions C12_drain_no_read_after_end.

(* bodies of any size: a body whose segments and Read buffers are whole multiples of a unit of S m bytes is the same
   machine counted in units - every Read returns S m times as much with the same error, what is left unread is
   S m times as much. C12_drain is stated for every segment list, so it covers the MiB bodies of the correspondence
   run, which are given in units. *)
Theorem C12_drain_any_unit : forall m d k,
  d_read (scale_drc m d) (k * S m) = (let '(n, r, d') := d_read d k in (n * S m, r, scale_drc m d')) /\
  seg_bytes (u_segs (d_u (scale_drc m d))) = seg_bytes (u_segs (d_u d)) * S m.
Proof. exact drain_any_unit. Qed.
Print Assumptions C12_drain_any_unit.

(* the drain has to go to the end: one that gives up after a bounded number of Reads (io.CopyN) closes a long
   enough body before its end was seen *)
Theorem C12_drain_refuted_if_capped :
  exists cap b segs fin,
    let d' := d_close_capped cap b (d_init segs fin) in
    u_closes (d_u d') = 1 /\ u_finished (d_u d') = false /\ 0 < seg_bytes (u_segs (d_u d')).
Proof. exact capped_drain_refuted. Qed.
Print Assumptions C12_drain_refuted_if_capped.

(* ---- release, over all fault placements ---- *)
(* for every number of form values, every list of files (declared or sniffed, every placement of failing
   source Reads) and every scenario (parameter error, auth writer absent / ok / failing, asking for the body
   or not, URL error, transport failing after any number of reads or answering after any number of reads or
   all, response of a consumed / unknown / binary type, read or refused by the reader, its body intact or failing
   early or late, Runtime.Debug on or off): when the call has returned, the writer goroutine has returned, the
   files were closed exactly once, a response body that was obtained has been closed *)
Theorem C12_release : forall nvalues files sc,
  released (call all_fixed (compile all_fixed nvalues files) sc) = true.
Proof. exact release_all_fixed. Qed.
Print Assumptions C12_release.

(* ... and closed exactly once, on every path: Debug on or off, a response of any type, its body intact or
   failing, the dump of the response failing or going through *)
Theorem C12_response_closed_exactly_once : forall nvalues files sc,
  released_once (call all_fixed (compile all_fixed nvalues files) sc) = true.
Proof. exact release_once_all_fixed. Qed.
Print Assumptions C12_response_closed_exactly_once.

(* the repair of F-C12-5 is necessary: with the deferred Close bound to the body the response held when the
   defer statement was executed (the code before the repair), Debug on and a printable response read without
   fault, the body handed out by the transport is closed twice: by httputil.DumpResponse, which has copied it,
   and again by the deferred Close *)
Theorem C12_response_closed_exactly_once_refuted_without_resp_close_held :
  let fx := mkfx true true true true false true in
  let sc := mksc false ANone false (TRespond None RespRead) true in
  let c := call fx (compile fx 0 [mkfp true true [true]]) sc in
  dump_closes_twice sc = true /\
  c_result c = ROk /\ c_resp_opened c = 1 /\ c_resp_closes c = 2 /\ released c = true /\ released_once c = false.
Proof. exact release_once_needs_resp_close_held. Qed.
Print Assumptions C12_response_closed_exactly_once_refuted_without_resp_close_held.

(* the deferred Close has to be registered before the Debug dump: registered after it, a response body that
   fails while it is dumped is never closed *)
Theorem C12_release_refuted_without_resp_close_first :
  let fx := mkfx true true true false true true in
  let c := call fx (compile fx 0 [mkfp true true [true]])
                (mksc false ANone false (TRespond None (mkrb CtConsumed false RFLate)) true) in
  c_result c = RFail /\ c_resp_opened c = 1 /\ c_resp_closes c = 0 /\ released c = false.
Proof. exact release_needs_resp_close_first. Qed.
Print Assumptions C12_release_refuted_without_resp_close_first.

(* once the read end is closed the goroutine cannot wait: it returns, whatever is left of its program *)
Theorem C12_writer_never_blocked_after_close : forall ops sk df pe cl dl,
  w_done (run_writer false ops sk df pe cl dl) = true.
Proof. exact run_closed_done. Qed.
Print Assumptions C12_writer_never_blocked_after_close.

(* the three repairs of the upload side are each necessary (the witnesses are the defects F-C12-1, F-C12-2, F-C12-4) *)
Theorem C12_release_refuted_without_late_close :
  let fx := mkfx true false true true true true in
  let c := call fx (compile fx 0 one_file) (mksc false (AFail false) false (TFail 0) false) in
  released c = false /\ w_done (c_w c) = false /\ w_file_closes (c_w c) = 0.
Proof. exact release_needs_late_close. Qed.
Print Assumptions C12_release_refuted_without_late_close.

Theorem C12_release_refuted_without_defer_first :
  let fx := mkfx false true true true true true in
  let c := call fx (compile fx 1 one_file) (mksc false ANone false (TFail 0) false) in
  released c = false /\ w_done (c_w c) = true /\ w_file_closes (c_w c) = 0.
Proof. exact release_needs_defer_first. Qed.
Print Assumptions C12_release_refuted_without_defer_first.

Theorem C12_release_refuted_without_param_close :
  let fx := mkfx true true false true true true in
  released (call fx (compile fx 0 one_file) (mksc true ANone false (TFail 0) false)) = false.
Proof. exact release_needs_param_close. Qed.
Print Assumptions C12_release_refuted_without_param_close.

(* ---- faults are surfaced ---- *)
(* a failing upload source is never reported as a successful request: whenever some source Read of the
   goroutine's program fails and the request body is consumed to its end before the outcome is decided (the
   auth writer asked for the body, Debug is on so that the request is dumped, or the transport reads everything
   before it answers), the call fails — for every program, every scenario, with or without the repairs *)
Theorem C12_upload_failure_is_error : forall fx prog sc,
  has_fail prog = true -> sc_param_err sc = false ->
  (match sc_auth sc with
   | AOk true | AFail true => True
   | _ => sc_debug sc = true \/ exists r, sc_transport sc = TRespond None r
   end) ->
  c_result (call fx prog sc) = RFail.
Proof. exact upload_failure_is_error. Qed.
Print Assumptions C12_upload_failure_is_error.

(* and in general: a call that ends in success was never handed the upload error by the pipe *)
Theorem C12_success_saw_no_upload_error : forall fx prog sc,
  c_result (call fx prog sc) = ROk -> c_saw_upload_error (call fx prog sc) = false.
Proof. exact success_saw_no_upload_error. Qed.
Print Assumptions C12_success_saw_no_upload_error.

Theorem C12_upload_error_sticky : forall ro ops sk df cl dl,
  let st := run_writer ro ops sk df true cl dl in w_pipe_err st = true.
Proof. exact run_sticky_err. Qed.
Print Assumptions C12_upload_error_sticky.

(* ---- the effective deadline ---- *)
Theorem C12_deadline_no_timeout : forall parent now, effective_deadline parent now 0 = parent.
Proof. exact deadline_no_timeout. Qed.
Print Assumptions C12_deadline_no_timeout.

Theorem C12_deadline : forall parent now timeout,
  timeout <> 0%Z ->
  effective_deadline parent now timeout =
  Some (match parent with None => now + timeout | Some p => Z.min p (now + timeout) end)%Z.
Proof. exact deadline_is_min. Qed.
Print Assumptions C12_deadline.

Theorem C12_deadline_bounds : forall parent now timeout d,
  effective_deadline parent now timeout = Some d ->
  (forall p, parent = Some p -> (d <= p)%Z) /\ (timeout <> 0%Z -> (d <= now + timeout)%Z).
Proof. exact deadline_bounds. Qed.
Print Assumptions C12_deadline_bounds.

(* a negative timeout is not the absence of a timeout: it is a deadline that has already passed, whatever the caller's *)
Theorem C12_deadline_negative_timeout : forall parent now timeout,
  (timeout < 0)%Z -> exists d, effective_deadline parent now timeout = Some d /\ (d < now)%Z.
Proof. exact deadline_negative_timeout. Qed.
Print Assumptions C12_deadline_negative_timeout.

(* taking every timeout <= 0 for no timeout agrees with the effective deadline on timeouts >= 0 only: with no
   caller deadline and a negative timeout it means an unbounded wait where the deadline has already passed *)
Theorem C12_deadline_refuted_if_nonpositive_means_none :
  exists parent now timeout,
    effective_deadline_nonpositive_as_none parent now timeout = None /\
    exists d, effective_deadline parent now timeout = Some d /\ (d < now)%Z.
Proof. exact deadline_nonpositive_as_none_differs. Qed.
Print Assumptions C12_deadline_refuted_if_nonpositive_means_none.

(* the moment by which a stalled call has to be back: never before it began, within each bound that exists *)
Theorem C12_return_bound : forall parent now timeout m,
  must_return_by parent now timeout = Some m ->
  (now <= m)%Z /\ (forall p, parent = Some p -> (m <= Z.max now p)%Z) /\
  (timeout <> 0%Z -> (m <= Z.max now (now + timeout))%Z).
Proof. exact must_return_by_bounds. Qed.
Print Assumptions C12_return_bound.

(* an http.Client with a Timeout of its own (NewWithClient, ClientOperation.Client): its timer comes on top of the
   request timeout and the caller's deadline; it can end the call earlier, never later, and a Timeout of zero or
   less changes nothing *)
Theorem C12_client_timeout_only_shortens : forall parent now timeout client d,
  effective_deadline parent now timeout = Some d ->
  exists d', effective_deadline_with_client parent now timeout client = Some d' /\ (d' <= d)%Z.
Proof. exact client_timeout_only_shortens. Qed.
Print Assumptions C12_client_timeout_only_shortens.

Theorem C12_client_timeout_none : forall parent now timeout client,
  (client <= 0)%Z -> effective_deadline_with_client parent now timeout client = effective_deadline parent now timeout.
Proof. exact client_timeout_none. Qed.
Print Assumptions C12_client_timeout_none.

(* leaving a client that has a Timeout to that timer alone is a different function: with a longer client Timeout the
   call outlives the request timeout *)
Theorem C12_deadline_refuted_if_client_timeout_replaces_request_timeout :
  exists parent now timeout client d d',
    effective_deadline parent now timeout = Some d /\
    effective_deadline_client_instead parent now timeout client = Some d' /\ (d < d')%Z.
Proof. exact client_instead_refuted. Qed.
Print Assumptions C12_deadline_refuted_if_client_timeout_replaces_request_timeout.

(* ---- the error value an upload source fails with ---- *)
(* srcfile: per Read of a source what it reports: nil, io.EOF, io.ErrUnexpectedEOF, any other error value; sticky, or
   reported once and io.EOF afterwards. src_fails: the first Read that does not return nil reports something else than
   io.EOF. Whatever the value, inside the sniffing window or at any Read of the copy, with or without bytes next to the
   error, sticky or not: not a success once the body is consumed to its end. Holds at full strength since the repair of
   F-C12-6 (fx_sniff_eof_only: while the window is filled only io.EOF is the end of the source). *)
Theorem C12_upload_failure_any_error_value : forall fx nv files sc,
  fx_sniff_eof_only fx = true ->
  existsb src_fails files = true -> sc_param_err sc = false ->
  (match sc_auth sc with
   | AOk true | AFail true => True
   | _ => sc_debug sc = true \/ exists r, sc_transport sc = TRespond None r
   end) ->
  c_result (call fx (compile fx nv (map (lower_fx fx) files)) sc) = RFail.
Proof. exact upload_failure_any_error_value. Qed.
Print Assumptions C12_upload_failure_any_error_value.

(* io.EOF, early or not, is the end of a file and no failure *)
Theorem C12_early_end_is_no_failure : forall f, src_fails f = false -> fp_fails (lower f) = false.
Proof. exact early_end_is_no_failure. Qed.
Print Assumptions C12_early_end_is_no_failure.

(* the test of the old sniffing io.ReadFull (io.EOF and io.ErrUnexpectedEOF both mean a short file there) must not
   be applied to the copy: a source truncated in the middle of the copy would be answered as a success *)
Theorem C12_upload_failure_refuted_if_truncation_is_benign : exists files sc,
  existsb src_fails files = true /\ sc_param_err sc = false /\
  (exists r, sc_transport sc = TRespond None r) /\
  c_result (call all_fixed (compile all_fixed 0 (map lower_trunc_benign files)) sc) = ROk /\
  c_result (call all_fixed (compile all_fixed 0 (map lower files)) sc) = RFail.
Proof. exact upload_failure_refuted_if_truncation_is_benign. Qed.
Print Assumptions C12_upload_failure_refuted_if_truncation_is_benign.

(* F-C12-6 (repaired): the repair is needed. With the window filled by io.ReadFull (sniff_unrepaired) a source that is not
   sticky and reports io.ErrUnexpectedEOF once inside the sniffing window, io.EOF afterwards, was taken for a short file:
   a failing source, the body consumed to its end, and the call succeeded; with the repair the same call fails *)
Theorem C12_upload_failure_refuted_without_sniff_eof_only : exists f sc,
  src_fails f = true /\ sniff_swallowed f = true /\ sc_param_err sc = false /\
  (exists r, sc_transport sc = TRespond None r) /\
  c_result (call sniff_unrepaired (compile sniff_unrepaired 0 (map (lower_fx sniff_unrepaired) [f])) sc) = ROk /\
  c_result (call all_fixed (compile all_fixed 0 (map (lower_fx all_fixed) [f])) sc) = RFail.
Proof. exact upload_failure_refuted_without_sniff_eof_only. Qed.
Print Assumptions C12_upload_failure_refuted_without_sniff_eof_only.

(* ... and that was the only such case: with or without the repair every other failing source is reported *)
Theorem C12_upload_failure_before_sniff_repair : forall fx nv files sc,
  existsb (fun f => src_fails f && negb (sniff_swallowed f)) files = true -> sc_param_err sc = false ->
  (match sc_auth sc with
   | AOk true | AFail true => True
   | _ => sc_debug sc = true \/ exists r, sc_transport sc = TRespond None r
   end) ->
  c_result (call fx (compile fx nv (map (lower_fx fx) files)) sc) = RFail.
Proof. exact upload_failure_before_sniff_repair. Qed.
Print Assumptions C12_upload_failure_before_sniff_repair.

(* ---- what Submit leaves behind for the next call on the same Runtime ---- *)
(* the response body is closed exactly once; with connection reuse its end has been seen when it is closed (the
   deferred Close runs before the deferred cancel), without it only if the reader saw it *)
Theorem C12_epilogue_drains_before_cancel : forall keepalive saw,
  x_closes (after_exchange keepalive saw) = 1 /\
  (keepalive = true -> x_ended (after_exchange keepalive saw) = true) /\
  (keepalive = false -> x_ended (after_exchange keepalive saw) = saw).
Proof. exact epilogue_drains. Qed.
Print Assumptions C12_epilogue_drains_before_cancel.

(* so any number of sequential calls with connection reuse dial one connection, whatever their readers left unread *)
Theorem C12_reuse_one_connection : forall readers, readers <> [] ->
  conns_of_history submit_epilogue true readers = 1.
Proof. exact reuse_one_connection. Qed.
Print Assumptions C12_reuse_one_connection.

(* ... and the order is needed: with cancel running first the drain meets a cancelled exchange, the body is closed
   (once) with its remainder unread and every call dials anew *)
Theorem C12_reuse_refuted_if_cancel_runs_first :
  conns_of_history wrong_epilogue true [false; false; false] = 3 /\
  x_closes (run_epilogue true wrong_epilogue false) = 1 /\
  x_ended (run_epilogue true wrong_epilogue false) = false.
Proof. exact reuse_refuted_if_cancel_runs_first. Qed.
Print Assumptions C12_reuse_refuted_if_cancel_runs_first.
