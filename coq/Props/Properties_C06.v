(* Properties_C06.v — C06: a body is decoded only by the consumer of an admitted media type, else 415.
   Theorems only. gate_typed = Context.BindValidRequest, gate_untyped = validation.contentType (BindAndValidate);
   arguments: the request carries a body (runtime.HasBody), the media type runtime.ContentType parsed from the header
   (None = unparsable; second copy = the answer when validateContentType parses it again, equal by idempotence of the
   parser, checked on every case), the route's consumes list, the media types with a registered consumer.
   outcome g = (status of the first error if any, consumer that decodes the body if any). *)
From V Require Import GateSpec GateProofs.

Theorem C06_typed_gate_is_expected : forall hasbody parse consumes keys,
  outcome (gate_typed hasbody parse parse consumes keys) = expected hasbody parse consumes keys.
Proof. exact gate_typed_expected. Qed.
Print Assumptions C06_typed_gate_is_expected.

Theorem C06_untyped_gate_is_expected : forall hasbody parse consumes keys,
  parse <> Some [] ->
  outcome (gate_untyped hasbody parse parse consumes keys) = expected hasbody parse consumes keys.
Proof. exact gate_untyped_expected. Qed.
Print Assumptions C06_untyped_gate_is_expected.

(* the two binding entry points refuse the same requests with the same status and pick the same consumer *)
Theorem C06_typed_untyped_agree : forall hasbody parse consumes keys,
  parse <> Some [] ->
  outcome (gate_typed hasbody parse parse consumes keys) = outcome (gate_untyped hasbody parse parse consumes keys).
Proof. exact typed_untyped_agree. Qed.
Print Assumptions C06_typed_untyped_agree.

(* a consumer decodes the body only if there is a body, its media type is admitted, and it is the consumer
   registered for exactly that media type *)
Theorem C06_consumer_only_if_admitted : forall hasbody parse consumes keys k,
  snd (expected hasbody parse consumes keys) = Some k ->
  hasbody = true /\ parse = Some k /\ admitted consumes k = true /\ In k keys.
Proof. exact consumer_only_if_admitted. Qed.
Print Assumptions C06_consumer_only_if_admitted.

Theorem C06_not_admitted_415 : forall parse consumes keys mt,
  parse = Some mt -> admitted consumes mt = false -> expected true parse consumes keys = (Some 415, None).
Proof. exact not_admitted_415. Qed.
Print Assumptions C06_not_admitted_415.

Theorem C06_unparsable_400 : forall consumes keys, expected true None consumes keys = (Some 400, None).
Proof. exact unparsable_400. Qed.
Print Assumptions C06_unparsable_400.

Theorem C06_no_body_no_gate : forall parse consumes keys, expected false parse consumes keys = (None, None).
Proof. exact no_body_no_gate. Qed.
Print Assumptions C06_no_body_no_gate.

Theorem C06_default_admitted : forall declared default,
  default <> [] -> strip_params default = default -> admitted (add_route_consumes declared default) default = true.
Proof. exact default_admitted. Qed.
Print Assumptions C06_default_admitted.
