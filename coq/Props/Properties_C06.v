(* Properties_C06.v — C06: a body is decoded only by the consumer of an admitted media type, else 415.
   Theorems only. gate_typed = Context.BindValidRequest, gate_untyped = validation.contentType (BindAndValidate);
   arguments: the request carries a body (runtime.HasBody), the media type mime.ParseMediaType answers for the first
   Content-Type line as it stands, or for application/octet-stream when there is none (None = unparsable; second copy =
   the answer when validateContentType parses it again, equal by idempotence of the parser, checked on every case),
   the route's consumes list, the media types with a consumer in the route's table.
   outcome g = (status of the first error if any, consumer that decodes the body if any).
   The C06_route_ theorems start from what the API author wrote (declared list, API default, consumers registered on
   the API): add_route_consumes = AddRoute, route_consumers = ConsumersFor(normalizeOffers(consumes)). *)
From V Require Import GateSpec GateProofs.

Theorem C06_typed_gate_is_expected : forall hasbody parse consumes keys,
  outcome (gate_typed hasbody parse parse consumes keys) = expected hasbody parse consumes keys.
Proof. exact gate_typed_expected. Qed.
Print Assumptions C06_typed_gate_is_expected.

Theorem C06_untyped_gate_is_expected : forall hasbody parse consumes keys,
  parse <> Some [] ->
  outcome (gate_untyped hasbody parse parse consumes keys) = expected hasbody parse consumes keys.
Proof. exact gate_untyped_expected. Qed.
Print Assumptions C06_untyped_gate_is_expected.

(* the two binding entry points refuse the same requests with the same status and pick the same consumer *)
Theorem C06_typed_untyped_agree : forall hasbody parse consumes keys,
  parse <> Some [] ->
  outcome (gate_typed hasbody parse parse consumes keys) = outcome (gate_untyped hasbody parse parse consumes keys).
Proof. exact typed_untyped_agree. Qed.
Print Assumptions C06_typed_untyped_agree.

(* a consumer decodes the body only if there is a body, its media type is admitted, and it is the consumer
   registered for exactly that media type *)
Theorem C06_consumer_only_if_admitted : forall hasbody parse consumes keys k,
  snd (expected hasbody parse consumes keys) = Some k ->
  hasbody = true /\ parse = Some k /\ admitted consumes k = true /\ In k keys.
Proof. exact consumer_only_if_admitted. Qed.
Print Assumptions C06_consumer_only_if_admitted.

Theorem C06_not_admitted_415 : forall parse consumes keys mt,
  parse = Some mt -> admitted consumes mt = false -> expected true parse consumes keys = (Some 415, None).
Proof. exact not_admitted_415. Qed.
Print Assumptions C06_not_admitted_415.

Theorem C06_unparsable_400 : forall consumes keys, expected true None consumes keys = (Some 400, None).
Proof. exact unparsable_400. Qed.
Print Assumptions C06_unparsable_400.

Theorem C06_no_body_no_gate : forall parse consumes keys, expected false parse consumes keys = (None, None).
Proof. exact no_body_no_gate. Qed.
Print Assumptions C06_no_body_no_gate.

Theorem C06_default_admitted : forall declared default,
  default <> [] -> strip_params default = default -> admitted (add_route_consumes declared default) default = true.
Proof. exact default_admitted. Qed.
Print Assumptions C06_default_admitted.

(* AddRoute, the consumer table and the gate, end to end: for lists spelled in lower case the outcome is the
   specification over the declared list plus the default and the consumers registered on the API *)
Theorem C06_route_typed_gate_is_expected : forall hasbody parse declared default registered,
  all_lower declared = true -> lower default = default ->
  outcome (gate_typed hasbody parse parse (add_route_consumes declared default)
                      (route_consumers (add_route_consumes declared default) registered))
  = expected_route hasbody parse declared default registered.
Proof. exact route_typed_expected. Qed.
Print Assumptions C06_route_typed_gate_is_expected.

Theorem C06_route_untyped_gate_is_expected : forall hasbody parse declared default registered,
  parse <> Some [] -> all_lower declared = true -> lower default = default ->
  outcome (gate_untyped hasbody parse parse (add_route_consumes declared default)
                        (route_consumers (add_route_consumes declared default) registered))
  = expected_route hasbody parse declared default registered.
Proof. exact route_untyped_expected. Qed.
Print Assumptions C06_route_untyped_gate_is_expected.

(* the API default is named by an entry of every consumes list AddRoute builds (not merely admitted by a wildcard) *)
Theorem C06_default_listed : forall declared default,
  default <> [] -> strip_params default = default -> listed_ci (add_route_consumes declared default) default = true.
Proof. exact default_listed. Qed.
Print Assumptions C06_default_listed.

(* a body of the API default media type is decoded by the consumer registered for it on the API, whatever the
   operation declares *)
Theorem C06_default_consumer_decodes : forall declared default registered,
  default <> [] -> strip_params default = default -> In default registered ->
  expected_route true (Some default) declared default registered = (None, Some default).
Proof. exact default_consumer_decodes. Qed.
Print Assumptions C06_default_consumer_decodes.

(* runtime.ContentType hands the first header line, unchanged, to the parser; the default when absent or empty *)
Theorem C06_content_type_first_line : forall pmt v rest, content_type pmt (v :: rest) = content_type pmt [v].
Proof. exact content_type_first_line. Qed.
Print Assumptions C06_content_type_first_line.

Theorem C06_content_type_absent : forall pmt,
  content_type pmt [] = pmt default_mime /\ content_type pmt [[]] = pmt default_mime.
Proof. exact content_type_absent. Qed.
Print Assumptions C06_content_type_absent.

(* ---- several requests answered by one Context of an API with several operations (gate_history = the list of the
   single gates, each over the consumes list of the operation the request addresses) ---- *)
Theorem C06_history_stateless : forall default registered qs n q,
  nth_error qs n = Some q -> nth_error (gate_history default registered qs) n = Some (gate_req default registered q).
Proof. exact gate_history_stateless. Qed.
Print Assumptions C06_history_stateless.

Theorem C06_history_prefix_irrelevant : forall default registered pre pre' q,
  nth_error (gate_history default registered (pre ++ [q])) (length pre) =
  nth_error (gate_history default registered (pre' ++ [q])) (length pre').
Proof. exact gate_history_prefix_irrelevant. Qed.
Print Assumptions C06_history_prefix_irrelevant.

(* every answer of a history, through either entry point, is the specification over the list of the operation addressed *)
Theorem C06_history_is_expected : forall default registered qs,
  lower default = default -> Forall greq_ok qs ->
  map outcome (gate_history default registered qs) = map (expected_req default registered) qs.
Proof. exact gate_history_expected. Qed.
Print Assumptions C06_history_is_expected.

(* two histories of the same requests that differ only in the entry points used are answered alike *)
Theorem C06_history_entry_points_agree : forall default registered qs qs',
  lower default = default -> Forall greq_ok qs -> Forall greq_ok qs' ->
  map (fun q => (gq_declared q, gq_hasbody q, gq_parse q)) qs = map (fun q => (gq_declared q, gq_hasbody q, gq_parse q)) qs' ->
  map outcome (gate_history default registered qs) = map outcome (gate_history default registered qs').
Proof. exact gate_history_entry_points_agree. Qed.
Print Assumptions C06_history_entry_points_agree.

(* ---- the operation's parameter set (a body parameter, none, only path / query / header, formData) has no say at
   the gate. reflective k form_st g = what the reflective entry point serves once the gate answered g, for an
   operation of parameter set k (form_st = answer of the form stage of a formData operation) ---- *)
Theorem C06_gate_refusal_whatever_the_operation_reads : forall k form_st hasbody parse consumes keys s,
  parse <> Some [] ->
  fst (expected hasbody parse consumes keys) = Some s ->
  reflective k form_st (gate_untyped hasbody parse parse consumes keys) = (Some s, None).
Proof. exact reflective_refusal. Qed.
Print Assumptions C06_gate_refusal_whatever_the_operation_reads.

Theorem C06_reflective_entry_meets_spec : forall k form_st hasbody parse consumes keys,
  parse <> Some [] ->
  reflective_ok k (is_some form_st) (expected hasbody parse consumes keys)
    (fst (reflective k form_st (gate_untyped hasbody parse parse consumes keys)))
    (snd (reflective k form_st (gate_untyped hasbody parse parse consumes keys)))
    (is_none (fst (reflective k form_st (gate_untyped hasbody parse parse consumes keys)))) = true.
Proof. exact reflective_meets_spec. Qed.
Print Assumptions C06_reflective_entry_meets_spec.

(* a refusal served by the reflective entry point is the gate's, or the form stage's of a formData operation *)
Theorem C06_reflective_refusal_origin : forall k f hasbody parse consumes keys s,
  parse <> Some [] ->
  fst (reflective k f (gate_untyped hasbody parse parse consumes keys)) = Some s ->
  fst (expected hasbody parse consumes keys) = Some s \/
  (k = KForm /\ f = Some s /\ fst (expected hasbody parse consumes keys) = None).
Proof. exact reflective_refusal_origin. Qed.
Print Assumptions C06_reflective_refusal_origin.

(* ---- the response format stage (Accept against the operation's produces) comes after the gate: a request the gate
   refuses is answered with the gate's refusal whatever its Accept header asks for, through either entry point
   (acc = whether the negotiation finds an acceptable format) ---- *)
Theorem C06_gate_refusal_whatever_is_accepted : forall k form_st acc hasbody parse consumes keys s,
  parse <> Some [] ->
  fst (expected hasbody parse consumes keys) = Some s ->
  reflective_acc k form_st acc (gate_untyped hasbody parse parse consumes keys) = (Some s, None).
Proof. exact reflective_acc_refusal. Qed.
Print Assumptions C06_gate_refusal_whatever_is_accepted.

Theorem C06_typed_gate_refusal_whatever_is_accepted : forall acc hasbody parse consumes keys s,
  fst (expected hasbody parse consumes keys) = Some s ->
  typed_acc hasbody acc (gate_typed hasbody parse parse consumes keys) = (Some s, None).
Proof. exact typed_acc_refusal. Qed.
Print Assumptions C06_typed_gate_refusal_whatever_is_accepted.

Theorem C06_reflective_entry_meets_spec_whatever_is_accepted : forall k form_st acc hasbody parse consumes keys,
  parse <> Some [] ->
  let r := reflective_acc k form_st acc (gate_untyped hasbody parse parse consumes keys) in
  gate_before_format acc (expected hasbody parse consumes keys)
    (reflective_ok k (is_some form_st) (expected hasbody parse consumes keys) (fst r) (snd r) (is_none (fst r)))
    (fst r) (snd r) (is_none (fst r)) = true.
Proof. exact reflective_acc_meets_spec. Qed.
Print Assumptions C06_reflective_entry_meets_spec_whatever_is_accepted.
