(* Properties_C13.v — C13: responses reach the reader with the right consumer.
   Theorems only; each is closed by `exact` of a lemma from Proofs/.
   The registry is a Go map: a list with distinct keys, in any order. parsed is the answer of
   mime.ParseMediaType for the content type (parameters dropped, type lower-cased, None on error).
   The concurrency clause (no data races, each caller gets its own response) is a runtime fact and is
   tied by race-detector runs only (see notes/C13.md): it is not a theorem here. *)
From Coq Require Import Permutation.
From V Require Import ClientRespSpec ClientRespProofs.

(* the reader is handed a consumer exactly when it is the entry registered for the parsed media type or,
   that type having no entry, the catch-all entry: never another one *)
Theorem C13_consumer_exact : forall reg ct parsed c,
  NoDup (keys reg) ->
  (select_consumer reg ct parsed = UseConsumer c <->
   exists mt, parsed = Some mt /\
     (In (mt, c) reg \/ (~ In mt (keys reg) /\ In (star_star, c) reg))).
Proof. exact consumer_exact. Qed.
Print Assumptions C13_consumer_exact.

(* otherwise the call fails with an error built from the content type at hand *)
Theorem C13_failure_names_content_type : forall reg ct parsed,
  (exists c, select_consumer reg ct parsed = UseConsumer c) \/
  (parsed = None /\ select_consumer reg ct parsed = ErrParse ct) \/
  (exists mt, parsed = Some mt /\ ~ In mt (keys reg) /\ ~ In star_star (keys reg) /\
              select_consumer reg ct parsed = ErrNoConsumer ct).
Proof. exact failure_names_content_type. Qed.
Print Assumptions C13_failure_names_content_type.

(* the choice does not depend on the order in which the registry is listed (a Go map has none) *)
Theorem C13_registry_order_irrelevant : forall reg reg' ct parsed,
  NoDup (keys reg) -> Permutation reg reg' -> select_consumer reg ct parsed = select_consumer reg' ct parsed.
Proof. exact select_order_independent. Qed.
Print Assumptions C13_registry_order_irrelevant.

(* the selection satisfies the predicate the correspondence run evaluates on the implementation *)
Theorem C13_selected_is_right : forall reg ct mt c,
  NoDup (keys reg) -> select_consumer reg ct (Some mt) = UseConsumer c -> right_consumer reg mt c = true.
Proof. exact selected_is_right. Qed.
Print Assumptions C13_selected_is_right.

(* an absent or empty Content-Type header means the default media type *)
Theorem C13_default_media_type : forall d, effective_ct d None = d /\ effective_ct d (Some []) = d.
Proof. exact effective_ct_default. Qed.
Print Assumptions C13_default_media_type.

(* status code, status text and body reach the reader unchanged; GetHeader is the first of GetHeaders *)
Theorem C13_view_unchanged : forall reg d parsed r c code st body,
  submit_response reg d parsed r = Delivered c code st body ->
  code = r_code r /\ st = r_status r /\ body = r_body r.
Proof. exact view_unchanged. Qed.
Print Assumptions C13_view_unchanged.

Theorem C13_header_first_value : forall r k, get_header r k = hd [] (get_headers r k).
Proof. exact header_first_value. Qed.
Print Assumptions C13_header_first_value.

(* a per-operation HTTP client or context takes precedence over the transport-wide one *)
Theorem C13_operation_overrides_transport :
  choose_client true = FromOperation /\ choose_client false = FromTransport /\
  (forall rt, choose_context true rt = FromOperation) /\
  choose_context false true = FromTransport /\ choose_context false false = Background.
Proof. exact operation_overrides. Qed.
Print Assumptions C13_operation_overrides_transport.

(* ---- the client OBJECT that carries the call (redirect policy, jar, timeout, transport) ---- *)

(* what Submit does satisfies the predicate the correspondence run evaluates on the implementation:
   with an operation client, the call behaves as that client alone determines; else as the runtime client does *)
Theorem C13_right_client_carries : forall op rt slow, right_client op rt slow (route_call op rt slow) = true.
Proof. exact right_client_route. Qed.
Print Assumptions C13_right_client_carries.

(* and the predicate accepts no other behaviour *)
Theorem C13_right_client_exact : forall op rt slow t, right_client op rt slow t = true -> t = route_call op rt slow.
Proof. exact right_client_unique. Qed.
Print Assumptions C13_right_client_exact.

(* an operation client is used whichever fields it sets - also one without a Transport of its own: the runtime
   client plays no part in the call *)
Theorem C13_operation_client_alone : forall c rt rt' slow, route_call (Some c) rt slow = route_call (Some c) rt' slow.
Proof. exact op_client_alone. Qed.
Print Assumptions C13_operation_client_alone.

(* a call carried by some runtime client instead is rejected as soon as the operation client sets anything *)
Theorem C13_runtime_client_instead_is_rejected : forall c rt rt',
  c_transport c = true \/ c_jar c = true \/ c_redirect c <> 0 ->
  right_client (Some c) rt false (run_client who_rt rt' false) = false.
Proof. exact other_client_rejected. Qed.
Print Assumptions C13_runtime_client_instead_is_rejected.

(* ---- several calls on one runtime: a response kept by its reader answers for its own call only ---- *)
Theorem C13_kept_response_is_its_own_call : forall cs1 pc cs2,
  nth_error (retained_all (cs1 ++ pc :: cs2)) (length cs1) = Some (retained_view (snd pc)).
Proof. exact retained_independent. Qed.
Print Assumptions C13_kept_response_is_its_own_call.

Theorem C13_each_call_served_by_its_own_response : forall reg d cs1 pc cs2,
  nth_error (submit_all reg d (cs1 ++ pc :: cs2)) (length cs1) = Some (submit_response reg d (fst pc) (snd pc)).
Proof. exact submit_all_pointwise. Qed.
Print Assumptions C13_each_call_served_by_its_own_response.

(* ---- the CONTEXT the call runs under (its values, its deadline, its cancellation) ---- *)

(* what Submit does satisfies the predicate the correspondence run evaluates on the implementation: with an operation
   context the call runs under it alone; else under the runtime context; else under neither *)
Theorem C13_right_context_carries : forall op rt timeout action,
  right_context op rt timeout action (submit_context op rt timeout action) = true.
Proof. exact right_context_submit. Qed.
Print Assumptions C13_right_context_carries.

(* and the predicate accepts no other behaviour *)
Theorem C13_right_context_exact : forall op rt timeout action s,
  right_context op rt timeout action s = true -> s = submit_context op rt timeout action.
Proof. exact right_context_unique. Qed.
Print Assumptions C13_right_context_exact.

(* the runtime context plays no part once the operation has a context: whatever its deadline or state *)
Theorem C13_operation_context_alone : forall c rt rt' timeout action,
  submit_context (Some c) rt timeout action = submit_context (Some c) rt' timeout action.
Proof. exact op_context_alone. Qed.
Print Assumptions C13_operation_context_alone.

(* a call run under the runtime context instead is rejected, whatever the two contexts are *)
Theorem C13_runtime_context_instead_is_rejected : forall c rt c' timeout action,
  right_context (Some c) rt timeout action (run_under FromTransport c' timeout action) = false.
Proof. exact other_context_rejected. Qed.
Print Assumptions C13_runtime_context_instead_is_rejected.

(* cancelling the operation context during the call ends the call; cancelling the runtime context does not *)
Theorem C13_operation_cancellation_ends_the_call : forall c rt timeout,
  n_ended (submit_context (Some c) rt timeout 1) = true /\
  n_ended (submit_context (Some c) rt timeout 2) = x_cancelled c.
Proof. exact op_cancel_ends_call. Qed.
Print Assumptions C13_operation_cancellation_ends_the_call.
