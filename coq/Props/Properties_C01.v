(* Properties_C01.v — C01: spec-driven dispatch (middleware/router.go over the denco router).
   Theorems only; each is closed by exact of a lemma from Proofs/SpecRouterProofs.v.
   Vocabulary (Model/SpecRouterSpec.v): plain_routes = whole-segment placeholders only (every closing
   brace ends its segment, every extracted name is written in braces), every operation registered
   under its own template, per method pairwise distinct shapes of routable keys. route_shape /
   route_names = shape and placeholder names of the denco key of the template under the base path;
   fits base r p = the texts the cleaned path binds against that shape (C05 smatch); under m r =
   the route is registered under the upper-cased request method; best_route = r fits and is
   preferred (C05 pref: literal before parameter at the first difference) to every other fitting
   route of that method. *)
From V Require Import Bytes DencoSpec DencoTrie DencoSpecProofs PathCleanLib PathUnescapeLib PathCleanProofs SpecRouter SpecRouterSpec SpecRouterProofs
  SpecRouterSegs SpecRouterSegProofs SpecRouterSegDispatch SpecRouterSelfReg SpecRouterSimpleRoutes.

(* the handler that runs is the one of the preferred fitting route under the upper-cased method, and
   it receives the placeholder names paired with the percent-decoded texts; and conversely *)
Theorem C01_dispatch_exact : forall base routes m p h ps, plain_routes base routes = true ->
  (serve base routes m p = Run h ps <->
   exists r vs, best_route base routes m p r vs /\ r_id r = h /\
                ps = combine (route_names base r) (map unescape_or_raw vs)).
Proof. exact dispatch_exact. Qed.
Print Assumptions C01_dispatch_exact.

(* the same for Router.Lookup: PathPattern, operation and Params of the matched route *)
Theorem C01_lookup_exact : forall base routes m p pat op h ps, plain_routes base routes = true ->
  (lookup base routes m p = LFound pat op h ps <->
   exists r vs, best_route base routes m p r vs /\ pat = path_join base (r_tpl r) /\ op = r_id r /\ h = r_id r /\
                ps = combine (route_names base r) (map unescape_or_raw vs)).
Proof. exact lookup_plain. Qed.
Print Assumptions C01_lookup_exact.

(* when no template fits under the request's method no handler runs (the outcome is not Run): the
   answer is 405 with an Allow list holding, without repetition, exactly the methods under which
   some template fits, or 404 when there is none *)
Theorem C01_405_allow_exact : forall base routes m p, plain_routes base routes = true ->
  (forall r, In r routes -> under m r -> fits base r p = None) ->
  exists A, NoDup A /\
    (forall k, In k A <-> exists r, In r routes /\ upper (r_method r) = k /\ fits base r p <> None) /\
    serve base routes m p = match A with [] => R404 | _ => R405 A end.
Proof. exact allow_exact. Qed.
Print Assumptions C01_405_allow_exact.

(* the letter case of the method is irrelevant (any route set) *)
Theorem C01_method_case : forall base routes m m' p, upper m = upper m' ->
  serve base routes m p = serve base routes m' p.
Proof. exact method_case. Qed.
Print Assumptions C01_method_case.

(* path.Clean (the model of it) is idempotent, on every input, rooted or relative *)
Theorem C01_clean_idem : forall p, clean (clean p) = clean p.
Proof. exact clean_idem. Qed.
Print Assumptions C01_clean_idem.

(* a rooted input yields a rooted path in normal form: the root itself, or segments that are
   non-empty, neither the single nor the double dot, free of the separator (rooted_normal, defined
   in Lib/PathCleanLib.v); hence no trailing separator except for the root. Second form: the result
   is the separator followed by plain segments joined by separators; and such a path is a fixed point *)
Theorem C01_clean_rooted_normal : forall r,
  rooted_normal (clean (SL :: r)) = true /\
  (exists l, clean (SL :: r) = rooted_of l /\ forallb plain_seg l = true) /\
  (forall l, forallb plain_seg l = true -> clean (rooted_of l) = rooted_of l).
Proof. intro r. exact (conj (clean_rooted_normal r) (conj (clean_rooted_shape r) clean_normal_id)). Qed.
Print Assumptions C01_clean_rooted_normal.

(* cleaning comes before matching, for every route set: a path and its cleaned form are answered
   alike (served outcome and Router.Lookup), and so are a rooted path and the same path with an
   empty segment (two separators in a row), a single-dot segment, a plain segment followed by a
   double-dot segment, a double-dot segment at the root, or a trailing separator.
   rooted_of segs = the separator followed by the segments joined by separators. *)
Theorem C01_clean_before_match : forall base routes m,
  (forall p, same_answer base routes m (clean p) p) /\
  (forall a b, forallb slash_free a = true -> forallb slash_free b = true ->
     same_answer base routes m (rooted_of (a ++ [] :: b)) (rooted_of (a ++ b))) /\
  (forall a b, forallb slash_free a = true -> forallb slash_free b = true ->
     same_answer base routes m (rooted_of (a ++ [DOT] :: b)) (rooted_of (a ++ b))) /\
  (forall a s b, forallb slash_free a = true -> plain_seg s = true -> forallb slash_free b = true ->
     same_answer base routes m (rooted_of (a ++ s :: [DOT; DOT] :: b)) (rooted_of (a ++ b))) /\
  (forall b, forallb slash_free b = true ->
     same_answer base routes m (rooted_of ([DOT; DOT] :: b)) (rooted_of b)) /\
  (forall a, a <> [] -> forallb slash_free a = true ->
     same_answer base routes m (rooted_of a ++ [SL]) (rooted_of a)).
Proof. exact clean_before_match_full. Qed.
Print Assumptions C01_clean_before_match.

(* an escaped slash does not split the segment text (the text stays free of the separator, so by
   C01_dispatch_exact it is bound whole) and reaches the handler as a slash byte; an escaped percent
   sign is decoded once *)
Theorem C01_encoded_slash_is_data : forall a b, pct_free a = true -> pct_free b = true ->
  no_slash a = true -> no_slash b = true ->
  no_slash (a ++ pct_triple SLASH ++ b) = true /\
  unescape_or_raw (a ++ pct_triple SLASH ++ b) = a ++ [SLASH] ++ b /\
  unescape_or_raw (a ++ pct_triple PCT ++ b) = a ++ [PCT] ++ b /\
  unescape_or_raw [37; 50; 53; 50; 70] = [37; 50; 70].
Proof. exact encoded_slash_is_data. Qed.
Print Assumptions C01_encoded_slash_is_data.

(* neither Router.Lookup nor the served handler panics or runs out of fuel, for every route set
   whose per-method tables hold routable keys of pairwise distinct shapes (wf_tables; composite and
   unbalanced-brace templates included, weaker than plain_routes): every slice expression of
   decodeCompositParams is a checked operation of the model and is proved to be within bounds.
   Outside wf_tables the denco layer itself is not proved panic-free (C05 proves that under
   wf_patset only), so the statement stops there. *)
Theorem C01_total : forall base routes m p, wf_tables base routes = true ->
  (lookup base routes m p <> LPanic /\ lookup base routes m p <> LFuel) /\
  (serve base routes m p <> RPanic /\ serve base routes m p <> RFuel).
Proof. intros base routes m p H. exact (conj (lookup_total base routes m p H) (serve_total base routes m p H)). Qed.
Print Assumptions C01_total.

(* decodeCompositParams itself: for every name, value and pattern it returns (no panic, enough fuel) *)
Theorem C01_decode_total : forall name value pattern names values,
  exists ns vs, decode_composite (S (length pattern)) name value pattern names values = DOk ns vs.
Proof. intros. apply decode_composite_ok. apply Nat.lt_succ_diag_r. Qed.
Print Assumptions C01_decode_total.

(* plain route sets are in that domain, and so is a set with composite and unbalanced templates *)
Theorem C01_total_domain :
  (forall base routes, plain_routes base routes = true -> wf_tables base routes = true) /\
  wf_tables [] composite_routes = true /\ plain_routes [] composite_routes = false /\
  lookup [] composite_routes [71;69;84] [47;102;105;108;101;115;47;97;98;99]
  = LFound [47;102;105;108;101;115;47;123;110;97;109;101;125;45;45;123;118;101;114;125] 3 3 [([110;97;109;101], []); ([118;101;114], [])] /\
  lookup [] composite_routes [71;69;84] [47;113;47;49] = LFound [47;113;47;123;97;125;120;123;98] 1 1 [([97], [])] /\
  lookup [] composite_routes [80;85;84] [47;115;47;49;125;50] = LFound [47;115;47;123;97;125;125;123;98;125] 2 2 [([97], [49]); ([98], [50])].
Proof. exact (conj plain_routes_wf_tables composite_routes_wf). Qed.
Print Assumptions C01_total_domain.

(* composite segment, one placeholder followed by literal text: when the request segment ends with
   that text the bound value is the segment without it *)
Theorem C01_composite_partial : forall name v suf, index_of [LBRACE] suf = None ->
  decode_composite (S (length suf)) name (v ++ suf) suf [] [] = DOk [name] [v].
Proof. exact composite_suffix_value. Qed.
Print Assumptions C01_composite_partial.

(* the dispatch clause is false for composite templates: /g/{a}.{b} answers GET /g/xy (both values
   empty) although the segment xy does not instantiate {a}.{b} (finding F-C01-2) *)
Theorem C01_composite_refuted :
  lookup [] composite_witness_routes [71;69;84] [47;103;47;120;121]
  = LFound [47;103;47;123;97;125;46;123;98;125] 0 0 [([97], []); ([98], [])]
  /\ seg_match [TLit [103]; TComp [[97];[98]] [[46]; []]] [[103]; [120;121]] = None.
Proof. exact composite_refuted. Qed.
Print Assumptions C01_composite_refuted.

(* non-vacuity: a route set with base path /api/, literal and parameter siblings, two placeholders
   and the root template is plain, and its answers are the expected ones *)
Theorem C01_example_in_domain :
  plain_routes example_base example_routes = true /\
  serve example_base example_routes [103;101;116] [47;97;112;105;47;47;97;47;46;47;37;50;70;37;50;53] = Run 0 [([105;100], [47;37])] /\
  serve example_base example_routes [71;69;84] [47;97;112;105;47;97;47;98] = Run 2 [] /\
  serve example_base example_routes [68] [47;97;112;105;47;97;47;98] = R405 [[80;79;83;84]; [71;69;84]] /\
  serve example_base example_routes [71;69;84] [47;97;112;105] = Run 4 [] /\
  serve example_base example_routes [71;69;84] [47;122;122] = R404.
Proof. exact example_plain. Qed.
Print Assumptions C01_example_in_domain.

(* ---------- the same clauses in the segment vocabulary of the property ----------
   (Model/SpecRouterSegs.v, Proofs/SpecRouterSegProofs.v, Proofs/SpecRouterSegDispatch.v, by the C05 builder.)
   A simple template is a list ts of segments (literal or whole-segment placeholder) with simple_ok ts;
   render ts is its text, tshape ts its shape, render_path segs the request path with those segments. *)

(* pathConverter and the denco tokeniser on a simple template give exactly its shape and names *)
Theorem C01_template_key_shape : forall ts, simple_ok ts = true ->
  key_shape (convert_template (render ts)) = (tshape ts, tpl_names ts).
Proof. exact key_shape_render. Qed.
Print Assumptions C01_template_key_shape.

(* matching the shape on the path text is instantiating the template by the path segments *)
Theorem C01_shape_match_is_segment_match : forall ts segs, simple_ok ts = true -> forallb plain_seg segs = true ->
  smatch (tshape ts) (render_path segs) = seg_match ts segs.
Proof. exact smatch_render. Qed.
Print Assumptions C01_shape_match_is_segment_match.

(* the preference of C05 between two instantiated simple templates is literal-before-placeholder at
   the first differing segment *)
Theorem C01_pref_is_segment_pref : forall ts1 ts2 segs, simple_ok ts1 = true -> simple_ok ts2 = true ->
  seg_match ts1 segs <> None -> seg_match ts2 segs <> None ->
  (pref (tshape ts1) (tshape ts2) <-> seg_pref_b ts1 ts2 = true).
Proof. exact pref_render. Qed.
Print Assumptions C01_pref_is_segment_pref.

(* a rooted normal path is the rendering of its plain segments *)
Theorem C01_rooted_normal_is_rendering : forall p, rooted_normal p = true ->
  exists segs, p = render_path segs /\ forallb plain_seg segs = true.
Proof. exact rooted_normal_render. Qed.
Print Assumptions C01_rooted_normal_is_rendering.

(* hence the path hypotheses of the two theorems below hold for every rooted request path *)
Theorem C01_rooted_request_has_segments : forall r,
  exists segs, clean (SL :: r) = render_path segs /\ forallb plain_seg segs = true.
Proof. intro r. exact (rooted_normal_render _ (clean_rooted_normal r)). Qed.
Print Assumptions C01_rooted_request_has_segments.

(* C01_dispatch_exact in segment vocabulary *)
Theorem C01_dispatch_segments : forall base routes ts_of, simple_view base routes ts_of ->
  forall m p segs h ps, plain_routes base routes = true ->
  clean p = render_path segs -> forallb plain_seg segs = true ->
  (serve base routes m p = Run h ps <->
   exists r vs, best_seg_route routes ts_of m segs r vs /\ r_id r = h /\
                ps = combine (tpl_names (ts_of r)) (map unescape_or_raw vs)).
Proof. exact dispatch_segments. Qed.
Print Assumptions C01_dispatch_segments.

(* C01_405_allow_exact in segment vocabulary *)
Theorem C01_405_allow_segments : forall base routes ts_of, simple_view base routes ts_of ->
  forall m p segs, plain_routes base routes = true ->
  clean p = render_path segs -> forallb plain_seg segs = true ->
  (forall r, In r routes -> under m r -> seg_match (ts_of r) segs = None) ->
  exists A, NoDup A /\
    (forall k, In k A <-> exists r, In r routes /\ upper (r_method r) = k /\ seg_match (ts_of r) segs <> None) /\
    serve base routes m p = match A with [] => R404 | _ => R405 A end.
Proof. exact allow_segments. Qed.
Print Assumptions C01_405_allow_segments.

(* non-vacuity of simple_view on the example route set *)
Theorem C01_example_simple_view :
  simple_view example_base example_routes example_ts_of /\
  clean [47;97;112;105;47;47;97;47;46;47;37;50;70;37;50;53] = render_path [[97;112;105]; [97]; [37;50;70;37;50;53]] /\
  forallb plain_seg [[97;112;105]; [97]; [37;50;70;37;50;53]] = true /\
  seg_match (example_ts_of (mkRoute [103;101;116] [47;97;47;123;105;100;125] 0)) [[97;112;105]; [97]; [37;50;70;37;50;53]]
    = Some [[37;50;70;37;50;53]].
Proof. exact example_simple_view. Qed.
Print Assumptions C01_example_simple_view.

(* ---------- syntactic hypotheses only ---------- *)
(* simple_routes: every template under the base path is the rendering of simple segments, placeholder
   names distinct inside a template, the templates of one method have pairwise distinct shapes, and
   AddRoute finds for every operation the handler registered for that operation. These conditions
   imply the hypothesis plain_routes of the theorems above. *)
Theorem C01_simple_routes_plain : forall base routes ts_of, simple_routes base routes ts_of ->
  plain_routes base routes = true.
Proof. exact simple_routes_plain. Qed.
Print Assumptions C01_simple_routes_plain.

(* the dispatch clause in the vocabulary of the property, under the syntactic conditions: the handler
   that runs is the one of the route of the upper-cased method whose template is instantiated by the
   segments of the cleaned path and preferred (literal segment before placeholder at the first
   difference) to every other instantiated template of that method; it receives the placeholder names
   paired with the percent-decoded segment texts; and conversely *)
Theorem C01_dispatch_simple : forall base routes ts_of, simple_routes base routes ts_of ->
  forall m p segs h ps, clean p = render_path segs -> forallb plain_seg segs = true ->
  (serve base routes m p = Run h ps <->
   exists r vs, best_seg_route routes ts_of m segs r vs /\ r_id r = h /\
                ps = combine (tpl_names (ts_of r)) (map unescape_or_raw vs)).
Proof. exact dispatch_simple. Qed.
Print Assumptions C01_dispatch_simple.

Theorem C01_405_allow_simple : forall base routes ts_of, simple_routes base routes ts_of ->
  forall m p segs, clean p = render_path segs -> forallb plain_seg segs = true ->
  (forall r, In r routes -> under m r -> seg_match (ts_of r) segs = None) ->
  exists A, NoDup A /\
    (forall k, In k A <-> exists r, In r routes /\ upper (r_method r) = k /\ seg_match (ts_of r) segs <> None) /\
    serve base routes m p = match A with [] => R404 | _ => R405 A end.
Proof. exact allow_simple. Qed.
Print Assumptions C01_405_allow_simple.

Theorem C01_example_simple_routes : simple_routes example_base example_routes example_ts_of.
Proof. exact example_simple_routes. Qed.
Print Assumptions C01_example_simple_routes.

(* AddRoute recovers the template from the joined path: for an empty or rooted base path and a
   template in rooted normal form, TrimPrefix of the cleaned base path (the root template repaired as
   in the fix of F-C01-4) gives back the template *)
Theorem C01_template_recovered : forall base tsegs, base = [] \/ (exists b, base = SL :: b) ->
  forallb plain_seg tsegs = true ->
  template_of base (path_join base (rooted_of tsegs)) = rooted_of tsegs.
Proof. exact template_recovered. Qed.
Print Assumptions C01_template_recovered.

(* purely syntactic conditions on the API description (syntactic_routes: base path empty or rooted,
   templates rooted normal paths, no two operations with the same method and template, every template
   under the base path the rendering of simple segments with distinct names, pairwise distinct shapes per
   method) imply simple_routes, hence C01_dispatch_simple and C01_405_allow_simple *)
Theorem C01_syntactic_routes_simple : forall base routes ts_of,
  syntactic_routes base routes ts_of -> simple_routes base routes ts_of.
Proof. exact syntactic_routes_simple. Qed.
Print Assumptions C01_syntactic_routes_simple.

Theorem C01_example_syntactic_routes : syntactic_routes example_base example_routes example_ts_of.
Proof. exact example_syntactic_routes. Qed.
Print Assumptions C01_example_syntactic_routes.
