(* Properties_C16.v — C16: the CSV codec delivers exactly the parsed records for every source and destination.
   Theorems only; each is closed by `exact` of a lemma from Proofs/CSVGlueProofs.v.

   encoding/csv is an oracle: every theorem holds for ALL functions
     parse  : ropts -> bytes -> presult       (the records a csv.Reader with these options yields, then EOF or its error)
     render : wopts -> list record -> bytes   (what a csv.Writer with these options writes)
   and speaks about the glue of csv.go / csv_options.go as modelled in Model/CSVGlue.v:
   all 8 destination kinds (consume) and all 8 source kinds (produce), every option set o (separator, comment, lazy quotes,
   trimmed space, fields per record, record reuse, writer separator, CRLF, skipped lines as any integer), every text,
   every pre-state (len, cap) of a record-table destination.
   d_usable / s_usable (Model/CSVSpec.v): not a nil pointer of a kind the codec dereferences, and, for record tables,
   rows of type []string. requested_ropts / requested_wopts: the reader / writer a caller would configure by hand. *)
From Coq Require Import List ZArith.
From V Require Import Bytes CSVGlue CSVSpec CSVGlueProofs.

(* -- delivered = skipn k (parse opts text): same count, order and field text, for every destination kind.
   shown: a record sink holds exactly these rows (the table with len = cap = their number, no two rows sharing a buffer);
   a byte sink holds their standard rendering under the requested writer options (nothing for no records). *)
Theorem C16_delivers_parsed : forall parse render o d text, d_usable d = true ->
  p_end (parse (requested_ropts o) text) = None ->
  consume parse render o d text =
  shown render o (d_kind d) (skipn (Z.to_nat (o_skip o)) (p_recs (parse (requested_ropts o) text))).
Proof. exact consume_delivers_parsed. Qed.
Print Assumptions C16_delivers_parsed.

(* -- the same for every source kind of the producer. source_input: text kinds denote the parse of their text under the
   requested reader options (also the BinaryMarshaler, F-C16-3), a caller's CSVReader what it yields, a table its rows *)
Theorem C16_producer_delivers_parsed : forall parse render o s, s_usable s = true ->
  p_end (source_input parse o s) = None ->
  produce parse render o s =
  OBytes (rendering render (requested_wopts o) (skipn (Z.to_nat (o_skip o)) (p_recs (source_input parse o s)))).
Proof. exact produce_delivers_parsed. Qed.
Print Assumptions C16_producer_delivers_parsed.

(* -- all kinds agree with one another on the same input *)
Theorem C16_kinds_agree : forall parse render o d1 d2 text, d_usable d1 = true -> d_usable d2 = true ->
  exists res : list record + bytes,
    consume parse render o d1 text = match res with inl recs => shown render o (d_kind d1) recs | inr e => OErr (EParser e) end /\
    consume parse render o d2 text = match res with inl recs => shown render o (d_kind d2) recs | inr e => OErr (EParser e) end.
Proof. exact consume_kinds_agree. Qed.
Print Assumptions C16_kinds_agree.

Theorem C16_byte_sinks_equal : forall parse render o d1 d2 text, d_usable d1 = true -> d_usable d2 = true ->
  is_record_sink (d_kind d1) = false -> is_record_sink (d_kind d2) = false ->
  consume parse render o d1 text = consume parse render o d2 text.
Proof. exact consume_byte_sinks_equal. Qed.
Print Assumptions C16_byte_sinks_equal.

Theorem C16_source_kinds_agree : forall parse render o s1 s2, s_usable s1 = true -> s_usable s2 = true ->
  source_input parse o s1 = source_input parse o s2 ->
  produce parse render o s1 = produce parse render o s2.
Proof. exact produce_kinds_agree. Qed.
Print Assumptions C16_source_kinds_agree.

(* -- malformed input yields the parser's error, not a partial success *)
Theorem C16_error_passthrough : forall parse render o d text e, d_usable d = true ->
  p_end (parse (requested_ropts o) text) = Some e -> consume parse render o d text = OErr (EParser e).
Proof. exact consume_error_passthrough. Qed.
Print Assumptions C16_error_passthrough.

Theorem C16_producer_error_passthrough : forall parse render o s e, s_usable s = true ->
  p_end (source_input parse o s) = Some e -> produce parse render o s = OErr (EParser e).
Proof. exact produce_error_passthrough. Qed.
Print Assumptions C16_producer_error_passthrough.

(* -- nothing makes the codec panic: any destination (also nil pointers, foreign row types, any (len, cap)), any options,
   any skip count, any text; and the model never runs out of fuel *)
Theorem C16_total : forall parse render o d text,
  consume parse render o d text <> OPanic /\ consume parse render o d text <> OFuel.
Proof. exact consume_total. Qed.
Print Assumptions C16_total.

Theorem C16_producer_total : forall parse render o s,
  produce parse render o s <> OPanic /\ produce parse render o s <> OFuel.
Proof. exact produce_total. Qed.
Print Assumptions C16_producer_total.

(* the resize sequence on the destination table succeeds from every (len, cap) and ends with len = cap = n *)
Theorem C16_table_resize_total : forall n t, t_store n t = Some (mkT n n).
Proof. exact t_store_total. Qed.
Print Assumptions C16_table_resize_total.

(* -- delivered records do not alias one another or the reader: for any reader (ReuseRecord or not), any store before,
   any skip count, the rows the record container holds share no buffer, read the same in every later state of the
   store (no later Read can change them), and are the records after the skipped ones *)
Theorem C16_no_alias : forall r st k w' st',
  pipe_csv (WTable []) r st k = PDone w' st' ->
  shares_buffer (wtr_rows w') = false /\
  (forall later, w_records w' later = w_records w' st') /\
  w_records w' st' = skipn (Z.to_nat k) (fst (content r)).
Proof. exact records_container_not_aliased. Qed.
Print Assumptions C16_no_alias.

(* -- the same for a caller's own CSVWriter that retains the slices it is handed (a container that does not copy):
   unless the caller asked for ReuseRecord, no two of them share a buffer and no later Read can change them *)
Theorem C16_handed_records_private : forall r st k w' st', reader_reuses r = false ->
  pipe_csv_with false (WTable []) r st k = PDone w' st' ->
  shares_buffer (wtr_rows w') = false /\ (forall later, w_records w' later = w_records w' st').
Proof. exact handed_records_private. Qed.
Print Assumptions C16_handed_records_private.

(* -- the model's outcome satisfies, on every input, the predicate that the correspondence run evaluates on the
   implementation's observable (so a case with equal observables cannot fail the property) *)
Theorem C16_model_meets_check_predicate : forall parse render o d text,
  consume_ok parse render o d text (consume parse render o d text) true RNone = true.
Proof. exact consume_meets_check_predicate. Qed.
Print Assumptions C16_model_meets_check_predicate.

Theorem C16_producer_model_meets_check_predicate : forall parse render o s,
  produce_ok parse render o s (produce parse render o s) RNone = true.
Proof. exact produce_meets_check_predicate. Qed.
Print Assumptions C16_producer_model_meets_check_predicate.

Theorem C16_requested_options_reach_reader : forall o, apply_to_reader (o_r o) default_ropts = requested_ropts o.
Proof. exact applied_reader_opts_are_requested. Qed.
Print Assumptions C16_requested_options_reach_reader.

(* -- histories: ONE consumer / producer value, built once with options o, used for several calls. The answers are, call
   by call, the answers of the calls alone under the SAME options (the skipped-lines count does not run down, nothing
   of an earlier call is left), and each satisfies the predicate the check evaluates. The check runs such histories on
   the code and re-reads every earlier result after the later calls. *)
Theorem C16_consume_history_pointwise : forall parse render o l,
  length (consume_history parse render o l) = length l /\
  (forall k x, nth_error l k = Some x ->
     nth_error (consume_history parse render o l) k = Some (consume parse render o (fst x) (snd x))) /\
  (forall k x, nth_error l k = Some x ->
     consume_ok parse render o (fst x) (snd x) (consume parse render o (fst x) (snd x)) true RNone = true).
Proof. exact consume_history_pointwise. Qed.
Print Assumptions C16_consume_history_pointwise.

Theorem C16_produce_history_pointwise : forall parse render o l,
  length (produce_history parse render o l) = length l /\
  (forall k s, nth_error l k = Some s ->
     nth_error (produce_history parse render o l) k = Some (produce parse render o s)) /\
  (forall k s, nth_error l k = Some s ->
     produce_ok parse render o s (produce parse render o s) RNone = true).
Proof. exact produce_history_pointwise. Qed.
Print Assumptions C16_produce_history_pointwise.
