(* Properties_C11.v — C11: client bodies: sent bytes are the payload; what auth saw is what is sent.
   Theorems only; each is closed by `exact` of a lemma from Proofs/.
   sniff stands for http.DetectContentType (any function); the producer's encoding and the multipart
   boundary are fields of the input record. The byte-level multipart syntax is mime/multipart's and not
   modelled: a document is the list of its parts. *)
From Coq Require Import Permutation.
From V Require Import ClientBodySpec ClientBodyProofs.

(* ---- the body, by payload kind ---- *)
(* a value: the encoding by the producer registered for the chosen media type, under that media type *)
Theorem C11_value_body : forall sniff i b,
  has_form i = false -> bi_payload i = PValue -> bi_producer i = Some (Some b) ->
  build_body sniff i = OOk (Some (bi_media i)) SBuf (DBytes b).
Proof. exact build_value. Qed.
Print Assumptions C11_value_body.

(* a reader (with or without Close): exactly its bytes *)
Theorem C11_reader_body : forall sniff i c,
  has_form i = false -> (bi_payload i = PReader c \/ bi_payload i = PReadCloser c) ->
  build_body sniff i = OOk (Some (bi_media i)) SStream (DBytes c).
Proof. exact build_reader. Qed.
Print Assumptions C11_reader_body.

(* a reader whose dynamic type is *bytes.Buffer (the caller's own buffer): exactly its bytes as well; the
   body variable then holds a buffer that is not the request's own *)
Theorem C11_buffer_reader_body : forall sniff i c,
  has_form i = false -> bi_payload i = PBuffer c ->
  build_body sniff i = OOk (Some (bi_media i)) SOtherBuf (DBytes c).
Proof. exact build_buffer. Qed.
Print Assumptions C11_buffer_reader_body.

(* a reader the caller had partly consumed (or positioned with Seek) before handing it over: the body is the
   unread rest; nothing of the consumed prefix is sent, the payload is never repositioned *)
Theorem C11_reader_body_is_the_unread_rest : forall sniff i consumed rest,
  has_form i = false ->
  (bi_payload i = PReader (reader_at (consumed ++ rest) (length consumed)) \/
   bi_payload i = PReadCloser (reader_at (consumed ++ rest) (length consumed))) ->
  build_body sniff i = OOk (Some (bi_media i)) SStream (DBytes rest).
Proof. exact build_reader_unread. Qed.
Print Assumptions C11_reader_body_is_the_unread_rest.

(* form fields without files under a media type other than multipart/form-data: their url-encoding *)
Theorem C11_urlencoded_body : forall sniff i,
  has_form i = true -> is_multipart i = false ->
  build_body sniff i = OOk (Some (bi_media i)) SBuf (DBytes (form_encode (bi_form i))).
Proof. exact build_urlencoded. Qed.
Print Assumptions C11_urlencoded_body.

(* files, or form fields under multipart/form-data: a multipart document *)
Theorem C11_multipart_body : forall sniff i,
  has_form i = true -> is_multipart i = true ->
  build_body sniff i = OOk (Some (mangle_content_type (bi_media i) (bi_boundary i))) SStream
                           (DMultipart (multipart_parts sniff (bi_form i) (bi_files i))).
Proof. exact build_multipart. Qed.
Print Assumptions C11_multipart_body.

(* form fields and files win over any payload *)
Theorem C11_form_wins_over_payload : forall sniff i p,
  has_form i = true ->
  build_body sniff i =
  build_body sniff (mkbin (bi_media i) (bi_preset_ct i) p (bi_form i) (bi_files i) (bi_producer i) (bi_boundary i)).
Proof. exact build_form_wins. Qed.
Print Assumptions C11_form_wins_over_payload.

(* ---- the multipart document ---- *)
(* read back by a receiver (Content-Disposition decoded with a quoted-string scanner), the parts are:
   one per form-field value (field name, no file name, no type, the value) and one per file (field name,
   filepath.Base of its name, declared type else the type sniffed from the first 512 bytes of its
   content, its full content) — nothing else, nothing twice *)
Theorem C11_parts_exactly_once : forall sniff form files,
  map decode_part (multipart_parts sniff form files) = map Some (expected_views sniff form files).
Proof. exact parts_decode. Qed.
Print Assumptions C11_parts_exactly_once.

(* for every order in which the two Go maps are iterated the document holds the same parts, each as often *)
Theorem C11_parts_every_map_order : forall sniff form form' files files',
  Permutation form form' -> Permutation files files' ->
  Permutation (multipart_parts sniff form files) (multipart_parts sniff form' files').
Proof. exact parts_order_independent. Qed.
Print Assumptions C11_parts_every_map_order.

Theorem C11_parts_count : forall sniff form files,
  length (multipart_parts sniff form files) =
  list_sum (map (fun f => length (snd f)) form) + list_sum (map (fun ff => length (snd ff)) files).
Proof. exact parts_count. Qed.
Print Assumptions C11_parts_count.

(* field and file names survive quoting: the quoted text ends where the name ends, whatever follows *)
Theorem C11_quotes_roundtrip : forall s rest,
  scan_quoted (escape_quotes s ++ 34 :: rest) = Some (s, rest) /\ unescape_quotes (escape_quotes s) = s.
Proof. exact quotes_roundtrip_both. Qed.
Print Assumptions C11_quotes_roundtrip.

(* the file name sent is the last path element *)
Theorem C11_base_name : forall dir name : list nat,
  name <> [] -> forallb not_slash name = true -> path_base (dir ++ 47 :: name) = name.
Proof. exact path_base_dir. Qed.
Print Assumptions C11_base_name.

(* a file made with runtime.NamedReader is sent under the name asked for, whatever reader was wrapped: a plain
   one, one with a name of its own (an os.File), the result of an earlier NamedReader call ... *)
Theorem C11_named_reader_file_name : forall sniff fn name inner chunks declared,
  source_name (named_reader name inner) = name /\
  p_disp (file_part sniff fn (mkfile (source_name (named_reader name inner)) chunks declared)) = disp_file fn name.
Proof. exact named_reader_file_name. Qed.
Print Assumptions C11_named_reader_file_name.

(* ... and NamedReader has to wrap always: were a reader that already has a name returned unchanged, a renamed
   file would keep its old name *)
Theorem C11_named_reader_keeping_inner_refuted :
  exists name inner, source_has_name inner = true /\ source_name (named_reader_keeping name inner) <> name.
Proof. exact named_reader_keeping_refuted. Qed.
Print Assumptions C11_named_reader_keeping_inner_refuted.

(* the part type: the declared one, else sniffed from the content, however the source chunks its bytes *)
Theorem C11_part_type : forall sniff f, file_type sniff f = expected_type sniff f.
Proof. exact file_type_expected. Qed.
Print Assumptions C11_part_type.

Theorem C11_part_type_any_chunking : forall sniff name chunks chunks',
  concat chunks = concat chunks' ->
  file_type sniff (mkfile name chunks None) = file_type sniff (mkfile name chunks' None).
Proof. exact part_type_chunking. Qed.
Print Assumptions C11_part_type_any_chunking.

(* ---- the header ---- *)
Theorem C11_header_describes_body : forall sniff i ct src d,
  build_body sniff i = OOk ct src d ->
  match d with
  | DNone => ct = bi_preset_ct i
  | DBytes _ => ct = Some (bi_media i)
  | DMultipart _ =>
    ct = Some (if bytes_eqb (lower (bi_media i)) mt_urlencoded
               then bi_media i ++ txt_boundary ++ bi_boundary i
               else mt_multipart ++ txt_boundary ++ bi_boundary i)
  end.
Proof. exact build_header. Qed.
Print Assumptions C11_header_describes_body.

(* ... except for files under the url-encoded media type: the header then names that type for a
   multipart document (known finding F-C11-4; pinned by the repository's own tests) *)
Theorem C11_header_files_under_urlencoded_refuted :
  exists i ct src ps, build_body (fun _ => []) i = OOk (Some ct) src (DMultipart ps) /\
                      has_prefix mt_multipart ct = false.
Proof. exact header_files_under_urlencoded_refuted. Qed.
Print Assumptions C11_header_files_under_urlencoded_refuted.

(* ---- what auth saw is what is sent ---- *)
(* an auth writer that asks k times for the body (k = 0, 1, many) is given the same bytes every time,
   and those are the bytes then sent: whatever the body source (none, the request's buffer, a stream, a
   *bytes.Buffer of the caller) *)
Theorem C11_auth_sees_sent_bytes : forall k src content,
  let content' := match src with SNil => [] | _ => content end in
  auth_run k src content = (repeat content' k, content').
Proof. exact auth_sees_sent_bytes. Qed.
Print Assumptions C11_auth_sees_sent_bytes.

(* the same for a reader handed over at a position: every answer is the unread rest, and that is what is sent *)
Theorem C11_auth_sees_unread_rest : forall k consumed rest,
  auth_run k SStream (reader_at (consumed ++ rest) (length consumed)) = (repeat rest k, rest).
Proof. exact auth_sees_unread_rest. Qed.
Print Assumptions C11_auth_sees_unread_rest.

(* the copy-on-demand closure behind GetBody is installed for every body except nil and the request's own
   buffer (request.go:274) ... *)
Theorem C11_getbody_override_installed : forall src,
  override_installed src = true <-> (src <> SNil /\ src <> SBuf).
Proof. exact override_installed_iff. Qed.
Print Assumptions C11_getbody_override_installed.

(* ... and it has to be: with a test that skips every *bytes.Buffer, the caller's own included, the auth
   writer is shown the empty request buffer while the caller's bytes are sent *)
Theorem C11_auth_sees_sent_bytes_refuted_without_override_for_caller_buffer :
  exists k content answers sent,
    auth_run_with inst_not_any_buffer k SOtherBuf content = (answers, sent) /\ answers <> repeat sent k.
Proof. exact auth_override_needed_refuted. Qed.
Print Assumptions C11_auth_sees_sent_bytes_refuted_without_override_for_caller_buffer.

(* ---- no input makes the body selection panic (after the repair of F-C11-2) ---- *)
Theorem C11_total : forall sniff i, build_body sniff i <> OPanic.
Proof. exact build_total. Qed.
Print Assumptions C11_total.
