(* Properties_C15.v — C15: built-in codecs round-trip values and never truncate, alias or panic.
   Theorems only; each is closed by `exact` of a lemma from Proofs/. The statements are about the
   model (Model/StreamCodecs.v over Lib/StreamScripts.v + Lib/StreamIO.v); the model is tied to the
   code by the correspondence run (Check/Check_C15.v). The JSON / XML / YAML round-trip clause has
   no theorem: those encoders are not modelled and the clause is checked differentially only. *)
From V Require Import StreamCodecsSpec StreamIOProofs StreamCodecsProofs.

(* ---- the stream plumbing (bytes.Buffer.ReadFrom, io.Copy) over every script ---- *)

(* ReadFrom yields exactly the bytes the script stands for and its terminal (io.EOF as nil), for
   every read-size policy: the result does not depend on how the buffer grows; never out of fuel *)
Theorem C15_read_all_exact : forall pol s,
  read_all pol s = RA (script_bytes s) (term_error (script_term s)).
Proof. exact read_all_exact. Qed.
Print Assumptions C15_read_all_exact.

Theorem C15_read_all_policy_independent : forall pol1 pol2 s, read_all pol1 s = read_all pol2 s.
Proof. exact read_all_policy_independent. Qed.
Print Assumptions C15_read_all_policy_independent.

(* io.Copy returns nil only if the sink got every byte of the script and the script ended in EOF *)
Theorem C15_io_copy_success_exact : forall b s w w',
  io_copy b s w = CP w' None -> w_got w' = w_got w ++ script_bytes s /\ script_term s = EOF.
Proof. exact io_copy_success_exact. Qed.
Print Assumptions C15_io_copy_success_exact.

(* ... and whatever it returns, the sink got a prefix of the script's bytes, nothing else *)
Theorem C15_io_copy_prefix : forall b s w w' e,
  io_copy b s w = CP w' e -> exists p, w_got w' = w_got w ++ p /\ is_prefix p (script_bytes s).
Proof. exact io_copy_prefix. Qed.
Print Assumptions C15_io_copy_prefix.

Theorem C15_io_copy_total : forall b s w, io_copy b s w <> CPOutOfFuel.
Proof. exact io_copy_total. Qed.
Print Assumptions C15_io_copy_total.

(* into a sink that accepts everything the result does not depend on the buffer size *)
Theorem C15_io_copy_buffer_independent : forall b s g,
  io_copy b s (mkW [] g) = CP (mkW [] (g ++ script_bytes s)) (term_error (script_term s)).
Proof. exact io_copy_accepting. Qed.
Print Assumptions C15_io_copy_buffer_independent.

(* ---- consumers ---- *)

(* For EVERY reader script (any chunking, zero-length reads, data+EOF, error at any offset), every
   destination kind, both codecs: success implies the script ended in io.EOF, the destination is of
   a supported kind and holds exactly the concatenation of the delivered chunks. *)
Theorem C15_consume_exact : forall cd bufm1 pol close_opt l closable d,
  let r := consume cd bufm1 pol close_opt (Some (Live l, closable)) d in
  c_out r = ORet None ->
  text_empty_exception cd (steps_bytes l) = false ->
  steps_term l = EOF /\ dk_supported cd d = true /\
  c_stored r = Some (dk_prefix d ++ steps_bytes l).
Proof. exact consume_exact. Qed.
Print Assumptions C15_consume_exact.

(* on an error terminal the result is an error, never a shorter success; it is that very error
   whenever the codec reads before it looks at the destination *)
Theorem C15_consume_error_returned : forall cd bufm1 pol close_opt l closable d,
  let r := consume cd bufm1 pol close_opt (Some (Live l, closable)) d in
  steps_term l <> EOF ->
  (exists e, c_out r = ORet (Some e)) /\
  (reads_first cd d = true -> c_out r = ORet (Some (steps_term l))).
Proof. exact consume_error_returned. Qed.
Print Assumptions C15_consume_error_returned.

(* unsupported, nil and typed-nil destinations are answered with an error *)
Theorem C15_consume_unsupported_is_error : forall cd bufm1 pol close_opt l closable d,
  dk_supported cd d = false -> text_empty_exception cd (steps_bytes l) = false ->
  exists e, c_out (consume cd bufm1 pol close_opt (Some (Live l, closable)) d) = ORet (Some e).
Proof. exact consume_unsupported_is_error. Qed.
Print Assumptions C15_consume_unsupported_is_error.

(* the one documented exception: the text consumer answers an empty input with nil and leaves the
   destination as it was, whatever it is *)
Theorem C15_text_empty_input : forall pol l closable d,
  steps_bytes l = [] -> steps_term l = EOF ->
  text_consume pol (Some (Live l, closable)) d = mkC (ORet None) (dk_initial d) 0.
Proof. exact text_empty_input. Qed.
Print Assumptions C15_text_empty_input.

(* for a fresh destination that is still exact ... *)
Theorem C15_text_empty_input_fresh : forall pol l closable d,
  steps_bytes l = [] -> steps_term l = EOF ->
  dk_supported Text d = true -> dk_prepopulated d = false ->
  c_stored (text_consume pol (Some (Live l, closable)) d) = Some (steps_bytes l).
Proof. exact text_empty_input_fresh. Qed.
Print Assumptions C15_text_empty_input_fresh.

(* ... for a pre-populated one it is not (F-C15-2, documented behaviour, open known finding) *)
Theorem C15_text_empty_input_prepopulated_refuted : exists pol l closable d,
  steps_bytes l = [] /\ steps_term l = EOF /\ dk_supported Text d = true /\
  c_out (text_consume pol (Some (Live l, closable)) d) = ORet None /\
  c_stored (text_consume pol (Some (Live l, closable)) d) <> Some (steps_bytes l).
Proof. exact text_empty_input_prepopulated_refuted. Qed.
Print Assumptions C15_text_empty_input_prepopulated_refuted.

(* ---- producers ---- *)

(* For EVERY writer script and source kind: success implies the source is of a supported kind and
   the sink received exactly the source bytes (a payload reader: its script's bytes, whatever the
   chunking); unconditionally where the transfer checks the count (io.Copy, Buffer.WriteTo), and for
   the single-Write paths provided the writer does not report a short count with a nil error. *)
Theorem C15_produce_exact : forall cd bufm1 close_opt w closable src jo,
  let r := produce cd bufm1 close_opt (Some (w, closable)) src jo in
  p_out r = ORet None ->
  exists b, src_bytes cd src jo = Some b /\
    (wlawful_next b w = true \/ count_checked cd src = true -> p_got r = w_got w ++ b).
Proof. exact produce_exact. Qed.
Print Assumptions C15_produce_exact.

(* a write error on the single Write of a codec is the error returned *)
Theorem C15_write_error_returned : forall p w a e rest g,
  w = mkW ((a, Some e) :: rest) g -> snd (direct_write p w) = Some e.
Proof. exact direct_write_error_returned. Qed.
Print Assumptions C15_write_error_returned.

(* whatever happens, the sink receives only a prefix of a payload reader's bytes *)
Theorem C15_produce_reader_prefix : forall bufm1 close_opt w closable s pcl jo,
  exists q, p_got (bytestream_produce bufm1 close_opt (Some (w, closable)) (SReader s pcl) jo) = w_got w ++ q /\
            is_prefix q (script_bytes s).
Proof. exact produce_reader_prefix. Qed.
Print Assumptions C15_produce_reader_prefix.

(* unsupported, nil and typed-nil sources, failing marshalers and failing payload readers: an error *)
Theorem C15_produce_unsupported_is_error : forall cd bufm1 close_opt wr src jo,
  src_bytes cd src jo = None ->
  exists e, p_out (produce cd bufm1 close_opt wr src jo) = ORet (Some e).
Proof. exact produce_unsupported_is_error. Qed.
Print Assumptions C15_produce_unsupported_is_error.

(* ---- closing ---- *)

(* the stream is closed, once, if and only if ClosesStream was requested (byte stream codec) and it
   is an io.Closer — whatever the destination / source, whatever the outcome; a ReadCloser payload
   of the byte stream producer is closed exactly once, even when the writer is nil *)
Theorem C15_close_iff_option :
  (forall cd bufm1 pol close_opt s closable d,
     c_closes (consume cd bufm1 pol close_opt (Some (s, closable)) d) = expected_closes cd close_opt closable) /\
  (forall cd bufm1 close_opt wr src jo,
     let r := produce cd bufm1 close_opt wr src jo in
     p_wcloses r = match wr with Some (_, closable) => expected_closes cd close_opt closable | None => 0 end /\
     p_pcloses r = expected_pcloses cd src).
Proof. exact codecs_close_iff_option. Qed.
Print Assumptions C15_close_iff_option.

(* ---- totality ---- *)

(* every call returns (nil or an error): no Panic, no fuel exhaustion, for every reader / writer
   (nil included), every destination / source kind (typed-nil pointers included), every script.
   False of the code before the F-C15-1 repair (corpus/C15.jsonl holds the panicking inputs). *)
Theorem C15_total :
  (forall cd bufm1 pol close_opt rd d, exists e, c_out (consume cd bufm1 pol close_opt rd d) = ORet e) /\
  (forall cd bufm1 close_opt wr src jo, exists e, p_out (produce cd bufm1 close_opt wr src jo) = ORet e).
Proof. exact codecs_total. Qed.
Print Assumptions C15_total.

(* ---- the model satisfies the predicates the correspondence run evaluates on the code ---- *)

Theorem C15_consume_meets_check_predicate : forall cd bufm1 pol close_opt rd d e,
  let r := consume cd bufm1 pol close_opt (live rd) d in
  c_out r = ORet e ->
  (match rd with
   | Some (l, _) => text_empty_exception cd (steps_bytes l) && dk_supported cd d && dk_prepopulated d
   | None => false
   end) = false ->
  consume_ok cd close_opt rd d false e (c_stored r) (c_closes r) = true.
Proof. exact consume_meets_predicate. Qed.
Print Assumptions C15_consume_meets_check_predicate.

Theorem C15_produce_meets_check_predicate : forall cd bufm1 close_opt wr src jo e,
  let r := produce cd bufm1 close_opt wr src jo in
  p_out r = ORet e ->
  produce_ok cd close_opt wr src jo false e (p_got r) (p_wcloses r) (p_pcloses r) = true.
Proof. exact produce_meets_predicate. Qed.
Print Assumptions C15_produce_meets_check_predicate.

(* ---- JSON / XML / YAML number slots (the encoders are not modelled: differential) ---- *)

(* the predicate the check evaluates on a number round trip accepts exactly: no panic, no error, at
   least one leaf, and the texts of the leaves the consumer rebuilt are the texts the producer was
   given, byte for byte. It says nothing about the encoders themselves. *)
Theorem C15_number_slots_predicate_exact : forall panicked failed want got,
  number_slots_ok panicked failed want got = true <->
  panicked = false /\ failed = false /\ want <> [] /\ got = want.
Proof. exact number_slots_ok_exact. Qed.
Print Assumptions C15_number_slots_predicate_exact.

(* ---- JSON / XML / YAML documents with drawn names (differential, as the number slots) ---- *)

Theorem C15_doc_leaves_predicate_exact : forall panicked failed want got,
  doc_leaves_ok panicked failed want got = true <->
  panicked = false /\ failed = false /\ want <> [] /\ got = want.
Proof. exact doc_leaves_ok_exact. Qed.
Print Assumptions C15_doc_leaves_predicate_exact.

(* ---- histories: one codec value used for several calls ---- *)

(* byte stream / text consumer: the answers to a history are, call by call, the answers of the
   calls alone (no state is carried), and each satisfies the single-call predicate the check
   evaluates (outside the F-C15-2 situation) *)
Theorem C15_consume_history_pointwise : forall cd bufm1 pol close_opt l,
  length (consume_history cd bufm1 pol close_opt l) = length l /\
  (forall k x, nth_error l k = Some x ->
     nth_error (consume_history cd bufm1 pol close_opt l) k =
       Some (consume cd bufm1 pol close_opt (live (fst x)) (snd x))) /\
  (forall k x e, nth_error l k = Some x ->
     let r := consume cd bufm1 pol close_opt (live (fst x)) (snd x) in
     c_out r = ORet e -> call_excepted cd x = false ->
     consume_ok cd close_opt (fst x) (snd x) false e (c_stored r) (c_closes r) = true).
Proof. exact consume_history_pointwise. Qed.
Print Assumptions C15_consume_history_pointwise.

Theorem C15_produce_history_pointwise : forall cd bufm1 close_opt l,
  length (produce_history cd bufm1 close_opt l) = length l /\
  (forall k x, nth_error l k = Some x ->
     nth_error (produce_history cd bufm1 close_opt l) k =
       Some (produce cd bufm1 close_opt (fst (fst x)) (snd (fst x)) (snd x))) /\
  (forall k x e, nth_error l k = Some x ->
     let r := produce cd bufm1 close_opt (fst (fst x)) (snd (fst x)) (snd x) in
     p_out r = ORet e ->
     produce_ok cd close_opt (fst (fst x)) (snd (fst x)) (snd x) false e (p_got r) (p_wcloses r) (p_pcloses r) = true).
Proof. exact produce_history_pointwise. Qed.
Print Assumptions C15_produce_history_pointwise.

(* JSON / XML / YAML calls inside a history (encoders not modelled): what the predicates accept.
   Produce: success only on a healthy writer, the sink then holds exactly what it held ++ the
   document a fresh producer writes (nothing stale in front of it) and that reads back as the
   value; a failure is an error and the sink holds a prefix. Consume: success only on a healthy
   reader and the destination then reads as the value. *)
Theorem C15_doc_produce_predicate_exact : forall wfail pre full panicked e got want back,
  doc_produce_ok wfail pre full panicked e got want back = true <->
  panicked = false /\
  match e with
  | None => wfail = false /\ got = pre ++ full /\ want <> [] /\ back = want
  | Some _ => wfail = true /\ exists r, pre ++ full = got ++ r
  end.
Proof. exact doc_produce_ok_exact. Qed.
Print Assumptions C15_doc_produce_predicate_exact.

Theorem C15_doc_consume_predicate_exact : forall rfail panicked e want got,
  doc_consume_ok rfail panicked e want got = true <->
  panicked = false /\
  match e with
  | None => rfail = false /\ want <> [] /\ got = want
  | Some _ => rfail = true
  end.
Proof. exact doc_consume_ok_exact. Qed.
Print Assumptions C15_doc_consume_predicate_exact.
