//go:build verif && (c13 || allprops)

package main

import (
	"bytes"
	"compress/flate"
	"compress/gzip"
	"compress/zlib"
	"context"
	"encoding/json"
	"errors"
	"fmt"
	"io"
	"math/rand"
	"mime"
	"net/http"
	"net/http/httptest"
	"net/url"
	"strconv"
	"strings"
	"sync"
	"sync/atomic"
	"time"

	"github.com/go-openapi/runtime"
	"github.com/go-openapi/runtime/client"
	"github.com/go-openapi/strfmt"
)

// C13 — responses reach the reader with the right consumer. Cases:
//   resp  one Submit against a stub RoundTripper returning a generated response; the reader records the
//         consumer it is handed (by pointer tag) and what it sees of the response
//   conc  G goroutines x K calls on ONE fresh Runtime (first calls released together), every call carrying a
//         token that the (stub or real httptest) server echoes; built with -race. Readers keep the ClientResponse
//         (as runtime.NewAPIError does) and ask it again for code and headers after later calls
//   seq   N calls one after the other on ONE Runtime, each with its own response; the readers keep the
//         ClientResponse; every kept response is asked again after each later call
//   route one Submit against a redirecting stub: operation client absent / with its own Transport / without one,
//         runtime client built lazily (Transport, Jar) or preset (NewWithClient); every client marked by what only
//         the client object determines: redirect policy, cookie jar, timeout (and its transport, the process-wide
//         default one when it has none)
//   ctx   one Submit whose operation context and runtime context are each absent / plain / with a deadline (earlier
//         or later than the other's) / cancelled beforehand, with or without a request timeout; the round tripper records
//         whose VALUE and which DEADLINE reach it, then (optionally) cancels the operation's or the runtime's context
//         and records whether the request context ends; Submit must fail exactly then

type c13Header struct {
	Key    Bs   `json:"key"` // canonical
	Values []Bs `json:"values"`
}

// c13Client describes an http.Client by the fields that the client itself (not its round tripper) acts on.
type c13Client struct {
	Transport bool `json:"transport,omitempty"` // a Transport of its own (else http.DefaultTransport)
	Redirect  int  `json:"redirect,omitempty"`  // CheckRedirect: 0 none, 1 follows, 2 stops (http.ErrUseLastResponse)
	Jar       bool `json:"jar,omitempty"`
	Timeout   bool `json:"timeout,omitempty"`
}

type c13Call struct {
	CT     *Bs `json:"ct"` // nil: no Content-Type header
	Code   int `json:"code"`
	Status Bs  `json:"status"`
	Token  Bs  `json:"token"`
}

type c13In struct {
	Kind      string      `json:"kind"`
	Registry  []Bs        `json:"registry,omitempty"` // consumer keys; tag = index+1
	Default   Bs          `json:"default"`
	Code      int         `json:"code,omitempty"`
	Status    Bs          `json:"status,omitempty"`
	Headers   []c13Header `json:"headers,omitempty"`
	Body      Bs          `json:"body,omitempty"`
	Queries   []Bs        `json:"queries,omitempty"` // header names the reader asks for
	OpClient  bool        `json:"op_client,omitempty"`
	OpCtx     bool        `json:"op_ctx,omitempty"`
	RtCtx     bool        `json:"rt_ctx,omitempty"`
	G         int         `json:"g,omitempty"`
	K         int         `json:"k,omitempty"`
	Server    bool        `json:"server,omitempty"` // conc: a real httptest server and http.DefaultTransport-like transport
	PreClient bool        `json:"pre_client,omitempty"`
	NilHeader bool        `json:"nil_header,omitempty"` // resp: the round tripper returns a nil header map (only without headers)
	ReadChunk int         `json:"read_chunk,omitempty"` // resp: 0 the body is read with io.ReadAll; k > 0: with Read calls on a k-byte buffer
	Debug     bool        `json:"debug,omitempty"`      // resp, seq: the Runtime's Debug option is on (requests and responses are dumped to a logger that discards them)
	ViaCons   bool        `json:"via_cons,omitempty"`   // resp: the reader hands Body() to the consumer it was given (as generated readers do); the consumer keeps what it receives
	Via       int         `json:"via,omitempty"`        // resp, route, ctx, seq: the operation is submitted to 0 the Runtime itself, 1 rt.WithOpenTelemetry(), 2 rt.WithOpenTracing() (decorators that only add spans: nothing the caller configured may depend on them)
	// route
	OpCfg    *c13Client `json:"op_cfg,omitempty"` // nil: no operation client
	RtCfg    *c13Client `json:"rt_cfg,omitempty"`
	RtPreset bool       `json:"rt_preset,omitempty"` // NewWithClient(preset) instead of the lazily built client (Transport, Jar fields of the Runtime)
	Slow     bool       `json:"slow,omitempty"`      // the first answer takes longer than any client timeout
	// seq
	Calls []c13Call `json:"calls,omitempty"`
	// ctx
	OpCtxCfg    *c13Ctx `json:"op_ctx_cfg,omitempty"`   // nil: the operation has no context
	RtCtxCfg    *c13Ctx `json:"rt_ctx_cfg,omitempty"`   // nil: the runtime has no context
	TimeoutRank int     `json:"timeout_rank,omitempty"` // request timeout (hours from now); 0 none
	Action      int     `json:"action,omitempty"`       // cancelled while the round tripper holds the request: 0 nothing, 1 the operation context, 2 the runtime context
}

// c13Ctx describes a context by what the context itself determines (besides the value telling whose it is).
type c13Ctx struct {
	Deadline  int  `json:"deadline,omitempty"`  // rank: that many hours from the start of the case; 0 none
	Cancelled bool `json:"cancelled,omitempty"` // cancelled before the call
	Outer     bool `json:"outer,omitempty"`     // the value is attached outside (after) the deadline and the cancel wrapper rather than inside
}

type c13Seen struct {
	Value    int    `json:"value"`    // 0 operation, 1 runtime, 2 neither, 9 the round tripper was never reached
	Deadline int    `json:"deadline"` // rank of the deadline of the request context; 0 none
	Ended    bool   `json:"ended"`
	Failed   bool   `json:"failed"`
	Msg      string `json:"msg,omitempty"`
}

type c13View struct {
	Code   int `json:"code"`
	Status Bs  `json:"status"`
	Token  Bs  `json:"token"`
	CT     Bs  `json:"ct"`
}

type c13SeqObs struct {
	Parsed  *Bs     `json:"parsed,omitempty"`
	Outcome int     `json:"outcome"`
	Tag     int     `json:"tag"`
	First   c13View `json:"first"`
	Later   c13View `json:"later"`
	Msg     string  `json:"msg,omitempty"`
}

type c13Trace struct {
	Transport int `json:"transport"`
	Redirect  int `json:"redirect"`
	Jar       int `json:"jar"`
	Cookie    int `json:"cookie"`
	Result    int `json:"result"`
	Hops      int `json:"hops"`
}

type c13Query struct {
	Key Bs   `json:"key"`
	One Bs   `json:"one"`
	All []Bs `json:"all"`
}

type c13Obs struct {
	Panicked   bool        `json:"panicked,omitempty"`
	Panic      string      `json:"panic,omitempty"`
	Outcome    int         `json:"outcome"`
	Tag        int         `json:"tag"`
	Code       int         `json:"code"`
	Status     Bs          `json:"status"`
	Body       Bs          `json:"body"`
	Msg        Bs          `json:"msg,omitempty"`
	Client     int         `json:"client"`
	Ctx        int         `json:"ctx"`
	Returned   bool        `json:"returned"`
	Queries    []c13Query  `json:"queries,omitempty"`
	Parsed     *Bs         `json:"parsed,omitempty"`
	QHeader    Bs          `json:"q_header,omitempty"`
	QDefault   Bs          `json:"q_default,omitempty"`
	Mismatches int         `json:"mismatches"`
	Errors     int         `json:"errors"`
	FirstErr   string      `json:"first_err,omitempty"`
	Stale      int         `json:"stale,omitempty"`
	FirstStale string      `json:"first_stale,omitempty"`
	Trace      *c13Trace   `json:"trace,omitempty"`
	Seq        []c13SeqObs `json:"seq,omitempty"`
	Seen       *c13Seen    `json:"seen,omitempty"`
}

type c13 struct{}

func init() { register(c13{}) }

func (c13) ID() string        { return "C13" }
func (c13) CoqModule() string { return "Check_C13" }
func (c13) Rule() string {
	return "Submit against a stub RoundTripper: response bodies beginning with a UTF-8 / UTF-16 / UTF-32 byte order mark, a truncated or doubled mark, a magic number (gzip, zip, png, pdf), NUL, blanks, empty, one byte, random bytes, read whole or in small chunks by the reader or by the consumer it was handed; response Content-Type registered / unregistered / with parameters / other case / absent / empty / several values / malformed, " +
		"consumer registries with and without */* (and with a never-matching upper-case key), default media types, status codes and texts, header sets queried under several spellings, " +
		"operation-level vs transport-level client and context; route cases: operation client absent / with / without a Transport of its own x runtime client lazily built or preset, each marked by redirect policy, cookie jar, timeout, against a redirecting (optionally slow) stub; " +
		"context cases: operation context and runtime context each absent / plain / with a deadline earlier or later than the other's / cancelled beforehand, with and without a request timeout, the operation's or the runtime's context cancelled while the round tripper holds the request (observed: whose value and which deadline arrive, whether the request context ends, whether Submit fails); " +
		"sequences of calls on one Runtime whose readers keep the ClientResponse and ask it again after later calls; plus concurrent cases: G goroutines x K calls on one fresh Runtime with correlation tokens, stub transport or a real httptest server, under the race detector. " +
		"a quarter of the response and sequence cases with the Runtime's Debug option on; a third of the response cases with credential-bearing headers (Set-Cookie, WWW-Authenticate, Proxy-Authenticate, Authentication-Info, X-Auth-Token, X-Api-Key, Authorization, ...) of one to three lines, also enumerated x Debug off / on. " +
		"a third of the response, route, context and sequence cases submitted through rt.WithOpenTelemetry() / rt.WithOpenTracing() instead of the Runtime itself (also enumerated x operation client x operation context); " +
		"a sixth of the response cases announced with a Content-Encoding (gzip, x-gzip, deflate, br, identity, ...) and a Content-Length, the payload a real gzip / zlib / deflate stream (also truncated, damaged, two members, header alone) or plain. " +
		"Non-trivial: a response case whose registry has at least two entries, or any route, context, sequence or concurrent case."
}

func (c13) Decode(raw json.RawMessage) (any, error) {
	var in c13In
	err := json.Unmarshal(raw, &in)
	return in, err
}

type c13Consumer struct {
	tag   int
	chunk int
	got   []byte
}

// Consume keeps, byte for byte, what the consumer receives (cases without via_cons never call it).
func (c *c13Consumer) Consume(r io.Reader, v interface{}) error {
	c.got = c13ReadBody(r, c.chunk)
	return nil
}

// c13ReadBody drains r: with io.ReadAll (chunk 0) or with Read calls on a chunk-sized buffer until an error.
func c13ReadBody(r io.Reader, chunk int) []byte {
	if chunk <= 0 {
		b, _ := io.ReadAll(r)
		return b
	}
	var out []byte
	buf := make([]byte, chunk)
	for i := 0; i < 1<<20; i++ {
		n, err := r.Read(buf)
		out = append(out, buf[:n]...)
		if err != nil {
			break
		}
	}
	return out
}

type c13CtxKey struct{}

// c13NullLogger receives the debug dumps
type c13NullLogger struct{}

func (c13NullLogger) Printf(string, ...interface{}) {}
func (c13NullLogger) Debugf(string, ...interface{}) {}

// c13SetDebug switches the Runtime's Debug option (an option that only adds logging: nothing the reader sees may depend on it).
// The exported field is assigned rather than SetDebug called, which also flips a package-level flag of the middleware package.
func c13SetDebug(rt *client.Runtime, on bool) {
	rt.SetLogger(c13NullLogger{})
	rt.Debug = on
}

// c13Via gives the transport the operation is submitted to: the Runtime itself or one of the tracing decorators it offers
// (they wrap the operation's writer and reader when the operation has a context and hand the call on to the Runtime).
func c13Via(rt *client.Runtime, via int) runtime.ClientTransport {
	switch via {
	case 1:
		return rt.WithOpenTelemetry()
	case 2:
		return rt.WithOpenTracing()
	}
	return rt
}

func c13ViaName(via int) string {
	return []string{"", "/via:opentelemetry", "/via:opentracing"}[via%3]
}

type c13Stub struct {
	who   int
	in    *c13In
	used  *int32
	ctxBy *int32
}

func (s *c13Stub) RoundTrip(req *http.Request) (*http.Response, error) {
	atomic.StoreInt32(s.used, int32(s.who))
	switch req.Context().Value(c13CtxKey{}) {
	case "op":
		atomic.StoreInt32(s.ctxBy, 0)
	case "rt":
		atomic.StoreInt32(s.ctxBy, 1)
	default:
		atomic.StoreInt32(s.ctxBy, 2)
	}
	if req.Body != nil {
		_, _ = io.Copy(io.Discard, req.Body)
		_ = req.Body.Close()
	}
	h := http.Header{}
	for _, hd := range s.in.Headers {
		h[string(hd.Key)] = bsList(hd.Values)
	}
	if s.in.NilHeader && len(s.in.Headers) == 0 {
		h = nil
	}
	return &http.Response{
		StatusCode: s.in.Code, Status: string(s.in.Status), Proto: "HTTP/1.1", ProtoMajor: 1, ProtoMinor: 1,
		Header: h, Body: io.NopCloser(bytes.NewReader([]byte(s.in.Body))), ContentLength: int64(len(s.in.Body)), Request: req,
	}, nil
}

func c13HeaderCT(in c13In) (string, bool) {
	for _, h := range in.Headers {
		if string(h.Key) == "Content-Type" && len(h.Values) > 0 {
			return string(h.Values[0]), true
		}
	}
	return "", false
}

func (c13) Run(inAny any) any {
	in := inAny.(c13In)
	switch in.Kind {
	case "conc":
		return c13RunConc(in)
	case "route":
		return c13RunRoute(in)
	case "seq":
		return c13RunSeq(in)
	case "ctx":
		return c13RunCtx(in)
	}
	var obs c13Obs
	obs.Client, obs.Ctx = 9, 9
	// oracles
	hct, _ := c13HeaderCT(in)
	eff := hct
	obs.QHeader, obs.QDefault = Bs(strconv.Quote(hct)), Bs(strconv.Quote(string(in.Default)))
	if eff == "" {
		eff = string(in.Default)
	}
	if mt, _, err := mime.ParseMediaType(eff); err == nil {
		b := Bs(mt)
		obs.Parsed = &b
	}
	for _, q := range in.Queries {
		obs.Queries = append(obs.Queries, c13Query{Key: Bs(http.CanonicalHeaderKey(string(q)))})
	}

	rt := client.New("example.com", "/", []string{"http"})
	rt.DefaultMediaType = string(in.Default)
	rt.Producers[string(in.Default)] = runtime.JSONProducer() // the request side must build whatever the default is
	cons := map[string]runtime.Consumer{}
	tags := map[runtime.Consumer]int{}
	for i, k := range in.Registry {
		c := &c13Consumer{tag: i + 1, chunk: in.ReadChunk}
		cons[string(k)] = c
		tags[c] = i + 1
	}
	rt.Consumers = cons
	var used, ctxBy int32 = 9, 9
	rt.Transport = &c13Stub{who: 1, in: &in, used: &used, ctxBy: &ctxBy}
	rt.Context = nil
	c13SetDebug(rt, in.Debug)
	if in.RtCtx {
		rt.Context = context.WithValue(context.Background(), c13CtxKey{}, "rt")
	}
	type result struct{ token int }
	want := &result{token: 4711}
	reader := runtime.ClientResponseReaderFunc(func(resp runtime.ClientResponse, c runtime.Consumer) (interface{}, error) {
		obs.Tag = tags[c]
		obs.Code, obs.Status = resp.Code(), Bs(resp.Message())
		if cc, ok := c.(*c13Consumer); ok && in.ViaCons {
			_ = cc.Consume(resp.Body(), nil)
			obs.Body = Bs(cc.got)
		} else {
			obs.Body = Bs(c13ReadBody(resp.Body(), in.ReadChunk))
		}
		for i, q := range in.Queries {
			obs.Queries[i].One = Bs(resp.GetHeader(string(q)))
			obs.Queries[i].All = toBs(resp.GetHeaders(string(q)))
		}
		return want, nil
	})
	op := &runtime.ClientOperation{
		ID: "op", Method: "GET", PathPattern: "/x", ProducesMediaTypes: []string{"application/json"},
		ConsumesMediaTypes: []string{"application/json"}, Schemes: []string{"http"},
		Params: runtime.ClientRequestWriterFunc(func(runtime.ClientRequest, strfmt.Registry) error { return nil }),
		Reader: reader,
	}
	if in.OpClient {
		op.Client = &http.Client{Transport: &c13Stub{who: 0, in: &in, used: &used, ctxBy: &ctxBy}}
	}
	if in.OpCtx {
		op.Context = context.WithValue(context.Background(), c13CtxKey{}, "op")
	}
	var res interface{}
	var err error
	tr := c13Via(rt, in.Via)
	obs.Panicked, obs.Panic = recoverTo(func() { res, err = tr.Submit(op) })
	obs.Client, obs.Ctx = int(used), int(ctxBy)
	if obs.Panicked {
		return obs
	}
	if err != nil {
		obs.Msg = Bs(err.Error())
		switch {
		case strings.HasPrefix(err.Error(), "parse content type"):
			obs.Outcome = 1
		case strings.HasPrefix(err.Error(), "no consumer"):
			obs.Outcome = 2
		default:
			obs.Outcome = 3
		}
		return obs
	}
	obs.Returned = res == interface{}(want)
	return obs
}

// ---------- concurrent calls ----------

type c13Echo struct{}

func (c13Echo) RoundTrip(req *http.Request) (*http.Response, error) {
	tok := req.Header.Get("X-Token")
	n, _ := strconv.Atoi(tok)
	ct := []string{"application/json", "text/plain; charset=utf-8", "application/x-other"}[n%3]
	h := http.Header{"Content-Type": {ct}, "X-Token": {tok}}
	return &http.Response{StatusCode: 200 + n%3, Status: "200 OK", Proto: "HTTP/1.1", ProtoMajor: 1, ProtoMinor: 1,
		Header: h, Body: io.NopCloser(strings.NewReader(tok)), Request: req}, nil
}

func c13RunConc(in c13In) c13Obs {
	var obs c13Obs
	var host string
	rt := (*client.Runtime)(nil)
	var srv *httptest.Server
	if in.Server {
		srv = httptest.NewServer(http.HandlerFunc(func(w http.ResponseWriter, r *http.Request) {
			tok := r.Header.Get("X-Token")
			n, _ := strconv.Atoi(tok)
			w.Header().Set("Content-Type", []string{"application/json", "text/plain; charset=utf-8", "application/x-other"}[n%3])
			w.Header().Set("X-Token", tok)
			w.WriteHeader(200 + n%3)
			_, _ = io.WriteString(w, tok)
		}))
		defer srv.Close()
		host = strings.TrimPrefix(srv.URL, "http://")
	} else {
		host = "example.com"
	}
	if in.PreClient {
		rt = client.NewWithClient(host, "/", []string{"http"}, &http.Client{Transport: c13Transport(in)})
	} else {
		rt = client.New(host, "/", []string{"http"})
		rt.Transport = c13Transport(in)
	}
	cj, ct, cs := &c13Consumer{tag: 1}, &c13Consumer{tag: 2}, &c13Consumer{tag: 3}
	rt.Consumers = map[string]runtime.Consumer{"application/json": cj, "text/plain": ct, "*/*": cs}
	wantTag := []int{1, 2, 3}
	var mismatches, errs int32
	var firstErr, firstStale atomic.Value
	var keptMu sync.Mutex
	var kept []*c13Kept
	start := make(chan struct{})
	var wg sync.WaitGroup
	for g := 0; g < in.G; g++ {
		wg.Add(1)
		go func(g int) {
			defer wg.Done()
			<-start
			var mine []*c13Kept
			for k := 0; k < in.K; k++ {
				token := g*1000 + k
				tokS := strconv.Itoa(token)
				type seen struct {
					tag, code int
					body, hdr string
				}
				op := &runtime.ClientOperation{
					ID: "op" + tokS, Method: "GET", PathPattern: "/t/{id}", ProducesMediaTypes: []string{"application/json"},
					ConsumesMediaTypes: []string{"application/json"}, Schemes: []string{"http"},
					Params: runtime.ClientRequestWriterFunc(func(req runtime.ClientRequest, _ strfmt.Registry) error {
						_ = req.SetPathParam("id", tokS)
						return req.SetHeaderParam("X-Token", tokS)
					}),
					Reader: runtime.ClientResponseReaderFunc(func(resp runtime.ClientResponse, c runtime.Consumer) (interface{}, error) {
						b, _ := io.ReadAll(resp.Body())
						tag := 0
						if cc, ok := c.(*c13Consumer); ok {
							tag = cc.tag
						}
						// keep the response past Submit, as runtime.NewAPIError(name, response, code) does
						mine = append(mine, &c13Kept{resp: resp, token: token})
						return seen{tag, resp.Code(), string(b), resp.GetHeader("x-token")}, nil
					}),
				}
				if k%2 == 1 {
					op.Context = context.WithValue(context.Background(), c13CtxKey{}, "op")
				}
				res, err := rt.Submit(op)
				if err != nil {
					atomic.AddInt32(&errs, 1)
					firstErr.CompareAndSwap(nil, err.Error())
					continue
				}
				s, ok := res.(seen)
				if !ok || s.body != tokS || s.hdr != tokS || s.tag != wantTag[token%3] || s.code != 200+token%3 {
					atomic.AddInt32(&mismatches, 1)
				}
				// every response kept so far by this caller still answers for its own call
				for _, kp := range mine {
					kp.recheck(&firstStale)
				}
			}
			keptMu.Lock()
			kept = append(kept, mine...)
			keptMu.Unlock()
		}(g)
	}
	done := make(chan struct{})
	go func() { wg.Wait(); close(done) }()
	close(start)
	select {
	case <-done:
	case <-time.After(60 * time.Second):
		atomic.AddInt32(&errs, 1000)
		firstErr.CompareAndSwap(nil, "watchdog: concurrent calls did not finish")
	}
	obs.Mismatches, obs.Errors = int(mismatches), int(errs)
	if e, ok := firstErr.Load().(string); ok {
		obs.FirstErr = e
	}
	// once everything is over, every kept response is asked again
	keptMu.Lock()
	for _, kp := range kept {
		kp.recheck(&firstStale)
		if kp.stale {
			obs.Stale++
		}
	}
	keptMu.Unlock()
	if e, ok := firstStale.Load().(string); ok {
		obs.FirstStale = e
	}
	return obs
}

// c13Kept is a ClientResponse kept by its reader past the end of Submit.
type c13Kept struct {
	resp  runtime.ClientResponse
	token int
	stale bool
}

func (k *c13Kept) recheck(first *atomic.Value) {
	if k.stale {
		return
	}
	tokS := strconv.Itoa(k.token)
	wantCT := []string{"application/json", "text/plain; charset=utf-8", "application/x-other"}[k.token%3]
	var code int
	var tok, ct string
	if p, msg := recoverTo(func() {
		code, tok, ct = k.resp.Code(), k.resp.GetHeader("X-Token"), k.resp.GetHeader("Content-Type")
	}); p {
		k.stale = true
		first.CompareAndSwap(nil, "call "+tokS+": asking the kept response again panics: "+msg)
		return
	}
	if code != 200+k.token%3 || tok != tokS || ct != wantCT {
		k.stale = true
		first.CompareAndSwap(nil, fmt.Sprintf("call %s: the kept response now answers code=%d X-Token=%q Content-Type=%q", tokS, code, tok, ct))
	}
}

func c13Transport(in c13In) http.RoundTripper {
	if in.Server {
		return &http.Transport{MaxIdleConnsPerHost: 4}
	}
	return c13Echo{}
}

// ---------- which client object carries the call ----------

const (
	c13WhoOp      = 1
	c13WhoRt      = 2
	c13WhoDefault = 4
	c13WhoRtField = 8 // the Runtime's Transport field although a client was preset: must never carry a call
)

type c13Rec struct {
	mu                                     sync.Mutex
	transport, redirect, jar, cookie, hops int
	ctx                                    int
}

func (r *c13Rec) or(field *int, who int) {
	r.mu.Lock()
	*field |= who
	r.mu.Unlock()
}

type c13RouteStub struct {
	who  int
	rec  *c13Rec
	slow bool
}

func (s *c13RouteStub) RoundTrip(req *http.Request) (*http.Response, error) {
	s.rec.mu.Lock()
	s.rec.transport |= s.who
	s.rec.hops++
	hop := s.rec.hops
	if hop == 1 {
		switch req.Context().Value(c13CtxKey{}) {
		case "op":
			s.rec.ctx = 0
		case "rt":
			s.rec.ctx = 1
		default:
			s.rec.ctx = 2
		}
		switch strings.Join(req.Header["Cookie"], "|") {
		case "":
			s.rec.cookie = 0
		case "who=1":
			s.rec.cookie = c13WhoOp
		case "who=2":
			s.rec.cookie = c13WhoRt
		default:
			s.rec.cookie = 64
		}
	}
	s.rec.mu.Unlock()
	if req.Body != nil {
		_, _ = io.Copy(io.Discard, req.Body)
		_ = req.Body.Close()
	}
	mk := func(code int, status string, h http.Header, body string) *http.Response {
		return &http.Response{StatusCode: code, Status: status, Proto: "HTTP/1.1", ProtoMajor: 1, ProtoMinor: 1,
			Header: h, Body: io.NopCloser(strings.NewReader(body)), ContentLength: int64(len(body)), Request: req}
	}
	if req.URL.Path == "/final" {
		return mk(200, "200 OK", http.Header{"Content-Type": {"application/json"}}, "{}"), nil
	}
	if s.slow {
		select {
		case <-req.Context().Done():
			return nil, req.Context().Err()
		case <-req.Cancel: //nolint:staticcheck // the way http.Client cancels a round tripper it does not know
			return nil, errors.New("net/http: request canceled")
		case <-time.After(c13SlowDelay):
		}
	}
	return mk(302, "302 Found", http.Header{"Content-Type": {"application/json"}, "Location": {"/final"}, "Set-Cookie": {"seen=1"}}, "{}"), nil
}

const (
	c13SlowDelay    = 700 * time.Millisecond
	c13ShortTimeout = 25 * time.Millisecond
)

type c13Jar struct {
	who int
	rec *c13Rec
}

func (j *c13Jar) SetCookies(u *url.URL, cookies []*http.Cookie) { j.rec.or(&j.rec.jar, j.who) }
func (j *c13Jar) Cookies(u *url.URL) []*http.Cookie {
	j.rec.or(&j.rec.jar, j.who)
	return []*http.Cookie{{Name: "who", Value: strconv.Itoa(j.who)}}
}

func c13MakeClient(who int, cfg c13Client, rec *c13Rec, slow bool) *http.Client {
	c := &http.Client{}
	if cfg.Transport {
		c.Transport = &c13RouteStub{who: who, rec: rec, slow: slow}
	}
	switch cfg.Redirect {
	case 1:
		c.CheckRedirect = func(*http.Request, []*http.Request) error { rec.or(&rec.redirect, who); return nil }
	case 2:
		c.CheckRedirect = func(*http.Request, []*http.Request) error {
			rec.or(&rec.redirect, who)
			return http.ErrUseLastResponse
		}
	}
	if cfg.Jar {
		c.Jar = &c13Jar{who: who, rec: rec}
	}
	if cfg.Timeout {
		c.Timeout = 30 * time.Second
		if slow {
			c.Timeout = c13ShortTimeout
		}
	}
	return c
}

func c13RunRoute(in c13In) c13Obs {
	var obs c13Obs
	rec := &c13Rec{ctx: 9}
	rtCfg := c13Client{}
	if in.RtCfg != nil {
		rtCfg = *in.RtCfg
	}
	var rt *client.Runtime
	if in.RtPreset {
		rt = client.NewWithClient("example.com", "/", []string{"http"}, c13MakeClient(c13WhoRt, rtCfg, rec, in.Slow))
		rt.Transport = &c13RouteStub{who: c13WhoRtField, rec: rec, slow: in.Slow}
	} else {
		// the client the Runtime builds on first use from its Transport and Jar fields
		rt = client.New("example.com", "/", []string{"http"})
		rt.Transport = nil
		if rtCfg.Transport {
			rt.Transport = &c13RouteStub{who: c13WhoRt, rec: rec, slow: in.Slow}
		}
		if rtCfg.Jar {
			rt.Jar = &c13Jar{who: c13WhoRt, rec: rec}
		}
	}
	cj := &c13Consumer{tag: 1}
	rt.Consumers = map[string]runtime.Consumer{"application/json": cj}
	rt.Context = nil
	if in.RtCtx {
		rt.Context = context.WithValue(context.Background(), c13CtxKey{}, "rt")
	}
	code := 0
	op := &runtime.ClientOperation{
		ID: "op", Method: "GET", PathPattern: "/x", ProducesMediaTypes: []string{"application/json"},
		ConsumesMediaTypes: []string{"application/json"}, Schemes: []string{"http"},
		Params: runtime.ClientRequestWriterFunc(func(runtime.ClientRequest, strfmt.Registry) error { return nil }),
		Reader: runtime.ClientResponseReaderFunc(func(resp runtime.ClientResponse, c runtime.Consumer) (interface{}, error) {
			code = resp.Code()
			_, _ = io.ReadAll(resp.Body())
			return nil, nil
		}),
	}
	if in.OpCfg != nil {
		op.Client = c13MakeClient(c13WhoOp, *in.OpCfg, rec, in.Slow)
	}
	if in.OpCtx {
		op.Context = context.WithValue(context.Background(), c13CtxKey{}, "op")
	}
	// a client without a Transport of its own sends through the process-wide default transport: a marked stub for
	// the duration of the call (cases run one after the other)
	old := http.DefaultTransport
	http.DefaultTransport = &c13RouteStub{who: c13WhoDefault, rec: rec, slow: in.Slow}
	var err error
	via := c13Via(rt, in.Via)
	done := make(chan struct{})
	go func() {
		defer close(done)
		obs.Panicked, obs.Panic = recoverTo(func() { _, err = via.Submit(op) })
	}()
	select {
	case <-done:
	case <-time.After(20 * time.Second):
		http.DefaultTransport = old
		obs.Trace = &c13Trace{Result: 8}
		obs.FirstErr = "watchdog: Submit did not return"
		return obs
	}
	http.DefaultTransport = old
	rec.mu.Lock()
	tr := &c13Trace{Transport: rec.transport, Redirect: rec.redirect, Jar: rec.jar, Cookie: rec.cookie, Hops: rec.hops, Result: 9}
	obs.Ctx = rec.ctx
	rec.mu.Unlock()
	var ue *url.Error
	switch {
	case obs.Panicked:
	case err == nil && code == 200 && tr.Hops == 2:
		tr.Result = 0
	case err == nil && code == 302 && tr.Hops == 1:
		tr.Result = 1
	case err != nil && errors.As(err, &ue) && ue.Timeout():
		tr.Result = 2
	}
	if err != nil {
		obs.Msg = Bs(err.Error())
	}
	obs.Code = code
	obs.Trace = tr
	return obs
}

// ---------- several calls one after the other, readers that keep the response ----------

type c13SeqStub struct{ in *c13In }

func (s c13SeqStub) RoundTrip(req *http.Request) (*http.Response, error) {
	i, _ := strconv.Atoi(req.Header.Get("X-Call"))
	if req.Body != nil {
		_, _ = io.Copy(io.Discard, req.Body)
		_ = req.Body.Close()
	}
	call := s.in.Calls[i]
	h := http.Header{"X-Token": {string(call.Token)}}
	if call.CT != nil {
		h["Content-Type"] = []string{string(*call.CT)}
	}
	return &http.Response{StatusCode: call.Code, Status: string(call.Status), Proto: "HTTP/1.1", ProtoMajor: 1, ProtoMinor: 1,
		Header: h, Body: io.NopCloser(strings.NewReader(string(call.Token))), ContentLength: int64(len(call.Token)), Request: req}, nil
}

func c13ViewOf(resp runtime.ClientResponse) (v c13View) {
	if p, msg := recoverTo(func() {
		v = c13View{Code: resp.Code(), Status: Bs(resp.Message()), Token: Bs(resp.GetHeader("X-Token")), CT: Bs(resp.GetHeader("Content-Type"))}
	}); p {
		v = c13View{Code: 0, Status: Bs("panic: " + msg)}
	}
	return v
}

func c13RunSeq(in c13In) c13Obs {
	var obs c13Obs
	rt := client.New("example.com", "/", []string{"http"})
	c13SetDebug(rt, in.Debug)
	rt.DefaultMediaType = string(in.Default)
	rt.Producers[string(in.Default)] = runtime.JSONProducer()
	cons := map[string]runtime.Consumer{}
	tags := map[runtime.Consumer]int{}
	for i, k := range in.Registry {
		c := &c13Consumer{tag: i + 1, chunk: in.ReadChunk}
		cons[string(k)] = c
		tags[c] = i + 1
	}
	rt.Consumers = cons
	rt.Transport = c13SeqStub{in: &in}
	obs.Seq = make([]c13SeqObs, len(in.Calls))
	kept := make([]runtime.ClientResponse, len(in.Calls))
	deviated := make([]bool, len(in.Calls))
	for i := range in.Calls {
		i := i
		so := &obs.Seq[i]
		eff := string(in.Default)
		if in.Calls[i].CT != nil && len(*in.Calls[i].CT) > 0 {
			eff = string(*in.Calls[i].CT)
		}
		if mt, _, err := mime.ParseMediaType(eff); err == nil {
			b := Bs(mt)
			so.Parsed = &b
		}
		op := &runtime.ClientOperation{
			ID: "op", Method: "GET", PathPattern: "/x", ProducesMediaTypes: []string{"application/json"},
			ConsumesMediaTypes: []string{"application/json"}, Schemes: []string{"http"},
			Params: runtime.ClientRequestWriterFunc(func(req runtime.ClientRequest, _ strfmt.Registry) error {
				return req.SetHeaderParam("X-Call", strconv.Itoa(i))
			}),
			Reader: runtime.ClientResponseReaderFunc(func(resp runtime.ClientResponse, c runtime.Consumer) (interface{}, error) {
				so.Tag = tags[c]
				so.First = c13ViewOf(resp)
				_, _ = io.ReadAll(resp.Body())
				kept[i] = resp // as runtime.NewAPIError(name, response, code) does
				return nil, nil
			}),
		}
		if in.Via != 0 { // the decorators act on operations that have a context
			op.Context = context.Background()
		}
		var err error
		p, msg := recoverTo(func() { _, err = c13Via(rt, in.Via).Submit(op) })
		switch {
		case p:
			obs.Panicked, obs.Panic = true, msg
			so.Outcome = 3
		case err == nil:
		case strings.HasPrefix(err.Error(), "parse content type"):
			so.Outcome, so.Msg = 1, err.Error()
		case strings.HasPrefix(err.Error(), "no consumer"):
			so.Outcome, so.Msg = 2, err.Error()
		default:
			so.Outcome, so.Msg = 3, err.Error()
		}
		// every response kept so far is asked again; the first answer that deviates is the one reported
		for j := 0; j <= i; j++ {
			if kept[j] == nil || deviated[j] {
				continue
			}
			obs.Seq[j].Later = c13ViewOf(kept[j])
			if fmt.Sprint(obs.Seq[j].Later) != fmt.Sprint(obs.Seq[j].First) {
				deviated[j] = true
			}
		}
	}
	return obs
}

// ---------- which context the call runs under ----------

const c13CancelWait = 15 * time.Millisecond // how long a cancellation that must NOT end the call is given to show

type c13CtxStub struct {
	base               time.Time
	action             int
	cancelOp, cancelRt context.CancelFunc
	mu                 sync.Mutex
	seen               c13Seen
}

func c13Rank(base, t time.Time) int { return int((t.Sub(base) + 30*time.Minute) / time.Hour) }

func (s *c13CtxStub) RoundTrip(req *http.Request) (*http.Response, error) {
	ctx := req.Context()
	var seen c13Seen
	switch ctx.Value(c13CtxKey{}) {
	case "op":
		seen.Value = 0
	case "rt":
		seen.Value = 1
	default:
		seen.Value = 2
	}
	if dl, ok := ctx.Deadline(); ok {
		seen.Deadline = c13Rank(s.base, dl)
	}
	if req.Body != nil {
		_, _ = io.Copy(io.Discard, req.Body)
		_ = req.Body.Close()
	}
	seen.Ended = ctx.Err() != nil
	if !seen.Ended {
		var cancel context.CancelFunc
		switch s.action {
		case 1:
			cancel = s.cancelOp
		case 2:
			cancel = s.cancelRt
		}
		if cancel != nil {
			cancel()
			select {
			case <-ctx.Done():
				seen.Ended = true
			case <-time.After(c13CancelWait):
			}
		}
	}
	s.mu.Lock()
	s.seen = seen
	s.mu.Unlock()
	if seen.Ended {
		return nil, ctx.Err()
	}
	return &http.Response{StatusCode: 200, Status: "200 OK", Proto: "HTTP/1.1", ProtoMajor: 1, ProtoMinor: 1,
		Header: http.Header{"Content-Type": {"application/json"}}, Body: io.NopCloser(strings.NewReader("{}")), ContentLength: 2, Request: req}, nil
}

// c13MakeCtx builds a context of its own (never derived from the other one) and returns the function cancelling it.
func c13MakeCtx(cfg c13Ctx, whose string, base time.Time) (context.Context, context.CancelFunc) {
	ctx := context.Background()
	if !cfg.Outer {
		ctx = context.WithValue(ctx, c13CtxKey{}, whose)
	}
	release := func() {}
	if cfg.Deadline > 0 {
		ctx, release = context.WithDeadline(ctx, base.Add(time.Duration(cfg.Deadline)*time.Hour))
	}
	ctx, cancel := context.WithCancel(ctx)
	if cfg.Outer {
		ctx = context.WithValue(ctx, c13CtxKey{}, whose)
	}
	if cfg.Cancelled {
		cancel()
	}
	return ctx, func() { cancel(); release() }
}

func c13RunCtx(in c13In) c13Obs {
	var obs c13Obs
	base := time.Now()
	stub := &c13CtxStub{base: base, action: in.Action, seen: c13Seen{Value: 9}}
	rt := client.New("example.com", "/", []string{"http"})
	rt.Transport = stub
	rt.Consumers = map[string]runtime.Consumer{"application/json": &c13Consumer{tag: 1}}
	rt.Context = nil
	if in.RtCtxCfg != nil {
		rt.Context, stub.cancelRt = c13MakeCtx(*in.RtCtxCfg, "rt", base)
		defer stub.cancelRt()
	}
	ran := false
	op := &runtime.ClientOperation{
		ID: "op", Method: "GET", PathPattern: "/x", ProducesMediaTypes: []string{"application/json"},
		ConsumesMediaTypes: []string{"application/json"}, Schemes: []string{"http"},
		Params: runtime.ClientRequestWriterFunc(func(req runtime.ClientRequest, _ strfmt.Registry) error {
			return req.SetTimeout(time.Duration(in.TimeoutRank) * time.Hour)
		}),
		Reader: runtime.ClientResponseReaderFunc(func(resp runtime.ClientResponse, c runtime.Consumer) (interface{}, error) {
			_, _ = io.ReadAll(resp.Body())
			ran = true
			return nil, nil
		}),
	}
	if in.OpCtxCfg != nil {
		op.Context, stub.cancelOp = c13MakeCtx(*in.OpCtxCfg, "op", base)
		defer stub.cancelOp()
	}
	var err error
	via := c13Via(rt, in.Via)
	done := make(chan struct{})
	go func() {
		defer close(done)
		obs.Panicked, obs.Panic = recoverTo(func() { _, err = via.Submit(op) })
	}()
	select {
	case <-done:
	case <-time.After(20 * time.Second):
		obs.Seen = &c13Seen{Value: 8, Failed: true, Msg: "watchdog: Submit did not return"}
		return obs
	}
	stub.mu.Lock()
	seen := stub.seen
	stub.mu.Unlock()
	seen.Failed = err != nil || !ran
	if err != nil {
		seen.Msg = err.Error()
	}
	obs.Seen = &seen
	return obs
}

// ---------- rendering ----------

func (c13) Coq(inAny any, obsAny any) string {
	in, obs := inAny.(c13In), obsAny.(c13Obs)
	if in.Kind == "conc" {
		return fmt.Sprintf("CConc %d %d %d %d %d", in.G, in.K, obs.Mismatches, obs.Errors, obs.Stale)
	}
	if in.Kind == "ctx" {
		cx := func(c *c13Ctx) string {
			if c == nil {
				return "None"
			}
			return fmt.Sprintf("(Some (mkctx %d %s))", c.Deadline, coqBool(c.Cancelled))
		}
		seen := obs.Seen
		if seen == nil {
			seen = &c13Seen{Value: 9, Failed: true}
		}
		return fmt.Sprintf("CCtx %s %s %d %d %s (mkseen %d %d %s %s)", cx(in.OpCtxCfg), cx(in.RtCtxCfg), in.TimeoutRank, in.Action,
			coqBool(obs.Panicked), seen.Value, seen.Deadline, coqBool(seen.Ended), coqBool(seen.Failed))
	}
	if in.Kind == "route" {
		cl := func(c c13Client) string {
			return fmt.Sprintf("(mkclient %s %d %s %s)", coqBool(c.Transport), c.Redirect, coqBool(c.Jar), coqBool(c.Timeout))
		}
		opT := "None"
		if in.OpCfg != nil {
			opT = "(Some " + cl(*in.OpCfg) + ")"
		}
		rtCfg := c13Client{}
		if in.RtCfg != nil {
			rtCfg = *in.RtCfg
		}
		tr := obs.Trace
		if tr == nil {
			tr = &c13Trace{Result: 9}
		}
		return fmt.Sprintf("CRoute %s %s %s %s %s %s (mktrace %d %d %d %d %d) %d", opT, cl(rtCfg), coqBool(in.Slow), coqBool(in.OpCtx), coqBool(in.RtCtx),
			coqBool(obs.Panicked), tr.Transport, tr.Redirect, tr.Jar, tr.Cookie, tr.Result, obs.Ctx)
	}
	reg := make([]string, len(in.Registry))
	for i, k := range in.Registry {
		reg[i] = coqPair(coqBytes(string(k)), strconv.Itoa(i+1))
	}
	regT := "[" + strings.Join(reg, "; ") + "]"
	if len(reg) == 0 {
		regT = "[]"
	}
	if in.Kind == "seq" {
		view := func(v c13View) string {
			return fmt.Sprintf("(%d, %s, %s, %s)", v.Code, coqBytes(string(v.Status)), coqBytes(string(v.Token)), coqBytes(string(v.CT)))
		}
		calls := make([]string, len(in.Calls))
		for i, c := range in.Calls {
			so := c13SeqObs{Outcome: 3}
			if i < len(obs.Seq) {
				so = obs.Seq[i]
			}
			parsed := "None"
			if so.Parsed != nil {
				parsed = "(Some " + coqBytes(string(*so.Parsed)) + ")"
			}
			hd := ""
			if c.CT != nil {
				hd = coqPair(coqBytes("Content-Type"), coqBytesList([]string{string(*c.CT)})) + "; "
			}
			hd += coqPair(coqBytes("X-Token"), coqBytesList([]string{string(c.Token)}))
			resp := fmt.Sprintf("(mkresp %d %s [%s] %s)", c.Code, coqBytes(string(c.Status)), hd, coqBytes(string(c.Token)))
			calls[i] = fmt.Sprintf("(mkseq %s %s %d %d %s %s)", parsed, resp, so.Outcome, so.Tag, view(so.First), view(so.Later))
		}
		callsT := "[" + strings.Join(calls, "; ") + "]"
		return fmt.Sprintf("CSeq %s %s %s", regT, coqBytes(string(in.Default)), callsT)
	}
	parsed := "None"
	if obs.Parsed != nil {
		parsed = "(Some " + coqBytes(string(*obs.Parsed)) + ")"
	}
	hdrs := coqList(in.Headers, func(h c13Header) string { return coqPair(coqBytes(string(h.Key)), coqBytesList(bsList(h.Values))) })
	resp := fmt.Sprintf("(mkresp %d %s %s %s)", in.Code, coqBytes(string(in.Status)), hdrs, coqBytes(string(in.Body)))
	queries := coqList(obs.Queries, func(q c13Query) string {
		return "(" + coqBytes(string(q.Key)) + ", " + coqBytes(string(q.One)) + ", " + coqBytesList(bsList(q.All)) + ")"
	})
	o := fmt.Sprintf("(mkrobs %s %d %d %d %s %s %s %d %d %s)", coqBool(obs.Panicked), obs.Outcome, obs.Tag, obs.Code,
		coqBytes(string(obs.Status)), coqBytes(string(obs.Body)), coqBytes(string(obs.Msg)), obs.Client, obs.Ctx, coqBool(obs.Returned))
	return fmt.Sprintf("CResp %s %s %s %s %s %s %s %s %s %s %s", regT, coqBytes(string(in.Default)), parsed,
		coqBytes(string(obs.QHeader)), coqBytes(string(obs.QDefault)), resp, queries,
		coqBool(in.OpClient), coqBool(in.OpCtx), coqBool(in.RtCtx), o)
}

func (c13) Classify(inAny any, obsAny any) []string { return nil }

func (c13) Category(inAny any, obsAny any) (string, bool) {
	in, obs := inAny.(c13In), obsAny.(c13Obs)
	if in.Kind == "conc" {
		m := "stub"
		if in.Server {
			m = "server"
		}
		if in.PreClient {
			m += "+preset-client"
		}
		return "conc/" + m, true
	}
	if in.Kind == "route" {
		name := func(c *c13Client) string {
			if c == nil {
				return "none"
			}
			n := "bare"
			if c.Transport {
				n = "own-transport"
			}
			if c.Redirect != 0 || c.Jar || c.Timeout {
				n += "+policy"
			}
			return n
		}
		rtk := "rt-lazy:"
		if in.RtPreset {
			rtk = "rt-preset:"
		}
		res := "?"
		if obs.Trace != nil && obs.Trace.Result < 3 {
			res = []string{"final", "redirect-response", "timeout"}[obs.Trace.Result]
		}
		slow := ""
		if in.Slow {
			slow = "/slow"
		}
		return "route/op:" + name(in.OpCfg) + "/" + rtk + name(in.RtCfg) + slow + "/" + res + c13ViaName(in.Via), true
	}
	if in.Kind == "ctx" {
		name := func(c *c13Ctx) string {
			switch {
			case c == nil:
				return "absent"
			case c.Cancelled:
				return "cancelled"
			case c.Deadline > 0:
				return "deadline"
			}
			return "plain"
		}
		rel := ""
		if in.OpCtxCfg != nil && in.RtCtxCfg != nil && in.RtCtxCfg.Deadline > 0 && (in.OpCtxCfg.Deadline == 0 || in.OpCtxCfg.Deadline > in.RtCtxCfg.Deadline) {
			rel = "/rt-deadline-earlier"
		}
		act := []string{"no-cancel", "cancel-op", "cancel-rt"}[in.Action%3]
		to := "/no-timeout"
		if in.TimeoutRank > 0 {
			to = "/timeout"
		}
		return "ctx/op:" + name(in.OpCtxCfg) + "/rt:" + name(in.RtCtxCfg) + rel + "/" + act + to + c13ViaName(in.Via), true
	}
	if in.Kind == "seq" {
		fails := 0
		for _, so := range obs.Seq {
			if so.Outcome != 0 {
				fails++
			}
		}
		return fmt.Sprintf("seq/calls=%d/failed=%d", len(in.Calls), fails) + c13ViaName(in.Via), true
	}
	hct, has := c13HeaderCT(in)
	star := false
	for _, k := range in.Registry {
		if string(k) == "*/*" {
			star = true
		}
	}
	ct := "header"
	switch {
	case !has:
		ct = "absent"
	case hct == "":
		ct = "empty"
	case obs.Parsed == nil:
		ct = "malformed"
	case strings.Contains(hct, ";"):
		ct = "params"
	case strings.ToLower(hct) != hct:
		ct = "uppercase"
	}
	out := []string{"delivered", "parse-error", "no-consumer", "other-error"}[obs.Outcome]
	if obs.Panicked {
		out = "panic"
	}
	reg := "nostar"
	if star {
		reg = "star"
	}
	who := "rt-client"
	if in.OpClient {
		who = "op-client"
	}
	opt := ""
	if in.Debug {
		opt = "/debug"
	}
	for _, h := range in.Headers {
		sens := false
		for _, k := range c13SensitiveKeys {
			sens = sens || string(h.Key) == k
		}
		if sens {
			opt += "/credential-header"
			break
		}
	}
	for _, h := range in.Headers {
		if string(h.Key) == "Content-Encoding" {
			opt += "/content-encoding"
			break
		}
	}
	if in.OpCtx {
		opt += "/op-ctx"
	}
	opt += c13ViaName(in.Via)
	return "resp/" + ct + "/" + reg + "/" + out + "/" + who + opt + "/body:" + c13BodyClass([]byte(in.Body)), len(in.Registry) >= 2
}

// c13BodyClass names how the body sent by the server begins (the reader must see it byte for byte whatever that is).
func c13BodyClass(b []byte) string {
	switch {
	case len(b) == 0:
		return "empty"
	case bytes.HasPrefix(b, []byte{0xEF, 0xBB, 0xBF}):
		return "utf8-bom"
	case bytes.HasPrefix(b, []byte{0xFF, 0xFE}), bytes.HasPrefix(b, []byte{0xFE, 0xFF}), bytes.HasPrefix(b, []byte{0, 0, 0xFE, 0xFF}):
		return "utf16/32-bom"
	case b[0] == 0:
		return "nul"
	case len(b) == 1:
		return "one-byte"
	case b[0] == 0xEF:
		return "bom-lookalike"
	case len(b) >= 18 && bytes.HasPrefix(b, []byte{0x1F, 0x8B, 0x08}):
		return "gzip-stream"
	case len(b) >= 8 && b[0] == 0x78 && (int(b[0])<<8|int(b[1]))%31 == 0:
		return "zlib-stream"
	case bytes.HasPrefix(b, []byte{0x1F, 0x8B}), bytes.HasPrefix(b, []byte("PK")), bytes.HasPrefix(b, []byte("\x89PNG")), bytes.HasPrefix(b, []byte("%PDF")):
		return "magic"
	case b[0] == ' ' || b[0] == '\n' || b[0] == '\r' || b[0] == '\t':
		return "blank-first"
	case b[0] < 0x20 || b[0] >= 0x7F:
		return "binary"
	}
	return "text"
}

// ---------- generator ----------

var c13Keys = []string{"application/json", "text/plain", "application/xml", "application/x-custom", "Application/Upper", "text/html", "*/*",
	// keys that must never be reached by any kind of approximate matching
	"application/*", "text/*", "application/vnd.api+json", "application/json; charset=utf-8", "json", "application"}

// well-formed media types that are close to a registered one without being it: structured-syntax suffixes (RFC 6839),
// a shared prefix, a shared subtype, a type wildcard
var c13NearCTs = []string{
	"application/vnd.api+json", "application/problem+json; charset=utf-8", "application/ld+json", "application/atom+xml", "image/svg+xml",
	"text/x-note+plain", "text/vnd.a+html", "application/a+b+json", "application/+json", "application/jsonx", "application/jso", "text/json",
	"x/plain", "text/*", "application/json+json", "application/vnd.API+JSON",
}
var c13CTs = []string{
	"application/json", "text/plain", "application/xml", "application/x-custom", "application/x-unknown", "image/png",
	"application/json; charset=utf-8", "text/plain;charset=\"utf-8\"", "Application/JSON", "TEXT/PLAIN; Charset=UTF-8", "application/upper",
	"Application/Upper", " application/json", "application/json ", "text/html; q=0.5; level=1", "*/*", "application/*",
	// malformed
	"text/plain; charset", "text/plain;;", ";", "/", "text/", "a b", "text/plain; x=\"", "text/plain; a=1; a=2", "\"quoted\"/type", "text/pl\\ain", "caf\xc3\xa9/x", "text/plain; =v",
}
var c13Defaults = []string{"application/json", "application/json", "text/plain", "application/x-default", "application/x-custom", "", "not a type;;", "application/vnd.api+json", "application/problem+xml"}
var c13Codes = []int{200, 200, 201, 204, 206, 301, 304, 400, 401, 404, 418, 500, 503, 599}
var c13HeaderKeys = []string{"X-Request-Id", "X-Rate-Limit", "Etag", "Set-Cookie", "Content-Length", "X-Multi"}

// headers that carry credentials, challenges or other things an option (logging, tracing, caching) might want to hide or rewrite
var c13SensitiveKeys = []string{"Set-Cookie", "Www-Authenticate", "Proxy-Authenticate", "Authentication-Info", "Proxy-Authentication-Info", "X-Auth-Token",
	"X-Api-Key", "Authorization", "Proxy-Authorization", "Cookie", "X-Amz-Security-Token", "X-Csrf-Token", "Retry-After", "Cache-Control"}
var c13SensitiveVals = []string{"session=abc123; Path=/; HttpOnly", "id=7; Secure", `Bearer realm="api", error="invalid_token"`, `Basic realm="x"`, "Negotiate",
	`nextnonce="47364c23432d2e131a5fb210812c"`, "tok-0123456789", "k-SECRET", "Bearer abc.def.ghi", "https://example.com/next?token=t", "120", "no-store", ""}
var c13QueryNames = []string{"x-request-id", "X-REQUEST-ID", "X-Request-Id", "etag", "ETag", "content-type", "Content-Type", "X-Missing", "x-multi", "set-cookie", "x rate limit", "X-Rate-Limit"}

// how a response body may begin: byte order marks of every flavour (a UTF-8 one in front of a document is common with
// some servers), truncated and doubled marks, magic numbers of compressed / archive / image formats, NUL, blanks
var c13BodyHeads = []string{
	"", "\xEF\xBB\xBF", "\xEF\xBB\xBF\xEF\xBB\xBF", "\xEF\xBB", "\xEF", "\xEF\xBB\xBE", "\xEF\xBF\xBD", "\xBB\xBF", "\xEF\xBB\xBF\x00",
	"\xFF\xFE", "\xFE\xFF", "\xFF\xFE\x00\x00", "\x00\x00\xFE\xFF", "\x00", "\x00\x00\x00", "\x1F\x8B\x08\x00", "PK\x03\x04", "\x89PNG\r\n\x1a\n", "%PDF-1.4\n",
	" ", "\n", "\r\n", "\r", "\t", "\xC3\xA9", "\xFF", "\x7F", "\x1B[0m",
}
var c13BodyTails = []string{
	"", "{\"a\":1}", "{\"a\":1}\n", "id;name\n1;x\n", "a,b\r\n1,2\r\n", "<?xml version=\"1.0\"?><a/>", "plain text", "x", "\x00", "\n",
	"tail \xEF\xBB\xBF inside", "ends with a mark \xEF\xBB\xBF", "[1,2,3]", "\"str\"", "null",
}

// Content-Encoding values a server may announce (the Runtime hands the response on as received: what the transport left
// encoded stays encoded, and the header stays with it) and the shapes an encoded body may have
var c13Encodings = []string{"gzip", "gzip", "GZIP", "x-gzip", "deflate", "br", "identity", "zstd", "compress", "gzip, identity", "deflate, gzip", ""}

// c13Encode renders doc in one of the shapes an encoded payload takes: 0 gzip, 1 gzip with name and comment fields, 2 gzip cut
// short inside the stream, 3 gzip whose trailer (checksum) is damaged, 4 two gzip members, 5 gzip followed by other bytes,
// 6 zlib, 7 raw deflate, 8 a gzip header alone, 9 a gzip header followed by bytes that are no deflate stream.
const c13EncodeShapes = 10

func c13Encode(doc []byte, shape int) []byte {
	gz := func(d []byte, named bool) []byte {
		var b bytes.Buffer
		w := gzip.NewWriter(&b)
		if named {
			w.Name, w.Comment = "doc.json", "as stored"
		}
		_, _ = w.Write(d)
		_ = w.Close()
		return b.Bytes()
	}
	switch shape % c13EncodeShapes {
	case 0:
		return gz(doc, false)
	case 1:
		return gz(doc, true)
	case 2:
		b := gz(doc, false)
		return b[:len(b)-9]
	case 3:
		b := gz(doc, false)
		b[len(b)-6] ^= 0x55
		return b
	case 4:
		return append(gz(doc, false), gz([]byte("second member"), false)...)
	case 5:
		return append(gz(doc, false), []byte("trailing bytes")...)
	case 6:
		var b bytes.Buffer
		w := zlib.NewWriter(&b)
		_, _ = w.Write(doc)
		_ = w.Close()
		return b.Bytes()
	case 7:
		var b bytes.Buffer
		w, _ := flate.NewWriter(&b, flate.DefaultCompression)
		_, _ = w.Write(doc)
		_ = w.Close()
		return b.Bytes()
	case 8:
		return gz(nil, false)[:10]
	}
	return append(gz(nil, false)[:10], []byte("\xff\xfe not a deflate stream")...)
}

// c13GenBody: half of the bodies are a head from the pool followed by a document, now and then longer than the
// buffers a wrapping reader would use; the others random bytes, possibly none.
func c13GenBody(r *rand.Rand) []byte {
	switch r.Intn(8) {
	case 0, 1, 2, 3:
		b := []byte(c13BodyHeads[r.Intn(len(c13BodyHeads))] + c13BodyTails[r.Intn(len(c13BodyTails))])
		if r.Intn(30) == 0 {
			b = append(b, bytes.Repeat([]byte("0123456789abcdef"), 260+r.Intn(40))...) // beyond 4096
		}
		return b
	case 4:
		return []byte{byte(r.Intn(256))}
	case 5:
		return []byte(c13BodyHeads[r.Intn(len(c13BodyHeads))])
	}
	body := make([]byte, r.Intn(200))
	for j := range body {
		body[j] = byte(r.Intn(256))
	}
	return body
}

func (c13) Gen(r *rand.Rand, tier string, i int) any {
	if i%97 == 96 {
		return c13In{Kind: "conc", G: 2 + r.Intn(15), K: 1 + r.Intn(4), Server: r.Intn(3) == 0, PreClient: r.Intn(4) == 0, Default: "application/json"}
	}
	if i%31 == 30 {
		return c13GenSeq(r)
	}
	if i%13 == 12 {
		return c13GenRoute(r)
	}
	if i%11 == 10 {
		return c13GenCtx(r)
	}
	in := c13In{Kind: "resp", Default: Bs(c13Defaults[r.Intn(len(c13Defaults))])}
	perm := r.Perm(len(c13Keys))
	n := r.Intn(len(c13Keys) + 1)
	for _, j := range perm[:n] {
		in.Registry = append(in.Registry, Bs(c13Keys[j]))
	}
	in.Code = c13Codes[r.Intn(len(c13Codes))]
	in.Status = Bs(fmt.Sprintf("%d %s", in.Code, http.StatusText(in.Code)))
	if r.Intn(5) == 0 {
		in.Status = Bs([]string{"200 Fine", "", "OK", "999 whatever it is"}[r.Intn(4)])
	}
	switch r.Intn(10) {
	case 0: // no Content-Type
	case 1:
		in.Headers = append(in.Headers, c13Header{Key: "Content-Type", Values: []Bs{""}})
	case 2:
		in.Headers = append(in.Headers, c13Header{Key: "Content-Type", Values: []Bs{Bs(c13CTs[r.Intn(len(c13CTs))]), Bs(c13CTs[r.Intn(len(c13CTs))])}})
	case 3, 4:
		in.Headers = append(in.Headers, c13Header{Key: "Content-Type", Values: []Bs{Bs(c13NearCTs[r.Intn(len(c13NearCTs))])}})
	default:
		k := r.Intn(len(c13CTs))
		if r.Intn(2) == 0 {
			k = r.Intn(17) // the well-formed spellings
		}
		in.Headers = append(in.Headers, c13Header{Key: "Content-Type", Values: []Bs{Bs(c13CTs[k])}})
	}
	for _, k := range c13HeaderKeys {
		if r.Intn(3) == 0 {
			h := c13Header{Key: Bs(k)}
			for j := 1 + r.Intn(3); j > 0; j-- {
				h.Values = append(h.Values, Bs(fmt.Sprintf("v%d-%d", r.Intn(100), j)))
			}
			in.Headers = append(in.Headers, h)
		}
	}
	in.Debug = r.Intn(4) == 0
	if r.Intn(3) == 0 { // credential-bearing headers, one to three lines each; the reader asks for them under some spelling
		for j := 1 + r.Intn(3); j > 0; j-- {
			k := c13SensitiveKeys[r.Intn(len(c13SensitiveKeys))]
			dup := false
			for _, h := range in.Headers {
				dup = dup || string(h.Key) == k
			}
			if dup {
				continue
			}
			h := c13Header{Key: Bs(k)}
			for n := 1 + r.Intn(3); n > 0; n-- {
				h.Values = append(h.Values, Bs(c13SensitiveVals[r.Intn(len(c13SensitiveVals))]))
			}
			in.Headers = append(in.Headers, h)
			in.Queries = append(in.Queries, Bs([]string{k, strings.ToLower(k), strings.ToUpper(k)}[r.Intn(3)]))
		}
	}
	in.Body = Bs(c13GenBody(r))
	if r.Intn(6) == 0 { // the payload is announced as encoded (and mostly is): the reader stores / forwards it as received
		enc := c13Encodings[r.Intn(len(c13Encodings))]
		if r.Intn(3) != 0 {
			doc := []byte(c13BodyTails[r.Intn(len(c13BodyTails))])
			if r.Intn(10) == 0 {
				doc = bytes.Repeat([]byte("{\"k\":\"0123456789abcdef\"},"), 300+r.Intn(50)) // inflates beyond 4096
			}
			in.Body = Bs(c13Encode(doc, r.Intn(c13EncodeShapes)))
		}
		var hs []c13Header
		for _, h := range in.Headers {
			if string(h.Key) != "Content-Length" {
				hs = append(hs, h)
			}
		}
		in.Headers = append(hs, c13Header{Key: "Content-Encoding", Values: []Bs{Bs(enc)}}, c13Header{Key: "Content-Length", Values: []Bs{Bs(strconv.Itoa(len(in.Body)))}})
		if r.Intn(4) == 0 {
			in.Headers = append(in.Headers, c13Header{Key: "Vary", Values: []Bs{"Accept-Encoding"}})
		}
		in.Queries = append(in.Queries, Bs([]string{"Content-Encoding", "content-encoding"}[r.Intn(2)]), "Content-Length")
	} else if r.Intn(12) == 0 { // an encoded payload that is not announced
		in.Body = Bs(c13Encode([]byte(c13BodyTails[r.Intn(len(c13BodyTails))]), r.Intn(c13EncodeShapes)))
		in.Queries = append(in.Queries, "content-encoding")
	}
	r.Shuffle(len(in.Headers), func(a, b int) { in.Headers[a], in.Headers[b] = in.Headers[b], in.Headers[a] })
	in.ReadChunk = []int{0, 0, 1, 2, 3, 5, 512, 4096}[r.Intn(8)]
	in.ViaCons = r.Intn(2) == 0
	for j := r.Intn(4); j > 0; j-- {
		in.Queries = append(in.Queries, Bs(c13QueryNames[r.Intn(len(c13QueryNames))]))
	}
	// the reader compares the headers it sees with the headers sent: the content type (absent stays absent) and the others
	if r.Intn(2) == 0 {
		in.Queries = append(in.Queries, "Content-Type")
	}
	for _, h := range in.Headers {
		if r.Intn(3) == 0 {
			in.Queries = append(in.Queries, h.Key)
		}
	}
	if r.Intn(40) == 0 {
		in.Headers, in.NilHeader = nil, true
	}
	in.OpClient, in.OpCtx, in.RtCtx = r.Intn(3) == 0, r.Intn(3) == 0, r.Intn(2) == 0
	in.Via = c13GenVia(r)
	if in.Via != 0 && r.Intn(2) == 0 { // the decorators act on operations that have a context
		in.OpCtx = true
	}
	return in
}

// c13GenVia: a third of the calls go through one of the tracing decorators of the Runtime
func c13GenVia(r *rand.Rand) int {
	if r.Intn(3) != 0 {
		return 0
	}
	return 1 + r.Intn(2)
}

func c13GenClient(r *rand.Rand) *c13Client {
	return &c13Client{Transport: r.Intn(2) == 0, Redirect: r.Intn(3), Jar: r.Intn(2) == 0, Timeout: r.Intn(3) == 0}
}

func c13GenRoute(r *rand.Rand) c13In {
	in := c13In{Kind: "route", Default: "application/json", OpCtx: r.Intn(3) == 0, RtCtx: r.Intn(2) == 0}
	if r.Intn(4) != 0 {
		in.OpCfg = c13GenClient(r)
	}
	in.RtCfg = c13GenClient(r)
	in.RtPreset = r.Intn(2) == 0
	if !in.RtPreset { // the lazily built client has a transport and a jar only
		in.RtCfg.Redirect, in.RtCfg.Timeout = 0, false
	}
	in.Via = c13GenVia(r)
	if in.Via != 0 && r.Intn(2) == 0 {
		in.OpCtx = true
	}
	if r.Intn(10) == 0 {
		in.Slow = true
		if r.Intn(4) != 0 { // mostly: the client that has to carry the call times out
			if in.OpCfg != nil {
				in.OpCfg.Timeout = true
			} else {
				in.RtPreset, in.RtCfg.Timeout = true, true
			}
		}
	}
	return in
}

// operation deadlines have even ranks, runtime deadlines odd ones: never the same instant
func c13GenCtxCfg(r *rand.Rand, odd int) *c13Ctx {
	if r.Intn(5) == 0 {
		return nil
	}
	c := &c13Ctx{Cancelled: r.Intn(6) == 0, Outer: r.Intn(3) == 0}
	if r.Intn(2) == 0 {
		c.Deadline = 2*(1+r.Intn(4)) + odd
	}
	return c
}

func c13GenCtx(r *rand.Rand) c13In {
	in := c13In{Kind: "ctx", Default: "application/json", OpCtxCfg: c13GenCtxCfg(r, 0), RtCtxCfg: c13GenCtxCfg(r, 1)}
	if r.Intn(2) == 0 {
		in.TimeoutRank = 1 + r.Intn(11)
	}
	in.Action = []int{0, 1, 1, 2}[r.Intn(4)]
	in.Via = c13GenVia(r)
	return in
}

var c13SeqCTs = []string{"application/json", "text/plain; charset=utf-8", "application/x-none", "application/vnd.api+json", ";", "<absent>", "application/xml"}

func c13GenSeq(r *rand.Rand) c13In {
	in := c13In{Kind: "seq", Default: "application/json"}
	for _, k := range []string{"application/json", "text/plain", "application/xml", "*/*"} {
		if r.Intn(3) != 0 {
			in.Registry = append(in.Registry, Bs(k))
		}
	}
	for j, n := 0, 2+r.Intn(6); j < n; j++ {
		code := c13Codes[r.Intn(len(c13Codes))]
		c := c13Call{Code: code, Status: Bs(fmt.Sprintf("%d %s", code, http.StatusText(code))), Token: Bs(fmt.Sprintf("t%d-%d", j, r.Intn(1000)))}
		if ct := c13SeqCTs[r.Intn(len(c13SeqCTs))]; ct != "<absent>" {
			b := Bs(ct)
			c.CT = &b
		}
		in.Calls = append(in.Calls, c)
	}
	in.Debug = r.Intn(4) == 0
	in.Via = c13GenVia(r)
	return in
}

func (c13) Enumerate(tier string) []any {
	var out []any
	// every credential-bearing header (one line / two lines) x Debug option off / on x a delivered and a refused status x content
	// type json / octet-stream (the debug dump leaves the body of the latter out)
	for _, k := range c13SensitiveKeys {
		for n := 1; n <= 2; n++ {
			for _, dbg := range []bool{false, true} {
				for i, code := range []int{200, 401} {
					h := c13Header{Key: Bs(k)}
					for j := 0; j < n; j++ {
						h.Values = append(h.Values, Bs(c13SensitiveVals[(j*5+len(k))%len(c13SensitiveVals)]))
					}
					ct := []string{"application/json", "application/octet-stream"}[(i+n)%2]
					out = append(out, c13In{Kind: "resp", Default: "application/json", Registry: []Bs{"application/json", "*/*"}, Code: code,
						Status: Bs(fmt.Sprintf("%d %s", code, http.StatusText(code))), Body: "{\"a\":1}", Debug: dbg,
						Headers: []c13Header{{Key: "Content-Type", Values: []Bs{Bs(ct)}}, h, {Key: "X-Request-Id", Values: []Bs{"r1"}}},
						Queries: []Bs{Bs(k), Bs(strings.ToLower(k)), "X-Request-Id", "content-type"}})
				}
			}
		}
	}
	// every content-type spelling x registries {none, exact only, star only, both, other only}
	regs := [][]Bs{nil, {"application/json", "text/plain"}, {"*/*"}, {"application/json", "text/plain", "*/*"}, {"application/xml"},
		{"application/json", "application/xml", "text/plain", "text/html", "application/*", "text/*", "json", "application"},
		{"application/vnd.api+json", "application/json", "*/*"}}
	for _, ct := range append(append([]string{"<absent>", "<nil>", ""}, c13CTs...), c13NearCTs...) {
		for _, reg := range regs {
			in := c13In{Kind: "resp", Default: "application/json", Registry: reg, Code: 200, Status: "200 OK", Body: "body", Queries: []Bs{"content-type"}}
			switch ct {
			case "<absent>":
			case "<nil>":
				in.NilHeader = true
			default:
				in.Headers = []c13Header{{Key: "Content-Type", Values: []Bs{Bs(ct)}}}
			}
			out = append(out, in)
		}
	}
	// the default media type standing in for an absent header, itself close to a registered type
	for _, d := range c13NearCTs[:6] {
		for _, reg := range regs[1:4] {
			out = append(out, c13In{Kind: "resp", Default: Bs(d), Registry: reg, Code: 200, Status: "200 OK", Body: "body", Queries: []Bs{"Content-Type"}})
		}
	}
	// the body reaches the reader byte for byte: every way a body may begin x a few documents x media type (registered text
	// types, served by the catch-all, binary, absent header) x how it is read
	bodyCTs := []string{"application/json", "text/csv; charset=utf-8", "application/octet-stream", "<absent>", "text/plain"}
	bn := 0
	for _, head := range c13BodyHeads {
		for _, tail := range []string{"", "{\"a\":1}", "id;name\n1;x\n"} {
			for _, ct := range bodyCTs {
				in := c13In{Kind: "resp", Default: "application/json", Registry: []Bs{"application/json", "text/plain", "*/*"}, Code: 200, Status: "200 OK",
					Body: Bs(head + tail), ReadChunk: []int{0, 1, 3, 4096}[bn%4], ViaCons: bn%3 != 0}
				if ct != "<absent>" {
					in.Headers = []c13Header{{Key: "Content-Type", Values: []Bs{Bs(ct)}}}
				}
				out = append(out, in)
				bn++
			}
		}
	}
	// which client object carries the call: every operation client x every runtime client
	var ops []*c13Client
	var rts []c13In
	for m := 0; m < 24; m++ {
		c := &c13Client{Transport: m&1 != 0, Jar: m&2 != 0, Timeout: m&4 != 0, Redirect: m / 8}
		ops = append(ops, c)
		rts = append(rts, c13In{RtPreset: true, RtCfg: c})
		if c.Redirect == 0 && !c.Timeout {
			rts = append(rts, c13In{RtCfg: c})
		}
	}
	ops = append(ops, nil)
	n := 0
	for _, o := range ops {
		for _, rt := range rts {
			out = append(out, c13In{Kind: "route", Default: "application/json", OpCfg: o, RtCfg: rt.RtCfg, RtPreset: rt.RtPreset, OpCtx: n&1 != 0, RtCtx: n&2 != 0})
			n++
		}
	}
	// against a server slower than the timeouts
	for _, o := range []*c13Client{nil, {Timeout: true}, {Redirect: 2}, {Transport: true, Timeout: true}} {
		for _, rt := range []c13In{{RtCfg: &c13Client{Transport: true}}, {RtPreset: true, RtCfg: &c13Client{Transport: true, Timeout: true}}, {RtPreset: true, RtCfg: &c13Client{Jar: true, Timeout: true}}} {
			out = append(out, c13In{Kind: "route", Default: "application/json", OpCfg: o, RtCfg: rt.RtCfg, RtPreset: rt.RtPreset, Slow: true})
		}
	}
	// calls one after the other on one Runtime, the readers keeping their responses
	bp := func(s string) *Bs { b := Bs(s); return &b }
	seqs := [][]c13Call{
		{{CT: bp("application/json"), Code: 200, Status: "200 OK", Token: "a"}, {CT: bp("application/json"), Code: 404, Status: "404 Not Found", Token: "b"}},
		{{CT: bp("application/json"), Code: 500, Status: "500 Internal Server Error", Token: "a"}, {CT: bp("text/plain"), Code: 200, Status: "200 OK", Token: "b"},
			{CT: bp("application/x-none"), Code: 201, Status: "201 Created", Token: "c"}, {Code: 204, Status: "204 No Content", Token: "d"}},
		{{CT: bp("text/plain"), Code: 200, Status: "200 OK", Token: "same"}, {CT: bp("text/plain"), Code: 200, Status: "200 OK", Token: "same"}, {CT: bp("application/json"), Code: 200, Status: "200 OK", Token: "other"}},
		{{CT: bp(";"), Code: 200, Status: "200 OK", Token: "a"}, {CT: bp("application/json"), Code: 401, Status: "401 Unauthorized", Token: "b"}, {CT: bp("application/json"), Code: 403, Status: "403 Forbidden", Token: "c"},
			{CT: bp("application/json"), Code: 409, Status: "409 Conflict", Token: "d"}, {CT: bp("application/json"), Code: 422, Status: "422 Unprocessable Entity", Token: "e"}, {CT: bp("application/json"), Code: 200, Status: "200 OK", Token: "f"}},
	}
	for _, calls := range seqs {
		for _, reg := range [][]Bs{{"application/json", "text/plain"}, {"application/json", "*/*"}} {
			out = append(out, c13In{Kind: "seq", Default: "application/json", Registry: reg, Calls: calls})
		}
	}
	// which context the call runs under: operation context {absent, plain, earlier deadline, later deadline, cancelled,
	// cancelled with a deadline} x runtime context {the same} x what is cancelled during the call x request timeout
	// {none, earlier than every deadline, between them, later}
	opCtxs := []*c13Ctx{nil, {}, {Deadline: 2}, {Deadline: 6}, {Cancelled: true}, {Deadline: 2, Cancelled: true}, {Deadline: 6, Outer: true}}
	rtCtxs := []*c13Ctx{nil, {}, {Deadline: 3}, {Deadline: 7}, {Cancelled: true}, {Deadline: 3, Cancelled: true}, {Deadline: 3, Outer: true}}
	for _, oc := range opCtxs {
		for _, rc := range rtCtxs {
			for action := 0; action < 3; action++ {
				for _, to := range []int{0, 1, 4, 9} {
					if (to == 1 || to == 9) && action != 1 {
						continue
					}
					out = append(out, c13In{Kind: "ctx", Default: "application/json", OpCtxCfg: oc, RtCtxCfg: rc, Action: action, TimeoutRank: to})
				}
			}
		}
	}
	// client / context precedence: all eight combinations
	// x submitted to the Runtime itself / through each of its tracing decorators
	for via := 0; via < 3; via++ {
		for m := 0; m < 8; m++ {
			out = append(out, c13In{Kind: "resp", Default: "application/json", Registry: []Bs{"application/json"}, Code: 200, Status: "200 OK",
				OpClient: m&1 != 0, OpCtx: m&2 != 0, RtCtx: m&4 != 0, Via: via})
		}
	}
	// through the decorators, an operation with a context: every operation client x a lazily built and a preset runtime client;
	// every pair of contexts, the operation's cancelled during the call
	for via := 1; via < 3; via++ {
		for _, o := range ops {
			out = append(out, c13In{Kind: "route", Default: "application/json", OpCfg: o, RtCfg: &c13Client{Transport: true, Jar: true}, OpCtx: true, Via: via},
				c13In{Kind: "route", Default: "application/json", OpCfg: o, RtCfg: &c13Client{Transport: true, Redirect: 1, Jar: true}, RtPreset: true, OpCtx: true, RtCtx: true, Via: via})
		}
		for _, oc := range opCtxs {
			for _, rc := range rtCtxs {
				out = append(out, c13In{Kind: "ctx", Default: "application/json", OpCtxCfg: oc, RtCtxCfg: rc, Action: 1, TimeoutRank: 4 * (via - 1), Via: via})
			}
		}
		for _, reg := range [][]Bs{{"application/json", "text/plain"}, {"application/json", "*/*"}} {
			out = append(out, c13In{Kind: "seq", Default: "application/json", Registry: reg, Calls: seqs[1], Via: via})
		}
	}
	// a payload announced as encoded reaches the reader as received, header and bytes: every announced encoding x every shape of
	// an encoded (or not encoded) payload x json / octet-stream x how it is read
	en := 0
	for _, enc := range []string{"gzip", "GZIP", "x-gzip", "deflate", "br", "identity", "deflate, gzip", "<absent>"} {
		for shape := -1; shape < c13EncodeShapes; shape++ {
			body := []byte("{\"a\":1,\"b\":\"plain\"}")
			if shape >= 0 {
				body = c13Encode(body, shape)
			}
			in := c13In{Kind: "resp", Default: "application/json", Registry: []Bs{"application/json", "*/*"}, Code: []int{200, 200, 206, 404}[en%4], Body: Bs(body),
				ReadChunk: []int{0, 1, 7, 4096}[en%4], ViaCons: en%3 == 0, Debug: en%5 == 0,
				Headers: []c13Header{{Key: "Content-Type", Values: []Bs{Bs([]string{"application/json", "application/octet-stream"}[en%2])}}},
				Queries: []Bs{"Content-Encoding", "content-length", "Vary", "content-type"}}
			in.Status = Bs(fmt.Sprintf("%d %s", in.Code, http.StatusText(in.Code)))
			if enc != "<absent>" {
				in.Headers = append(in.Headers, c13Header{Key: "Content-Encoding", Values: []Bs{Bs(enc)}}, c13Header{Key: "Vary", Values: []Bs{"Accept-Encoding"}})
			}
			in.Headers = append(in.Headers, c13Header{Key: "Content-Length", Values: []Bs{Bs(strconv.Itoa(len(body)))}})
			out = append(out, in)
			en++
		}
	}
	// concurrent first calls
	for _, g := range []int{2, 8, 32} {
		for _, server := range []bool{false, true} {
			out = append(out, c13In{Kind: "conc", G: g, K: 3, Server: server, Default: "application/json"})
		}
	}
	return out
}
