//go:build verif && (c13 || allprops)

package main

import (
	"bytes"
	"context"
	"encoding/json"
	"fmt"
	"io"
	"math/rand"
	"mime"
	"net/http"
	"net/http/httptest"
	"strconv"
	"strings"
	"sync"
	"sync/atomic"
	"time"

	"github.com/go-openapi/runtime"
	"github.com/go-openapi/runtime/client"
	"github.com/go-openapi/strfmt"
)

// C13 — responses reach the reader with the right consumer. Cases:
//   resp  one Submit against a stub RoundTripper returning a generated response; the reader records the
//         consumer it is handed (by pointer tag) and what it sees of the response
//   conc  G goroutines x K calls on ONE fresh Runtime (first calls released together), every call carrying a
//         token that the (stub or real httptest) server echoes; built with -race

type c13Header struct {
	Key    Bs   `json:"key"` // canonical
	Values []Bs `json:"values"`
}

type c13In struct {
	Kind      string      `json:"kind"`
	Registry  []Bs        `json:"registry,omitempty"` // consumer keys; tag = index+1
	Default   Bs          `json:"default"`
	Code      int         `json:"code,omitempty"`
	Status    Bs          `json:"status,omitempty"`
	Headers   []c13Header `json:"headers,omitempty"`
	Body      Bs          `json:"body,omitempty"`
	Queries   []Bs        `json:"queries,omitempty"` // header names the reader asks for
	OpClient  bool        `json:"op_client,omitempty"`
	OpCtx     bool        `json:"op_ctx,omitempty"`
	RtCtx     bool        `json:"rt_ctx,omitempty"`
	G         int         `json:"g,omitempty"`
	K         int         `json:"k,omitempty"`
	Server    bool        `json:"server,omitempty"` // conc: a real httptest server and http.DefaultTransport-like transport
	PreClient bool        `json:"pre_client,omitempty"`
}

type c13Query struct {
	Key Bs   `json:"key"`
	One Bs   `json:"one"`
	All []Bs `json:"all"`
}

type c13Obs struct {
	Panicked   bool       `json:"panicked,omitempty"`
	Panic      string     `json:"panic,omitempty"`
	Outcome    int        `json:"outcome"`
	Tag        int        `json:"tag"`
	Code       int        `json:"code"`
	Status     Bs         `json:"status"`
	Body       Bs         `json:"body"`
	Msg        Bs         `json:"msg,omitempty"`
	Client     int        `json:"client"`
	Ctx        int        `json:"ctx"`
	Returned   bool       `json:"returned"`
	Queries    []c13Query `json:"queries,omitempty"`
	Parsed     *Bs        `json:"parsed,omitempty"`
	QHeader    Bs         `json:"q_header,omitempty"`
	QDefault   Bs         `json:"q_default,omitempty"`
	Mismatches int        `json:"mismatches"`
	Errors     int        `json:"errors"`
	FirstErr   string     `json:"first_err,omitempty"`
}

type c13 struct{}

func init() { register(c13{}) }

func (c13) ID() string        { return "C13" }
func (c13) CoqModule() string { return "Check_C13" }
func (c13) Rule() string {
	return "Submit against a stub RoundTripper: response Content-Type registered / unregistered / with parameters / other case / absent / empty / several values / malformed, " +
		"consumer registries with and without */* (and with a never-matching upper-case key), default media types, status codes and texts, header sets queried under several spellings, " +
		"operation-level vs transport-level client and context; plus concurrent cases: G goroutines x K calls on one fresh Runtime with correlation tokens, stub transport or a real httptest server, under the race detector. " +
		"Non-trivial: a response case whose registry has at least two entries, or any concurrent case."
}

func (c13) Decode(raw json.RawMessage) (any, error) {
	var in c13In
	err := json.Unmarshal(raw, &in)
	return in, err
}

type c13Consumer struct{ tag int }

func (c *c13Consumer) Consume(r io.Reader, v interface{}) error { return nil }

type c13CtxKey struct{}

type c13Stub struct {
	who   int
	in    *c13In
	used  *int32
	ctxBy *int32
}

func (s *c13Stub) RoundTrip(req *http.Request) (*http.Response, error) {
	atomic.StoreInt32(s.used, int32(s.who))
	switch req.Context().Value(c13CtxKey{}) {
	case "op":
		atomic.StoreInt32(s.ctxBy, 0)
	case "rt":
		atomic.StoreInt32(s.ctxBy, 1)
	default:
		atomic.StoreInt32(s.ctxBy, 2)
	}
	if req.Body != nil {
		_, _ = io.Copy(io.Discard, req.Body)
		_ = req.Body.Close()
	}
	h := http.Header{}
	for _, hd := range s.in.Headers {
		h[string(hd.Key)] = bsList(hd.Values)
	}
	return &http.Response{
		StatusCode: s.in.Code, Status: string(s.in.Status), Proto: "HTTP/1.1", ProtoMajor: 1, ProtoMinor: 1,
		Header: h, Body: io.NopCloser(bytes.NewReader([]byte(s.in.Body))), ContentLength: int64(len(s.in.Body)), Request: req,
	}, nil
}

func c13HeaderCT(in c13In) (string, bool) {
	for _, h := range in.Headers {
		if string(h.Key) == "Content-Type" && len(h.Values) > 0 {
			return string(h.Values[0]), true
		}
	}
	return "", false
}

func (c13) Run(inAny any) any {
	in := inAny.(c13In)
	if in.Kind == "conc" {
		return c13RunConc(in)
	}
	var obs c13Obs
	obs.Client, obs.Ctx = 9, 9
	// oracles
	hct, _ := c13HeaderCT(in)
	eff := hct
	obs.QHeader, obs.QDefault = Bs(strconv.Quote(hct)), Bs(strconv.Quote(string(in.Default)))
	if eff == "" {
		eff = string(in.Default)
	}
	if mt, _, err := mime.ParseMediaType(eff); err == nil {
		b := Bs(mt)
		obs.Parsed = &b
	}
	for _, q := range in.Queries {
		obs.Queries = append(obs.Queries, c13Query{Key: Bs(http.CanonicalHeaderKey(string(q)))})
	}

	rt := client.New("example.com", "/", []string{"http"})
	rt.DefaultMediaType = string(in.Default)
	rt.Producers[string(in.Default)] = runtime.JSONProducer() // the request side must build whatever the default is
	cons := map[string]runtime.Consumer{}
	tags := map[runtime.Consumer]int{}
	for i, k := range in.Registry {
		c := &c13Consumer{tag: i + 1}
		cons[string(k)] = c
		tags[c] = i + 1
	}
	rt.Consumers = cons
	var used, ctxBy int32 = 9, 9
	rt.Transport = &c13Stub{who: 1, in: &in, used: &used, ctxBy: &ctxBy}
	rt.Context = nil
	if in.RtCtx {
		rt.Context = context.WithValue(context.Background(), c13CtxKey{}, "rt")
	}
	type result struct{ token int }
	want := &result{token: 4711}
	reader := runtime.ClientResponseReaderFunc(func(resp runtime.ClientResponse, c runtime.Consumer) (interface{}, error) {
		obs.Tag = tags[c]
		obs.Code, obs.Status = resp.Code(), Bs(resp.Message())
		b, _ := io.ReadAll(resp.Body())
		obs.Body = Bs(b)
		for i, q := range in.Queries {
			obs.Queries[i].One = Bs(resp.GetHeader(string(q)))
			obs.Queries[i].All = toBs(resp.GetHeaders(string(q)))
		}
		return want, nil
	})
	op := &runtime.ClientOperation{
		ID: "op", Method: "GET", PathPattern: "/x", ProducesMediaTypes: []string{"application/json"},
		ConsumesMediaTypes: []string{"application/json"}, Schemes: []string{"http"},
		Params: runtime.ClientRequestWriterFunc(func(runtime.ClientRequest, strfmt.Registry) error { return nil }),
		Reader: reader,
	}
	if in.OpClient {
		op.Client = &http.Client{Transport: &c13Stub{who: 0, in: &in, used: &used, ctxBy: &ctxBy}}
	}
	if in.OpCtx {
		op.Context = context.WithValue(context.Background(), c13CtxKey{}, "op")
	}
	var res interface{}
	var err error
	obs.Panicked, obs.Panic = recoverTo(func() { res, err = rt.Submit(op) })
	obs.Client, obs.Ctx = int(used), int(ctxBy)
	if obs.Panicked {
		return obs
	}
	if err != nil {
		obs.Msg = Bs(err.Error())
		switch {
		case strings.HasPrefix(err.Error(), "parse content type"):
			obs.Outcome = 1
		case strings.HasPrefix(err.Error(), "no consumer"):
			obs.Outcome = 2
		default:
			obs.Outcome = 3
		}
		return obs
	}
	obs.Returned = res == interface{}(want)
	return obs
}

// ---------- concurrent calls ----------

type c13Echo struct{}

func (c13Echo) RoundTrip(req *http.Request) (*http.Response, error) {
	tok := req.Header.Get("X-Token")
	n, _ := strconv.Atoi(tok)
	ct := []string{"application/json", "text/plain; charset=utf-8", "application/x-other"}[n%3]
	h := http.Header{"Content-Type": {ct}, "X-Token": {tok}}
	return &http.Response{StatusCode: 200 + n%3, Status: "200 OK", Proto: "HTTP/1.1", ProtoMajor: 1, ProtoMinor: 1,
		Header: h, Body: io.NopCloser(strings.NewReader(tok)), Request: req}, nil
}

func c13RunConc(in c13In) c13Obs {
	var obs c13Obs
	var host string
	rt := (*client.Runtime)(nil)
	var srv *httptest.Server
	if in.Server {
		srv = httptest.NewServer(http.HandlerFunc(func(w http.ResponseWriter, r *http.Request) {
			tok := r.Header.Get("X-Token")
			n, _ := strconv.Atoi(tok)
			w.Header().Set("Content-Type", []string{"application/json", "text/plain; charset=utf-8", "application/x-other"}[n%3])
			w.Header().Set("X-Token", tok)
			w.WriteHeader(200 + n%3)
			_, _ = io.WriteString(w, tok)
		}))
		defer srv.Close()
		host = strings.TrimPrefix(srv.URL, "http://")
	} else {
		host = "example.com"
	}
	if in.PreClient {
		rt = client.NewWithClient(host, "/", []string{"http"}, &http.Client{Transport: c13Transport(in)})
	} else {
		rt = client.New(host, "/", []string{"http"})
		rt.Transport = c13Transport(in)
	}
	cj, ct, cs := &c13Consumer{1}, &c13Consumer{2}, &c13Consumer{3}
	rt.Consumers = map[string]runtime.Consumer{"application/json": cj, "text/plain": ct, "*/*": cs}
	wantTag := []int{1, 2, 3}
	var mismatches, errs int32
	var firstErr atomic.Value
	start := make(chan struct{})
	var wg sync.WaitGroup
	for g := 0; g < in.G; g++ {
		wg.Add(1)
		go func(g int) {
			defer wg.Done()
			<-start
			for k := 0; k < in.K; k++ {
				token := g*1000 + k
				tokS := strconv.Itoa(token)
				type seen struct {
					tag, code int
					body, hdr string
				}
				op := &runtime.ClientOperation{
					ID: "op" + tokS, Method: "GET", PathPattern: "/t/{id}", ProducesMediaTypes: []string{"application/json"},
					ConsumesMediaTypes: []string{"application/json"}, Schemes: []string{"http"},
					Params: runtime.ClientRequestWriterFunc(func(req runtime.ClientRequest, _ strfmt.Registry) error {
						_ = req.SetPathParam("id", tokS)
						return req.SetHeaderParam("X-Token", tokS)
					}),
					Reader: runtime.ClientResponseReaderFunc(func(resp runtime.ClientResponse, c runtime.Consumer) (interface{}, error) {
						b, _ := io.ReadAll(resp.Body())
						tag := 0
						if cc, ok := c.(*c13Consumer); ok {
							tag = cc.tag
						}
						return seen{tag, resp.Code(), string(b), resp.GetHeader("x-token")}, nil
					}),
				}
				if k%2 == 1 {
					op.Context = context.WithValue(context.Background(), c13CtxKey{}, "op")
				}
				res, err := rt.Submit(op)
				if err != nil {
					atomic.AddInt32(&errs, 1)
					firstErr.CompareAndSwap(nil, err.Error())
					continue
				}
				s, ok := res.(seen)
				if !ok || s.body != tokS || s.hdr != tokS || s.tag != wantTag[token%3] || s.code != 200+token%3 {
					atomic.AddInt32(&mismatches, 1)
				}
			}
		}(g)
	}
	done := make(chan struct{})
	go func() { wg.Wait(); close(done) }()
	close(start)
	select {
	case <-done:
	case <-time.After(60 * time.Second):
		atomic.AddInt32(&errs, 1000)
		firstErr.CompareAndSwap(nil, "watchdog: concurrent calls did not finish")
	}
	obs.Mismatches, obs.Errors = int(mismatches), int(errs)
	if e, ok := firstErr.Load().(string); ok {
		obs.FirstErr = e
	}
	return obs
}

func c13Transport(in c13In) http.RoundTripper {
	if in.Server {
		return &http.Transport{MaxIdleConnsPerHost: 4}
	}
	return c13Echo{}
}

// ---------- rendering ----------

func (c13) Coq(inAny any, obsAny any) string {
	in, obs := inAny.(c13In), obsAny.(c13Obs)
	if in.Kind == "conc" {
		return fmt.Sprintf("CConc %d %d %d %d", in.G, in.K, obs.Mismatches, obs.Errors)
	}
	reg := make([]string, len(in.Registry))
	for i, k := range in.Registry {
		reg[i] = coqPair(coqBytes(string(k)), strconv.Itoa(i+1))
	}
	regT := "[" + strings.Join(reg, "; ") + "]"
	if len(reg) == 0 {
		regT = "[]"
	}
	parsed := "None"
	if obs.Parsed != nil {
		parsed = "(Some " + coqBytes(string(*obs.Parsed)) + ")"
	}
	hdrs := coqList(in.Headers, func(h c13Header) string { return coqPair(coqBytes(string(h.Key)), coqBytesList(bsList(h.Values))) })
	resp := fmt.Sprintf("(mkresp %d %s %s %s)", in.Code, coqBytes(string(in.Status)), hdrs, coqBytes(string(in.Body)))
	queries := coqList(obs.Queries, func(q c13Query) string {
		return "(" + coqBytes(string(q.Key)) + ", " + coqBytes(string(q.One)) + ", " + coqBytesList(bsList(q.All)) + ")"
	})
	o := fmt.Sprintf("(mkrobs %s %d %d %d %s %s %s %d %d %s)", coqBool(obs.Panicked), obs.Outcome, obs.Tag, obs.Code,
		coqBytes(string(obs.Status)), coqBytes(string(obs.Body)), coqBytes(string(obs.Msg)), obs.Client, obs.Ctx, coqBool(obs.Returned))
	return fmt.Sprintf("CResp %s %s %s %s %s %s %s %s %s %s %s", regT, coqBytes(string(in.Default)), parsed,
		coqBytes(string(obs.QHeader)), coqBytes(string(obs.QDefault)), resp, queries,
		coqBool(in.OpClient), coqBool(in.OpCtx), coqBool(in.RtCtx), o)
}

func (c13) Classify(inAny any, obsAny any) []string { return nil }

func (c13) Category(inAny any, obsAny any) (string, bool) {
	in, obs := inAny.(c13In), obsAny.(c13Obs)
	if in.Kind == "conc" {
		m := "stub"
		if in.Server {
			m = "server"
		}
		if in.PreClient {
			m += "+preset-client"
		}
		return "conc/" + m, true
	}
	hct, has := c13HeaderCT(in)
	star := false
	for _, k := range in.Registry {
		if string(k) == "*/*" {
			star = true
		}
	}
	ct := "header"
	switch {
	case !has:
		ct = "absent"
	case hct == "":
		ct = "empty"
	case obs.Parsed == nil:
		ct = "malformed"
	case strings.Contains(hct, ";"):
		ct = "params"
	case strings.ToLower(hct) != hct:
		ct = "uppercase"
	}
	out := []string{"delivered", "parse-error", "no-consumer", "other-error"}[obs.Outcome]
	if obs.Panicked {
		out = "panic"
	}
	reg := "nostar"
	if star {
		reg = "star"
	}
	who := "rt-client"
	if in.OpClient {
		who = "op-client"
	}
	return "resp/" + ct + "/" + reg + "/" + out + "/" + who, len(in.Registry) >= 2
}

// ---------- generator ----------

var c13Keys = []string{"application/json", "text/plain", "application/xml", "application/x-custom", "Application/Upper", "text/html", "*/*"}
var c13CTs = []string{
	"application/json", "text/plain", "application/xml", "application/x-custom", "application/x-unknown", "image/png",
	"application/json; charset=utf-8", "text/plain;charset=\"utf-8\"", "Application/JSON", "TEXT/PLAIN; Charset=UTF-8", "application/upper",
	"Application/Upper", " application/json", "application/json ", "text/html; q=0.5; level=1", "*/*", "application/*",
	// malformed
	"text/plain; charset", "text/plain;;", ";", "/", "text/", "a b", "text/plain; x=\"", "text/plain; a=1; a=2", "\"quoted\"/type", "text/pl\\ain", "caf\xc3\xa9/x", "text/plain; =v",
}
var c13Defaults = []string{"application/json", "application/json", "text/plain", "application/x-default", "application/x-custom", "", "not a type;;"}
var c13Codes = []int{200, 200, 201, 204, 206, 301, 304, 400, 401, 404, 418, 500, 503, 599}
var c13HeaderKeys = []string{"X-Request-Id", "X-Rate-Limit", "Etag", "Set-Cookie", "Content-Length", "X-Multi"}
var c13QueryNames = []string{"x-request-id", "X-REQUEST-ID", "X-Request-Id", "etag", "ETag", "content-type", "Content-Type", "X-Missing", "x-multi", "set-cookie", "x rate limit", "X-Rate-Limit"}

func (c13) Gen(r *rand.Rand, tier string, i int) any {
	if i%97 == 96 {
		return c13In{Kind: "conc", G: 2 + r.Intn(15), K: 1 + r.Intn(4), Server: r.Intn(3) == 0, PreClient: r.Intn(4) == 0, Default: "application/json"}
	}
	in := c13In{Kind: "resp", Default: Bs(c13Defaults[r.Intn(len(c13Defaults))])}
	perm := r.Perm(len(c13Keys))
	n := r.Intn(len(c13Keys) + 1)
	for _, j := range perm[:n] {
		in.Registry = append(in.Registry, Bs(c13Keys[j]))
	}
	in.Code = c13Codes[r.Intn(len(c13Codes))]
	in.Status = Bs(fmt.Sprintf("%d %s", in.Code, http.StatusText(in.Code)))
	if r.Intn(5) == 0 {
		in.Status = Bs([]string{"200 Fine", "", "OK", "999 whatever it is"}[r.Intn(4)])
	}
	switch r.Intn(10) {
	case 0: // no Content-Type
	case 1:
		in.Headers = append(in.Headers, c13Header{Key: "Content-Type", Values: []Bs{""}})
	case 2:
		in.Headers = append(in.Headers, c13Header{Key: "Content-Type", Values: []Bs{Bs(c13CTs[r.Intn(len(c13CTs))]), Bs(c13CTs[r.Intn(len(c13CTs))])}})
	default:
		k := r.Intn(len(c13CTs))
		if r.Intn(2) == 0 {
			k = r.Intn(17) // the well-formed spellings
		}
		in.Headers = append(in.Headers, c13Header{Key: "Content-Type", Values: []Bs{Bs(c13CTs[k])}})
	}
	for _, k := range c13HeaderKeys {
		if r.Intn(3) == 0 {
			h := c13Header{Key: Bs(k)}
			for j := 1 + r.Intn(3); j > 0; j-- {
				h.Values = append(h.Values, Bs(fmt.Sprintf("v%d-%d", r.Intn(100), j)))
			}
			in.Headers = append(in.Headers, h)
		}
	}
	r.Shuffle(len(in.Headers), func(a, b int) { in.Headers[a], in.Headers[b] = in.Headers[b], in.Headers[a] })
	body := make([]byte, r.Intn(200))
	for j := range body {
		body[j] = byte(r.Intn(256))
	}
	in.Body = Bs(body)
	for j := r.Intn(4); j > 0; j-- {
		in.Queries = append(in.Queries, Bs(c13QueryNames[r.Intn(len(c13QueryNames))]))
	}
	in.OpClient, in.OpCtx, in.RtCtx = r.Intn(3) == 0, r.Intn(3) == 0, r.Intn(2) == 0
	return in
}

func (c13) Enumerate(tier string) []any {
	var out []any
	// every content-type spelling x registries {none, exact only, star only, both, other only}
	regs := [][]Bs{nil, {"application/json", "text/plain"}, {"*/*"}, {"application/json", "text/plain", "*/*"}, {"application/xml"}}
	for _, ct := range append([]string{"<absent>", ""}, c13CTs...) {
		for _, reg := range regs {
			in := c13In{Kind: "resp", Default: "application/json", Registry: reg, Code: 200, Status: "200 OK", Body: "body", Queries: []Bs{"content-type"}}
			if ct != "<absent>" {
				in.Headers = []c13Header{{Key: "Content-Type", Values: []Bs{Bs(ct)}}}
			}
			out = append(out, in)
		}
	}
	// client / context precedence: all eight combinations
	for m := 0; m < 8; m++ {
		out = append(out, c13In{Kind: "resp", Default: "application/json", Registry: []Bs{"application/json"}, Code: 200, Status: "200 OK",
			OpClient: m&1 != 0, OpCtx: m&2 != 0, RtCtx: m&4 != 0})
	}
	// concurrent first calls
	for _, g := range []int{2, 8, 32} {
		for _, server := range []bool{false, true} {
			out = append(out, c13In{Kind: "conc", G: g, K: 3, Server: server, Default: "application/json"})
		}
	}
	return out
}
