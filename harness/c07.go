//go:build verif && (c07 || allprops)

package main

import (
	"encoding/json"
	"fmt"
	"math/rand"
	"net/http"
	"net/http/httptest"
	"strings"

	"github.com/go-openapi/loads"
	"github.com/go-openapi/runtime"
	"github.com/go-openapi/runtime/middleware/untyped"

	"github.com/go-openapi/runtime/middleware"
	"github.com/go-openapi/runtime/middleware/header"
)

// C07 — Accept negotiation. Cases:
//   octet     the 256-entry octet class table (exhaustive)
//   qual      expectQuality on one literal
//   qualpair  two literals, monotonicity of the resulting qualities
//   parse     ParseAccept on header lines (with the ranges the generator intended, when known)
//   neg       NegotiateContentType
//   enc       NegotiateContentEncoding
//   handler   a GET through the real API handler of a one-operation description: 406 and no handler iff nothing is acceptable

type c07Range struct {
	Value Bs `json:"value"`
	Q     Bs `json:"q"`    // literal text after q=, "" when absent
	HasQ  bool `json:"has_q"`
}

type c07In struct {
	Kind     string     `json:"kind"`
	C        int        `json:"c,omitempty"`
	S        Bs         `json:"s,omitempty"`
	S2       Bs         `json:"s2,omitempty"`
	Lines    []Bs       `json:"lines,omitempty"`
	Offers   []Bs       `json:"offers,omitempty"`
	Default  Bs         `json:"default,omitempty"`
	Intended []c07Range `json:"intended,omitempty"` // ranges the header was built from (structured stream only)
	ExtAfterQ bool      `json:"ext_after_q,omitempty"`
	QTailParam bool     `json:"q_tail_param,omitempty"`
	APIProd   bool      `json:"api_prod,omitempty"` // handler cases: the description also lists produces at the API level, in the reverse order and with extra types
	Code      int       `json:"code,omitempty"`  // handler cases: the operation's declared success status (0 = 200)
	Steps     [][]Bs    `json:"steps,omitempty"` // hseq: the Accept header lines of the successive requests on ONE handler instance // some parameter name ends in the letter q (freq=3): its "q=" is taken for the weight
}

type c07Spec struct {
	Value Bs      `json:"value"`
	Q     float64 `json:"-"`
	QText string  `json:"q"`
}

type c07Obs struct {
	Panicked bool      `json:"panicked,omitempty"`
	Panic    string    `json:"panic,omitempty"`
	T        int       `json:"t,omitempty"`
	F        float64   `json:"-"`
	FText    string    `json:"f,omitempty"`
	F2       float64   `json:"-"`
	F2Text   string    `json:"f2,omitempty"`
	Rest     Bs        `json:"rest,omitempty"`
	Specs    []c07Spec `json:"specs,omitempty"`
	R        Bs        `json:"r,omitempty"`
	Status   int       `json:"status,omitempty"`
	Ran      bool      `json:"ran,omitempty"`
	Route    []Bs      `json:"route_offers,omitempty"` // MatchedRoute.Produces: the offers in the order the route really uses
	CT       Bs        `json:"content_type,omitempty"`
	Seq      []c07Step `json:"seq,omitempty"`
}

type c07Step struct {
	Status int  `json:"status"`
	Ran    bool `json:"ran"`
	CT     Bs   `json:"content_type"`
}

type c07 struct{}

func init() { register(c07{}) }

func (c07) ID() string        { return "C07" }
func (c07) CoqModule() string { return "Check_C07" }
func (c07) Rule() string {
	return "octet table exhaustive; q literals incl. 0-80 digits and malformed; literal pairs differing at every digit position; " +
		"Accept headers from a range grammar (wildcards, params before/after q, odd whitespace, several lines) plus arbitrary-byte lines; " +
		"offer lists with duplicates/parameters/equal-quality competitors. Non-trivial: a q literal with a fraction, a header yielding >=2 ranges, " +
		"or a negotiation where >=2 (offer,range) pairs match."
}

func (c07) Decode(raw json.RawMessage) (any, error) {
	var in c07In
	err := json.Unmarshal(raw, &in)
	return in, err
}

func (c07) Enumerate(tier string) []any {
	var out []any
	for c := 0; c < 256; c++ {
		out = append(out, c07In{Kind: "octet", C: c})
	}
	// literal pairs: common prefix, differing at every digit position up to 80
	for p := 0; p < 80; p++ {
		pre := strings.Repeat("9", p)
		out = append(out, c07In{Kind: "qualpair", S: Bs("0." + pre + "1" + strings.Repeat("0", 80-p)), S2: Bs("0." + pre + "2")})
		out = append(out, c07In{Kind: "qualpair", S: Bs("0." + strings.Repeat("0", p) + "1"), S2: Bs("0." + strings.Repeat("0", p) + "09")})
	}
	for n := 0; n <= 80; n++ {
		out = append(out, c07In{Kind: "qual", S: Bs("0." + strings.Repeat("7", n))})
		out = append(out, c07In{Kind: "qual", S: Bs("1." + strings.Repeat("0", n))})
		out = append(out, c07In{Kind: "qualpair", S: Bs("0." + strings.Repeat("9", n)), S2: "0.5"})
		out = append(out, c07In{Kind: "qualpair", S: Bs("0." + strings.Repeat("0", n)), S2: "0.001"})
	}
	return out
}

var c07Types = []string{"text", "application", "image", "*"}
var c07Subs = []string{"plain", "json", "xml", "html", "csv", "*"}
var c07QLits = []string{"0", "1", "0.5", "0.8", "0.9", "0.300", "1.0", "0.0", "0.000", ".5", "0.", "1.", "0.5", "0.8", "0.80", "0.7999", "0.10", "0.1", "2", "-1", "abc", "", "1.5", "0.999999999999999", "0.9999999999999999", "0.1234567890123456789"}
var c07WS = []string{"", "", "", " ", "  ", "\t", " \t ", "\r\n "}

func c07Digits(r *rand.Rand, n int) string {
	b := make([]byte, n)
	for i := range b {
		b[i] = byte('0' + r.Intn(10))
	}
	return string(b)
}

func c07QLit(r *rand.Rand) string {
	switch r.Intn(10) {
	case 0:
		return "0." + c07Digits(r, r.Intn(81))
	case 1:
		return "1." + c07Digits(r, r.Intn(30))
	case 2:
		return "0." + c07Digits(r, 1+r.Intn(4))
	default:
		return c07QLits[r.Intn(len(c07QLits))]
	}
}

func c07Media(r *rand.Rand, wild bool) string {
	t := c07Types[r.Intn(len(c07Types))]
	s := c07Subs[r.Intn(len(c07Subs))]
	if !wild {
		for t == "*" {
			t = c07Types[r.Intn(len(c07Types))]
		}
		for s == "*" {
			s = c07Subs[r.Intn(len(c07Subs))]
		}
	}
	if t == "*" {
		s = "*"
	}
	return t + "/" + s
}

func c07ws(r *rand.Rand) string { return c07WS[r.Intn(len(c07WS))] }

func c07Junk(r *rand.Rand) string {
	alpha := "aq=;,/*. \t01\"\\:x\x00\xff"
	n := r.Intn(24)
	b := make([]byte, n)
	for i := range b {
		b[i] = alpha[r.Intn(len(alpha))]
	}
	return string(b)
}

// c07Header builds header lines from a list of ranges; returns lines, the intended ranges and
// whether some q is followed by an extension parameter.
func c07Header(r *rand.Rand) (lines []Bs, intended []c07Range, extAfterQ bool) {
	lines, intended, extAfterQ, _ = c07HeaderQ(r, false)
	return
}

// c07HeaderQ is c07Header; with tail it may also write parameters whose name ends in q before the weight.
func c07HeaderQ(r *rand.Rand, tail bool) (lines []Bs, intended []c07Range, extAfterQ bool, qTail bool) {
	nlines := 1
	if r.Intn(4) == 0 {
		nlines = 2
	}
	for l := 0; l < nlines; l++ {
		nr := 1 + r.Intn(4)
		var parts []string
		for i := 0; i < nr; i++ {
			v := c07Media(r, true)
			if i > 0 && r.Intn(4) == 0 { // the same range once more, usually with another weight
				v = string(intended[len(intended)-1-r.Intn(i)].Value)
			}
			var sb strings.Builder
			sb.WriteString(v)
			rg := c07Range{Value: Bs(v)}
			if r.Intn(5) == 0 { // parameter before q
				sb.WriteString(c07ws(r) + ";" + c07ws(r) + []string{"level=1", "level=1", "level", "a=b/c", "v=\"x\""}[r.Intn(5)])
			}
			if tail && r.Intn(3) == 0 {
				sb.WriteString(";" + []string{"freq=3", "seq=0.5", "iq=1"}[r.Intn(3)])
				qTail = true
			}
			if r.Intn(3) != 0 {
				q := c07QLit(r)
				sb.WriteString(c07ws(r) + ";" + c07ws(r) + "q=" + q)
				rg.Q, rg.HasQ = Bs(q), true
				if r.Intn(12) == 0 { // extension after q: outside the well-formed sub-grammar
					sb.WriteString(";ext=1")
					if i < nr-1 || true {
						extAfterQ = true
					}
				}
			}
			intended = append(intended, rg)
			parts = append(parts, sb.String())
		}
		sep := c07ws(r) + "," + c07ws(r)
		line := strings.Join(parts, sep)
		switch r.Intn(8) {
		case 0:
			line += "," // trailing comma: the line simply ends there
		case 1:
			line += " , "
		}
		lines = append(lines, Bs(line))
		if nlines > 1 && l == 0 && r.Intn(3) == 0 {
			lines = append(lines, Bs([]string{"", " ", ","}[r.Intn(3)])) // an empty line between two header lines
		}
	}
	return
}

var _ = c07HeaderQ

// c07LongHeader writes a header of many ranges (around and well beyond 32, on one line or spread over several) whose
// decisive range comes last: fillers that match no offer, optionally a weak range for one offer at the front, and a
// strong range for another (or the same) offer at the very end.
func c07LongHeader(r *rand.Rand, offers []Bs) []Bs {
	n := []int{28, 30, 31, 32, 33, 34, 40, 64, 100, 250}[r.Intn(10)]
	var parts []string
	if r.Intn(2) == 0 {
		parts = append(parts, string(offers[r.Intn(len(offers))])+";q=0.1")
	}
	for j := 0; j < n; j++ {
		parts = append(parts, fmt.Sprintf("fill/t%d;q=0.%d", j, 1+r.Intn(8)))
	}
	last := string(offers[r.Intn(len(offers))])
	if i := strings.IndexByte(last, ';'); i >= 0 {
		last = last[:i]
	}
	parts = append(parts, strings.TrimSpace(last)+[]string{";q=0.9", "", ";q=0.95"}[r.Intn(3)])
	nl := 1 + r.Intn(3)
	var lines []Bs
	per := (len(parts) + nl - 1) / nl
	for len(parts) > 0 {
		k := per
		if k > len(parts) {
			k = len(parts)
		}
		lines = append(lines, Bs(strings.Join(parts[:k], ", ")))
		parts = parts[k:]
	}
	return lines
}

// c07PrefixCase: offers one of which spells a proper prefix of another's media type (json / json-patch+json, xml / xml-dtd,
// csv / csv-schema), in both orders, asked for by exact name; matching is by equality, never by prefix.
func c07PrefixCase(r *rand.Rand) (lines []Bs, offers []Bs) {
	fam := [][2]string{{"application/json", "application/json-patch+json"}, {"application/json", "application/jsonl"},
		{"application/xml", "application/xml-dtd"}, {"text/csv", "text/csv-schema"}, {"text/plain", "text/plain2"}}[r.Intn(5)]
	short, long := fam[0], fam[1]
	switch r.Intn(3) {
	case 0:
		offers = []Bs{Bs(long), Bs(short)}
	case 1:
		offers = []Bs{Bs(short), Bs(long)}
	default:
		offers = []Bs{Bs(long)} // the short name matches nothing here
	}
	if r.Intn(3) == 0 {
		offers = append(offers, Bs("image/png"))
	}
	ask := []string{short, long, short + ";q=0.9, " + long + ";q=0.1", long + ";q=0.9, " + short + ";q=0.1", short[:len(short)-1]}[r.Intn(5)]
	return []Bs{Bs(ask)}, offers
}

// c07UpperCase: an offer whose registered spelling has upper-case letters, asked for in that very spelling (exactly or by
// its type wildcard): matching compares the range with the offer as spelled.
func c07UpperCase(r *rand.Rand) (lines []Bs, offers []Bs) {
	up := []string{"application/EDI-X12", "application/EDIFACT", "application/vnd.MFER", "text/vnd.DMClientScript", "Text/Plain"}[r.Intn(5)]
	offers = []Bs{Bs(up)}
	switch r.Intn(3) {
	case 0:
		offers = []Bs{"image/png", Bs(up)}
	case 1:
		offers = []Bs{Bs(up + "; charset=utf-8"), "text/csv"}
	}
	typ := up[:strings.IndexByte(up, '/')]
	ask := []string{up, up + ";q=0.9, image/png;q=0.2", typ + "/*", strings.ToLower(up), up + ", */*;q=0.1"}[r.Intn(5)]
	return []Bs{Bs(ask)}, offers
}

// c07TieCase: the API default (application/json) is offered BEFORE another type and the Accept header ties them (absent,
// wildcard, type wildcard, both at one weight): Respond offers the default last, so the other type wins.
func c07TieCase(r *rand.Rand) (lines []Bs, offers []Bs) {
	other := []string{"application/xml", "text/plain", "application/csv", "image/png"}[r.Intn(4)]
	switch r.Intn(3) {
	case 0:
		offers = []Bs{"application/json", Bs(other)}
	case 1:
		offers = []Bs{"text/html", "application/json", Bs(other)}
	default:
		offers = []Bs{"application/json", Bs(other), "text/csv"}
	}
	switch r.Intn(5) {
	case 0: // no Accept header
	case 1:
		lines = []Bs{"*/*"}
	case 2:
		lines = []Bs{"application/*"}
	case 3:
		lines = []Bs{Bs("application/json;q=0.8, " + other + ";q=0.8")}
	default:
		lines = []Bs{Bs(other + ", application/json")}
	}
	return
}

// c07DupHeader lists one range twice with two weights and puts a competitor for another offer between the weights
// (or level with the higher one), in every order, on one line or two.
func c07DupHeader(r *rand.Rand, offers []Bs) []Bs {
	bare := func(o Bs) string {
		v := string(o)
		if i := strings.IndexByte(v, ';'); i >= 0 {
			v = v[:i]
		}
		return strings.TrimSpace(v)
	}
	a := bare(offers[r.Intn(len(offers))])
	b := bare(offers[r.Intn(len(offers))])
	hi, mid, lo := "0.9", []string{"0.5", "0.9", "0.21"}[r.Intn(3)], []string{"0.2", "0.05", "0.001"}[r.Intn(3)]
	parts := []string{a + ";q=" + hi, b + ";q=" + mid, a + ";q=" + lo}
	r.Shuffle(len(parts), func(i, j int) { parts[i], parts[j] = parts[j], parts[i] })
	if r.Intn(3) == 0 {
		return []Bs{Bs(parts[0]), Bs(parts[1] + ", " + parts[2])}
	}
	return []Bs{Bs(strings.Join(parts, ", "))}
}

func c07Offers(r *rand.Rand) []Bs {
	n := r.Intn(5)
	var out []Bs
	for i := 0; i < n; i++ {
		o := c07Media(r, false)
		switch r.Intn(8) {
		case 0:
			o += "; charset=utf-8"
		case 1:
			o += ";v=2"
		case 2:
			if len(out) > 0 {
				o = string(out[r.Intn(len(out))])
			}
		}
		out = append(out, Bs(o))
	}
	return out
}

func (c07) Gen(r *rand.Rand, tier string, i int) any {
	switch k := r.Intn(20); {
	case k < 2:
		if r.Intn(3) == 0 {
			return c07In{Kind: "qual", S: Bs(c07Junk(r))}
		}
		return c07In{Kind: "qual", S: Bs(c07QLit(r) + []string{"", "", ";x", ", a/b", " ", "e5"}[r.Intn(6)])}
	case k < 4:
		a := c07QLit(r)
		b := c07QLit(r)
		if r.Intn(2) == 0 && strings.Contains(a, ".") { // near neighbours
			b = a + c07Digits(r, 1+r.Intn(20))
		}
		return c07In{Kind: "qualpair", S: Bs(a), S2: Bs(b)}
	case k < 8:
		if r.Intn(5) == 0 {
			n := 1 + r.Intn(2)
			var ls []Bs
			for j := 0; j < n; j++ {
				ls = append(ls, Bs(c07Junk(r)))
			}
			return c07In{Kind: "parse", Lines: ls}
		}
		ls, intended, ext, qt := c07HeaderQ(r, r.Intn(12) == 0)
		return c07In{Kind: "parse", Lines: ls, Intended: intended, ExtAfterQ: ext, QTailParam: qt}
	case k < 16:
		var ls []Bs
		var ext bool
		switch r.Intn(10) {
		case 0: // no Accept header
		case 1:
			ls = []Bs{Bs(c07Junk(r))}
		default:
			ls, _, ext = c07Header(r)
		}
		def := Bs("")
		if r.Intn(2) == 0 {
			def = Bs(c07Media(r, false))
		}
		offers := c07Offers(r)
		if r.Intn(12) == 0 {
			ls, offers = c07PrefixCase(r)
			ext = false
		} else if r.Intn(14) == 0 {
			ls, offers = c07UpperCase(r)
			ext = false
		} else if len(offers) > 0 && r.Intn(10) == 0 {
			ls, ext = c07LongHeader(r, offers), false
		} else if len(offers) > 1 && r.Intn(8) == 0 {
			ls, ext = c07DupHeader(r, offers), false
		}
		return c07In{Kind: "neg", Lines: ls, Offers: offers, Default: def, ExtAfterQ: ext}
	case k < 18:
		var ls []Bs
		switch r.Intn(8) {
		case 0:
		case 1:
			ls = []Bs{Bs(c07Junk(r))}
		default:
			ls, _, _ = c07Header(r)
		}
		seen := map[string]bool{}
		var offers []Bs
		for j := 1 + r.Intn(3); j > 0; j-- {
			o := c07Media(r, false)
			if !seen[o] {
				seen[o] = true
				offers = append(offers, Bs(o))
			}
		}
		code := []int{0, 0, 201, 204, 204}[r.Intn(5)]
		if r.Intn(8) == 0 {
			l2, o2 := c07PrefixCase(r)
			return c07In{Kind: "handler", Lines: l2, Offers: o2, Code: code, APIProd: r.Intn(2) == 0}
		}
		if r.Intn(10) == 0 {
			l2, o2 := c07UpperCase(r)
			return c07In{Kind: "handler", Lines: l2, Offers: o2, Code: code, APIProd: r.Intn(2) == 0}
		}
		if r.Intn(6) == 0 {
			l2, o2 := c07TieCase(r)
			return c07In{Kind: "handler", Lines: l2, Offers: o2, Code: code, APIProd: r.Intn(2) == 0}
		}
		if len(offers) > 0 && r.Intn(8) == 0 {
			return c07In{Kind: "handler", Lines: c07LongHeader(r, offers), Offers: offers, Code: code}
		}
		if len(offers) > 1 && r.Intn(8) == 0 {
			return c07In{Kind: "handler", Lines: c07DupHeader(r, offers), Offers: offers, Code: code}
		}
		if r.Intn(3) == 0 {
			var steps [][]Bs
			for j := 2 + r.Intn(4); j > 0; j-- {
				sl, _, _ := c07Header(r)
				if r.Intn(3) == 0 && len(steps) > 0 { // same first line as the previous request, another second line
					sl = append([]Bs{steps[len(steps)-1][0]}, Bs(c07Media(r, true)+[]string{"", ";q=0.9", ";q=0"}[r.Intn(3)]))
				}
				if len(sl) == 0 {
					sl = []Bs{Bs("*/*")}
				}
				steps = append(steps, sl)
			}
			return c07In{Kind: "hseq", Offers: offers, Code: code, Steps: steps, APIProd: r.Intn(3) == 0}
		}
		return c07In{Kind: "handler", Lines: ls, Offers: offers, Code: code, APIProd: r.Intn(3) == 0}
	default:
		encs := []string{"gzip", "deflate", "br", "identity", "*"}
		var parts []string
		for j := r.Intn(4); j >= 0; j-- {
			p := encs[r.Intn(len(encs))]
			if r.Intn(2) == 0 {
				p += ";q=" + c07QLit(r)
			}
			parts = append(parts, p)
		}
		var offers []Bs
		for j := r.Intn(3); j >= 0; j-- {
			offers = append(offers, Bs(encs[r.Intn(4)]))
		}
		var ls []Bs
		if r.Intn(8) != 0 {
			ls = []Bs{Bs(strings.Join(parts, c07ws(r)+","+c07ws(r)))}
		}
		return c07In{Kind: "enc", Lines: ls, Offers: offers}
	}
}

func c07Hdr(key string, lines []Bs) http.Header {
	h := http.Header{}
	if len(lines) > 0 {
		h[key] = bsList(lines)
	}
	return h
}

func (c07) Run(inAny any) any {
	in := inAny.(c07In)
	var obs c07Obs
	obs.Panicked, obs.Panic = recoverTo(func() {
		switch in.Kind {
		case "octet":
			obs.T = int(header.VerifOctetType(byte(in.C)))
		case "qual":
			f, rest := header.VerifExpectQuality(string(in.S))
			obs.F, obs.Rest = f, Bs(rest)
			obs.FText = fmt.Sprint(f)
		case "qualpair":
			obs.F, _ = header.VerifExpectQuality(string(in.S))
			obs.F2, _ = header.VerifExpectQuality(string(in.S2))
			obs.FText, obs.F2Text = fmt.Sprint(obs.F), fmt.Sprint(obs.F2)
		case "parse":
			for _, sp := range header.ParseAccept(c07Hdr("Accept", in.Lines), "Accept") {
				obs.Specs = append(obs.Specs, c07Spec{Value: Bs(sp.Value), Q: sp.Q, QText: fmt.Sprint(sp.Q)})
			}
		case "neg":
			req := &http.Request{Header: c07Hdr("Accept", in.Lines)}
			obs.R = Bs(middleware.NegotiateContentType(req, bsList(in.Offers), string(in.Default)))
		case "enc":
			req := &http.Request{Header: c07Hdr("Accept-Encoding", in.Lines)}
			obs.R = Bs(middleware.NegotiateContentEncoding(req, bsList(in.Offers)))
		case "handler":
			c07RunHandler(in, &obs)
		case "hseq":
			h, route := c07Handler(in, &obs)
			obs.Route = route
			for _, lines := range in.Steps {
				obs.Ran = false
				req := httptest.NewRequest("GET", "/x", nil)
				req.Header = c07Hdr("Accept", lines)
				rec := httptest.NewRecorder()
				h.ServeHTTP(rec, req)
				obs.Seq = append(obs.Seq, c07Step{rec.Code, obs.Ran, Bs(rec.Header().Get("Content-Type"))})
			}
		}
	})
	return obs
}

// c07Handler builds the API handler of a one-operation description producing in.Offers with the declared success status.
func c07Handler(in c07In, obs *c07Obs) (http.Handler, []Bs) {
	prod, _ := json.Marshal(bsList(in.Offers))
	code := in.Code
	if code == 0 {
		code = 200
	}
	api0 := ""
	if in.APIProd && len(in.Offers) > 0 { // the API level lists the same types in the reverse order, and more: the operation's own order decides
		rev := []string{"application/json", "text/x-extra"}
		for i := len(in.Offers) - 1; i >= 0; i-- {
			rev = append(rev, string(in.Offers[i]))
		}
		b, _ := json.Marshal(rev)
		api0 = `"produces":` + string(b) + `,`
	}
	doc := fmt.Sprintf(`{"swagger":"2.0","info":{"title":"t","version":"1"},%s"paths":{"/x":{"get":{"produces":%s,"responses":{"%d":{"description":"ok"}}}}}}`, api0, prod, code)
	spec, err := loads.Analyzed(json.RawMessage(doc), "")
	if err != nil {
		panic(err)
	}
	api := untyped.NewAPI(spec)
	for _, o := range in.Offers {
		api.RegisterProducer(string(o), runtime.TextProducer())
	}
	api.RegisterOperation("get", "/x", runtime.OperationHandlerFunc(func(interface{}) (interface{}, error) {
		obs.Ran = true
		return "ok", nil
	}))
	ctx := middleware.NewContext(spec, api, nil)
	h := ctx.APIHandler(nil)
	var route []Bs
	if mr, _, ok := ctx.RouteInfo(httptest.NewRequest("GET", "/x", nil)); ok {
		route = toBs(mr.Produces)
	}
	return h, route
}

func c07RunHandler(in c07In, obs *c07Obs) {
	h, route := c07Handler(in, obs)
	obs.Route = route
	req := httptest.NewRequest("GET", "/x", nil)
	req.Header = c07Hdr("Accept", in.Lines)
	rec := httptest.NewRecorder()
	h.ServeHTTP(rec, req)
	obs.Status = rec.Code
	obs.CT = Bs(rec.Header().Get("Content-Type"))
}

func (c07) Coq(inAny any, obsAny any) string {
	in, obs := inAny.(c07In), obsAny.(c07Obs)
	lines := coqBytesList(bsList(in.Lines))
	switch in.Kind {
	case "octet":
		return fmt.Sprintf("COctet %d %d", in.C, obs.T)
	case "qual":
		return fmt.Sprintf("CQual %s %s %s", coqBytes(string(in.S)), coqFloat(obs.F), coqBytes(string(obs.Rest)))
	case "qualpair":
		return fmt.Sprintf("CQualPair %s %s %s %s", coqBytes(string(in.S)), coqBytes(string(in.S2)), coqFloat(obs.F), coqFloat(obs.F2))
	case "parse":
		out := coqList(obs.Specs, func(s c07Spec) string { return coqPair(coqBytes(string(s.Value)), coqFloat(s.Q)) })
		intended := "None"
		if in.Intended != nil {
			intended = "(Some " + coqList(in.Intended, func(g c07Range) string {
				return coqPair(coqBytes(string(g.Value)), coqOpt(g.HasQ, coqBytes(string(g.Q))))
			}) + ")"
		}
		return fmt.Sprintf("CParse %s %s %s %s", lines, coqBool(obs.Panicked), out, intended)
	case "neg":
		return fmt.Sprintf("CNeg %s %s %s %s %s", lines, coqBytesList(bsList(in.Offers)), coqBytes(string(in.Default)), coqBool(obs.Panicked), coqBytes(string(obs.R)))
	case "handler":
		// a history of one request: status, whether the handler ran, and the Content-Type it was answered with
		return fmt.Sprintf("CHandlerSeq %s %s %s [(%s, %d, %s, %s)]", coqBytesList(bsList(in.Offers)), coqBytesList(bsList(obs.Route)), coqBool(obs.Panicked), lines, obs.Status, coqBool(obs.Ran), coqBytes(string(obs.CT)))
	case "hseq":
		steps := make([]string, len(obs.Seq))
		for i, st := range obs.Seq {
			steps[i] = fmt.Sprintf("(%s, %d, %s, %s)", coqBytesList(bsList(in.Steps[i])), st.Status, coqBool(st.Ran), coqBytes(string(st.CT)))
		}
		return fmt.Sprintf("CHandlerSeq %s %s %s [%s]", coqBytesList(bsList(in.Offers)), coqBytesList(bsList(obs.Route)), coqBool(obs.Panicked), strings.Join(steps, "; "))
	case "enc":
		return fmt.Sprintf("CEnc %s %s %s %s", lines, coqBytesList(bsList(in.Offers)), coqBool(obs.Panicked), coqBytes(string(obs.R)))
	}
	panic("unknown kind " + in.Kind)
}

func (c07) Classify(inAny any, obsAny any) []string {
	in := inAny.(c07In)
	var kf []string
	if in.Kind == "parse" && in.ExtAfterQ {
		kf = append(kf, "accept.extension_parameter_after_q")
	}
	if in.Kind == "parse" && in.QTailParam {
		kf = append(kf, "accept.parameter_name_ending_in_q")
	}
	return kf
}

func (c07) Category(inAny any, obsAny any) (string, bool) {
	in, obs := inAny.(c07In), obsAny.(c07Obs)
	switch in.Kind {
	case "octet":
		return "octet", true
	case "qual", "qualpair":
		return in.Kind, strings.Contains(string(in.S), ".")
	case "parse":
		if in.Intended == nil {
			return "parse/junk", len(obs.Specs) >= 1
		}
		return "parse/grammar", len(obs.Specs) >= 2
	case "neg":
		specs := header.ParseAccept(c07Hdr("Accept", in.Lines), "Accept")
		matches := 0
		for _, o := range in.Offers {
			base := strings.SplitN(string(o), ";", 2)[0]
			for _, sp := range specs {
				if sp.Value == "*/*" || sp.Value == base || (strings.HasSuffix(sp.Value, "/*") && strings.HasPrefix(base, sp.Value[:len(sp.Value)-1])) {
					matches++
				}
			}
		}
		switch {
		case len(in.Lines) == 0:
			return "neg/no-accept", len(in.Offers) >= 2
		case matches == 0:
			return "neg/no-match", len(in.Offers) >= 1
		default:
			return "neg/match", matches >= 2
		}
	case "hseq":
		return fmt.Sprintf("hseq/%d-requests", len(in.Steps)), true
	case "handler":
		if obs.Status == 406 {
			return "handler/406", true
		}
		return "handler/served", len(in.Lines) > 0
	default:
		return "enc", len(in.Lines) > 0 && len(in.Offers) >= 2
	}
}
