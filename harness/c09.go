//go:build verif && (c09 || allprops)

package main

import (
	"bytes"
	"encoding/json"
	"fmt"
	"io"
	"math/rand"
	"mime/multipart"
	"net/http"
	"net/http/httptest"
	goruntime "runtime"
	"strings"
	"sync"
	"sync/atomic"

	"github.com/go-openapi/errors"
	"github.com/go-openapi/loads"
	"github.com/go-openapi/runtime"
	"github.com/go-openapi/runtime/middleware"
	"github.com/go-openapi/runtime/middleware/untyped"
	"github.com/go-openapi/runtime/security"
)

// C09 — per-request state: stage results are reused; concurrent requests do not interfere.
//   seq   one request, a history of accessor calls threading the returned request value; observables:
//         per call (result code, same request value returned?), final effect counters
//   multi 2-3 requests to the same handler whose accessor calls are interleaved in one goroutine (a schedule), some of
//         them served completely in between; observables per request as in seq + every bound value is the request's own
//   conc  N concurrent requests through the full handler, each carrying its own id/body/credential;
//         observable: every handler saw exactly its own request's values (race detector on)

type c09In struct {
	Kind    string `json:"kind"`
	Anon    bool   `json:"anon"`            // the secured operation also lists the empty (anonymous) alternative
	Authz   string `json:"authz"`           // none | accept | deny
	Target  string `json:"target"`          // items | open | missing | find | range | form
	TokIn   string `json:"tok_in,omitempty"` // target form: where the bearer token travels: header (Authorization: Bearer) | query (access_token) | form (access_token inside the form body)
	CT      string `json:"ct"`              // json | jsoncs | text | malformed | absent
	Body    string `json:"body"`            // valid | invalid | none
	Accept  string `json:"accept"`          // json | png | absent | any
	Key     string `json:"key"`             // good | bad | absent
	BadN    bool   `json:"bad_n,omitempty"` // target find: the integer query parameter n carries the text bad-<rid> (binding fails, the error names the value)
	Esc     bool   `json:"esc,omitempty"`   // the id segment carries percent-escapes (URL.Path differs from URL.EscapedPath)
	Ops     []int  `json:"ops,omitempty"`   // 0 RouteInfo 1 ContentType 2 ResponseFormat(route offers) 3 ResponseFormat(other offers) 4 Authorize 5 BindAndValidate 6 ResetAuth
	N       int    `json:"n,omitempty"`     // conc: number of goroutines
	Procs   int    `json:"procs,omitempty"` // conc: GOMAXPROCS is not changed; kept for the record
	ConcSeed int64 `json:"conc_seed,omitempty"`
	Salt    int      `json:"salt,omitempty"`  // digits appended to the weight of the salted Accept spellings (jsonS, jsonSU): makes the header value unique to this case
	Reqs    []c09In  `json:"reqs,omitempty"`  // multi: the requests (their own Ops are ignored)
	Sched   [][2]int `json:"sched,omitempty"` // multi: (request index, op) in execution order
}

type c09Step struct {
	Res  string `json:"res"` // Gallina term of type res
	Same bool   `json:"same"`
}

type c09Obs struct {
	Panicked bool      `json:"panicked,omitempty"`
	Panic    string    `json:"panic,omitempty"`
	Static   string    `json:"static,omitempty"` // Gallina term of type static (oracles recorded from the real functions)
	Steps    []c09Step `json:"steps,omitempty"`
	Lookups  int       `json:"lookups"`
	Authn    int       `json:"authn"`
	Authz    int       `json:"authz"`
	Binds    int       `json:"binds"`
	Multi    [][]c09Step `json:"multi,omitempty"`    // multi: per request, the observed calls
	Statics  []string  `json:"statics,omitempty"`
	SoloOK   bool      `json:"solo_ok,omitempty"`         // multi: each request observed what it observes alone on a fresh handler
	OwnOK    bool      `json:"own_ok"`                 // every bound value / principal seen belonged to the request at hand
	Leaks    []string  `json:"leaks,omitempty"`
	ConcOK   bool      `json:"conc_ok,omitempty"`
	ConcBad  []string  `json:"conc_bad,omitempty"`
}

type c09 struct{}

func init() { register(c09{}) }

func (c09) ID() string        { return "C09" }
func (c09) CoqModule() string { return "Check_C09" }
func (c09) Rule() string {
	return "seq: request configurations (target items/open/missing/find/range/form x content type x body x Accept x credential x anonymous alternative x authorizer) crossed with random histories of 1-14 accessor calls, plus all histories of length <= 3 over the 7 calls for 5 fixed configurations (enum); " +
		"non-trivial: a history in which some call is repeated after it first succeeded. conc: N in 2..64 concurrent mixed requests through the full handler (race detector on); non-trivial always."
}

func (c09) Decode(raw json.RawMessage) (any, error) {
	var in c09In
	err := json.Unmarshal(raw, &in)
	return in, err
}

// ---------- the API under test ----------

type c09Counters struct{ lookups, authn, authz, binds int64 }

var c09Cnt c09Counters
var c09Quiet int64 // set while a fresh copy is served by the whole handler (op 7): its effects are not the threaded request's

func c09Count(p *int64) {
	if atomic.LoadInt64(&c09Quiet) == 0 {
		atomic.AddInt64(p, 1)
	}
}

type c09Router struct{ inner middleware.Router }

func (r c09Router) Lookup(method, path string) (*middleware.MatchedRoute, bool) {
	c09Count(&c09Cnt.lookups)
	return r.inner.Lookup(method, path)
}
func (r c09Router) OtherMethods(method, path string) []string { return r.inner.OtherMethods(method, path) }

type c09API struct {
	ctx         *middleware.Context
	handler     http.Handler
	routeOffers []string // the secured route's produces in the order this context really uses (a map order in the analyzer)
}

var c09LeakMu sync.Mutex
var c09Leaks []string

func c09Leak(format string, args ...interface{}) {
	c09LeakMu.Lock()
	if len(c09Leaks) < 8 {
		c09Leaks = append(c09Leaks, fmt.Sprintf(format, args...))
	}
	c09LeakMu.Unlock()
}

var c09APIs = map[string]*c09API{}
var c09Mu sync.Mutex

func c09Spec(anon bool) string {
	sec := `[{"key":[]},{"tok":[]}]`
	if anon {
		sec = `[{"key":[]},{"tok":[]},{}]`
	}
	return `{"swagger":"2.0","info":{"title":"t","version":"1"},"consumes":["application/json"],"produces":["application/json","text/plain"],
"securityDefinitions":{"key":{"type":"apiKey","in":"header","name":"X-Key"},"tok":{"type":"apiKey","in":"header","name":"X-Tok"},
"oauth":{"type":"oauth2","flow":"accessCode","authorizationUrl":"http://h/auth","tokenUrl":"http://h/token","scopes":{}}},
"paths":{"/items/{id}":{"post":{"security":` + sec + `,"parameters":[{"name":"id","in":"path","type":"string","required":true},
{"name":"body","in":"body","required":true,"schema":{"type":"object"}}],"responses":{"200":{"description":"ok"}}}},
"/open":{"get":{"responses":{"200":{"description":"ok"}}}},
"/form/{id}":{"post":{"consumes":["application/x-www-form-urlencoded","multipart/form-data"],"security":[{"oauth":[]}],"parameters":[{"name":"id","in":"path","type":"string","required":true},
{"name":"note","in":"formData","type":"string","required":true},{"name":"extra","in":"formData","type":"string"}],"responses":{"200":{"description":"ok"}}}},
"/range/{id}":{"post":{"consumes":["text/*"],"parameters":[{"name":"id","in":"path","type":"string","required":true},{"name":"body","in":"body","schema":{"type":"object"}}],"responses":{"200":{"description":"ok"}}}},
"/find/{id}":{"get":{"parameters":[{"name":"id","in":"path","type":"string","required":true},{"name":"q","in":"query","type":"string"},{"name":"n","in":"query","type":"integer","format":"int64"}],"responses":{"200":{"description":"ok"}}}}}}`
}

func c09Get(anon bool, authz bool) *c09API {
	c09Mu.Lock()
	defer c09Mu.Unlock()
	key := fmt.Sprintf("%v/%v", anon, authz)
	if a, ok := c09APIs[key]; ok {
		return a
	}
	a := c09Build(anon, authz)
	c09APIs[key] = a
	return a
}

// c09Build makes a fresh handler instance (nothing any earlier request could have touched).
func c09Build(anon bool, authz bool) *c09API {
	spec, err := loads.Analyzed(json.RawMessage(c09Spec(anon)), "")
	if err != nil {
		panic(err)
	}
	api := untyped.NewAPI(spec)
	api.RegisterConsumer("application/json", runtime.ConsumerFunc(func(r io.Reader, data interface{}) error {
		c09Count(&c09Cnt.binds)
		return runtime.JSONConsumer().Consume(r, data)
	}))
	// two concrete types inside the media range the /range operation declares (it has no consumer for the range itself)
	for _, mt := range []string{"text/plain", "text/csv"} {
		mt := mt
		api.RegisterConsumer(mt, runtime.ConsumerFunc(func(r io.Reader, data interface{}) error {
			_, _ = io.Copy(io.Discard, r)
			if p, ok := data.(*interface{}); ok {
				*p = map[string]interface{}{"by": mt}
			} else if p, ok := data.(*map[string]interface{}); ok {
				*p = map[string]interface{}{"by": mt}
			}
			return nil
		}))
	}
	// the form operation: its parameters are read from the parsed form, not through a consumer
	api.RegisterConsumer(c09FormURL, runtime.DiscardConsumer)
	api.RegisterConsumer(c09FormMP, runtime.DiscardConsumer)
	// an oauth2 scheme served by the library's bearer authenticator: the token may travel in the Authorization header,
	// in the query, or as access_token inside a form body (then authenticating parses the body)
	bearer := security.BearerAuth("oauth", func(token string, scopes []string) (interface{}, error) {
		if strings.HasPrefix(token, "good-") {
			return "oauth:" + token, nil
		}
		return nil, errors.Unauthenticated("oauth")
	})
	api.RegisterAuth("oauth", runtime.AuthenticatorFunc(func(params interface{}) (bool, interface{}, error) {
		c09Count(&c09Cnt.authn)
		c09Rendezvous()
		return bearer.Authenticate(params)
	}))
	keyAuth := security.APIKeyAuth("X-Key", "header", func(tok string) (interface{}, error) {
		if strings.HasPrefix(tok, "good") {
			return "user:" + tok, nil
		}
		return nil, errors.Unauthenticated("key")
	})
	api.RegisterAuth("key", runtime.AuthenticatorFunc(func(params interface{}) (bool, interface{}, error) {
		c09Count(&c09Cnt.authn) // every consultation of the scheme's authenticator
		c09Rendezvous()
		return keyAuth.Authenticate(params)
	}))
	// the second alternative: a token header; a request presenting both credentials is the FIRST alternative's
	tokAuth := security.APIKeyAuth("X-Tok", "header", func(tok string) (interface{}, error) {
		if strings.HasPrefix(tok, "tok-") {
			return "tok:" + tok, nil
		}
		return nil, errors.Unauthenticated("tok")
	})
	api.RegisterAuth("tok", tokAuth)
	if authz {
		api.RegisterAuthorizer(runtime.AuthorizerFunc(func(r *http.Request, principal interface{}) error {
			c09Count(&c09Cnt.authz)
			want := "user:" + r.Header.Get("X-Key")
			if r.Header.Get("X-Key") == "" {
				want = "tok:" + r.Header.Get("X-Tok")
			}
			if strings.HasPrefix(r.URL.Path, "/form/") { // the token of request rid is good-<rid>; the path is /form/<rid>[/...]
				rid := strings.TrimPrefix(r.URL.Path, "/form/")
				if i := strings.IndexByte(rid, '/'); i >= 0 {
					rid = rid[:i]
				}
				want = "oauth:good-" + rid
			}
			if p, ok := principal.(string); ok && p != want {
				c09Leak("authorizer: request with key %q / token %q was given principal %q", r.Header.Get("X-Key"), r.Header.Get("X-Tok"), p)
			}
			if r.Header.Get("X-Authz") == "deny" {
				return fmt.Errorf("denied")
			}
			return nil
		}))
	}
	api.RegisterOperation("post", "/items/{id}", runtime.OperationHandlerFunc(func(params interface{}) (interface{}, error) {
		m := params.(map[string]interface{})
		c09Retain(m)
		return map[string]interface{}{"id": m["id"], "body": m["body"]}, nil
	}))
	api.RegisterOperation("post", "/range/{id}", runtime.OperationHandlerFunc(func(params interface{}) (interface{}, error) {
		m := params.(map[string]interface{})
		c09Retain(m)
		return map[string]interface{}{"id": m["id"], "body": m["body"]}, nil
	}))
	api.RegisterOperation("post", "/form/{id}", runtime.OperationHandlerFunc(func(params interface{}) (interface{}, error) {
		m := params.(map[string]interface{})
		c09Retain(m)
		return map[string]interface{}{"id": m["id"], "note": m["note"]}, nil
	}))
	api.RegisterOperation("get", "/open", runtime.OperationHandlerFunc(func(params interface{}) (interface{}, error) {
		return map[string]interface{}{"open": true}, nil
	}))
	api.RegisterOperation("get", "/find/{id}", runtime.OperationHandlerFunc(func(params interface{}) (interface{}, error) {
		m := params.(map[string]interface{})
		c09Retain(m)
		return map[string]interface{}{"id": m["id"], "q": m["q"]}, nil
	}))
	api.RegisterProducer("text/plain", runtime.JSONProducer()) // the handler answers maps; only the negotiated type matters here
	ctx := middleware.NewContext(spec, api, nil)
	ctx.VerifWrapRouter(func(r middleware.Router) middleware.Router { return c09Router{r} })
	a := &c09API{ctx: ctx}
	a.handler = ctx.APIHandler(nil)
	if mr, ok := ctx.LookupRoute(httptest.NewRequest("POST", "/items/probe", nil)); ok {
		a.routeOffers = append([]string(nil), mr.Produces...)
	}
	return a
}

// The handlers keep the bound values they were given (as a handler that queues its work does); after the requests of a case
// are over every kept map must still hold what it held when its handler ran.
type c09Kept struct {
	m  map[string]interface{}
	id interface{}
	n  int
}

var c09KeptMu sync.Mutex
var c09KeptMaps []c09Kept

func c09Retain(m map[string]interface{}) {
	c09KeptMu.Lock()
	if len(c09KeptMaps) < 4096 {
		c09KeptMaps = append(c09KeptMaps, c09Kept{m, m["id"], len(m)})
	}
	c09KeptMu.Unlock()
}

func c09CheckKept() {
	c09KeptMu.Lock()
	kept := c09KeptMaps
	c09KeptMaps = nil
	c09KeptMu.Unlock()
	for _, k := range kept {
		if len(k.m) != k.n || k.m["id"] != k.id {
			c09Leak("bound values kept by the handler of id %v changed after it returned: %d entries then, now %v", k.id, k.n, k.m)
			return
		}
	}
}

// c09Rendezvous widens the overlap of concurrent requests between route matching and binding: in the
// concurrent cases a request entering the authenticator waits (bounded) until another one is inside too.
var c09ConcMode, c09Inside int64

func c09Rendezvous() {
	if atomic.LoadInt64(&c09ConcMode) == 0 {
		return
	}
	atomic.AddInt64(&c09Inside, 1)
	for i := 0; i < 2000 && atomic.LoadInt64(&c09Inside) < 2; i++ {
		goruntime.Gosched()
	}
	goruntime.Gosched()
	atomic.AddInt64(&c09Inside, -1)
}

// c09ID is the id the operation must see for request rid.
func c09ID(in c09In, rid string) string {
	if in.Esc {
		return rid + "/z é"
	}
	return rid
}

func c09Request(in c09In, rid string) *http.Request {
	method, path := "POST", "/items/"+rid
	if in.Esc {
		path += "%2Fz%20%C3%A9"
	}
	switch in.Target {
	case "open":
		method, path = "GET", "/open"
	case "find":
		method, path = "GET", "/find/"+rid
		if in.Esc {
			path += "%2Fz%20%C3%A9"
		}
		path += "?q=orig-" + rid
		if in.BadN {
			path += "&n=bad-" + rid
		}
	case "range":
		method, path = "POST", "/range/"+rid
		if in.Esc {
			path += "%2Fz%20%C3%A9"
		}
	case "missing":
		method, path = "GET", "/nothing/here"
	case "form":
		return c09FormRequest(in, rid)
	}
	var body io.Reader
	switch in.Body {
	case "valid":
		body = bytes.NewReader([]byte(`{"rid":"` + rid + `"}`))
	case "invalid":
		body = bytes.NewReader([]byte(`{"rid":`))
	}
	req := httptest.NewRequest(method, path, body)
	c09Headers(req, in, rid)
	return req
}

const c09FormURL, c09FormMP = "application/x-www-form-urlencoded", "multipart/form-data"

// c09Token is the bearer token request rid presents to the form operation ("" = none).
func c09Token(in c09In, rid string) string {
	switch in.Key {
	case "good", "tok", "both":
		return "good-" + rid
	case "bad":
		return "bad-" + rid
	}
	return ""
}

// c09FormRequest: POST /form/{id} with a form body that always has some field: note=<rid> (body valid) or only
// other=<rid> (the required note is missing); content types json / jsoncs stand for the two form media types here
// (urlencoded / multipart), the others are sent as for every target. The bearer token travels where in.TokIn says.
func c09FormRequest(in c09In, rid string) *http.Request {
	path := "/form/" + rid
	if in.Esc {
		path += "%2Fz%20%C3%A9"
	}
	fields := [][2]string{}
	tok := c09Token(in, rid)
	if tok != "" && in.TokIn == "form" {
		fields = append(fields, [2]string{"access_token", tok})
	}
	if in.Body == "valid" {
		fields = append(fields, [2]string{"note", rid})
	} else {
		fields = append(fields, [2]string{"other", rid})
	}
	if tok != "" && in.TokIn == "query" {
		path += "?access_token=" + tok
	}
	var buf bytes.Buffer
	ct := ""
	if in.CT == "jsoncs" {
		w := multipart.NewWriter(&buf)
		_ = w.SetBoundary("c09boundary" + rid)
		for _, f := range fields {
			_ = w.WriteField(f[0], f[1])
		}
		_ = w.Close()
		ct = w.FormDataContentType()
	} else {
		for i, f := range fields {
			if i > 0 {
				buf.WriteByte('&')
			}
			buf.WriteString(f[0] + "=" + f[1])
		}
		if in.CT == "json" {
			ct = c09FormURL
		}
	}
	req := httptest.NewRequest("POST", path, bytes.NewReader(buf.Bytes()))
	c09Headers(req, in, rid)
	if ct != "" {
		req.Header.Set("Content-Type", ct)
	}
	req.Header.Del("X-Key")
	req.Header.Del("X-Tok")
	if tok != "" && in.TokIn != "form" && in.TokIn != "query" {
		req.Header.Set("Authorization", "Bearer "+tok)
	}
	return req
}

func c09Headers(req *http.Request, in c09In, rid string) {
	switch in.CT {
	case "json":
		req.Header.Set("Content-Type", "application/json")
	case "jsoncs":
		req.Header.Set("Content-Type", "Application/JSON; charset=utf-8")
	case "text":
		req.Header.Set("Content-Type", "text/plain")
	case "csv":
		req.Header.Set("Content-Type", "text/csv")
	case "malformed":
		req.Header.Set("Content-Type", "application/json; charset")
	}
	switch in.Accept {
	case "json":
		req.Header.Set("Accept", "application/json")
	case "png":
		req.Header.Set("Accept", "image/png")
	case "any":
		req.Header.Set("Accept", "*/*;q=0.5, image/gif")
	case "star":
		req.Header.Set("Accept", "*/*")
	case "text":
		req.Header.Set("Accept", "text/plain, application/json;q=0.5")
	case "jsonS": // two spellings that differ in letter case only; a weight unique to the case
		req.Header.Set("Accept", fmt.Sprintf("application/json;q=0.7%06d", in.Salt))
	case "jsonSU":
		req.Header.Set("Accept", fmt.Sprintf("Application/JSON;q=0.7%06d", in.Salt))
	}
	switch in.Key {
	case "good":
		req.Header.Set("X-Key", "good-"+rid)
	case "bad":
		req.Header.Set("X-Key", "bad-"+rid)
	case "tok": // credentials for the second alternative only
		req.Header.Set("X-Tok", "tok-"+rid)
	case "both": // credentials for both alternatives: the first one decides
		req.Header.Set("X-Key", "good-"+rid)
		req.Header.Set("X-Tok", "tok-"+rid)
	}
	if in.Authz == "deny" {
		req.Header.Set("X-Authz", "deny")
	}
}

var c09Other = []string{"image/png", "text/plain; charset=utf-8"}

func c09MT(s string) int {
	switch s {
	case "application/json":
		return 1
	case "text/plain":
		return 2
	case "application/octet-stream":
		return 3
	case "image/png":
		return 4
	case "text/csv":
		return 6
	case c09FormURL:
		return 7
	case c09FormMP:
		return 8
	case "text/plain; charset=utf-8": // an offer that carries a parameter: what is negotiated is the offer as spelled
		return 5
	case "":
		return 0
	}
	return 9
}

func c09OptNat(ok bool, v int) string {
	if !ok {
		return "None"
	}
	return fmt.Sprintf("(Some %d)", v)
}

// c09Static records the request's fixed facts from the real functions (oracles of the model).
func c09Static(in c09In, a *c09API) string {
	probe := c09Request(in, "r1")
	route := 0
	switch in.Target {
	case "items":
		route = 1
	case "open":
		route = 2
	case "find":
		route = 3
	case "range":
		route = 4
	case "form":
		route = 5
	}
	hasBody := runtime.HasBody(c09Request(in, "r1"))
	mt, _, cterr := runtime.ContentType(probe.Header)
	neg0 := middleware.NegotiateContentType(probe, a.routeOffers, "")
	neg1 := middleware.NegotiateContentType(probe, c09Other, "")
	auth := "AuthRefused"
	switch {
	case in.Key == "good", in.Key == "tok", in.Key == "both":
		auth = "AuthPrincipal"
	case in.Key == "absent" && in.Anon:
		auth = "AuthAnon"
	}
	isForm := cterr == nil && (mt == c09FormURL || mt == c09FormMP)
	if in.Target == "form" {
		// the single alternative is the oauth2 scheme: a good token anywhere the bearer authenticator looks (it looks
		// into the body only when the content type is a form type)
		auth = "AuthRefused"
		if strings.HasPrefix(c09Token(in, "r1"), "good-") && (in.TokIn != "form" || isForm) {
			auth = "AuthPrincipal"
		}
	}
	authorizer := "None"
	if in.Authz != "none" {
		authorizer = fmt.Sprintf("(Some %s)", coqBool(in.Authz != "deny"))
	}
	bindOK := (in.Target != "items" && in.Target != "range") || !hasBody || in.Body == "valid" // a missing required body is not refused by the binder
	if in.Target == "find" && in.BadN {
		bindOK = false
	}
	consumer := cterr == nil && mt == "application/json"
	if in.Target == "form" {
		bindOK = in.Body == "valid" // the required form field note
		consumer = consumer || isForm
	}
	return fmt.Sprintf("(mkstatic %s %s %s %s %s %s (fun k => match k with 0 => %s | _ => %s end) 0 true %s %s %s)",
		c09OptNat(route != 0, route), coqBool(in.Target == "items" || in.Target == "form"), coqBool(hasBody),
		c09OptNat(cterr == nil, c09MT(mt)), coqBool(cterr == nil && c09Admitted(in, mt)), coqBool(consumer),
		c09OptNat(neg0 != "", c09MT(neg0)), c09OptNat(neg1 != "", c09MT(neg1)),
		auth, authorizer, coqBool(bindOK))
}

// c09Admitted: the media type passes the operation's consumes list (application/json everywhere; text/* on /range).
func c09Admitted(in c09In, mt string) bool {
	if in.Target == "range" { // the API default is added to every route's consumes
		return strings.HasPrefix(mt, "text/") || mt == "application/json"
	}
	if in.Target == "form" {
		return mt == c09FormURL || mt == c09FormMP || mt == "application/json"
	}
	return mt == "application/json"
}

func c09Codes(err error) string {
	if err == nil {
		return "[]"
	}
	var codes []string
	var walk func(e error)
	walk = func(e error) {
		if ce, ok := e.(*errors.CompositeError); ok {
			for _, x := range ce.Errors {
				walk(x)
			}
			return
		}
		c := 500
		if ee, ok := e.(errors.Error); ok {
			c = int(ee.Code())
		}
		if c >= 600 { // the validation library's own codes (parse/required/...): one class, binding failed
			c = 422
		}
		s := fmt.Sprint(c)
		if len(codes) == 0 || codes[len(codes)-1] != s {
			codes = append(codes, s)
		}
	}
	walk(err)
	return "[" + strings.Join(codes, "; ") + "]"
}

func (c09) Run(inAny any) any {
	in := inAny.(c09In)
	var obs c09Obs
	a := c09Get(in.Anon, in.Authz != "none")
	if in.Kind == "conc" {
		obs.Panicked, obs.Panic = recoverTo(func() {
			c09Leaks = nil
			c09RunConc(in, a, &obs)
			c09CheckKept()
			if len(c09Leaks) > 0 {
				obs.ConcOK = false
				obs.ConcBad = append(obs.ConcBad, c09Leaks...)
			}
		})
		return obs
	}
	if in.Kind == "multi" {
		obs.Panicked, obs.Panic = recoverTo(func() { c09RunMulti(in, &obs) })
		return obs
	}
	obs.Panicked, obs.Panic = recoverTo(func() {
		obs.Static = c09Static(in, a)
		c09Cnt = c09Counters{}
		c09Leaks = nil
		c09BoundSeen = map[*http.Request]bool{}
		c09CtDone = map[string]bool{}
		req := c09Request(in, "r1")
		for _, o := range in.Ops {
			var st c09Step
			st, req = c09Op(a, in, "r1", req, o)
			obs.Steps = append(obs.Steps, st)
		}
		obs.Lookups, obs.Authn, obs.Authz, obs.Binds = int(c09Cnt.lookups), int(c09Cnt.authn), int(c09Cnt.authz), int(c09Cnt.binds)
		c09CheckKept()
		obs.OwnOK, obs.Leaks = len(c09Leaks) == 0, c09Leaks
	})
	return obs
}

// c09Op performs one accessor call on the request value req (of request configuration in, id rid) and
// returns what was observed and the request value the caller continues with.
func c09Op(a *c09API, in c09In, rid string, req *http.Request, o int) (c09Step, *http.Request) {
	ctx := a.ctx
	var st c09Step
	keep := func(r *http.Request) {
		st.Same = r == nil || r == req
		if r != nil {
			req = r
		}
	}
	switch o {
	case 0:
		mr, r, ok := ctx.RouteInfo(req)
		id := 0
		if ok {
			id = 2
			if strings.HasPrefix(mr.PathPattern, "/find") {
				id = 3
				if got := mr.Params.Get("id"); got != c09ID(in, rid) {
					c09Leak("RouteInfo: request %s matched with id %q", rid, got)
				}
			}
			if strings.HasPrefix(mr.PathPattern, "/range") {
				id = 4
				if got := mr.Params.Get("id"); got != c09ID(in, rid) {
					c09Leak("RouteInfo: request %s matched with id %q", rid, got)
				}
			}
			if strings.HasPrefix(mr.PathPattern, "/form") {
				id = 5
				if got := mr.Params.Get("id"); got != c09ID(in, rid) {
					c09Leak("RouteInfo: request %s matched with id %q", rid, got)
				}
			}
			if strings.HasPrefix(mr.PathPattern, "/items") {
				id = 1
				if got := mr.Params.Get("id"); got != c09ID(in, rid) {
					c09Leak("RouteInfo: request %s matched with id %q", rid, got)
				}
			}
		}
		st.Res = "RRoute " + c09OptNat(ok, id)
		keep(r)
	case 1:
		mt, _, r, err := ctx.ContentType(req)
		st.Res = "RCt " + c09OptNat(err == nil, c09MT(mt))
		if err == nil {
			c09CtDone[rid] = true
		}
		keep(r)
	case 2, 3:
		offers := a.routeOffers
		if mr := middleware.MatchedRouteFrom(req); mr != nil && o == 2 {
			offers = mr.Produces
		}
		if o == 3 {
			offers = c09Other
		}
		f, r := ctx.ResponseFormat(req, offers)
		st.Res = "RFmt " + c09OptNat(f != "", c09MT(f))
		keep(r)
	case 4:
		mr := middleware.MatchedRouteFrom(req)
		if mr == nil {
			st.Res, st.Same = "RSkipped", true
			break
		}
		p, r, err := ctx.Authorize(req, mr)
		switch {
		case err != nil:
			code := 3
			if ee, ok := err.(errors.Error); ok && ee.Code() == 403 {
				code = 4
			}
			st.Res = fmt.Sprintf("RAuth %d", code)
		case r == nil:
			st.Res = "RAuth 0"
		case p != nil:
			st.Res = "RAuth 1"
			wantP := "user:good-" + rid
			if in.Key == "tok" {
				wantP = "tok:tok-" + rid
			}
			if in.Target == "form" {
				wantP = "oauth:good-" + rid
			}
			if ps, _ := p.(string); ps != wantP {
				c09Leak("Authorize: request %s got principal %q", rid, ps)
			}
		default:
			st.Res = "RAuth 2"
		}
		keep(r)
	case 5:
		mr := middleware.MatchedRouteFrom(req)
		if mr == nil {
			st.Res, st.Same = "RSkipped", true
			break
		}
		bound, r, err := ctx.BindAndValidate(req, mr)
		st.Res = "RBind " + c09Codes(err)
		if r != nil {
			c09BoundSeen[r] = true
		} else {
			c09BoundSeen[req] = true
		}
		if m, ok := bound.(map[string]interface{}); ok && in.Target == "find" {
			// the binding outcome is memoised: whatever the caller did to the request meanwhile, the values are those of the first binding
			if q, present := m["q"]; present && q != "orig-"+rid {
				c09Leak("BindAndValidate: request %s was bound again (q = %v)", rid, q)
			}
			if id, present := m["id"]; present && id != c09ID(in, rid) {
				c09Leak("BindAndValidate: request %s bound id %v", rid, id)
			}
		}
		if m, ok := bound.(map[string]interface{}); ok && in.Target == "range" {
			// whichever consumer decoded the body must be the one registered for THIS request's media type
			if b, ok := m["body"].(map[string]interface{}); ok && b["by"] != nil && b["by"] != req.Header.Get("Content-Type") {
				c09Leak("BindAndValidate: request %s (%s) was decoded by the consumer of %v", rid, req.Header.Get("Content-Type"), b["by"])
			}
		}
		if m, ok := bound.(map[string]interface{}); ok && in.Target == "form" {
			if id, present := m["id"]; present && id != c09ID(in, rid) {
				c09Leak("BindAndValidate: request %s bound id %v", rid, id)
			}
			// whenever the binder ran (no earlier stage turned the request down) the form field the request carries is bound,
			// and it is this request's own: whoever looked into the form before (the bearer authenticator) does not use it up
			if codes := c09Codes(err); in.Body == "valid" && (codes == "[]" || codes == "[422]") && m["note"] != rid {
				c09Leak("BindAndValidate: request %s carries note=%s in its form; bound note %v (%s)", rid, rid, m["note"], codes)
			}
		}
		if m, ok := bound.(map[string]interface{}); ok && in.Target == "items" {
			if id, present := m["id"]; present && id != c09ID(in, rid) {
				c09Leak("BindAndValidate: request %s bound id %v", rid, id)
			}
			if b, ok := m["body"].(map[string]interface{}); ok && b["rid"] != nil && b["rid"] != rid {
				c09Leak("BindAndValidate: request %s bound body of %v", rid, b["rid"])
			}
		}
		keep(r)
	case 6:
		r := ctx.ResetAuth(req)
		st.Res = "RReset"
		keep(r)
	case 8:
		// the caller changes the query string of the request value it holds
		if req.URL != nil && in.Target == "find" && middleware.MatchedRouteFrom(req) != nil {
			// only once a validation is cached must the values not move; tampering earlier changes the input itself
			if c09Bound(req) {
				req.URL.RawQuery = "q=tampered"
			}
		}
		// likewise the Content-Type header: once its parse is cached on the request, later askers get the cached parse
		// whatever a middleware did to the header meanwhile
		// (not on the form operation: the form binder and the bearer authenticator read the header themselves)
		if c09CtDone[rid] && req.Header.Get("Content-Type") != "" && in.Target != "form" {
			req.Header.Del("Content-Type")
		}
		st.Res, st.Same = "RTampered", true
	case 7:
		// a fresh copy of this request is served by the whole handler; nothing is threaded back
		atomic.StoreInt64(&c09Quiet, 1)
		a.handler.ServeHTTP(httptest.NewRecorder(), c09Request(in, rid))
		atomic.StoreInt64(&c09Quiet, 0)
		st.Res, st.Same = "RServed", true
	}
	return st, req
}

// c09Bound reports whether a validation is already cached on the request value (a second BindAndValidate returns the same request).
func c09Bound(req *http.Request) bool {
	mr := middleware.MatchedRouteFrom(req)
	if mr == nil {
		return false
	}
	return c09BoundSeen[req]
}

var c09BoundSeen = map[*http.Request]bool{}

// c09CtDone: the request chain of this id has had its content type parsed successfully through Context.ContentType
var c09CtDone = map[string]bool{}

func c09RunMulti(in c09In, obs *c09Obs) {
	a := c09Get(in.Anon, in.Authz != "none")
	c09Leaks = nil
	c09BoundSeen = map[*http.Request]bool{}
	c09CtDone = map[string]bool{}
	reqs := make([]*http.Request, len(in.Reqs))
	obs.Multi = make([][]c09Step, len(in.Reqs))
	for i, ri := range in.Reqs {
		ri.Anon, ri.Authz, ri.Salt = in.Anon, in.Authz, in.Salt
		in.Reqs[i] = ri
		rid := fmt.Sprintf("m%d", i)
		reqs[i] = c09Request(ri, rid)
		obs.Statics = append(obs.Statics, c09Static(ri, a))
	}
	for _, e := range in.Sched {
		i, o := e[0], e[1]
		var st c09Step
		st, reqs[i] = c09Op(a, in.Reqs[i], fmt.Sprintf("m%d", i), reqs[i], o)
		obs.Multi[i] = append(obs.Multi[i], st)
	}
	// each request's calls alone, on a fresh handler instance: what it observes must be the same
	obs.SoloOK = true
	for i, ri := range in.Reqs {
		fresh := c09Build(in.Anon, in.Authz != "none")
		rid := fmt.Sprintf("m%d", i)
		req := c09Request(ri, rid)
		c09CtDone = map[string]bool{}
		var solo []c09Step
		for _, e := range in.Sched {
			if e[0] == i {
				var st c09Step
				st, req = c09Op(fresh, ri, rid, req, e[1])
				solo = append(solo, st)
			}
		}
		if fmt.Sprint(solo) != fmt.Sprint(obs.Multi[i]) {
			obs.SoloOK = false
			obs.Leaks = append(obs.Leaks, fmt.Sprintf("request %s interleaved: %v; alone on a fresh handler: %v", rid, obs.Multi[i], solo))
		}
	}
	// history independence: the same requests (their salted Accept values spelled with another salt, which changes no
	// outcome) served one after the other in the REVERSE order on another fresh handler observe the same; state that
	// outlives a request anywhere in the process and is keyed more coarsely than the request shows up here even when the
	// solo runs above, made after it was filled, agree.
	world2 := c09Build(in.Anon, in.Authz != "none")
	for i := len(in.Reqs) - 1; i >= 0; i-- {
		ri := in.Reqs[i]
		ri.Salt = in.Salt + 500000
		rid := fmt.Sprintf("m%d", i)
		req := c09Request(ri, rid)
		c09CtDone = map[string]bool{}
		var again []c09Step
		for _, e := range in.Sched {
			if e[0] == i {
				var st c09Step
				st, req = c09Op(world2, ri, rid, req, e[1])
				again = append(again, st)
			}
		}
		if fmt.Sprint(again) != fmt.Sprint(obs.Multi[i]) {
			obs.SoloOK = false
			obs.Leaks = append(obs.Leaks, fmt.Sprintf("request %s interleaved after the others: %v; served before them: %v", rid, obs.Multi[i], again))
		}
	}
	c09CheckKept()
	obs.OwnOK = len(c09Leaks) == 0
	obs.Leaks = append(obs.Leaks, c09Leaks...)
}

func c09RunConc(in c09In, a *c09API, obs *c09Obs) {
	r := rand.New(rand.NewSource(in.ConcSeed))
	type job struct {
		in  c09In
		rid string
	}
	var jobs []job
	for i := 0; i < in.N; i++ {
		j := in
		j.Target = []string{"items", "items", "open", "missing", "range", "form", "form"}[r.Intn(7)]
		j.TokIn = []string{"header", "query", "form", "form"}[r.Intn(4)]
		j.Key = []string{"good", "good", "bad", "absent", "tok", "both"}[r.Intn(6)]
		j.Body = []string{"valid", "valid", "invalid", "none"}[r.Intn(4)]
		j.CT = []string{"json", "json", "jsoncs", "text", "csv", "absent"}[r.Intn(6)]
		j.Accept = []string{"json", "absent", "png", "any", "star", "text"}[r.Intn(6)]
		j.Esc = r.Intn(3) == 0
		j.BadN = r.Intn(2) == 0
		if r.Intn(3) == 0 {
			j.Target = "find"
		}
		jobs = append(jobs, job{j, fmt.Sprintf("r%d", i)})
	}
	// reference: every request served alone, one after the other
	type ref struct {
		code int
		body string
		ct   string
	}
	refs := make([]ref, len(jobs))
	for i, jb := range jobs {
		rec := httptest.NewRecorder()
		a.handler.ServeHTTP(rec, c09Request(jb.in, jb.rid))
		refs[i] = ref{rec.Code, rec.Body.String(), rec.Header().Get("Content-Type")}
	}
	var wg sync.WaitGroup
	var mu sync.Mutex
	bad := []string{}
	start := make(chan struct{})
	atomic.StoreInt64(&c09ConcMode, 1)
	defer atomic.StoreInt64(&c09ConcMode, 0)
	for i, jb := range jobs {
		wg.Add(1)
		go func(i int, jb job) {
			defer wg.Done()
			<-start
			for rep := 0; rep < 12; rep++ {
				req := c09Request(jb.in, jb.rid)
				rec := httptest.NewRecorder()
				a.handler.ServeHTTP(rec, req)
				ok := rec.Code == refs[i].code && rec.Body.String() == refs[i].body && rec.Header().Get("Content-Type") == refs[i].ct
				if ok && rec.Code == 200 && jb.in.Target == "items" && jb.in.Body == "valid" {
					// and the values are this request's own
					var m map[string]interface{}
					if json.Unmarshal(rec.Body.Bytes(), &m) != nil {
						ok = false
					} else {
						b, _ := m["body"].(map[string]interface{})
						ok = m["id"] == c09ID(jb.in, jb.rid) && b != nil && b["rid"] == jb.rid
					}
				}
				if ok && rec.Code == 200 && jb.in.Target == "form" {
					var m map[string]interface{}
					ok = json.Unmarshal(rec.Body.Bytes(), &m) == nil && m["id"] == c09ID(jb.in, jb.rid) && m["note"] == jb.rid
				}
				if ok && jb.in.Target == "form" && jb.in.Body == "valid" && (rec.Code == 422 || rec.Code == 401) &&
					(jb.in.CT == "json" || jb.in.CT == "jsoncs") && strings.HasPrefix(c09Token(jb.in, jb.rid), "good-") {
					ok = false // a good token and the required field in a form of an accepted type: neither refused nor incomplete
				}
				if !ok {
					mu.Lock()
					bad = append(bad, fmt.Sprintf("%s %+v: status %d body %q; alone: status %d body %q", jb.rid, jb.in, rec.Code, rec.Body.String(), refs[i].code, refs[i].body))
					mu.Unlock()
				}
			}
		}(i, jb)
	}
	close(start)
	wg.Wait()
	obs.ConcOK = len(bad) == 0
	if len(bad) > 5 {
		bad = bad[:5]
	}
	obs.ConcBad = bad
}

func (c09) Coq(inAny any, obsAny any) string {
	in, obs := inAny.(c09In), obsAny.(c09Obs)
	if in.Kind == "conc" {
		return fmt.Sprintf("CConc %d %s %s", in.N, coqBool(obs.Panicked), coqBool(obs.ConcOK))
	}
	opName := func(o int) string {
		return []string{"RouteInfo", "ContentType", "(ResponseFormat 0)", "(ResponseFormat 1)", "Authorize", "BindAndValidate", "ResetAuth", "ServeFresh", "Tamper"}[o]
	}
	stepsOf := func(xs []c09Step) string {
		return coqList(xs, func(s c09Step) string { return "(" + s.Res + ", " + coqBool(s.Same) + ")" })
	}
	if in.Kind == "multi" {
		sched := coqList(in.Sched, func(e [2]int) string { return fmt.Sprintf("(%d, %s)", e[0], opName(e[1])) })
		return fmt.Sprintf("CMulti %s %s %s %s %s", coqList(obs.Statics, func(x string) string { return x }), sched,
			coqBool(obs.Panicked), coqList(obs.Multi, stepsOf), coqBool(obs.OwnOK && obs.SoloOK))
	}
	ops := coqList(in.Ops, opName)
	steps := coqList(obs.Steps, func(s c09Step) string { return "(" + s.Res + ", " + coqBool(s.Same) + ")" })
	static := obs.Static
	if static == "" {
		static = "(mkstatic None false false None false false (fun _ => None) 0 true AuthRefused None false)"
	}
	return fmt.Sprintf("CSeq %s %s %s %s %d %d %d %d %s", static, ops, coqBool(obs.Panicked), steps, obs.Lookups, obs.Authn, obs.Authz, obs.Binds, coqBool(obs.OwnOK))
}

func (c09) Classify(inAny any, obsAny any) []string { return nil }

func (c09) Category(inAny any, obsAny any) (string, bool) {
	in := inAny.(c09In)
	if in.Kind == "conc" {
		return fmt.Sprintf("conc/n<=%d", func() int {
			for _, b := range []int{4, 16, 64} {
				if in.N <= b {
					return b
				}
			}
			return 999
		}()), true
	}
	if in.Kind == "multi" {
		return fmt.Sprintf("multi/%d-requests", len(in.Reqs)), true
	}
	seen := map[int]bool{}
	rep := false
	for _, o := range in.Ops {
		if seen[o] {
			rep = true
		}
		seen[o] = true
	}
	return "seq/" + in.Target, rep
}

var c09Vals = map[string][]string{
	"target": {"items", "items", "items", "open", "missing", "find", "find", "range", "form", "form"},
	"ct":     {"json", "json", "jsoncs", "text", "csv", "malformed", "absent"},
	"body":   {"valid", "valid", "invalid", "none"},
	"accept": {"json", "absent", "png", "any", "star", "star", "text", "text"},
	"key":    {"good", "good", "bad", "absent", "tok", "both"},
	"authz":  {"none", "accept", "deny"},
}

func c09Pick(r *rand.Rand, k string) string { v := c09Vals[k]; return v[r.Intn(len(v))] }

func (c09) Gen(r *rand.Rand, tier string, i int) any {
	if i%40 == 39 {
		n := []int{2, 3, 4, 8, 16, 32, 64}[r.Intn(7)]
		return c09In{Kind: "conc", Anon: r.Intn(2) == 0, Authz: []string{"none", "accept"}[r.Intn(2)], N: n, ConcSeed: r.Int63()}
	}
	if i%8 == 7 {
		m := c09In{Kind: "multi", Anon: r.Intn(2) == 0, Authz: c09Pick(r, "authz"), Salt: r.Intn(500000)}
		nreq := 2 + r.Intn(2)
		for j := 0; j < nreq; j++ {
			q := c09In{Kind: "seq", Target: []string{"items", "items", "items", "open", "find", "range", "range", "form", "form"}[r.Intn(9)], CT: c09Pick(r, "ct"), Body: c09Pick(r, "body"),
				Accept: c09Pick(r, "accept"), Key: c09Pick(r, "key"), Esc: r.Intn(3) == 0}
			c09GenForm(r, &q)
			if r.Intn(2) == 0 { // spellings of one Accept value that differ in letter case only
				q.Accept = []string{"jsonS", "jsonSU"}[r.Intn(2)]
			}
			m.Reqs = append(m.Reqs, q)
			m.Sched = append(m.Sched, [2]int{j, 0})
		}
		for k := 4 + r.Intn(14); k > 0; k-- {
			m.Sched = append(m.Sched, [2]int{r.Intn(nreq), r.Intn(9)})
		}
		for j, q := range m.Reqs {
			var idx []int
			for k, e := range m.Sched {
				if e[0] == j {
					idx = append(idx, k)
				}
			}
			c09AuthFirst(q, idx, func(k int) int { return m.Sched[idx[k]][1] }, func(k, o int) { m.Sched[idx[k]][1] = o })
		}
		return m
	}
	in := c09In{Kind: "seq", Anon: r.Intn(2) == 0, Authz: c09Pick(r, "authz"), Target: c09Pick(r, "target"), CT: c09Pick(r, "ct"),
		Body: c09Pick(r, "body"), Accept: c09Pick(r, "accept"), Key: c09Pick(r, "key"), Esc: r.Intn(3) == 0, BadN: r.Intn(4) == 0}
	c09GenForm(r, &in)
	n := 1 + r.Intn(14)
	if r.Intn(3) != 0 {
		in.Ops = append(in.Ops, 0) // most histories start by matching the route, as the pipeline does
	}
	for len(in.Ops) < n {
		in.Ops = append(in.Ops, r.Intn(9))
	}
	c09AuthFirstSeq(&in)
	return in
}

// c09GenForm: where the bearer token of a request to the form operation travels; two thirds of these requests are
// well-formed (a form content type, the required field, a good token), the rest keeps whatever was drawn.
func c09GenForm(r *rand.Rand, q *c09In) {
	if q.Target != "form" {
		return
	}
	q.TokIn = []string{"header", "query", "form", "form"}[r.Intn(4)]
	if r.Intn(3) != 0 {
		q.CT = []string{"json", "jsoncs"}[r.Intn(2)]
		q.Body, q.Key = "valid", "good"
	}
}

// c09TokenInBody: the request's bearer token travels inside a form body the authenticator will look into.
func c09TokenInBody(q c09In) bool {
	return q.Target == "form" && q.TokIn == "form" && (q.CT == "json" || q.CT == "jsoncs") && q.Key != "absent"
}

// c09AuthFirst puts a request's history into the order the served pipeline uses when its token travels in the form body:
// a BindAndValidate issued on a routed request before any Authorize becomes an Authorize. (OPEN OBSERVATION, unchanged
// library, not generated for that reason: validateRequest parses the form on a private copy of the request and the
// request BindAndValidate returns has a drained body and no parsed form, so an Authorize issued AFTER it does not find
// access_token and refuses the request: RouteInfo, BindAndValidate, Authorize = 401 where RouteInfo, Authorize = principal.
// The pipeline itself never binds before it authorizes. See notes/C09.md.)
func c09AuthFirst(q c09In, ops []int, at func(k int) int, set func(k, o int)) {
	if !c09TokenInBody(q) {
		return
	}
	routed, authed := false, false
	for k := range ops {
		switch o := at(k); {
		case o == 0:
			routed = true
		case o == 4 && routed:
			authed = true
		case o == 5 && routed && !authed:
			set(k, 4)
			authed = true
		}
	}
}

func c09AuthFirstSeq(in *c09In) bool {
	changed := false
	c09AuthFirst(*in, in.Ops, func(k int) int { return in.Ops[k] }, func(k, o int) { in.Ops[k] = o; changed = true })
	return changed
}

func (c09) Enumerate(tier string) []any {
	var out []any
	cfgs := []c09In{
		{Kind: "seq", Authz: "none", Target: "items", CT: "json", Body: "valid", Accept: "json", Key: "good"},
		{Kind: "seq", Anon: true, Authz: "accept", Target: "items", CT: "json", Body: "valid", Accept: "absent", Key: "absent"},
		{Kind: "seq", Authz: "deny", Target: "items", CT: "text", Body: "invalid", Accept: "png", Key: "good"},
		{Kind: "seq", Authz: "none", Target: "open", CT: "absent", Body: "none", Accept: "any", Key: "absent"},
		{Kind: "seq", Authz: "accept", Target: "form", TokIn: "form", CT: "json", Body: "valid", Accept: "json", Key: "good"},
	}
	for _, c := range cfgs {
		for a := 0; a < 7; a++ {
			for b := 0; b < 7; b++ {
				for d := 0; d < 7; d++ {
					x := c
					x.Ops = []int{0, a, b, d}
					if c09AuthFirstSeq(&x) {
						continue // the reordered history is enumerated anyway
					}
					out = append(out, x)
				}
			}
		}
	}
	return out
}
