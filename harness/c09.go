//go:build verif && (c09 || allprops)

package main

import (
	"bytes"
	"encoding/json"
	"fmt"
	"io"
	"math/rand"
	"net/http"
	"net/http/httptest"
	goruntime "runtime"
	"strings"
	"sync"
	"sync/atomic"

	"github.com/go-openapi/errors"
	"github.com/go-openapi/loads"
	"github.com/go-openapi/runtime"
	"github.com/go-openapi/runtime/middleware"
	"github.com/go-openapi/runtime/middleware/untyped"
	"github.com/go-openapi/runtime/security"
)

// C09 — per-request state: stage results are reused; concurrent requests do not interfere.
//   seq   one request, a history of accessor calls threading the returned request value; observables:
//         per call (result code, same request value returned?), final effect counters
//   conc  N concurrent requests through the full handler, each carrying its own id/body/credential;
//         observable: every handler saw exactly its own request's values (race detector on)

type c09In struct {
	Kind    string `json:"kind"`
	Anon    bool   `json:"anon"`            // the secured operation also lists the empty (anonymous) alternative
	Authz   string `json:"authz"`           // none | accept | deny
	Target  string `json:"target"`          // items | open | missing
	CT      string `json:"ct"`              // json | jsoncs | text | malformed | absent
	Body    string `json:"body"`            // valid | invalid | none
	Accept  string `json:"accept"`          // json | png | absent | any
	Key     string `json:"key"`             // good | bad | absent
	Ops     []int  `json:"ops,omitempty"`   // 0 RouteInfo 1 ContentType 2 ResponseFormat(route offers) 3 ResponseFormat(other offers) 4 Authorize 5 BindAndValidate 6 ResetAuth
	N       int    `json:"n,omitempty"`     // conc: number of goroutines
	Procs   int    `json:"procs,omitempty"` // conc: GOMAXPROCS is not changed; kept for the record
	ConcSeed int64 `json:"conc_seed,omitempty"`
}

type c09Step struct {
	Res  string `json:"res"` // Gallina term of type res
	Same bool   `json:"same"`
}

type c09Obs struct {
	Panicked bool      `json:"panicked,omitempty"`
	Panic    string    `json:"panic,omitempty"`
	Static   string    `json:"static,omitempty"` // Gallina term of type static (oracles recorded from the real functions)
	Steps    []c09Step `json:"steps,omitempty"`
	Lookups  int       `json:"lookups"`
	Authn    int       `json:"authn"`
	Authz    int       `json:"authz"`
	Binds    int       `json:"binds"`
	ConcOK   bool      `json:"conc_ok,omitempty"`
	ConcBad  []string  `json:"conc_bad,omitempty"`
}

type c09 struct{}

func init() { register(c09{}) }

func (c09) ID() string        { return "C09" }
func (c09) CoqModule() string { return "Check_C09" }
func (c09) Rule() string {
	return "seq: request configurations (target items/open/missing x content type x body x Accept x credential x anonymous alternative x authorizer) crossed with random histories of 1-14 accessor calls, plus all histories of length <= 3 over the 7 calls for 4 fixed configurations (enum); " +
		"non-trivial: a history in which some call is repeated after it first succeeded. conc: N in 2..64 concurrent mixed requests through the full handler (race detector on); non-trivial always."
}

func (c09) Decode(raw json.RawMessage) (any, error) {
	var in c09In
	err := json.Unmarshal(raw, &in)
	return in, err
}

// ---------- the API under test ----------

type c09Counters struct{ lookups, authn, authz, binds int64 }

var c09Cnt c09Counters

type c09Router struct{ inner middleware.Router }

func (r c09Router) Lookup(method, path string) (*middleware.MatchedRoute, bool) {
	atomic.AddInt64(&c09Cnt.lookups, 1)
	return r.inner.Lookup(method, path)
}
func (r c09Router) OtherMethods(method, path string) []string { return r.inner.OtherMethods(method, path) }

type c09API struct {
	ctx     *middleware.Context
	handler http.Handler
}

var c09APIs = map[string]*c09API{}
var c09Mu sync.Mutex

func c09Spec(anon bool) string {
	sec := `[{"key":[]}]`
	if anon {
		sec = `[{"key":[]},{}]`
	}
	return `{"swagger":"2.0","info":{"title":"t","version":"1"},"consumes":["application/json"],"produces":["application/json"],
"securityDefinitions":{"key":{"type":"apiKey","in":"header","name":"X-Key"}},
"paths":{"/items/{id}":{"post":{"security":` + sec + `,"parameters":[{"name":"id","in":"path","type":"string","required":true},
{"name":"body","in":"body","required":true,"schema":{"type":"object"}}],"responses":{"200":{"description":"ok"}}}},
"/open":{"get":{"responses":{"200":{"description":"ok"}}}}}}`
}

func c09Get(anon bool, authz bool) *c09API {
	c09Mu.Lock()
	defer c09Mu.Unlock()
	key := fmt.Sprintf("%v/%v", anon, authz)
	if a, ok := c09APIs[key]; ok {
		return a
	}
	spec, err := loads.Analyzed(json.RawMessage(c09Spec(anon)), "")
	if err != nil {
		panic(err)
	}
	api := untyped.NewAPI(spec)
	api.RegisterConsumer("application/json", runtime.ConsumerFunc(func(r io.Reader, data interface{}) error {
		atomic.AddInt64(&c09Cnt.binds, 1)
		return runtime.JSONConsumer().Consume(r, data)
	}))
	keyAuth := security.APIKeyAuth("X-Key", "header", func(tok string) (interface{}, error) {
		if strings.HasPrefix(tok, "good") {
			return "user:" + tok, nil
		}
		return nil, errors.Unauthenticated("key")
	})
	api.RegisterAuth("key", runtime.AuthenticatorFunc(func(params interface{}) (bool, interface{}, error) {
		atomic.AddInt64(&c09Cnt.authn, 1) // every consultation of the scheme's authenticator
		c09Rendezvous()
		return keyAuth.Authenticate(params)
	}))
	if authz {
		api.RegisterAuthorizer(runtime.AuthorizerFunc(func(r *http.Request, _ interface{}) error {
			atomic.AddInt64(&c09Cnt.authz, 1)
			if r.Header.Get("X-Authz") == "deny" {
				return fmt.Errorf("denied")
			}
			return nil
		}))
	}
	api.RegisterOperation("post", "/items/{id}", runtime.OperationHandlerFunc(func(params interface{}) (interface{}, error) {
		m := params.(map[string]interface{})
		return map[string]interface{}{"id": m["id"], "body": m["body"]}, nil
	}))
	api.RegisterOperation("get", "/open", runtime.OperationHandlerFunc(func(params interface{}) (interface{}, error) {
		return map[string]interface{}{"open": true}, nil
	}))
	ctx := middleware.NewContext(spec, api, nil)
	ctx.VerifWrapRouter(func(r middleware.Router) middleware.Router { return c09Router{r} })
	a := &c09API{ctx: ctx}
	a.handler = ctx.APIHandler(nil)
	c09APIs[key] = a
	return a
}

// c09Rendezvous widens the overlap of concurrent requests between route matching and binding: in the
// concurrent cases a request entering the authenticator waits (bounded) until another one is inside too.
var c09ConcMode, c09Inside int64

func c09Rendezvous() {
	if atomic.LoadInt64(&c09ConcMode) == 0 {
		return
	}
	atomic.AddInt64(&c09Inside, 1)
	for i := 0; i < 2000 && atomic.LoadInt64(&c09Inside) < 2; i++ {
		goruntime.Gosched()
	}
	goruntime.Gosched()
	atomic.AddInt64(&c09Inside, -1)
}

func c09Request(in c09In, rid string) *http.Request {
	method, path := "POST", "/items/"+rid
	switch in.Target {
	case "open":
		method, path = "GET", "/open"
	case "missing":
		method, path = "GET", "/nothing/here"
	}
	var body io.Reader
	switch in.Body {
	case "valid":
		body = bytes.NewReader([]byte(`{"rid":"` + rid + `"}`))
	case "invalid":
		body = bytes.NewReader([]byte(`{"rid":`))
	}
	req := httptest.NewRequest(method, path, body)
	switch in.CT {
	case "json":
		req.Header.Set("Content-Type", "application/json")
	case "jsoncs":
		req.Header.Set("Content-Type", "Application/JSON; charset=utf-8")
	case "text":
		req.Header.Set("Content-Type", "text/plain")
	case "malformed":
		req.Header.Set("Content-Type", "application/json; charset")
	}
	switch in.Accept {
	case "json":
		req.Header.Set("Accept", "application/json")
	case "png":
		req.Header.Set("Accept", "image/png")
	case "any":
		req.Header.Set("Accept", "*/*;q=0.5, text/plain")
	}
	switch in.Key {
	case "good":
		req.Header.Set("X-Key", "good-"+rid)
	case "bad":
		req.Header.Set("X-Key", "bad-"+rid)
	}
	if in.Authz == "deny" {
		req.Header.Set("X-Authz", "deny")
	}
	return req
}

var c09Other = []string{"image/png", "text/plain"}

func c09MT(s string) int {
	switch s {
	case "application/json":
		return 1
	case "text/plain":
		return 2
	case "application/octet-stream":
		return 3
	case "image/png":
		return 4
	case "":
		return 0
	}
	return 9
}

func c09OptNat(ok bool, v int) string {
	if !ok {
		return "None"
	}
	return fmt.Sprintf("(Some %d)", v)
}

// c09Static records the request's fixed facts from the real functions (oracles of the model).
func c09Static(in c09In, a *c09API) string {
	probe := c09Request(in, "r1")
	route := 0
	switch in.Target {
	case "items":
		route = 1
	case "open":
		route = 2
	}
	hasBody := runtime.HasBody(c09Request(in, "r1"))
	mt, _, cterr := runtime.ContentType(probe.Header)
	routeOffers := []string{"application/json"}
	neg0 := middleware.NegotiateContentType(probe, routeOffers, "")
	neg1 := middleware.NegotiateContentType(probe, c09Other, "")
	auth := "AuthRefused"
	switch {
	case in.Key == "good":
		auth = "AuthPrincipal"
	case in.Key == "absent" && in.Anon:
		auth = "AuthAnon"
	}
	authorizer := "None"
	if in.Authz != "none" {
		authorizer = fmt.Sprintf("(Some %s)", coqBool(in.Authz != "deny"))
	}
	bindOK := in.Target != "items" || !hasBody || in.Body == "valid" // a missing required body is not refused by the binder
	return fmt.Sprintf("(mkstatic %s %s %s %s %s %s (fun k => match k with 0 => %s | _ => %s end) 0 true %s %s %s)",
		c09OptNat(route != 0, route), coqBool(in.Target == "items"), coqBool(hasBody),
		c09OptNat(cterr == nil, c09MT(mt)), coqBool(cterr == nil && mt == "application/json"), coqBool(cterr == nil && mt == "application/json"),
		c09OptNat(neg0 != "", c09MT(neg0)), c09OptNat(neg1 != "", c09MT(neg1)),
		auth, authorizer, coqBool(bindOK))
}

func c09Codes(err error) string {
	if err == nil {
		return "[]"
	}
	var codes []string
	var walk func(e error)
	walk = func(e error) {
		if ce, ok := e.(*errors.CompositeError); ok {
			for _, x := range ce.Errors {
				walk(x)
			}
			return
		}
		c := 500
		if ee, ok := e.(errors.Error); ok {
			c = int(ee.Code())
		}
		if c >= 600 { // the validation library's own codes (parse/required/...): one class, binding failed
			c = 422
		}
		s := fmt.Sprint(c)
		if len(codes) == 0 || codes[len(codes)-1] != s {
			codes = append(codes, s)
		}
	}
	walk(err)
	return "[" + strings.Join(codes, "; ") + "]"
}

func (c09) Run(inAny any) any {
	in := inAny.(c09In)
	var obs c09Obs
	a := c09Get(in.Anon, in.Authz != "none")
	if in.Kind == "conc" {
		obs.Panicked, obs.Panic = recoverTo(func() { c09RunConc(in, a, &obs) })
		return obs
	}
	obs.Panicked, obs.Panic = recoverTo(func() {
		obs.Static = c09Static(in, a)
		c09Cnt = c09Counters{}
		req := c09Request(in, "r1")
		ctx := a.ctx
		for _, o := range in.Ops {
			var st c09Step
			keep := func(r *http.Request) {
				st.Same = r == nil || r == req
				if r != nil {
					req = r
				}
			}
			switch o {
			case 0:
				mr, r, ok := ctx.RouteInfo(req)
				id := 0
				if ok {
					id = 2
					if strings.HasPrefix(mr.PathPattern, "/items") {
						id = 1
					}
				}
				st.Res = "RRoute " + c09OptNat(ok, id)
				keep(r)
			case 1:
				mt, _, r, err := ctx.ContentType(req)
				st.Res = "RCt " + c09OptNat(err == nil, c09MT(mt))
				keep(r)
			case 2, 3:
				offers := []string{"application/json"}
				if mr := middleware.MatchedRouteFrom(req); mr != nil && o == 2 {
					offers = mr.Produces
				}
				if o == 3 {
					offers = c09Other
				}
				f, r := ctx.ResponseFormat(req, offers)
				st.Res = "RFmt " + c09OptNat(f != "", c09MT(f))
				keep(r)
			case 4:
				mr := middleware.MatchedRouteFrom(req)
				if mr == nil {
					st.Res, st.Same = "RSkipped", true
					break
				}
				p, r, err := ctx.Authorize(req, mr)
				switch {
				case err != nil:
					code := 3
					if ee, ok := err.(errors.Error); ok && ee.Code() == 403 {
						code = 4
					}
					st.Res = fmt.Sprintf("RAuth %d", code)
				case r == nil:
					st.Res = "RAuth 0"
				case p != nil:
					st.Res = "RAuth 1"
				default:
					st.Res = "RAuth 2"
				}
				keep(r)
			case 5:
				mr := middleware.MatchedRouteFrom(req)
				if mr == nil {
					st.Res, st.Same = "RSkipped", true
					break
				}
				_, r, err := ctx.BindAndValidate(req, mr)
				st.Res = "RBind " + c09Codes(err)
				keep(r)
			case 6:
				r := ctx.ResetAuth(req)
				st.Res = "RReset"
				keep(r)
			}
			obs.Steps = append(obs.Steps, st)
		}
		obs.Lookups, obs.Authn, obs.Authz, obs.Binds = int(c09Cnt.lookups), int(c09Cnt.authn), int(c09Cnt.authz), int(c09Cnt.binds)
	})
	return obs
}

func c09RunConc(in c09In, a *c09API, obs *c09Obs) {
	r := rand.New(rand.NewSource(in.ConcSeed))
	type job struct {
		in  c09In
		rid string
	}
	var jobs []job
	for i := 0; i < in.N; i++ {
		j := in
		j.Target = []string{"items", "items", "open", "missing"}[r.Intn(4)]
		j.Key = []string{"good", "good", "bad", "absent"}[r.Intn(4)]
		j.Body = []string{"valid", "valid", "invalid", "none"}[r.Intn(4)]
		j.CT = []string{"json", "json", "jsoncs", "text", "absent"}[r.Intn(5)]
		j.Accept = []string{"json", "absent", "png", "any"}[r.Intn(4)]
		jobs = append(jobs, job{j, fmt.Sprintf("r%d", i)})
	}
	// reference: every request served alone, one after the other
	type ref struct {
		code int
		body string
	}
	refs := make([]ref, len(jobs))
	for i, jb := range jobs {
		rec := httptest.NewRecorder()
		a.handler.ServeHTTP(rec, c09Request(jb.in, jb.rid))
		refs[i] = ref{rec.Code, rec.Body.String()}
	}
	var wg sync.WaitGroup
	var mu sync.Mutex
	bad := []string{}
	start := make(chan struct{})
	atomic.StoreInt64(&c09ConcMode, 1)
	defer atomic.StoreInt64(&c09ConcMode, 0)
	for i, jb := range jobs {
		wg.Add(1)
		go func(i int, jb job) {
			defer wg.Done()
			<-start
			for rep := 0; rep < 12; rep++ {
				req := c09Request(jb.in, jb.rid)
				rec := httptest.NewRecorder()
				a.handler.ServeHTTP(rec, req)
				ok := rec.Code == refs[i].code && rec.Body.String() == refs[i].body
				if ok && rec.Code == 200 && jb.in.Target == "items" && jb.in.Body == "valid" {
					// and the values are this request's own
					var m map[string]interface{}
					if json.Unmarshal(rec.Body.Bytes(), &m) != nil {
						ok = false
					} else {
						b, _ := m["body"].(map[string]interface{})
						ok = m["id"] == jb.rid && b != nil && b["rid"] == jb.rid
					}
				}
				if !ok {
					mu.Lock()
					bad = append(bad, fmt.Sprintf("%s %+v: status %d body %q; alone: status %d body %q", jb.rid, jb.in, rec.Code, rec.Body.String(), refs[i].code, refs[i].body))
					mu.Unlock()
				}
			}
		}(i, jb)
	}
	close(start)
	wg.Wait()
	obs.ConcOK = len(bad) == 0
	if len(bad) > 5 {
		bad = bad[:5]
	}
	obs.ConcBad = bad
}

func (c09) Coq(inAny any, obsAny any) string {
	in, obs := inAny.(c09In), obsAny.(c09Obs)
	if in.Kind == "conc" {
		return fmt.Sprintf("CConc %d %s %s", in.N, coqBool(obs.Panicked), coqBool(obs.ConcOK))
	}
	ops := coqList(in.Ops, func(o int) string {
		return []string{"RouteInfo", "ContentType", "(ResponseFormat 0)", "(ResponseFormat 1)", "Authorize", "BindAndValidate", "ResetAuth"}[o]
	})
	steps := coqList(obs.Steps, func(s c09Step) string { return "(" + s.Res + ", " + coqBool(s.Same) + ")" })
	static := obs.Static
	if static == "" {
		static = "(mkstatic None false false None false false (fun _ => None) 0 true AuthRefused None false)"
	}
	return fmt.Sprintf("CSeq %s %s %s %s %d %d %d %d", static, ops, coqBool(obs.Panicked), steps, obs.Lookups, obs.Authn, obs.Authz, obs.Binds)
}

func (c09) Classify(inAny any, obsAny any) []string { return nil }

func (c09) Category(inAny any, obsAny any) (string, bool) {
	in := inAny.(c09In)
	if in.Kind == "conc" {
		return fmt.Sprintf("conc/n<=%d", func() int {
			for _, b := range []int{4, 16, 64} {
				if in.N <= b {
					return b
				}
			}
			return 999
		}()), true
	}
	seen := map[int]bool{}
	rep := false
	for _, o := range in.Ops {
		if seen[o] {
			rep = true
		}
		seen[o] = true
	}
	return "seq/" + in.Target, rep
}

var c09Vals = map[string][]string{
	"target": {"items", "items", "items", "open", "missing"},
	"ct":     {"json", "json", "jsoncs", "text", "malformed", "absent"},
	"body":   {"valid", "valid", "invalid", "none"},
	"accept": {"json", "absent", "png", "any"},
	"key":    {"good", "good", "bad", "absent"},
	"authz":  {"none", "accept", "deny"},
}

func c09Pick(r *rand.Rand, k string) string { v := c09Vals[k]; return v[r.Intn(len(v))] }

func (c09) Gen(r *rand.Rand, tier string, i int) any {
	if i%40 == 39 {
		n := []int{2, 3, 4, 8, 16, 32, 64}[r.Intn(7)]
		return c09In{Kind: "conc", Anon: r.Intn(2) == 0, Authz: []string{"none", "accept"}[r.Intn(2)], N: n, ConcSeed: r.Int63()}
	}
	in := c09In{Kind: "seq", Anon: r.Intn(2) == 0, Authz: c09Pick(r, "authz"), Target: c09Pick(r, "target"), CT: c09Pick(r, "ct"),
		Body: c09Pick(r, "body"), Accept: c09Pick(r, "accept"), Key: c09Pick(r, "key")}
	n := 1 + r.Intn(14)
	if r.Intn(3) != 0 {
		in.Ops = append(in.Ops, 0) // most histories start by matching the route, as the pipeline does
	}
	for len(in.Ops) < n {
		in.Ops = append(in.Ops, r.Intn(7))
	}
	return in
}

func (c09) Enumerate(tier string) []any {
	var out []any
	cfgs := []c09In{
		{Kind: "seq", Authz: "none", Target: "items", CT: "json", Body: "valid", Accept: "json", Key: "good"},
		{Kind: "seq", Anon: true, Authz: "accept", Target: "items", CT: "json", Body: "valid", Accept: "absent", Key: "absent"},
		{Kind: "seq", Authz: "deny", Target: "items", CT: "text", Body: "invalid", Accept: "png", Key: "good"},
		{Kind: "seq", Authz: "none", Target: "open", CT: "absent", Body: "none", Accept: "any", Key: "absent"},
	}
	for _, c := range cfgs {
		for a := 0; a < 7; a++ {
			for b := 0; b < 7; b++ {
				for d := 0; d < 7; d++ {
					x := c
					x.Ops = []int{0, a, b, d}
					out = append(out, x)
				}
			}
		}
	}
	return out
}
